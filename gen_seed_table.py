#!/usr/bin/env python3
"""Prints the DESIGN.md table rows for the seeded changes of one round from /verif/seeded/*/meta.json
(+ the hand-written notes in /verif/seeded/NOTES.json: seed name -> note)."""
import json, glob, os, sys
rnd = int(sys.argv[1]) if len(sys.argv) > 1 else 2
notes = json.load(open('/verif/seeded/NOTES.json')) if os.path.exists('/verif/seeded/NOTES.json') else {}
rows = []
for f in sorted(glob.glob('/verif/seeded/C*/meta.json')):
    m = json.load(open(f))
    if m.get('seeding_round', 1) != rnd:
        continue
    name = os.path.basename(os.path.dirname(f))
    v = m.get('verified', {})
    out = v.get('outcome', '?')
    fp = v.get('first_pass_outcome', '')
    note = notes.get(name, '')
    if fp and fp != out and not note:
        note = 'first pass: ' + fp
    rows.append(f"| {name} | {m.get('title','').strip()} | {fp or out} | {out} | {note} |")
print("| seed | change | first pass | now | note |\n|---|---|---|---|---|")
print("\n".join(rows))
