#!/bin/bash
# seedtest.sh <seed-dir> [tier] [extra check ids...]
# Verifies a seeded change (compiles, baseline tests pass, demo fails with / passes without the change)
# in a scratch worktree, then applies it to /repo, runs the check(s) of its property, and undoes it.
set -u
export GOFLAGS=-mod=mod GOPROXY=off GOSUMDB=off GOTOOLCHAIN=local
D="$(cd "$1" && pwd)"; TIER="${2:-quick}"; shift; shift || true
ID=$(python3 -c "import json,sys;print(json.load(open('$D/meta.json'))['property'])")
DEMO_DIR=$(python3 -c "import json,sys;print(json.load(open('$D/meta.json')).get('demo_dir',''))")
DEMO_CMD=$(python3 -c "import json,sys;print(json.load(open('$D/meta.json')).get('demo_cmd',''))")
CHECKS="$ID $*"
OUT="$D/verify.log"; : > "$OUT"
say() { echo "$@" | tee -a "$OUT"; }
WT=$(mktemp -d /tmp/seedverify-XXXXXX); rmdir "$WT"
git -C /repo worktree add -q --detach "$WT" HEAD || { say "RESULT worktree-failed"; exit 2; }
cleanup() { git -C /repo worktree remove --force "$WT" 2>/dev/null; rm -rf "$WT"; }
trap cleanup EXIT
cd "$WT"
if ! git apply "$D/patch.diff" 2>>"$OUT"; then say "RESULT patch-does-not-apply"; exit 2; fi
if ! go build ./... >>"$OUT" 2>&1; then say "RESULT does-not-compile"; exit 2; fi
# existing tests, unedited
go test -mod=mod -json -vet=off -count=1 -timeout 25m ./... > "$WT/.tests.json" 2>/dev/null
python3 - "$WT/.tests.json" >>"$OUT" <<'PY'
import json, sys
passed=set()
for line in open(sys.argv[1]):
    try: e=json.loads(line)
    except Exception: continue
    if e.get('Action')=='pass' and e.get('Test'): passed.add(e['Package']+'::'+e['Test'])
base=json.load(open('/root/.vp/BASELINE.json'))['stable_pass']
missing=[t for t in base if t not in passed]
print("BASELINE missing:", missing)
sys.exit(1 if missing else 0)
PY
if [ $? -ne 0 ]; then say "RESULT existing-tests-fail (see $OUT)"; exit 2; fi
say "existing tests: pass"
if [ -n "$DEMO_DIR" ] && [ -f "$D/demo_test.go" ]; then
  cp "$D/demo_test.go" "$WT/$DEMO_DIR/zz_seeded_demo_test.go"
  ( cd "$WT" && eval "$DEMO_CMD" ) >>"$OUT" 2>&1; WITH=$?
  git -C "$WT" checkout -- . 2>/dev/null
  ( cd "$WT" && eval "$DEMO_CMD" ) >>"$OUT" 2>&1; WITHOUT=$?
  say "demo: with change exit=$WITH, without change exit=$WITHOUT"
  if [ $WITH -eq 0 ] || [ $WITHOUT -ne 0 ]; then say "RESULT demo-does-not-discriminate"; exit 2; fi
else
  say "demo: no go test demo (manual)"
fi
cd /verif
# now the checks against /repo itself
if ! git -C /repo apply "$D/patch.diff"; then say "RESULT patch-does-not-apply-to-repo"; exit 2; fi
CAUGHT=""
for C in $CHECKS; do
  VERIF_EVIDENCE_DIR=/var/tmp/seedtest-evidence ./check "$C" "$TIER" > "$D/check-$C-$TIER.log" 2>&1; RC=$?
  V=$(grep -c '^VIOLATION' "$D/check-$C-$TIER.log")
  say "check $C $TIER: exit=$RC violations=$V $(grep '^  key=' "$D/check-$C-$TIER.log" | head -3 | tr '\n' ' ')"
  [ $RC -eq 1 ] && [ "$V" -gt 0 ] && CAUGHT="$CAUGHT $C"
done
git -C /repo checkout -- .
git -C /repo status --short | grep -v '^??' && say "WARNING /repo not clean"
if [ -n "$CAUGHT" ]; then say "RESULT caught-by:$CAUGHT"; else say "RESULT MISSED"; fi
