package refmodel

import (
	"sort"
	"strings"
)

// Reference model (g): prefix resolution over a known population of ids,
// written from the statement of C13 only:
//
//	exactly one id has the prefix  -> that id
//	several ids have the prefix    -> multiple match, listing exactly those ids
//	no id has the prefix           -> not found
//
// The model keeps the population sorted and answers with a binary search, so
// that it shares neither code nor algorithm with the linear excerpt scan of
// cache.SubCache.resolveMatcher.

// PrefixKind is the expected outcome class of a prefix lookup.
type PrefixKind int

const (
	PrefixNone PrefixKind = iota
	PrefixUnique
	PrefixMultiple
)

func (k PrefixKind) String() string {
	switch k {
	case PrefixUnique:
		return "unique"
	case PrefixMultiple:
		return "multiple"
	}
	return "none"
}

// PrefixPopulation is a set of ids (any strings) that can be addressed by prefix.
type PrefixPopulation struct {
	sorted []string
}

// NewPrefixPopulation builds the model; duplicates are collapsed.
func NewPrefixPopulation(ids []string) *PrefixPopulation {
	s := append([]string(nil), ids...)
	sort.Strings(s)
	out := s[:0]
	for i, v := range s {
		if i == 0 || v != s[i-1] {
			out = append(out, v)
		}
	}
	return &PrefixPopulation{sorted: out}
}

// Len is the number of distinct ids.
func (p *PrefixPopulation) Len() int { return len(p.sorted) }

// Ids returns the sorted population.
func (p *PrefixPopulation) Ids() []string { return p.sorted }

// Resolve returns the outcome class and the sorted list of every id that has the prefix.
func (p *PrefixPopulation) Resolve(prefix string) (PrefixKind, []string) {
	// first id >= prefix; every id having the prefix follows contiguously
	lo := sort.SearchStrings(p.sorted, prefix)
	hi := lo
	for hi < len(p.sorted) && strings.HasPrefix(p.sorted[hi], prefix) {
		hi++
	}
	m := p.sorted[lo:hi]
	switch len(m) {
	case 0:
		return PrefixNone, nil
	case 1:
		return PrefixUnique, m
	}
	return PrefixMultiple, m
}

// SharedPrefixLen is the length of the longest common prefix of a and b.
func SharedPrefixLen(a, b string) int {
	n := 0
	for n < len(a) && n < len(b) && a[n] == b[n] {
		n++
	}
	return n
}

// MaxSharedPrefix returns, for id, the longest prefix length it shares with any
// other member of the population (0 when alone).
func (p *PrefixPopulation) MaxSharedPrefix(id string) int {
	i := sort.SearchStrings(p.sorted, id)
	best := 0
	// the longest common prefix with any other element is reached at a neighbour in sorted order
	for _, j := range []int{i - 1, i + 1} {
		if j >= 0 && j < len(p.sorted) && p.sorted[j] != id {
			if n := SharedPrefixLen(id, p.sorted[j]); n > best {
				best = n
			}
		}
	}
	if i < len(p.sorted) && p.sorted[i] != id {
		if n := SharedPrefixLen(id, p.sorted[i]); n > best {
			best = n
		}
	}
	return best
}

// SplitOK checks the statement about combined ids for one prefix length:
// the two parts returned for combined[:L] must be a prefix of the primary id,
// a prefix of the secondary id, and their lengths must sum to L.
// It returns "" when consistent, else what is wrong.
func SplitOK(primary, secondary string, L int, gotPrimary, gotSecondary string) string {
	if !strings.HasPrefix(primary, gotPrimary) {
		return "primary part is not a prefix of the primary id"
	}
	if !strings.HasPrefix(secondary, gotSecondary) {
		return "secondary part is not a prefix of the secondary id"
	}
	if len(gotPrimary)+len(gotSecondary) != L {
		return "lengths of the two parts do not sum to the prefix length"
	}
	return ""
}
