package refmodel

import (
	"bytes"
	"crypto"
	"encoding/json"
	"fmt"
	"strings"
	"time"

	"github.com/ProtonMail/go-crypto/openpgp"
	"github.com/ProtonMail/go-crypto/openpgp/armor"
	"github.com/ProtonMail/go-crypto/openpgp/packet"
)

// Reference model (f): which signing keys are in force at a logical time, and
// whether a stored commit must be accepted.
//
// Written from the statement of C08: "keys in force at logical time T = key set of
// the last identity version whose recorded <clock> time <= T (none before the first
// version); accept <=> set empty OR the commit carries a signature that verifies
// under a member over the exact commit content".
//
// Inputs are raw bytes obtained without git-bug's decoders: the version blobs of the
// identity chain and the commit object as stock git prints it. The only borrowed
// primitive is OpenPGP signature verification itself.

// KeyVersion is what one identity version says about keys.
type KeyVersion struct {
	Time    uint64
	HasTime bool
	Keys    []string // armored public keys, as stored
}

// DecodeKeyVersion reads the members of a version blob the model needs.
func DecodeKeyVersion(raw []byte, clock string) (KeyVersion, error) {
	var aux struct {
		Times map[string]uint64 `json:"times"`
		Keys  []string          `json:"pub_keys"`
	}
	if err := json.Unmarshal(raw, &aux); err != nil {
		return KeyVersion{}, err
	}
	t, ok := aux.Times[clock]
	return KeyVersion{Time: t, HasTime: ok, Keys: aux.Keys}, nil
}

// KeysInForce returns the key set in force at time t. specified=false when a version
// lacks a recorded time (the statement does not say what applies then).
func KeysInForce(chain []KeyVersion, t uint64) (keys []string, version int, specified bool) {
	version = -1
	// A version that records no time for this clock was made when the clock did not exist yet in its
	// repository, i.e. before anything of that namespace: it takes the time of the previous version, the
	// beginning of time for leading versions (so a key it introduces is in force from there on).
	var last uint64
	for i, v := range chain {
		tm := v.Time
		if !v.HasTime {
			tm = last
		}
		last = tm
		if tm <= t {
			keys, version = v.Keys, i
		}
	}
	return keys, version, true
}

// SplitCommit separates a raw commit object into the signed payload (the object
// without its gpgsig header) and the armored signature.
func SplitCommit(raw []byte) (payload []byte, sig string, signed bool) {
	text := string(raw)
	end := strings.Index(text, "\n\n")
	header, rest := text, ""
	if end >= 0 {
		header, rest = text[:end], text[end:]
	}
	var keep, sigLines []string
	inSig := false
	for _, line := range strings.Split(header, "\n") {
		switch {
		case strings.HasPrefix(line, "gpgsig "):
			inSig, signed = true, true
			sigLines = append(sigLines, strings.TrimPrefix(line, "gpgsig "))
		case inSig && strings.HasPrefix(line, " "):
			sigLines = append(sigLines, line[1:])
		default:
			inSig = false
			keep = append(keep, line)
		}
	}
	return []byte(strings.Join(keep, "\n") + rest), strings.Join(sigLines, "\n") + "\n", signed
}

// publicEntity wraps an armored public key so that OpenPGP accepts to verify with it:
// a user id with an (unsigned) self-signature that only carries the "may sign" flag.
func publicEntity(armored string) (*openpgp.Entity, error) {
	block, err := armor.Decode(strings.NewReader(armored))
	if err != nil {
		return nil, err
	}
	p, err := packet.Read(block.Body)
	if err != nil {
		return nil, err
	}
	pub, ok := p.(*packet.PublicKey)
	if !ok {
		return nil, fmt.Errorf("not a public key packet")
	}
	pub.CreationTime = time.Time{}
	uid := packet.NewUserId("name", "", "")
	primary := true
	return &openpgp.Entity{
		PrimaryKey: pub,
		Identities: map[string]*openpgp.Identity{
			uid.Id: {
				Name:   uid.Id,
				UserId: uid,
				SelfSignature: &packet.Signature{
					SigType: packet.SigTypePositiveCert, PubKeyAlgo: pub.PubKeyAlgo, Hash: crypto.SHA256,
					CreationTime: time.Unix(1, 0), IssuerKeyId: &pub.KeyId, IsPrimaryId: &primary,
					FlagsValid: true, FlagSign: true, FlagCertify: true,
				},
			},
		},
	}, nil
}

// VerifiesUnder returns the index of the first key under which sig verifies over
// payload, -1 if none does.
func VerifiesUnder(payload []byte, sig string, keys []string) (int, string) {
	last := "no key"
	for i, k := range keys {
		e, err := publicEntity(k)
		if err != nil {
			last = "key undecodable: " + err.Error()
			continue
		}
		_, err = openpgp.CheckArmoredDetachedSignature(openpgp.EntityList{e}, bytes.NewReader(payload), strings.NewReader(sig), nil)
		if err == nil {
			return i, ""
		}
		last = err.Error()
	}
	return -1, last
}

// CommitVerdict is the model's expectation for one commit.
type CommitVerdict struct {
	Specified  bool
	Accept     bool
	InForce    int    // number of keys in force
	Version    int    // index of the version whose key set applies, -1 = before the first
	Signed     bool   // the commit carries a signature at all
	VerifiedBy int    // index (in the key set in force) of the verifying key, -1
	Why        string // refusal reason
}

// JudgeCommit applies the statement to (identity chain, commit at time t).
func JudgeCommit(chain []KeyVersion, t uint64, rawCommit []byte) CommitVerdict {
	keys, version, ok := KeysInForce(chain, t)
	payload, sig, signed := SplitCommit(rawCommit)
	v := CommitVerdict{Specified: ok, InForce: len(keys), Version: version, Signed: signed, VerifiedBy: -1}
	if !ok {
		return v
	}
	if len(keys) == 0 {
		v.Accept = true
		return v
	}
	if !signed {
		v.Why = "unsigned while keys are in force"
		return v
	}
	idx, why := VerifiesUnder(payload, sig, keys)
	v.VerifiedBy = idx
	if idx >= 0 {
		v.Accept = true
	} else {
		v.Why = "signature does not verify under a key in force: " + why
	}
	return v
}
