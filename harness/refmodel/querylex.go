package refmodel

import (
	"reflect"
	"strings"
	"unicode"
)

// Reference reader of query TEXT, written from doc/queries.md and the property
// statement (not from query/lexer.go):
//
//	query  := ws* [ token ( ws+ token )* ] ws*
//	token  := part | part ":" part | "metadata" ":" part ":" part
//	part   := bare | quoted
//	bare   := one or more characters other than white space, ':' and quote characters
//	quoted := Q content Q      content: one or more characters other than Q
//
// A quoted part stands for its content, character for character: white space,
// ':' (also several in a row, leading or trailing), the other quote character,
// ',', '-', qualifier names ... are plain data between the quotes; there is no
// escape mechanism. White space separates tokens and ':' separates parts only
// outside of quotes.
//
// The reader is three-valued. Text the documentation does not speak about
// (quote characters in the middle of a word, empty quoted strings, quoted
// qualifier names, qualifiers or enumerated values in another letter case, the
// undocumented alias "state") is QUndetermined: every behaviour is accepted.

type QVerdict int

const (
	QWellFormed   QVerdict = iota // denotes Expect, must be accepted with that meaning
	QMalformed                    // must be rejected with an error
	QUndetermined                 // outside of what the documentation settles
)

func (v QVerdict) String() string {
	return [...]string{"well-formed", "malformed", "undetermined"}[v]
}

// QParse is the reading of a query text.
type QParse struct {
	Verdict QVerdict
	Class   string // malformed: the class of the defect; undetermined: why
	Expect  QExpect
	// Features of the quoted parts (QValueFeature), for shape signatures
	Features []string
}

type qSegment struct {
	text   string
	quoted bool
}

type qPart []qSegment

// plain: exactly one segment; quoted parts must not be empty
func (p qPart) single() (content string, quoted, ok bool) {
	if len(p) != 1 {
		return "", false, false
	}
	if p[0].quoted && p[0].text == "" {
		return "", true, false
	}
	return p[0].text, p[0].quoted, true
}

// qScan cuts the text into fields (separated by white space outside of quotes)
// and the fields into parts (separated by ':' outside of quotes). An empty part
// is a part without segments. unbalanced is the quote character left open.
func qScan(text string, singleQuotes bool) (fields [][]qPart, unbalanced rune) {
	rs := []rune(text)
	isQ := func(r rune) bool { return r == '"' || (singleQuotes && r == '\'') }
	i := 0
	for i < len(rs) {
		if unicode.IsSpace(rs[i]) {
			i++
			continue
		}
		var parts []qPart
		var cur qPart
		for i < len(rs) && !unicode.IsSpace(rs[i]) {
			r := rs[i]
			switch {
			case r == ':':
				parts = append(parts, cur)
				cur = nil
				i++
			case isQ(r):
				j := i + 1
				for j < len(rs) && rs[j] != r {
					j++
				}
				if j >= len(rs) {
					return nil, r
				}
				cur = append(cur, qSegment{text: string(rs[i+1 : j]), quoted: true})
				i = j + 1
			default:
				j := i
				for j < len(rs) && !unicode.IsSpace(rs[j]) && rs[j] != ':' && !isQ(rs[j]) {
					j++
				}
				cur = append(cur, qSegment{text: string(rs[i:j])})
				i = j
			}
		}
		parts = append(parts, cur)
		fields = append(fields, parts)
	}
	return fields, 0
}

var qDocQualifiers = map[string]bool{"status": true, "author": true, "actor": true, "participant": true, "label": true, "title": true, "no": true, "sort": true}

// ParseDocQuery reads a query text. singleQuotes selects whether ' is a quote
// character like " (the documentation only names double quotes).
func ParseDocQuery(text string, singleQuotes bool) QParse {
	fields, open := qScan(text, singleQuotes)
	if open != 0 {
		return QParse{Verdict: QMalformed, Class: "unbalanced-quote"}
	}
	var out QParse
	malformed, undet := "", ""
	bad := func(class string) {
		if malformed == "" {
			malformed = class
		}
	}
	unk := func(why string) {
		if undet == "" {
			undet = why
		}
	}
	sorts := 0
	e := &out.Expect

	// enumerated values: exact documented spelling is meant, another letter case / padding / quoting of a
	// documented value is left open, everything else is wrong
	enum := func(p qPart, valid func(string) bool, class string) (string, bool) {
		v, quoted, ok := p.single()
		if !ok {
			unk("quote-inside-word-or-empty-quotes")
			return "", false
		}
		if valid(v) && !quoted {
			return v, true
		}
		if valid(strings.ToLower(strings.TrimSpace(v))) {
			unk("enumerated-value-quoted-or-other-case")
			return "", false
		}
		bad(class)
		return "", false
	}

	for _, parts := range fields {
		empty := false
		for _, p := range parts {
			if len(p) == 0 {
				empty = true
			}
		}
		if empty {
			bad("empty-part")
			continue
		}
		if len(parts) > 3 {
			bad("too-many-parts")
			continue
		}
		for _, p := range parts {
			for _, s := range p {
				if s.quoted && s.text != "" {
					out.Features = append(out.Features, QValueFeature(s.text))
				}
			}
		}
		if len(parts) == 1 {
			v, _, ok := parts[0].single()
			if !ok {
				unk("quote-inside-word-or-empty-quotes")
				continue
			}
			e.Search = append(e.Search, v)
			continue
		}
		qual, qQuoted, ok := parts[0].single()
		if !ok || qQuoted {
			unk("quoted-qualifier")
			continue
		}
		lq := strings.ToLower(qual)
		if len(parts) == 3 {
			switch {
			case qual == "metadata":
			case lq == "metadata":
				unk("qualifier-in-other-case")
				continue
			default:
				bad("unknown-sub-qualifier")
				continue
			}
			k, _, ok1 := parts[1].single()
			v, _, ok2 := parts[2].single()
			if !ok1 || !ok2 {
				unk("quote-inside-word-or-empty-quotes")
				continue
			}
			e.Metadata = append(e.Metadata, [2]string{k, v})
			continue
		}
		// two parts
		if !qDocQualifiers[qual] {
			switch {
			case qDocQualifiers[lq] || lq == "state":
				unk("qualifier-alias-or-other-case")
			case qual == "metadata":
				bad("metadata-without-value")
			case lq == "metadata":
				unk("qualifier-in-other-case")
			default:
				bad("unknown-qualifier")
			}
			continue
		}
		switch qual {
		case "status":
			if v, ok := enum(parts[1], func(s string) bool { return s == "open" || s == "closed" }, "unknown-status"); ok {
				e.Status = append(e.Status, v)
			}
		case "no":
			if _, ok := enum(parts[1], func(s string) bool { return s == "label" }, "unknown-no"); ok {
				e.NoLabel = true
			}
		case "sort":
			if v, ok := enum(parts[1], func(s string) bool { _, _, ok := SortMeaning(s); return ok }, "unknown-sort"); ok {
				sorts++
				e.HasSort = true
				e.OrderBy, e.Descending, _ = SortMeaning(v)
			}
		default:
			v, _, ok := parts[1].single()
			if !ok {
				unk("quote-inside-word-or-empty-quotes")
				continue
			}
			switch qual {
			case "author":
				e.Author = append(e.Author, v)
			case "actor":
				e.Actor = append(e.Actor, v)
			case "participant":
				e.Participant = append(e.Participant, v)
			case "label":
				e.Label = append(e.Label, v)
			case "title":
				e.Title = append(e.Title, v)
			}
		}
	}
	if sorts > 1 {
		bad("two-sorts")
	}
	switch {
	case malformed != "":
		return QParse{Verdict: QMalformed, Class: malformed, Features: out.Features}
	case undet != "":
		return QParse{Verdict: QUndetermined, Class: undet, Features: out.Features}
	}
	out.Verdict = QWellFormed
	return out
}

// JudgeDocQuery is the conservative reading used on arbitrary strings: the
// documentation names double quotes only, so a text containing ' is judged only
// where the reading with ' as a quote character and the reading with ' as an
// ordinary character agree.
func JudgeDocQuery(text string) QParse {
	a := ParseDocQuery(text, true)
	if !strings.Contains(text, "'") {
		return a
	}
	b := ParseDocQuery(text, false)
	switch {
	case a.Verdict == QMalformed && b.Verdict == QMalformed:
		return a
	case a.Verdict == QWellFormed && b.Verdict == QWellFormed && reflect.DeepEqual(a.Expect, b.Expect):
		return a
	}
	return QParse{Verdict: QUndetermined, Class: "single-quote-character", Features: a.Features}
}

// ---- classes of values ----------------------------------------------------------------

// QValueFeature names the most syntax-like feature of a value (fixed priority):
// what would go wrong first if the characters between quotes were not treated
// as plain data.
func QValueFeature(v string) string {
	rs := []rune(v)
	onlyColons := v != ""
	for _, r := range rs {
		if r != ':' {
			onlyColons = false
		}
	}
	first := strings.SplitN(v, ":", 2)[0]
	switch {
	case onlyColons:
		return "only-colons"
	case strings.Contains(v, "::"):
		return "colon-run"
	case strings.HasPrefix(v, ":"):
		return "leading-colon"
	case strings.HasSuffix(v, ":"):
		return "trailing-colon"
	case strings.Contains(v, ":") && (qDocQualifiers[first] || first == "metadata"):
		return "qualifier-like"
	case strings.Count(v, ":") >= 3:
		return "many-colons"
	case strings.Contains(v, ":"):
		return "colon"
	case strings.ContainsAny(v, "\"'"):
		return "other-quote"
	case v != strings.TrimSpace(v):
		return "edge-space"
	case strings.ContainsAny(v, ",-!=|()*<>~+^&?"):
		if strings.ContainsFunc(v, unicode.IsSpace) {
			return "operator-chars+space"
		}
		return "operator-chars"
	case strings.ContainsFunc(v, unicode.IsSpace):
		return "space"
	}
	return "plain"
}

// QPlainTerm: a full-text term whose meaning the model states (a single run of letters and digits).
func QPlainTerm(v string) bool {
	for _, r := range v {
		if !unicode.IsLetter(r) && !unicode.IsDigit(r) {
			return false
		}
	}
	return v != ""
}
