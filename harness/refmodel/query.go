package refmodel

import (
	"fmt"
	"strings"
	"unicode"
)

// (c) Query language of doc/queries.md: renderer of structured queries, the
// structure a rendered query denotes, and a reference evaluator over plain
// data extracted from resolved snapshots.
//
// Documented language (doc/queries.md plus the "sub-qualifiers" of the
// property statement):
//
//	query      := token (" " token)*
//	token      := term | qualifier ":" value | "metadata" ":" key ":" value
//	qualifier  := status | author | participant | actor | label | title | no | sort
//	value/term := a word, or a quoted string (see querylex.go: between quotes every character is data)
//	status     := open | closed          no := label
//	sort       := id | id-asc | id-desc | creation | creation-asc | creation-desc
//	              | edit | edit-asc | edit-desc      (at most one)

// QToken is one token of a structured query.
type QToken struct {
	Kind  string `json:"kind"` // search|status|author|actor|participant|label|title|no|sort|metadata
	Key   string `json:"key,omitempty"`
	Value string `json:"value"`
	Quote bool   `json:"quote,omitempty"` // render the value quoted even if it is a single word
	SQ    bool   `json:"sq,omitempty"`    // quote with ' instead of " (when the value allows it)
}

// QExpect is what a query denotes.
type QExpect struct {
	Search      []string
	Status      []string // "open" | "closed"
	Author      []string
	Actor       []string
	Participant []string
	Label       []string
	Title       []string
	Metadata    [][2]string
	NoLabel     bool
	HasSort     bool
	OrderBy     string // id | creation | edit
	Descending  bool
}

// SortMeaning is the table of the "Sorting" section.
func SortMeaning(v string) (by string, desc bool, ok bool) {
	switch v {
	case "id", "id-asc":
		return "id", false, true
	case "id-desc":
		return "id", true, true
	case "creation", "creation-desc":
		return "creation", true, true
	case "creation-asc":
		return "creation", false, true
	case "edit", "edit-desc":
		return "edit", true, true
	case "edit-asc":
		return "edit", false, true
	}
	return "", false, false
}

// SortValues lists every documented sort value.
var SortValues = []string{"id", "id-asc", "id-desc", "creation", "creation-asc", "creation-desc", "edit", "edit-asc", "edit-desc"}

func needsQuote(v string) bool {
	for _, r := range v {
		if unicode.IsSpace(r) || r == ':' || r == '"' || r == '\'' {
			return true
		}
	}
	return false
}

// Expressible reports whether a value can be written in the documented
// language: not empty, and (there is no escape mechanism) not containing both
// quote characters.
func Expressible(v string) bool {
	return v != "" && !(strings.Contains(v, "\"") && strings.Contains(v, "'"))
}

// renderValue writes a value as a bare word when it can be one (no white space,
// colon or quote character) and force is not set, else between quotes: the
// style asked for (single when sq) unless the value contains that quote
// character, then the other one. Returns the quote character used (0: bare).
func renderValue(v string, force, sq bool) (string, rune, error) {
	if v == "" {
		return "", 0, fmt.Errorf("empty value is not expressible")
	}
	if !Expressible(v) {
		return "", 0, fmt.Errorf("value %q with both quote characters is not expressible", v)
	}
	if !force && !needsQuote(v) {
		return v, 0, nil
	}
	q := '"'
	if sq {
		q = '\''
	}
	if strings.ContainsRune(v, q) {
		if q == '"' {
			q = '\''
		} else {
			q = '"'
		}
	}
	return string(q) + v + string(q), q, nil
}

// RenderQuery renders tokens in the given order, separated by single spaces.
func RenderQuery(tokens []QToken) (string, error) {
	parts := make([]string, 0, len(tokens))
	for _, t := range tokens {
		s, err := RenderToken(t)
		if err != nil {
			return "", err
		}
		parts = append(parts, s)
	}
	return strings.Join(parts, " "), nil
}

// RenderToken renders one token.
func RenderToken(t QToken) (string, error) {
	v, _, err := renderValue(t.Value, t.Quote, t.SQ)
	if err != nil {
		return "", err
	}
	switch t.Kind {
	case "search":
		return v, nil
	case "status", "author", "actor", "participant", "label", "title", "no", "sort":
		return t.Kind + ":" + v, nil
	case "metadata":
		k, _, err := renderValue(t.Key, false, t.SQ)
		if err != nil {
			return "", fmt.Errorf("metadata key: %w", err)
		}
		return "metadata:" + k + ":" + v, nil
	}
	return "", fmt.Errorf("unknown token kind %q", t.Kind)
}

// QuoteStyle tells how the token's value is written: "bare", "dq" or "sq".
func (t QToken) QuoteStyle() string {
	_, q, err := renderValue(t.Value, t.Quote, t.SQ)
	switch {
	case err != nil:
		return "inexpressible"
	case q == '"':
		return "dq"
	case q == '\'':
		return "sq"
	}
	return "bare"
}

// Denotes gives the structure a token list stands for; error when the list is
// not a well-formed query (unknown status/sort/no value, two sorts).
func Denotes(tokens []QToken) (QExpect, error) {
	var e QExpect
	for _, t := range tokens {
		switch t.Kind {
		case "search":
			e.Search = append(e.Search, t.Value)
		case "status":
			if t.Value != "open" && t.Value != "closed" {
				return e, fmt.Errorf("unknown status")
			}
			e.Status = append(e.Status, t.Value)
		case "author":
			e.Author = append(e.Author, t.Value)
		case "actor":
			e.Actor = append(e.Actor, t.Value)
		case "participant":
			e.Participant = append(e.Participant, t.Value)
		case "label":
			e.Label = append(e.Label, t.Value)
		case "title":
			e.Title = append(e.Title, t.Value)
		case "no":
			if t.Value != "label" {
				return e, fmt.Errorf("unknown no: value")
			}
			e.NoLabel = true
		case "sort":
			if e.HasSort {
				return e, fmt.Errorf("two sorts")
			}
			by, desc, ok := SortMeaning(t.Value)
			if !ok {
				return e, fmt.Errorf("unknown sort")
			}
			e.HasSort, e.OrderBy, e.Descending = true, by, desc
		case "metadata":
			e.Metadata = append(e.Metadata, [2]string{t.Key, t.Value})
		default:
			return e, fmt.Errorf("unknown kind")
		}
	}
	return e, nil
}

// Kinds returns the sorted, de-duplicated qualifier kinds used (shape signature).
func (e QExpect) Kinds() []string {
	var k []string
	add := func(name string, n int) {
		if n == 1 {
			k = append(k, name)
		} else if n > 1 {
			k = append(k, name+"*")
		}
	}
	add("actor", len(e.Actor))
	add("author", len(e.Author))
	add("label", len(e.Label))
	add("metadata", len(e.Metadata))
	if e.NoLabel {
		k = append(k, "no:label")
	}
	add("participant", len(e.Participant))
	add("search", len(e.Search))
	add("status", len(e.Status))
	add("title", len(e.Title))
	return k
}

// ---- evaluator -------------------------------------------------------------------

// QIdentity is what the evaluator knows about a person.
type QIdentity struct {
	Id    string
	Name  string
	Login string
}

// QBug is what the evaluator knows about a bug (taken from a from-scratch
// compilation and from the independent git reader).
type QBug struct {
	Id            string
	Status        string
	Title         string
	Labels        []string
	Author        string
	Actors        []string
	Participants  []string
	CreateMeta    map[string]string
	Texts         []string // title and current comment messages
	CreateLamport uint64
	EditLamport   uint64
	CreateUnix    int64
	EditUnix      int64
}

func foldRune(r rune) rune {
	// smallest rune of the simple-folding orbit
	m := r
	for x := unicode.SimpleFold(r); x != r; x = unicode.SimpleFold(x) {
		if x < m {
			m = x
		}
	}
	return m
}

func fold(s string) []rune {
	rs := []rune(s)
	for i, r := range rs {
		rs[i] = foldRune(r)
	}
	return rs
}

// ContainsFold reports whether s contains sub, ignoring case.
func ContainsFold(s, sub string) bool {
	a, b := fold(s), fold(sub)
	if len(b) == 0 {
		return true
	}
	for i := 0; i+len(b) <= len(a); i++ {
		ok := true
		for j := range b {
			if a[i+j] != b[j] {
				ok = false
				break
			}
		}
		if ok {
			return true
		}
	}
	return false
}

// PersonMatches: the query designates the person by a part of the name, of the
// login, or by a prefix of the id, case-insensitively.
func PersonMatches(p QIdentity, q string) bool {
	lq := string(fold(q))
	if lq != "" && strings.HasPrefix(string(fold(p.Id)), lq) {
		return true
	}
	return ContainsFold(p.Name, q) || (p.Login != "" && ContainsFold(p.Login, q))
}

// HasWord reports whether text contains token as a whole word (maximal run of
// letters and digits), ignoring case.
func HasWord(text, token string) bool {
	want := string(fold(token))
	var cur []rune
	flush := func() bool {
		hit := len(cur) > 0 && string(cur) == want
		cur = cur[:0]
		return hit
	}
	for _, r := range text {
		if unicode.IsLetter(r) || unicode.IsDigit(r) {
			cur = append(cur, foldRune(r))
			continue
		}
		if flush() {
			return true
		}
	}
	return flush()
}

// SearchHit: some title/comment contains the token as a word.
func SearchHit(b QBug, token string) bool {
	for _, t := range b.Texts {
		if HasWord(t, token) {
			return true
		}
	}
	return false
}

// FiltersMatch evaluates every qualifier except full-text terms:
// any-of inside status/author/actor/participant/metadata, all-of for
// label/title/no:label and across kinds.
func (e QExpect) FiltersMatch(b QBug, people map[string]QIdentity) bool {
	anyOf := func(n int, f func(i int) bool) bool {
		if n == 0 {
			return true
		}
		for i := 0; i < n; i++ {
			if f(i) {
				return true
			}
		}
		return false
	}
	person := func(ids []string, q string) bool {
		for _, id := range ids {
			if p, ok := people[id]; ok && PersonMatches(p, q) {
				return true
			}
		}
		return false
	}
	if !anyOf(len(e.Status), func(i int) bool { return b.Status == e.Status[i] }) {
		return false
	}
	if !anyOf(len(e.Author), func(i int) bool { return person([]string{b.Author}, e.Author[i]) }) {
		return false
	}
	if !anyOf(len(e.Actor), func(i int) bool { return person(b.Actors, e.Actor[i]) }) {
		return false
	}
	if !anyOf(len(e.Participant), func(i int) bool { return person(b.Participants, e.Participant[i]) }) {
		return false
	}
	if !anyOf(len(e.Metadata), func(i int) bool {
		v, ok := b.CreateMeta[e.Metadata[i][0]]
		return ok && v == e.Metadata[i][1]
	}) {
		return false
	}
	for _, l := range e.Label {
		has := false
		for _, bl := range b.Labels {
			has = has || bl == l
		}
		if !has {
			return false
		}
	}
	for _, t := range e.Title {
		if !ContainsFold(b.Title, t) {
			return false
		}
	}
	if e.NoLabel && len(b.Labels) > 0 {
		return false
	}
	return true
}

// OrderViolation checks that the list is ordered by the requested key and
// direction; ties are unconstrained. For creation/edit the key is the logical
// (Lamport) time: the documentation promises ordering by the logical clock only.
func (e QExpect) OrderViolation(list []QBug) string {
	if !e.HasSort {
		return ""
	}
	cmp := func(a, b QBug) int {
		switch e.OrderBy {
		case "id":
			return strings.Compare(a.Id, b.Id)
		case "creation":
			switch {
			case a.CreateLamport < b.CreateLamport:
				return -1
			case a.CreateLamport > b.CreateLamport:
				return 1
			// equal logical times mean concurrent creation: the creation timestamp decides (the key of the
			// creation sort is (logical time, timestamp)); equal on both is unconstrained
			case a.CreateUnix < b.CreateUnix:
				return -1
			case a.CreateUnix > b.CreateUnix:
				return 1
			}
		case "edit":
			switch {
			case a.EditLamport < b.EditLamport:
				return -1
			case a.EditLamport > b.EditLamport:
				return 1
			case a.EditUnix < b.EditUnix:
				return -1
			case a.EditUnix > b.EditUnix:
				return 1
			}
		}
		return 0
	}
	for i := 0; i+1 < len(list); i++ {
		c := cmp(list[i], list[i+1])
		if (!e.Descending && c > 0) || (e.Descending && c < 0) {
			return fmt.Sprintf("positions %d,%d: %s (create %d/%d edit %d/%d) before %s (create %d/%d edit %d/%d) under sort %s descending=%v",
				i, i+1, short(list[i].Id), list[i].CreateLamport, list[i].CreateUnix, list[i].EditLamport, list[i].EditUnix,
				short(list[i+1].Id), list[i+1].CreateLamport, list[i+1].CreateUnix, list[i+1].EditLamport, list[i+1].EditUnix, e.OrderBy, e.Descending)
		}
	}
	return ""
}

func short(id string) string {
	if len(id) > 8 {
		return id[:8]
	}
	return id
}
