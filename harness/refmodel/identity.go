package refmodel

import (
	"encoding/json"
	"sort"
	"strings"
)

// Reference model (e): identity version chains.
//
// Written from the statement of C09 only: an identity is a chain of versions;
// a merge of a remote chain into a local one is fast-forward only. It knows
// nothing about git commits, refs or git-bug's code; chains are lists of opaque
// version identifiers (the harness feeds commit hashes AND version ids).

// Chain statuses, spelled like world/statusName.
const (
	IdNew     = "new"
	IdUpdated = "updated"
	IdNothing = "nothing"
	IdInvalid = "invalid"
)

// ChainVerdict is the model's answer for one (local, remote) pair.
type ChainVerdict struct {
	P, A, B int      // common prefix, local suffix, remote suffix
	Pos     string   // new-on-remote | equal | remote-ahead | local-ahead | diverged | unrelated
	Status  string   // status that must be reported
	After   []string // chain the local side must have after the merge
}

// MergeChains evaluates the fast-forward-only rule. localExists=false means the
// identity is not known locally.
func MergeChains(localExists bool, local, remote []string) ChainVerdict {
	if !localExists {
		return ChainVerdict{B: len(remote), Pos: "new-on-remote", Status: IdNew, After: clone(remote)}
	}
	p := 0
	for p < len(local) && p < len(remote) && local[p] == remote[p] {
		p++
	}
	v := ChainVerdict{P: p, A: len(local) - p, B: len(remote) - p}
	switch {
	case p == 0:
		// not even the first version is shared: not the same identity at all
		v.Pos, v.Status, v.After = "unrelated", IdInvalid, clone(local)
	case v.B == 0 && v.A == 0:
		v.Pos, v.Status, v.After = "equal", IdNothing, clone(local)
	case v.B == 0:
		v.Pos, v.Status, v.After = "local-ahead", IdNothing, clone(local)
	case v.A == 0:
		v.Pos, v.Status, v.After = "remote-ahead", IdUpdated, clone(remote)
	default:
		v.Pos, v.Status, v.After = "diverged", IdInvalid, clone(local)
	}
	return v
}

func clone(l []string) []string { return append([]string{}, l...) }

// VersionFacts is what the statement talks about for one version.
type VersionFacts struct {
	Name, Login, Email, Avatar string
	Times                      map[string]uint64
	HasTimes                   bool // the "times" member was present at all
}

// DecodeVersion reads the documented JSON of a version blob (independent of git-bug's decoder).
func DecodeVersion(raw []byte) (VersionFacts, error) {
	var aux struct {
		Times  *map[string]uint64 `json:"times"`
		Name   string             `json:"name"`
		Login  string             `json:"login"`
		Email  string             `json:"email"`
		Avatar string             `json:"avatar_url"`
	}
	if err := json.Unmarshal(raw, &aux); err != nil {
		return VersionFacts{}, err
	}
	f := VersionFacts{Name: aux.Name, Login: aux.Login, Email: aux.Email, Avatar: aux.Avatar}
	if aux.Times != nil {
		f.Times, f.HasTimes = *aux.Times, true
	}
	return f, nil
}

// Verdict3 is a three-valued expectation: the statement demands a refusal, demands
// nothing (either behaviour is fine), or the value is plainly acceptable.
type Verdict3 int

const (
	Either Verdict3 = iota
	MustRefuse
	Plain // plainly valid: nothing in the statement speaks against it
)

func (v Verdict3) String() string { return [...]string{"either", "must-refuse", "plain"}[v] }

// hardControl are the characters the model is sure about: the control characters (Unicode category Cc): line
// breaks, the classic non-printing C0 controls and DEL, and the C1 controls U+0080..U+009F (NEL is a line break,
// CSI introduces terminal escape sequences). Tabs, zero-width and bidi marks are left open.
func hardControl(s string) bool {
	for _, r := range s {
		switch {
		case r == '\t':
		case r < 0x20, r == 0x7f, r >= 0x80 && r <= 0x9f:
			return true
		}
	}
	return false
}

// c0Control: line breaks, C0 controls and DEL.
func c0Control(s string) bool {
	for _, r := range s {
		if r != '\t' && (r < 0x20 || r == 0x7f) {
			return true
		}
	}
	return false
}

func softSuspicious(s string) bool {
	for _, r := range s {
		if r == '\t' || r == 0x200b || r == 0x202e || r == 0xfeff {
			return true
		}
	}
	return false
}

// ValidateChain applies the four refusal clauses of the statement to a chain of
// versions (oldest first). It returns MustRefuse with the clause, Either when only an
// open question is touched, Plain otherwise.
func ValidateChain(chain []VersionFacts) (Verdict3, string) {
	open := ""
	last := map[string]uint64{}
	for _, v := range chain {
		if v.Name == "" && v.Login == "" {
			return MustRefuse, "no name and login"
		}
		if strings.TrimSpace(v.Name) == "" && strings.TrimSpace(v.Login) == "" {
			open = "blank name and login"
		}
		for field, val := range map[string]string{"name": v.Name, "login": v.Login, "email": v.Email} {
			if hardControl(val) {
				return MustRefuse, "unsafe characters in " + field
			}
			if softSuspicious(val) {
				open = "questionable characters in " + field
			}
		}
		// (the avatar is a URL, judged by URL rules: only what no URL parser accepts is certain)
		if c0Control(v.Avatar) {
			return MustRefuse, "unsafe characters in avatar"
		}
		if v.Avatar != "" && (!strings.Contains(v.Avatar, "://") || strings.ContainsAny(v.Avatar, " ") || softSuspicious(v.Avatar) || hardControl(v.Avatar)) {
			open = "avatar is not plainly an absolute URL"
		}
		names := make([]string, 0, len(last))
		for n := range last {
			names = append(names, n)
		}
		sort.Strings(names)
		for _, n := range names {
			now, ok := v.Times[n]
			if !ok {
				return MustRefuse, "dropped clock"
			}
			if now < last[n] {
				return MustRefuse, "decreasing clock"
			}
		}
		for n, t := range v.Times {
			last[n] = t
		}
	}
	if open != "" {
		return Either, open
	}
	return Plain, ""
}
