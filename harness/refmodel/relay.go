// Package refmodel holds the small reference models the monitors compare
// git-bug's behaviour against. They are written from the property statements
// and the documentation, not from the code.
package refmodel

// RelayInput is a (first, after, last, before) request where cursors have been
// resolved to list indexes by the caller: AfterIdx/BeforeIdx = -1 when the
// argument is absent; CursorUnknown* says that the argument was present but does
// not designate an element of the list (foreign or malformed).
type RelayInput struct {
	N             int
	First, Last   *int
	AfterIdx      int
	BeforeIdx     int
	AfterUnknown  bool
	BeforeUnknown bool
}

// RelayWindow is the model's answer.
type RelayWindow struct {
	MustError bool // negative first/last
	// [S,E) is the window of list indexes to be returned.
	S, E int
	// HasNext is meaningful when First != nil, HasPrev when Last != nil.
	HasNext, HasPrev bool
}

// Relay evaluates the Relay cursor-connection algorithm over offsets
// (ApplyCursorsToEdges followed by EdgesToReturn). An unknown cursor is
// treated as "ignored"; the caller separately accepts an error for those.
func Relay(in RelayInput) RelayWindow {
	w := RelayWindow{}
	if in.First != nil && *in.First < 0 {
		w.MustError = true
		return w
	}
	if in.Last != nil && *in.Last < 0 {
		w.MustError = true
		return w
	}
	s, e := 0, in.N
	if in.AfterIdx >= 0 && in.AfterIdx < in.N && !in.AfterUnknown {
		s = in.AfterIdx + 1
	}
	// "before" designates an edge among the edges remaining after "after" was applied
	if in.BeforeIdx >= 0 && in.BeforeIdx < in.N && !in.BeforeUnknown && in.BeforeIdx >= s {
		e = in.BeforeIdx
	}
	if in.First != nil && e-s > *in.First {
		e = s + *in.First
	}
	if in.Last != nil && e-s > *in.Last {
		s = e - *in.Last
	}
	w.S, w.E = s, e
	w.HasNext = e < in.N
	w.HasPrev = s > 0
	return w
}
