package refmodel

import (
	"fmt"
	"regexp"
	"sort"
	"strconv"
	"strings"
)

// One-slot process-lock model (C19), written from the property statement:
//
//	While one process has a repository's cache open, any other attempt to open
//	it is refused with an error naming the holder and changes nothing. After the
//	holder closes cleanly, or has died leaving its lock behind, the next open
//	succeeds; git-bug never removes the lock of a live process, and every
//	command releases the lock on success and on failure.
//
// The model is an OFFLINE checker over an event log of real processes. It uses
// only the order of the events (Seq), never time. What it needs to know about a
// process is in its spawn event (does the command open the cache, is it
// expected to succeed on a free cache, was a hook delay configured).

// LockEvent is one entry of the log recorded by the schedule executor.
type LockEvent struct {
	Seq  int    `json:"seq"`
	Kind string `json:"kind"` // spawn | proof | signal | exit | observe | fault | pause | resume | phase | stop | cont | steer | hold | release
	Proc int    `json:"proc"` // process index within the schedule (not for observe)
	Pid  int    `json:"pid,omitempty"`

	// spawn
	Class  string `json:"class,omitempty"`  // command class, e.g. "webui", "bug", "fail:no-identity"
	Argv   string `json:"argv,omitempty"`   // the command line, for witnesses only
	Opens  bool   `json:"opens,omitempty"`  // the command opens the cache
	Benign bool   `json:"benign,omitempty"` // expected to exit 0 when nobody holds the cache
	Delays string `json:"delays,omitempty"` // VERIF_HOOK_DELAYS of the process
	Uid    int    `json:"uid,omitempty"`    // real uid of the process as read from /proc after the start (0 = the harness's own, root)
	Long   bool   `json:"long,omitempty"`   // a long-lived command (web UI): once it has the cache it keeps it until it is signalled

	// proof: the process showed that it got past the lock ("building": it printed the
	// cache-build banner, which comes after lock(); "ready": the web UI printed its
	// URL and owns its listening socket, i.e. the cache is open and stays open; "index":
	// /proc shows that it has a file of the cache's search indexes open, which are opened
	// by load()/build after lock() only).
	Stage string `json:"stage,omitempty"`

	// signal (recorded BEFORE the signal is sent)
	Signal string `json:"signal,omitempty"`

	// exit (recorded after Wait() returned, i.e. the process is reaped)
	ExitCode int    `json:"exit_code,omitempty"`
	KilledBy string `json:"killed_by,omitempty"`
	Stderr   string `json:"stderr,omitempty"`
	// Unexpected marks the exit of a long-lived process nobody signalled.
	Unexpected bool `json:"unexpected,omitempty"`

	// pause: the harness stopped the process (SIGSTOP, every thread seen stopped in /proc) and
	// THEN read the lock file (LockExists/LockContent): the state cannot be changed by the
	// process itself until the resume event (recorded BEFORE SIGCONT is sent). A process paused
	// while the lock file exists and is empty, no other process of the schedule being alive and
	// the file being absent before its spawn, is a live process between its exclusive creation
	// of the lock file and the write of its pid.

	// phase: Class names the situation the following part of the schedule is about ("stopped-holder",
	// "traced-holder", "handover"); it only chooses the suffix of the finding keys.
	//
	// stop: the harness suspended the process and saw EVERY thread of it stopped in /proc before
	// recording the event (Class "sigstop": SIGSTOP, threads in state T; Class "ptrace": a tracer
	// attached to every thread, threads in state t; Tag: the thread states seen). A suspended
	// process is alive: what it holds it keeps holding. cont: recorded BEFORE the process is
	// released (SIGCONT / tracer detaches). steer: the harness let some time pass (Tag says how
	// much); steering only, nothing is derived from it. hold: a tracer keeps ONE thread of the process
	// at the entry of a system call (Class: what the call is about, Tag: which call), the other threads
	// run; release: recorded BEFORE the thread is let go. Both are steering only.

	// observe
	Tag         string            `json:"tag,omitempty"`
	LockExists  bool              `json:"lock_exists,omitempty"`
	LockContent string            `json:"lock_content,omitempty"`
	Refs        string            `json:"refs,omitempty"`  // digest of `git for-each-ref`
	Files       map[string]string `json:"files,omitempty"` // .git/git-bug/** except lock: path -> digest
}

// LockFinding is a refuting observation.
type LockFinding struct {
	Key  string
	What string
	Seq  int
}

// LockStats is what the checker saw, for the evidence file.
type LockStats struct {
	Processes          int
	Attempts           int // processes that opened or tried to open the cache and were resolved
	Refusals           int
	RefusalsNamingPid  int
	RefusedUnchanged   int // refusals bracketed by two observations that were compared
	OpenedWhileFree    int
	Indeterminate      int // attempts overlapping a possible (not definite) holder: both outcomes accepted
	Observations       int
	LiveLockChecks     int // observations checked against exactly one proven live holder
	SelfExitLockChecks int // exits followed by a lock-left-behind check
	OpensAfter         map[string]int
	KillPoints         map[string]int
	Classes            map[string]int
	Unresolved         int
	// created window: a live process stopped between the exclusive creation of the lock file and the pid write
	CreatedWindows        int            // processes proven to be parked there
	CreatedWindowAttempts int            // open attempts made entirely while such a process was parked
	CreatedWindowOutcomes map[string]int // what became of them (refused/failed/opened)
	CreatedWindowChecks   int            // observations of the lock file made while the creator was parked
	CrossUidAttempts      int            // resolved attempts made under another uid than the proven holder's
	// suspended holder: a proven holder stopped (job control or tracer) while others try to open
	SuspendedHolders        map[string]int // how (sigstop/ptrace) -> proven holders suspended, every thread seen stopped
	SuspendedHolderAttempts map[string]int // how -> open attempts made entirely while the proven holder was suspended
	SuspendedHolderOutcomes map[string]int // what became of them
	SuspendedHolderChecks   int            // lock-file observations checked against a suspended holder
	SuspendedOpeners        int            // openers (no proof yet) frozen by the harness at a steering point
	HeldOpeners             map[string]int // what for -> openers one thread of which was held at a system-call entry across a hand-over
	// hand-over: openers that were started and not yet resolved when a proven holder was signalled
	HandoverSignals  int            // signals sent to a proven ready holder while at least one opener was unresolved
	HandoverRacers   int            // openers unresolved at such a signal
	HandoverOutcomes map[string]int // what became of them
	HandoverMaxRace  int            // largest number of openers unresolved at one such signal
	GrantedAfterEnd  int            // openers spawned while a proven holder was alive that were granted the cache after its end
}

type lockProc struct {
	id, pid       int
	class, argv   string
	opens, benign bool
	delays        string
	uid           int
	long          bool
	spawn         int
	stops         []lockSpan // suspensions (stop..cont) with every thread seen stopped
	created       int        // seq of the pause event that proved p parked between lock creation and pid write
	resumed       int        // seq of the resume event ending that pause (0 = never resumed)
	building      int        // seq of the "building" proof, 0 = none
	index         int        // seq of the "index" proof (a file of the cache indexes seen open in /proc), 0 = none
	ready         int
	lockSeen      int // first observation at which the lock file held this pid
	signal        int
	sig           string
	exit          int
	exitCode      int
	killedBy      string
	stderr        string
	unexpected    bool
}

// lockSpan is a suspension of a process: from the stop event to the cont event (lockInf = never released).
type lockSpan struct {
	from, to int
	how      string
}

const lockInf = int(^uint(0) >> 1)

// keeps says that once p is past the lock it can be taken to keep the cache until the harness
// signals it or it is gone: a long-lived command (it only lets go on its way out), or a process
// parked by a hook delay. A short-lived command that runs freely closes the cache by itself at a
// moment the log does not show (the exit is recorded later than the release).
func (p *lockProc) keeps() bool { return p.long || p.delays != "" }

func (p *lockProc) firstProof() int {
	m := 0
	for _, v := range []int{p.building, p.ready, p.index} {
		if v > 0 && (m == 0 || v < m) {
			m = v
		}
	}
	return m
}

// passed = first moment at which the log proves that p got past lock().
func (p *lockProc) passed() int {
	m := p.firstProof()
	if p.lockSeen > 0 && (m == 0 || p.lockSeen < m) {
		m = p.lockSeen
	}
	return m
}

// end = the moment from which p can no longer be assumed to hold the cache.
func (p *lockProc) end() int {
	e := lockInf
	if p.signal > 0 && p.signal < e {
		e = p.signal
	}
	if p.exit > 0 && p.exit < e {
		e = p.exit
	}
	return e
}

func (p *lockProc) stageAt(seq int) string {
	switch {
	case p.ready > 0 && p.ready < seq:
		return "ready"
	case p.building > 0 && p.building < seq:
		return "building"
	}
	return "running"
}

var lockRefusal = regexp.MustCompile(`already locked by the process pid (\d+)`)

// refusedBy returns the pid named in a refusal, or 0 when the process was not refused.
func (p *lockProc) refusedBy() int {
	if p.exit == 0 || p.firstProof() > 0 {
		return 0
	}
	m := lockRefusal.FindStringSubmatch(p.stderr)
	if m == nil {
		return 0
	}
	v, _ := strconv.Atoi(m[1])
	return v
}

func (p *lockProc) opened() bool {
	return p.firstProof() > 0 || (p.exit > 0 && p.exitCode == 0 && p.killedBy == "")
}

// howOpened describes the evidence for opened().
func (p *lockProc) howOpened() string {
	if fp := p.firstProof(); fp > 0 {
		kind := "cache-build banner"
		if fp == p.ready {
			kind = "ready line"
		} else if fp == p.index {
			kind = "index files open"
		}
		return fmt.Sprintf("%s at event %d", kind, fp)
	}
	return "exit status 0"
}

func (p *lockProc) howEnded() string {
	if p.exit == 0 {
		return "still-running"
	}
	if p.signal > 0 && p.signal < p.exit {
		return strings.ToLower(p.sig) + "@" + p.stageAt(p.signal)
	}
	return "self-exit"
}

func (p *lockProc) String() string {
	return fmt.Sprintf("proc %d (pid %d, `%s`)", p.id, p.pid, p.argv)
}

func excerpt(s string) string {
	s = strings.TrimSpace(s)
	// progress bars use carriage returns and escape sequences: keep printable text only
	s = strings.Map(func(r rune) rune {
		if r == '\n' || r == '\t' || (r >= 32 && r != 127) {
			return r
		}
		return -1
	}, s)
	if len(s) > 300 {
		s = s[len(s)-300:]
	}
	return s
}

// CheckLockLog runs the model over one schedule's event log.
func CheckLockLog(events []LockEvent) ([]LockFinding, LockStats) {
	st := LockStats{OpensAfter: map[string]int{}, KillPoints: map[string]int{}, Classes: map[string]int{}, CreatedWindowOutcomes: map[string]int{},
		SuspendedHolders: map[string]int{}, SuspendedHolderAttempts: map[string]int{}, SuspendedHolderOutcomes: map[string]int{}, HandoverOutcomes: map[string]int{}, HeldOpeners: map[string]int{}}
	var out []LockFinding
	find := func(seq int, key, what string) { out = append(out, LockFinding{Key: key, What: what, Seq: seq}) }

	evs := append([]LockEvent(nil), events...)
	sort.SliceStable(evs, func(i, j int) bool { return evs[i].Seq < evs[j].Seq })

	procs := map[int]*lockProc{}
	byPid := map[int]*lockProc{}
	var order []*lockProc
	var observes []LockEvent
	type fault struct {
		seq   int
		class string
	}
	var faults []fault           // crash residues put in place by the harness (Class says which)
	var phases []fault           // phase markers (Class = the situation)
	var signals []LockEvent      // every signal event, in order
	windowDelaySince := lockInf  // first spawn with a cache.lock.window delay
	createdDelaySince := lockInf // first spawn with a cache.lock.created delay
	crossUidSince := lockInf     // first spawn under another uid than an earlier spawn of the schedule
	firstUid := -1
	for _, e := range evs {
		switch e.Kind {
		case "spawn":
			p := &lockProc{id: e.Proc, pid: e.Pid, class: e.Class, argv: e.Argv, opens: e.Opens, benign: e.Benign, delays: e.Delays, uid: e.Uid, long: e.Long, spawn: e.Seq}
			procs[e.Proc] = p
			byPid[e.Pid] = p
			order = append(order, p)
			st.Classes[e.Class]++
			if strings.Contains(e.Delays, "cache.lock.window") && e.Seq < windowDelaySince {
				windowDelaySince = e.Seq
			}
			if strings.Contains(e.Delays, "cache.lock.created") && e.Seq < createdDelaySince {
				createdDelaySince = e.Seq
			}
			if firstUid < 0 {
				firstUid = e.Uid
			} else if e.Uid != firstUid && e.Seq < crossUidSince {
				crossUidSince = e.Seq
			}
		case "proof":
			if p := procs[e.Proc]; p != nil {
				if e.Stage == "building" && p.building == 0 {
					p.building = e.Seq
				}
				if e.Stage == "ready" && p.ready == 0 {
					p.ready = e.Seq
				}
				if e.Stage == "index" && p.index == 0 {
					p.index = e.Seq
				}
			}
		case "phase":
			phases = append(phases, fault{e.Seq, e.Class})
		case "hold":
			st.HeldOpeners[e.Class]++
		case "stop":
			if p := procs[e.Proc]; p != nil && p.exit == 0 {
				p.stops = append(p.stops, lockSpan{from: e.Seq, to: lockInf, how: e.Class})
				if p.firstProof() > 0 && p.keeps() && p.signal == 0 {
					st.SuspendedHolders[e.Class]++
				} else if p.firstProof() == 0 {
					st.SuspendedOpeners++
				}
			}
		case "cont":
			if p := procs[e.Proc]; p != nil && len(p.stops) > 0 && p.stops[len(p.stops)-1].to == lockInf {
				p.stops[len(p.stops)-1].to = e.Seq
			}
		case "signal":
			signals = append(signals, e)
			if p := procs[e.Proc]; p != nil && p.signal == 0 {
				p.signal, p.sig = e.Seq, e.Signal
				st.KillPoints[strings.ToLower(e.Signal)+"@"+p.stageAt(e.Seq)]++
			}
		case "exit":
			if p := procs[e.Proc]; p != nil && p.exit == 0 {
				p.exit, p.exitCode, p.killedBy, p.stderr, p.unexpected = e.Seq, e.ExitCode, e.KilledBy, e.Stderr, e.Unexpected
			}
		case "fault":
			faults = append(faults, fault{e.Seq, e.Class})
		case "pause":
			if p := procs[e.Proc]; p != nil && p.created == 0 && p.exit == 0 && p.firstProof() == 0 &&
				e.LockExists && e.LockContent == "" && soleLiveCreator(evs, p.id, p.spawn, e.Seq) {
				p.created = e.Seq
				st.CreatedWindows++
			}
		case "resume":
			if p := procs[e.Proc]; p != nil && p.created > 0 && p.resumed == 0 {
				p.resumed = e.Seq
			}
		case "observe":
			observes = append(observes, e)
			if e.LockExists {
				if v, err := strconv.Atoi(strings.TrimSpace(e.LockContent)); err == nil {
					if p := byPid[v]; p != nil && p.lockSeen == 0 && (p.exit == 0 || p.exit > e.Seq) {
						p.lockSeen = e.Seq
					}
				}
			}
		}
	}
	st.Processes = len(order)
	st.Observations = len(observes)
	tagAt := func(seq int) string {
		switch {
		case windowDelaySince < seq:
			return "toctou-window"
		case createdDelaySince < seq:
			return "created-window"
		case crossUidSince < seq:
			return "cross-uid"
		}
		tag := "plain"
		for _, ph := range phases {
			if ph.seq < seq {
				tag = ph.class
			}
		}
		return tag
	}
	// suspendedAt returns the suspension of p that covers [from, to], nil when there is none.
	suspendedAt := func(p *lockProc, from, to int) *lockSpan {
		for k := range p.stops {
			if sp := &p.stops[k]; sp.from < from && to < sp.to && to < p.end() {
				return sp
			}
		}
		return nil
	}

	// F1: two processes proven to be past the lock at the same time. A process that keeps the cache
	// (long-lived, or parked by a hook) holds it from its first proof to its signal/exit. A freely
	// running short-lived command lets go by itself at a moment the log does not show: it is only
	// known to hold the cache at the observations that show its pid in the lock file while it is
	// not yet gone.
	holdsAtObservation := func(p *lockProc, o *LockEvent) bool {
		return o.LockExists && strings.TrimSpace(o.LockContent) == strconv.Itoa(p.pid) && p.spawn < o.Seq && (p.exit == 0 || p.exit > o.Seq)
	}
	for i, p := range order {
		for _, q := range order[i+1:] {
			if !p.keeps() || !q.keeps() {
				k, f := p, q // k keeps, f runs freely
				if !k.keeps() {
					k, f = q, p
				}
				if !k.keeps() || k.firstProof() == 0 {
					continue
				}
				for n := range observes {
					o := &observes[n]
					if k.firstProof() < o.Seq && o.Seq < k.end() && holdsAtObservation(f, o) {
						find(o.Seq, "two-holders:"+tagAt(o.Seq),
							fmt.Sprintf("at observation %d (%s) the lock file holds the pid of the live %s while %s has the cache open since event %d and was neither signalled nor gone: "+
								"two live processes consider themselves holder of one cache", o.Seq, o.Tag, f, k, k.firstProof()))
						break
					}
				}
				continue
			}
			ps, qs := p.passed(), q.passed()
			if ps == 0 || qs == 0 {
				continue
			}
			start := ps
			if qs > start {
				start = qs
			}
			end := p.end()
			if q.end() < end {
				end = q.end()
			}
			if start < end {
				find(start, "two-holders:"+tagAt(start),
					fmt.Sprintf("%s and %s were both past the cache lock at event %d (proofs: %s at %d, %s at %d): "+
						"two live processes consider themselves holder of one cache", p, q, start, proofKind(p), ps, proofKind(q), qs))
			}
		}
	}

	// F2: every attempt against the slot.
	for _, a := range order {
		if !a.opens {
			continue
		}
		openEnd := a.firstProof()
		if openEnd == 0 {
			openEnd = a.exit
		}
		if openEnd == 0 {
			st.Unresolved++
			continue
		}
		if a.signal > 0 && a.signal < openEnd {
			// interrupted by the harness before it showed anything: no verdict about this attempt
			st.Unresolved++
			continue
		}
		st.Attempts++
		var definite, possible []*lockProc
		for _, p := range order {
			if p == a || !p.opens {
				continue
			}
			fp := p.firstProof()
			if fp > 0 && fp < a.spawn && p.end() > openEnd && p.keeps() {
				definite = append(definite, p)
				continue
			}
			if p.refusedBy() > 0 {
				continue
			}
			if p.spawn < openEnd && (p.exit == 0 || p.exit > a.spawn) {
				possible = append(possible, p)
			}
		}
		inSet := func(pid int, sets ...[]*lockProc) bool {
			for _, s := range sets {
				for _, p := range s {
					if p.pid == pid {
						return true
					}
				}
			}
			return false
		}
		// creators: live processes proven parked between the exclusive creation of the lock file
		// and the pid write during the whole attempt. The statement does not say what an opener is
		// told at that moment (the cache is not open yet): every failure is accepted. What can be
		// judged is the outcome "both were granted the cache".
		var creators []*lockProc
		for _, p := range order {
			if p != a && p.created > 0 && p.created < a.spawn && p.pauseEnd() > openEnd {
				creators = append(creators, p)
			}
		}
		if len(definite) == 0 && len(creators) > 0 {
			c := creators[0]
			st.CreatedWindowAttempts++
			switch {
			case a.opened():
				st.CreatedWindowOutcomes["opened"]++
				if c.firstProof() > 0 {
					find(openEnd, "two-holders:"+tagAt(openEnd),
						fmt.Sprintf("%s opened the cache (%s) while the live %s was stopped between its exclusive creation of the lock file and the write of its pid (events %d..%d); "+
							"after being resumed that process went on to open the cache as well (proof at event %d): both were granted the cache", a, a.howOpened(), c, c.created, c.pauseEnd(), c.firstProof()))
				}
			case a.refusedBy() > 0:
				st.CreatedWindowOutcomes["refused naming pid"]++
			case a.killedBy != "":
				st.CreatedWindowOutcomes["killed"]++
			default:
				st.CreatedWindowOutcomes["failed: "+lastLine(a.stderr)]++
			}
		}
		refused := a.refusedBy()
		lastEnd := "none"
		{
			best := 0
			for _, p := range order {
				if p != a && p.opens && p.opened() && p.exit > 0 && p.exit < a.spawn && p.exit > best {
					best, lastEnd = p.exit, p.howEnded()
				}
			}
			for _, f := range faults {
				if f.seq < a.spawn && f.seq > best {
					best, lastEnd = f.seq, f.class
				}
			}
		}
		switch {
		case len(definite) > 0:
			h := definite[0]
			if a.uid != h.uid {
				st.CrossUidAttempts++
			}
			if sp := suspendedAt(h, a.spawn, openEnd); sp != nil {
				st.SuspendedHolderAttempts[sp.how]++
				switch {
				case a.opened():
					st.SuspendedHolderOutcomes["opened"]++
				case refused == h.pid:
					st.SuspendedHolderOutcomes["refused naming the suspended holder"]++
				case refused > 0:
					st.SuspendedHolderOutcomes["refused naming another pid"]++
				case a.killedBy != "":
					st.SuspendedHolderOutcomes["killed"]++
				default:
					st.SuspendedHolderOutcomes["failed: "+noDigits(lastLine(a.stderr))]++
				}
			}
			switch {
			case a.opened():
				find(openEnd, "two-holders:"+tagAt(openEnd),
					fmt.Sprintf("%s opened the cache (exit %d, stage %s) while %s had it open since event %d and was neither signalled nor gone",
						a, a.exitCode, a.stageAt(lockInf), h, h.firstProof()))
			case refused > 0:
				st.Refusals++
				if inSet(refused, definite, possible) {
					st.RefusalsNamingPid++
				} else {
					find(a.exit, "refusal-misnames-holder",
						fmt.Sprintf("%s was refused naming pid %d, but the holder is %s; stderr: %s", a, refused, h, excerpt(a.stderr)))
				}
				// "changes nothing": compare the observations bracketing the attempt
				var before, after *LockEvent
				for k := range observes {
					o := &observes[k]
					if o.Seq < a.spawn {
						before = o
					}
					if o.Seq > a.exit && after == nil {
						after = o
					}
				}
				if before != nil && after != nil && quietBetween(evs, before.Seq, after.Seq, a.id) {
					st.RefusedUnchanged++
					if before.LockExists != after.LockExists || before.LockContent != after.LockContent {
						find(after.Seq, "refused-open-changed:lock",
							fmt.Sprintf("refused %s changed the lock file of live holder %s: before exists=%v %q, after exists=%v %q",
								a, h, before.LockExists, before.LockContent, after.LockExists, after.LockContent))
					}
					if before.Refs != after.Refs {
						find(after.Seq, "refused-open-changed:refs", fmt.Sprintf("refused %s changed the refs of the repository (for-each-ref digest %s -> %s)", a, before.Refs, after.Refs))
					}
					if d := diffFiles(before.Files, after.Files); d != "" {
						find(after.Seq, "refused-open-changed:files", fmt.Sprintf("refused %s changed files under .git/git-bug: %s", a, d))
					}
				}
			case a.killedBy != "":
				// crashed: not a lock verdict
			default:
				find(a.exit, "refusal-does-not-name-holder",
					fmt.Sprintf("%s failed (exit %d) while %s held the cache, but its stderr does not name the holder's pid: %s", a, a.exitCode, h, excerpt(a.stderr)))
			}
		case len(possible) == 0:
			switch {
			case refused > 0:
				how := "unknown-pid"
				if p := byPid[refused]; p != nil {
					how = p.howEnded()
				}
				find(a.exit, "open-refused-without-live-holder:after-"+how,
					fmt.Sprintf("%s was refused naming pid %d although no process of the schedule holds or may hold the cache (that process: %s); stderr: %s",
						a, refused, how, excerpt(a.stderr)))
			case a.opened():
				st.OpenedWhileFree++
				st.OpensAfter[lastEnd]++
			case a.benign && a.killedBy == "":
				find(a.exit, "open-failed-without-holder:after-"+lastEnd,
					fmt.Sprintf("%s failed with exit %d although nobody holds the cache (previous holder ended: %s); stderr: %s", a, a.exitCode, lastEnd, excerpt(a.stderr)))
			}
		default:
			st.Indeterminate++
			if refused > 0 {
				st.Refusals++
				if inSet(refused, possible) {
					st.RefusalsNamingPid++
				} else {
					find(a.exit, "refusal-misnames-holder",
						fmt.Sprintf("%s was refused naming pid %d, which is none of the processes that may hold the cache; stderr: %s", a, refused, excerpt(a.stderr)))
				}
			}
		}
	}

	// F3: a command that ended by itself (exit status, not killed) must not leave its lock.
	for _, p := range order {
		if !p.opens || p.exit == 0 || p.killedBy != "" {
			continue
		}
		var after *LockEvent
		for k := range observes {
			if observes[k].Seq > p.exit {
				after = &observes[k]
				break
			}
		}
		if after == nil {
			continue
		}
		st.SelfExitLockChecks++
		if after.LockExists && strings.TrimSpace(after.LockContent) == strconv.Itoa(p.pid) {
			class := p.class
			if p.signal > 0 && p.signal < p.exit {
				class += "-after-" + strings.ToLower(p.sig)
			}
			find(after.Seq, "lock-left-behind:"+class,
				fmt.Sprintf("%s exited on its own with status %d and left .git/git-bug/lock behind containing its pid; stderr: %s", p, p.exitCode, excerpt(p.stderr)))
		}
	}

	// F4: the lock of the one proven live holder must stay in place. Once two holders
	// have been reported, later lock-file anomalies are consequences of that, not news.
	twoHoldersAt := lockInf
	for _, f := range out {
		if strings.HasPrefix(f.Key, "two-holders:") && f.Seq < twoHoldersAt {
			twoHoldersAt = f.Seq
		}
	}
	// F4c: the lock file created by a live process that is stopped before it could write its pid
	// is the lock of a live process: while it is parked nobody may remove or replace it (the
	// parked process itself cannot touch it).
	for k := range observes {
		o := &observes[k]
		if o.Seq > twoHoldersAt {
			continue
		}
		for _, p := range order {
			if p.created == 0 || o.Seq < p.created || o.Seq > p.pauseEnd() {
				continue
			}
			st.CreatedWindowChecks++
			switch {
			case !o.LockExists:
				find(o.Seq, "live-lock-removed:"+tagAt(o.Seq),
					fmt.Sprintf("at observation %d (%s) the live %s is stopped since event %d between its exclusive creation of .git/git-bug/lock and the write of its pid, but the lock file it created does not exist any more", o.Seq, o.Tag, p, p.created))
			case o.LockContent != "":
				find(o.Seq, "live-lock-overwritten:"+tagAt(o.Seq),
					fmt.Sprintf("at observation %d (%s) the live %s is stopped since event %d between its exclusive creation of .git/git-bug/lock and the write of its pid, but the lock file now holds %q: its lock was replaced", o.Seq, o.Tag, p, p.created, o.LockContent))
			}
		}
	}
	for k := range observes {
		o := &observes[k]
		if o.Seq > twoHoldersAt {
			continue
		}
		var holders []*lockProc
		for _, p := range order {
			fp := p.firstProof()
			if fp > 0 && fp < o.Seq && p.end() > o.Seq && p.keeps() {
				holders = append(holders, p)
			}
		}
		if len(holders) != 1 {
			continue
		}
		h := holders[0]
		st.LiveLockChecks++
		if suspendedAt(h, o.Seq, o.Seq) != nil {
			st.SuspendedHolderChecks++
		}
		content := strings.TrimSpace(o.LockContent)
		switch {
		case !o.LockExists:
			find(o.Seq, "live-lock-removed:"+tagAt(o.Seq),
				fmt.Sprintf("at observation %d (%s) %s is alive and has the cache open (stage %s) but .git/git-bug/lock does not exist", o.Seq, o.Tag, h, h.stageAt(o.Seq)))
		case content != strconv.Itoa(h.pid):
			if v, err := strconv.Atoi(content); err == nil {
				if q := byPid[v]; q != nil && q.passed() > 0 && q.passed() <= o.Seq && q.end() > o.Seq {
					continue // reported as two-holders by F1
				}
			}
			find(o.Seq, "live-lock-overwritten:"+tagAt(o.Seq),
				fmt.Sprintf("at observation %d (%s) %s is alive and has the cache open but the lock file holds %q", o.Seq, o.Tag, h, content))
		}
	}
	// hand-over statistics (no verdict): who was still on its way when a proven holder was signalled
	for _, sg := range signals {
		h := procs[sg.Proc]
		if h == nil || h.signal != sg.Seq || h.ready == 0 || h.ready > sg.Seq {
			continue
		}
		n := 0
		for _, a := range order {
			if a == h || !a.opens || a.spawn > sg.Seq || a.spawn < h.ready {
				continue
			}
			if fp := a.firstProof(); fp > 0 && fp < sg.Seq {
				continue
			}
			if a.exit > 0 && a.exit < sg.Seq {
				continue
			}
			n++
			switch {
			case a.opened():
				st.HandoverOutcomes["granted the cache"]++
			case a.refusedBy() == h.pid:
				st.HandoverOutcomes["refused naming the closing holder"]++
			case a.refusedBy() > 0:
				st.HandoverOutcomes["refused naming another opener"]++
			case a.exit == 0:
				st.HandoverOutcomes["unresolved"]++
			case a.killedBy != "":
				st.HandoverOutcomes["killed"]++
			default:
				st.HandoverOutcomes["failed: "+noDigits(lastLine(a.stderr))]++
			}
		}
		if n > 0 {
			st.HandoverSignals++
			st.HandoverRacers += n
			if n > st.HandoverMaxRace {
				st.HandoverMaxRace = n
			}
		}
	}
	for _, a := range order {
		if !a.opens || !a.opened() {
			continue
		}
		for _, h := range order {
			if h != a && h.ready > 0 && h.ready < a.spawn && a.spawn < h.end() && h.end() != lockInf {
				st.GrantedAfterEnd++
				break
			}
		}
	}
	return out, st
}

// noDigits replaces every run of digits by N (pids in messages).
func noDigits(s string) string {
	var b strings.Builder
	in := false
	for _, r := range s {
		if r >= '0' && r <= '9' {
			if !in {
				b.WriteByte('N')
			}
			in = true
			continue
		}
		in = false
		b.WriteRune(r)
	}
	return b.String()
}

// pauseEnd = the moment from which a parked creator may run again (resume, signal or exit).
func (p *lockProc) pauseEnd() int {
	e := p.end()
	if p.resumed > 0 && p.resumed < e {
		e = p.resumed
	}
	return e
}

// soleLiveCreator says that in [spawn, at] process id is the only process of the schedule that is
// alive (every other one was reaped before spawn or spawned after at), that no fault put a lock
// file in place, and that the last observation before spawn saw no lock file: the lock file seen
// at `at` was then created by that process.
func soleLiveCreator(evs []LockEvent, id, spawn, at int) bool {
	exitOf := map[int]int{}
	for _, e := range evs {
		if e.Kind == "exit" {
			exitOf[e.Proc] = e.Seq
		}
	}
	absentBefore := false
	for _, e := range evs {
		switch {
		case e.Kind == "spawn" && e.Proc != id && e.Seq < at:
			if x := exitOf[e.Proc]; x == 0 || x > spawn {
				return false
			}
		case e.Kind == "fault" && e.Seq < at:
			return false
		case e.Kind == "observe" && e.Seq < spawn:
			absentBefore = !e.LockExists
		}
	}
	return absentBefore
}

func lastLine(s string) string {
	s = excerpt(s)
	if i := strings.LastIndexByte(s, '\n'); i >= 0 {
		s = s[i+1:]
	}
	if len(s) > 80 {
		s = s[:80]
	}
	return s
}

func proofKind(p *lockProc) string {
	switch ps := p.passed(); {
	case ps == p.ready:
		return "ready line"
	case ps == p.building:
		return "cache-build banner"
	case ps == p.index:
		return "index files open"
	default:
		return "its pid in the lock file"
	}
}

// quietBetween says that between the two observations only process `only` spawned, was signalled or exited.
func quietBetween(evs []LockEvent, lo, hi, only int) bool {
	for _, e := range evs {
		if e.Seq <= lo || e.Seq >= hi || e.Kind == "observe" {
			continue
		}
		if e.Proc != only {
			return false
		}
	}
	return true
}

func diffFiles(a, b map[string]string) string {
	var d []string
	for k, v := range a {
		if w, ok := b[k]; !ok {
			d = append(d, "-"+k)
		} else if w != v {
			d = append(d, "~"+k)
		}
	}
	for k := range b {
		if _, ok := a[k]; !ok {
			d = append(d, "+"+k)
		}
	}
	sort.Strings(d)
	return strings.Join(d, " ")
}
