package refmodel

import (
	"fmt"
	"sort"
)

// (b) Reference interpreter of bug operations, written from the statement of
// property C10:
//
//   - title and status are those of the last title / status change (or of creation);
//   - labels are a duplicate-free sorted set obtained by applying the additions
//     then the removals of each label change, in order;
//   - there is one comment per create / add-comment whose text and files are
//     those of the latest edit targeting it; edits of unknown targets (and of
//     targets that are not comments) change nothing;
//   - actors and participants list each author once;
//   - the timeline has one entry per state-changing operation, comment entries
//     carrying their full edit history;
//   - metadata attached later to an operation never overrides an existing key.
//
// Where the statement is silent the model records the latitude explicitly
// (FilesKnown=false, Optional timeline entries, may-/must- author sets).

// BugOp is an operation as data. Id and author ids are opaque strings.
type BugOp struct {
	Kind    string            `json:"kind"` // create|comment|edit|title|status|labels|metadata|noop
	Id      string            `json:"id"`
	Author  string            `json:"author"`
	Title   string            `json:"title,omitempty"`
	Message string            `json:"message,omitempty"`
	Files   []string          `json:"files,omitempty"`
	Target  string            `json:"target,omitempty"` // edit, metadata
	Status  string            `json:"status,omitempty"` // "open" | "closed"
	Added   []string          `json:"added,omitempty"`
	Removed []string          `json:"removed,omitempty"`
	Meta    map[string]string `json:"meta,omitempty"`     // metadata carried by the operation itself
	NewMeta map[string]string `json:"new_meta,omitempty"` // payload of a metadata operation
}

// BugComment is one expected comment.
type BugComment struct {
	OpId    string
	Author  string
	Message string
	Files   []string
	// FilesKnown is false while the statement does not determine the files
	// (creation comment that was never edited).
	FilesKnown bool
}

// BugTimelineEntry is one expected timeline entry.
type BugTimelineEntry struct {
	OpId   string
	Kind   string // create|comment|title|status|labels
	Author string
	// Optional: the operation is of a state-changing kind but did not change
	// anything (same title, same status, label change without effect); the
	// statement does not say whether such an operation has an entry.
	Optional bool
	// comment entries
	History    []string // every version of the text, oldest first
	Message    string
	Files      []string
	FilesKnown bool
	// other entries
	Title   string
	Status  string
	Added   []string
	Removed []string
}

// BugState is the expected compiled state.
type BugState struct {
	Created  bool
	Title    string
	Status   string
	Labels   []string
	Comments []BugComment
	Timeline []BugTimelineEntry
	Creator  string

	// Authors in order of first appearance.
	MustActors       []string // authors of operations that changed the state
	MustParticipants []string // authors of create / add-comment
	AnyAuthors       []string // everybody who authored an operation of the bug
	// EffectiveAuthors authored at least one operation other than an edit whose target is not a comment
	// of the bug; the others only authored edits that "change nothing".
	EffectiveAuthors []string
	// UnknownTargetOnly / NonCommentTargetOnly classify the ineffective edits of an author (by author).
	IneffectiveKinds map[string]map[string]bool

	OpIds  []string
	OpMeta map[string]map[string]string // per operation: the metadata one must observe
	// MetaOverridden lists (op, key) pairs for which a later metadata operation
	// tried to give a different value: the interesting cases of the last clause.
	OverrideAttempts int
	IneffectiveEdits int
}

// IneffectiveOnlyAuthors lists the authors all of whose operations are edits that change nothing.
func (s *BugState) IneffectiveOnlyAuthors() []string {
	var out []string
	for _, a := range s.AnyAuthors {
		if !contains(s.EffectiveAuthors, a) {
			out = append(out, a)
		}
	}
	return out
}

// NewBugState returns the state before any operation.
func NewBugState() *BugState {
	return &BugState{Status: "open", OpMeta: map[string]map[string]string{}}
}

func addOnce(l []string, v string) []string {
	for _, x := range l {
		if x == v {
			return l
		}
	}
	return append(l, v)
}

func copyStrings(s []string) []string {
	if len(s) == 0 {
		return nil
	}
	return append([]string(nil), s...)
}

// Apply interprets one operation. It returns an error for sequences outside
// the quantifier of the property (no create first, second create).
func (s *BugState) Apply(op BugOp) error {
	if !s.Created && op.Kind != "create" {
		return fmt.Errorf("first operation must be a create")
	}
	if s.Created && op.Kind == "create" {
		return fmt.Errorf("second create")
	}
	if _, dup := s.OpMeta[op.Id]; dup {
		return fmt.Errorf("duplicate operation id %s", op.Id)
	}
	s.OpIds = append(s.OpIds, op.Id)
	own := map[string]string{}
	for k, v := range op.Meta {
		own[k] = v
	}
	s.OpMeta[op.Id] = own
	s.AnyAuthors = addOnce(s.AnyAuthors, op.Author)
	if op.Kind != "edit" {
		s.EffectiveAuthors = addOnce(s.EffectiveAuthors, op.Author)
	}

	switch op.Kind {
	case "create":
		s.Created = true
		s.Creator = op.Author
		s.Title = op.Title
		s.Status = "open"
		s.Comments = append(s.Comments, BugComment{OpId: op.Id, Author: op.Author, Message: op.Message, Files: copyStrings(op.Files), FilesKnown: false})
		s.Timeline = append(s.Timeline, BugTimelineEntry{OpId: op.Id, Kind: "create", Author: op.Author, History: []string{op.Message}, Message: op.Message, Files: copyStrings(op.Files), FilesKnown: false})
		s.MustActors = addOnce(s.MustActors, op.Author)
		s.MustParticipants = addOnce(s.MustParticipants, op.Author)

	case "comment":
		s.Comments = append(s.Comments, BugComment{OpId: op.Id, Author: op.Author, Message: op.Message, Files: copyStrings(op.Files), FilesKnown: true})
		s.Timeline = append(s.Timeline, BugTimelineEntry{OpId: op.Id, Kind: "comment", Author: op.Author, History: []string{op.Message}, Message: op.Message, Files: copyStrings(op.Files), FilesKnown: true})
		s.MustActors = addOnce(s.MustActors, op.Author)
		s.MustParticipants = addOnce(s.MustParticipants, op.Author)

	case "edit":
		hit := false
		for i := range s.Comments {
			if s.Comments[i].OpId == op.Target {
				s.Comments[i].Message = op.Message
				s.Comments[i].Files = copyStrings(op.Files)
				s.Comments[i].FilesKnown = true
				hit = true
			}
		}
		for i := range s.Timeline {
			t := &s.Timeline[i]
			if t.OpId == op.Target && (t.Kind == "create" || t.Kind == "comment") {
				t.History = append(t.History, op.Message)
				t.Message = op.Message
				t.Files = copyStrings(op.Files)
				t.FilesKnown = true
			}
		}
		if hit {
			s.MustActors = addOnce(s.MustActors, op.Author)
			s.EffectiveAuthors = addOnce(s.EffectiveAuthors, op.Author)
		} else {
			s.IneffectiveEdits++
			if s.IneffectiveKinds == nil {
				s.IneffectiveKinds = map[string]map[string]bool{}
			}
			if s.IneffectiveKinds[op.Author] == nil {
				s.IneffectiveKinds[op.Author] = map[string]bool{}
			}
			kind := "unknown-target"
			if _, isOp := s.OpMeta[op.Target]; isOp {
				kind = "non-comment-target"
			}
			s.IneffectiveKinds[op.Author][kind] = true
		}

	case "title":
		changed := s.Title != op.Title
		s.Title = op.Title
		s.Timeline = append(s.Timeline, BugTimelineEntry{OpId: op.Id, Kind: "title", Author: op.Author, Title: op.Title, Optional: !changed})
		if changed {
			s.MustActors = addOnce(s.MustActors, op.Author)
		}

	case "status":
		changed := s.Status != op.Status
		s.Status = op.Status
		s.Timeline = append(s.Timeline, BugTimelineEntry{OpId: op.Id, Kind: "status", Author: op.Author, Status: op.Status, Optional: !changed})
		if changed {
			s.MustActors = addOnce(s.MustActors, op.Author)
		}

	case "labels":
		before := append([]string(nil), s.Labels...)
		set := map[string]bool{}
		for _, l := range s.Labels {
			set[l] = true
		}
		for _, l := range op.Added {
			set[l] = true
		}
		for _, l := range op.Removed {
			delete(set, l)
		}
		s.Labels = s.Labels[:0:0]
		for l := range set {
			s.Labels = append(s.Labels, l)
		}
		sort.Strings(s.Labels)
		changed := len(before) != len(s.Labels)
		for i := 0; !changed && i < len(before); i++ {
			changed = before[i] != s.Labels[i]
		}
		s.Timeline = append(s.Timeline, BugTimelineEntry{OpId: op.Id, Kind: "labels", Author: op.Author, Added: copyStrings(op.Added), Removed: copyStrings(op.Removed), Optional: !changed})
		if changed {
			s.MustActors = addOnce(s.MustActors, op.Author)
		}

	case "metadata":
		if op.Target != op.Id {
			if m, ok := s.OpMeta[op.Target]; ok {
				for k, v := range op.NewMeta {
					if old, exists := m[k]; exists {
						if old != v {
							s.OverrideAttempts++
						}
						continue
					}
					m[k] = v
				}
			}
		}

	case "noop":
		// nothing

	default:
		return fmt.Errorf("unknown operation kind %q", op.Kind)
	}
	return nil
}

// Interpret folds Apply over ops.
func Interpret(ops []BugOp) (*BugState, error) {
	s := NewBugState()
	for i, op := range ops {
		if err := s.Apply(op); err != nil {
			return nil, fmt.Errorf("op %d: %w", i, err)
		}
	}
	return s, nil
}

// ObservedComment / ObservedTimeline / ObservedBug are the neutral form in which
// a monitor hands over what the implementation produced.
type ObservedComment struct {
	OpId    string
	Author  string
	Message string
	Files   []string
}

type ObservedTimeline struct {
	OpId    string
	Kind    string
	Author  string
	Message string
	Files   []string
	History []string
	Title   string
	Status  string
	Added   []string
	Removed []string
}

type ObservedBug struct {
	Title        string
	Status       string
	Labels       []string
	Comments     []ObservedComment
	Timeline     []ObservedTimeline
	Actors       []string
	Participants []string
	Creator      string
	OpIds        []string
	OpMeta       map[string]map[string]string
}

// Mismatch is one disagreement; Component is a short stable name.
type Mismatch struct {
	Component string
	Detail    string
}

func sameStrings(a, b []string) bool {
	if len(a) != len(b) {
		return false
	}
	for i := range a {
		if a[i] != b[i] {
			return false
		}
	}
	return true
}

func contains(l []string, v string) bool {
	for _, x := range l {
		if x == v {
			return true
		}
	}
	return false
}

func firstDup(l []string) (string, bool) {
	seen := map[string]bool{}
	for _, x := range l {
		if seen[x] {
			return x, true
		}
		seen[x] = true
	}
	return "", false
}

// Compare lists every disagreement between the expected state and an observation.
func (s *BugState) Compare(o ObservedBug) []Mismatch {
	var out []Mismatch
	add := func(c, f string, a ...any) { out = append(out, Mismatch{c, fmt.Sprintf(f, a...)}) }

	if o.Title != s.Title {
		add("title", "title %q, expected %q (last setter)", o.Title, s.Title)
	}
	if o.Status != s.Status {
		add("status", "status %q, expected %q (last setter)", o.Status, s.Status)
	}
	if d, dup := firstDup(o.Labels); dup {
		add("labels-duplicate", "label %q listed twice in %v", d, o.Labels)
	}
	if !sort.StringsAreSorted(o.Labels) {
		add("labels-unsorted", "labels %v are not sorted", o.Labels)
	}
	{
		got := append([]string(nil), o.Labels...)
		sort.Strings(got)
		if !sameStrings(got, s.Labels) {
			add("labels-set", "labels %v, expected %v", o.Labels, s.Labels)
		}
	}
	if o.Creator != s.Creator {
		add("creator", "bug author %q, expected %q", o.Creator, s.Creator)
	}
	if !sameStrings(o.OpIds, s.OpIds) {
		add("operations", "snapshot lists operations %v, expected %v", o.OpIds, s.OpIds)
	}

	// comments
	if len(o.Comments) != len(s.Comments) {
		add("comment-count", "%d comments, expected %d (one per create/add-comment)", len(o.Comments), len(s.Comments))
	} else {
		for i, want := range s.Comments {
			got := o.Comments[i]
			if got.OpId != want.OpId {
				add("comment-order", "comment %d belongs to operation %s, expected %s", i, got.OpId, want.OpId)
				continue
			}
			if got.Author != want.Author {
				add("comment-author", "comment %d author %s, expected %s", i, got.Author, want.Author)
			}
			if got.Message != want.Message {
				add("comment-message", "comment %d (%s) message %q, expected %q (latest edit targeting it)", i, want.OpId, got.Message, want.Message)
			}
			if want.FilesKnown && !sameStrings(got.Files, want.Files) {
				add("comment-files", "comment %d (%s) files %v, expected %v (latest edit targeting it)", i, want.OpId, got.Files, want.Files)
			}
		}
	}

	// timeline: observed must be expected minus some optional entries
	{
		j := 0
		bad := false
		for _, want := range s.Timeline {
			if j < len(o.Timeline) && o.Timeline[j].OpId == want.OpId {
				got := o.Timeline[j]
				j++
				if got.Kind != want.Kind {
					add("timeline-kind", "timeline entry of %s is %q, expected %q", want.OpId, got.Kind, want.Kind)
					continue
				}
				if got.Author != want.Author {
					add("timeline-author", "timeline entry of %s has author %s, expected %s", want.OpId, got.Author, want.Author)
				}
				switch want.Kind {
				case "create", "comment":
					if !sameStrings(got.History, want.History) {
						add("timeline-history", "timeline entry of %s has history %q, expected %q", want.OpId, got.History, want.History)
					}
					if got.Message != want.Message {
						add("timeline-message", "timeline entry of %s has message %q, expected %q", want.OpId, got.Message, want.Message)
					}
					if want.FilesKnown && !sameStrings(got.Files, want.Files) {
						add("timeline-files", "timeline entry of %s has files %v, expected %v", want.OpId, got.Files, want.Files)
					}
				case "title":
					if got.Title != want.Title {
						add("timeline-title", "timeline entry of %s has title %q, expected %q", want.OpId, got.Title, want.Title)
					}
				case "status":
					if got.Status != want.Status {
						add("timeline-status", "timeline entry of %s has status %q, expected %q", want.OpId, got.Status, want.Status)
					}
				case "labels":
					if !sameStrings(got.Added, want.Added) || !sameStrings(got.Removed, want.Removed) {
						add("timeline-labels", "timeline entry of %s has +%v -%v, expected +%v -%v", want.OpId, got.Added, got.Removed, want.Added, want.Removed)
					}
				}
				continue
			}
			if want.Optional {
				continue
			}
			bad = true
			add("timeline-missing", "no timeline entry for state-changing operation %s (%s) at its position", want.OpId, want.Kind)
			break
		}
		if !bad && j < len(o.Timeline) {
			add("timeline-extra", "timeline entry for %s (%s) that corresponds to no state-changing operation at this position", o.Timeline[j].OpId, o.Timeline[j].Kind)
		}
	}

	// actors, participants
	if d, dup := firstDup(o.Actors); dup {
		add("actors-duplicate", "actor %s listed twice in actors %v (authors that must be listed: %v)", d, o.Actors, s.MustActors)
	}
	if d, dup := firstDup(o.Participants); dup {
		add("participants-duplicate", "participant %s listed twice in participants %v (authors that must be listed: %v)", d, o.Participants, s.MustParticipants)
	}
	for _, p := range o.Participants {
		if !contains(o.Actors, p) {
			add("participant-not-actor", "participant %s is not an actor", p)
		}
		if !contains(s.AnyAuthors, p) {
			add("participant-stranger", "participant %s authored no operation of the bug", p)
		}
	}
	for _, a := range o.Actors {
		if !contains(s.AnyAuthors, a) {
			add("actor-stranger", "actor %s authored no operation of the bug", a)
		}
	}
	// an edit whose target is not a comment of the bug changes nothing: it does not make its author an actor
	for _, a := range s.IneffectiveOnlyAuthors() {
		kind := "unknown-target"
		if s.IneffectiveKinds[a]["non-comment-target"] {
			kind = "non-comment-target"
		}
		if contains(o.Actors, a) {
			add("actor-from-ineffective-edit:"+kind, "author %s only authored edits that change nothing (%s) but is listed as actor", a, kind)
		}
		if contains(o.Participants, a) {
			add("participant-from-ineffective-edit:"+kind, "author %s only authored edits that change nothing (%s) but is listed as participant", a, kind)
		}
	}
	for _, a := range s.MustActors {
		if !contains(o.Actors, a) {
			add("actor-missing", "author %s of a state-changing operation is not an actor: actors %v, authors of state-changing operations %v", a, o.Actors, s.MustActors)
		}
	}
	for _, p := range s.MustParticipants {
		if !contains(o.Participants, p) {
			add("participant-missing", "author %s of a create/add-comment is not a participant: participants %v, authors of create/add-comment %v", p, o.Participants, s.MustParticipants)
		}
	}

	// metadata
	for _, id := range s.OpIds {
		want := s.OpMeta[id]
		got, ok := o.OpMeta[id]
		if !ok {
			continue // operation list mismatch already reported
		}
		keys := make([]string, 0, len(want))
		for k := range want {
			keys = append(keys, k)
		}
		sort.Strings(keys)
		for _, k := range keys {
			gv, has := got[k]
			switch {
			case !has:
				add("metadata-missing", "operation %s lacks metadata key %q (expected %q)", id, k, want[k])
			case gv != want[k]:
				add("metadata-overridden", "operation %s has %q=%q, expected %q (first value wins)", id, k, gv, want[k])
			}
		}
		for k := range got {
			if _, has := want[k]; !has {
				add("metadata-extra", "operation %s has metadata key %q=%q that nothing attached to it", id, k, got[k])
			}
		}
	}
	return out
}
