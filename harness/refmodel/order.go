package refmodel

import (
	"fmt"
	"sort"

	"verif/harness/gitraw"
)

// OrderVerdict is the model's answer for one stored history.
type OrderVerdict struct {
	MustRefuse bool
	Reason     string
	Order      []string // operation ids, when the history is acceptable
}

// MaxHop is the documented limit of a non-merge edit-clock hop.
const MaxHop = 1_000_000

// Order evaluates the documented ordering rules on a raw history:
// refusal rules first (clock vs ancestry, far jump on non-merge commits, number
// of roots, creation time on the root, merge commits with operations), then the
// total order by (edit time, pack id) with packs' operations in stored order.
// It only looks at structure and clocks; payload validity is not its business.
func Order(h *gitraw.History) OrderVerdict {
	roots := h.Roots()
	if len(roots) != 1 {
		return OrderVerdict{MustRefuse: true, Reason: fmt.Sprintf("%d roots", len(roots))}
	}
	if h.Commits[roots[0]].CreateTime == 0 {
		return OrderVerdict{MustRefuse: true, Reason: "root without creation time"}
	}
	for _, c := range h.Commits {
		if len(c.Parents) > 1 && len(c.Ops) > 0 {
			return OrderVerdict{MustRefuse: true, Reason: "merge commit with operations"}
		}
		for _, p := range c.Parents {
			pc := h.Commits[p]
			if pc.EditTime >= c.EditTime {
				return OrderVerdict{MustRefuse: true, Reason: "parent edit time >= child edit time"}
			}
			if len(c.Parents) == 1 && c.EditTime-pc.EditTime > MaxHop {
				return OrderVerdict{MustRefuse: true, Reason: "non-merge clock hop > 1000000"}
			}
		}
	}
	commits := make([]*gitraw.Commit, 0, len(h.Commits))
	for _, c := range h.Commits {
		commits = append(commits, c)
	}
	sort.Slice(commits, func(i, j int) bool {
		if commits[i].EditTime != commits[j].EditTime {
			return commits[i].EditTime < commits[j].EditTime
		}
		return commits[i].PackId < commits[j].PackId
	})
	var order []string
	for _, c := range commits {
		for _, o := range c.Ops {
			order = append(order, o.Id)
		}
	}
	return OrderVerdict{Order: order}
}

// CheckCausal verifies the three ordering clauses on an observed operation
// order directly (independently of Order's sort): ancestors first, stored
// order inside a pack, concurrent packs by (edit time, pack id). Returns ""
// when all hold.
func CheckCausal(h *gitraw.History, observed []string) string {
	pos := map[string]int{}
	for i, id := range observed {
		if _, dup := pos[id]; dup {
			return "operation " + id[:8] + " appears twice"
		}
		pos[id] = i
	}
	stored := 0
	for _, c := range h.Commits {
		stored += len(c.Ops)
		for _, o := range c.Ops {
			if _, ok := pos[o.Id]; !ok {
				return "stored operation " + o.Id[:8] + " missing from the order"
			}
		}
	}
	if stored != len(observed) {
		return fmt.Sprintf("%d operations observed, %d stored", len(observed), stored)
	}
	anc := h.Ancestors()
	// first/last position per commit
	first := map[string]int{}
	last := map[string]int{}
	for k, c := range h.Commits {
		if len(c.Ops) == 0 {
			continue
		}
		first[k], last[k] = pos[c.Ops[0].Id], pos[c.Ops[len(c.Ops)-1].Id]
		for i := 1; i < len(c.Ops); i++ {
			if pos[c.Ops[i].Id] != pos[c.Ops[i-1].Id]+1 {
				return "operations of pack " + c.PackId[:8] + " are not contiguous in stored order"
			}
		}
	}
	keys := make([]string, 0, len(first))
	for k := range first {
		keys = append(keys, k)
	}
	for _, a := range keys {
		for _, b := range keys {
			if a == b {
				continue
			}
			ca, cb := h.Commits[a], h.Commits[b]
			switch {
			case anc[b][a]: // a is an ancestor of b
				if last[a] > first[b] {
					return fmt.Sprintf("pack %s placed after its descendant %s", ca.PackId[:8], cb.PackId[:8])
				}
			case anc[a][b]:
			default: // concurrent
				less := ca.EditTime < cb.EditTime || (ca.EditTime == cb.EditTime && ca.PackId < cb.PackId)
				if ca.EditTime == cb.EditTime && ca.PackId == cb.PackId {
					continue
				}
				if less && last[a] > first[b] {
					return fmt.Sprintf("concurrent packs %s(t=%d) and %s(t=%d) not ordered by (edit time, pack id)", ca.PackId[:8], ca.EditTime, cb.PackId[:8], cb.EditTime)
				}
			}
		}
	}
	return ""
}
