package checks

import (
	"fmt"
	"math/rand"
	"reflect"
	"strings"
	"time"

	"github.com/MichaelMure/git-bug/entities/bug"
	"github.com/MichaelMure/git-bug/entity"
	"github.com/MichaelMure/git-bug/repository"

	"verif/harness/gitraw"
	"verif/harness/mon"
	"verif/harness/refmodel"
	"verif/harness/world"
)

// DagCase is one hand-crafted history.
type DagCase struct {
	Name    string              `json:"name"`
	Commits []world.CraftCommit `json:"commits"`
	Perturb string              `json:"perturb"` // "" = none
	At      int                 `json:"at"`
	Intent  string              `json:"intent"` // accept | refuse (generator's intent, cross-checked with the model)
	Swap    bool                `json:"swap_merge_parents"`
}

// DagResult is what the child observed.
type DagResult struct {
	ModelRefuse  bool     `json:"model_refuse"`
	ModelReason  string   `json:"model_reason"`
	Findings     []string `json:"findings"` // "key|what"
	Accepted     bool     `json:"accepted"`
	ReadErr      string   `json:"read_err"`
	MergeStatus  string   `json:"merge_status"`
	Shape        string   `json:"shape"`
	HarnessError string   `json:"harness_error"`
}

// enumShapes lists all parent structures with n commits where every commit is an
// ancestor of the last one; commit i>0 has one or two distinct parents among 0..i-1.
func enumShapes(n int) [][][]int {
	var out [][][]int
	cur := make([][]int, n)
	var rec func(i int)
	rec = func(i int) {
		if i == n {
			// reachability from head
			reach := make([]bool, n)
			var visit func(k int)
			visit = func(k int) {
				if reach[k] {
					return
				}
				reach[k] = true
				for _, p := range cur[k] {
					visit(p)
				}
			}
			visit(n - 1)
			for _, r := range reach {
				if !r {
					return
				}
			}
			cp := make([][]int, n)
			for k := range cur {
				cp[k] = append([]int{}, cur[k]...)
			}
			out = append(out, cp)
			return
		}
		for p := 0; p < i; p++ {
			cur[i] = []int{p}
			rec(i + 1)
		}
		for p := 0; p < i; p++ {
			for q := p + 1; q < i; q++ {
				// a merge of a commit with its own ancestor is something git-bug never produces, but it is
				// still a legal DAG; keep it.
				cur[i] = []int{p, q}
				rec(i + 1)
			}
		}
	}
	cur[0] = nil
	rec(1)
	return out
}

// clockAssign gives edit times consistent with ancestry. mode 0: longest-path depth
// (maximal ties between concurrent commits); mode 1: random gaps; mode 2: depth, with
// merge commits jumping far (allowed).
func clockAssign(parents [][]int, mode int, rng *rand.Rand) []uint64 {
	n := len(parents)
	t := make([]uint64, n)
	for i := 0; i < n; i++ {
		var m uint64
		for _, p := range parents[i] {
			if t[p] > m {
				m = t[p]
			}
		}
		switch mode {
		case 0:
			t[i] = m + 1
		case 1:
			t[i] = m + 1 + uint64(rng.Intn(5))
		case 2:
			t[i] = m + 1
			if len(parents[i]) > 1 {
				t[i] = m + 2_000_000
			}
		}
	}
	return t
}

func buildDagCase(parents [][]int, times []uint64, rng *rand.Rand) DagCase {
	c := DagCase{Intent: "accept"}
	for i, ps := range parents {
		cc := world.CraftCommit{Parents: ps, Edit: times[i], NOps: 1 + rng.Intn(3)}
		if i == 0 {
			cc.Create = 1 + uint64(rng.Intn(3))
		}
		if len(ps) > 1 {
			cc.NOps = 0
		}
		c.Commits = append(c.Commits, cc)
	}
	return c
}

// perturbations returns the must-refuse (and boundary must-accept) variants of a valid case.
func perturbations(base DagCase) []DagCase {
	var out []DagCase
	clone := func() DagCase {
		c := base
		c.Commits = make([]world.CraftCommit, len(base.Commits))
		for i, cc := range base.Commits {
			cc.Parents = append([]int{}, cc.Parents...)
			c.Commits[i] = cc
		}
		return c
	}
	maxParent := func(c DagCase, i int) uint64 {
		var m uint64
		for _, p := range c.Commits[i].Parents {
			if c.Commits[p].Edit > m {
				m = c.Commits[p].Edit
			}
		}
		return m
	}
	// shift raises the clocks of every descendant of `from` so that only the intended edge is perturbed
	shift := func(c *DagCase, from int, delta uint64) {
		for j := from + 1; j < len(c.Commits); j++ {
			for _, p := range c.Commits[j].Parents {
				if c.Commits[p].Edit >= c.Commits[j].Edit {
					c.Commits[j].Edit = c.Commits[p].Edit + 1
				}
			}
		}
		_ = delta
	}
	n := len(base.Commits)
	for i := 0; i < n; i++ {
		isMerge := len(base.Commits[i].Parents) > 1
		if i > 0 {
			c := clone()
			c.Perturb, c.At, c.Intent = "edit-equal-parent", i, "refuse"
			c.Commits[i].Edit = maxParent(c, i)
			out = append(out, c)

			if maxParent(base, i) > 1 {
				c = clone()
				c.Perturb, c.At, c.Intent = "edit-below-parent", i, "refuse"
				c.Commits[i].Edit = maxParent(c, i) - 1
				out = append(out, c)
			}
			if !isMerge {
				c = clone()
				c.Perturb, c.At, c.Intent = "far-jump", i, "refuse"
				c.Commits[i].Edit = maxParent(c, i) + refmodel.MaxHop + 1
				shift(&c, i, 0)
				out = append(out, c)

				// the limit applies to every commit that is not a merge, whatever its pack holds
				c = clone()
				c.Perturb, c.At, c.Intent = "far-jump-on-empty-pack", i, "refuse"
				c.Commits[i].Edit = maxParent(c, i) + refmodel.MaxHop + 5_000_000_000
				c.Commits[i].NOps = 0
				shift(&c, i, 0)
				out = append(out, c)

				c = clone()
				c.Perturb, c.At, c.Intent = "jump-at-limit", i, "accept"
				c.Commits[i].Edit = maxParent(c, i) + refmodel.MaxHop
				shift(&c, i, 0)
				out = append(out, c)

				c = clone()
				c.Perturb, c.At, c.Intent = "second-root", i, "model" // cutting may leave the old root unreachable: the model decides
				c.Commits[i].Parents = nil
				c.Commits[i].Create = 1
				// the cut-off ancestors may become unreachable; keep the case only if the head still
				// reaches the original root (otherwise the history simply has another, payload-less, root)
				if reachesRoot(c) {
					c.Intent = "refuse"
					out = append(out, c)
				}
			} else {
				c = clone()
				c.Perturb, c.At, c.Intent = "merge-with-ops", i, "refuse"
				c.Commits[i].NOps = 1
				out = append(out, c)

				c = clone()
				c.Perturb, c.At, c.Intent = "merge-far-jump", i, "accept"
				c.Commits[i].Edit = maxParent(c, i) + 5_000_000
				shift(&c, i, 0)
				out = append(out, c)

				// a merge commit with more than two parents is still a merge commit: same rules
				if i >= 3 {
					third := -1
					for k := 0; k < i; k++ {
						if k != base.Commits[i].Parents[0] && k != base.Commits[i].Parents[1] {
							third = k
						}
					}
					if third >= 0 {
						c = clone()
						c.Perturb, c.At, c.Intent = "three-parent-merge-with-ops", i, "refuse"
						c.Commits[i].Parents = append(c.Commits[i].Parents, third)
						c.Commits[i].NOps = 1
						out = append(out, c)

						c = clone()
						c.Perturb, c.At, c.Intent = "three-parent-merge", i, "model"
						c.Commits[i].Parents = append(c.Commits[i].Parents, third)
						out = append(out, c)

						if maxParent(base, i) > 1 {
							c = clone()
							c.Perturb, c.At, c.Intent = "three-parent-merge-below-a-parent", i, "refuse"
							c.Commits[i].Parents = append(c.Commits[i].Parents, third)
							c.Commits[i].Edit = maxParent(c, i) - 1
							out = append(out, c)
						}
					}
				}

				// a merge commit may jump arbitrarily far: past 2^63 the edit times only compare
				// correctly as unsigned 64-bit values
				c = clone()
				c.Perturb, c.At, c.Intent = "merge-jump-past-2^63", i, "accept"
				c.Commits[i].Edit = maxParent(c, i) + (1 << 63) + 10
				shift(&c, i, 0)
				out = append(out, c)
			}
			if !isMerge {
				// the creation time belongs to the root commit: a create clock on a later commit does not replace it
				c := clone()
				c.Perturb, c.At, c.Intent = "create-clock-only-on-later-commit", i, "refuse"
				c.Commits[0].Create = 0
				c.Commits[i].Create = 1
				out = append(out, c)
			}
		} else {
			c := clone()
			c.Perturb, c.At, c.Intent = "root-without-create", 0, "refuse"
			c.Commits[0].Create = 0
			out = append(out, c)
		}
	}
	return out
}

func reachesRoot(c DagCase) bool {
	seen := map[int]bool{}
	var visit func(k int)
	visit = func(k int) {
		if seen[k] {
			return
		}
		seen[k] = true
		for _, p := range c.Commits[k].Parents {
			visit(p)
		}
	}
	visit(len(c.Commits) - 1)
	return seen[0]
}

func c03Cases(r *mon.Run) []DagCase {
	var out []DagCase
	maxN := r.Pick(5, 6)
	idx := 0
	for n := 1; n <= maxN; n++ {
		for _, shape := range enumShapes(n) {
			for mode := 0; mode < 3; mode++ {
				idx++
				rng := mon.Rng(r.Seed, "c03", idx)
				base := buildDagCase(shape, clockAssign(shape, mode, rng), rng)
				base.Name = fmt.Sprintf("n%d-s%d-m%d", n, idx, mode)
				out = append(out, base)
				if mode == 0 {
					sw := base
					sw.Swap = true
					sw.Name += "-swap"
					out = append(out, sw)
					for _, p := range perturbations(base) {
						if !r.Thorough() && n == maxN && idx%3 != 0 {
							continue
						}
						p.Name = fmt.Sprintf("%s-%s@%d", base.Name, p.Perturb, p.At)
						out = append(out, p)
					}
				}
			}
		}
	}
	// a sample of 7-commit shapes
	big := enumShapes(7)
	nBig := r.Pick(40, 1500)
	for k := 0; k < nBig; k++ {
		rng := mon.Rng(r.Seed, "c03-big", k)
		shape := big[rng.Intn(len(big))]
		base := buildDagCase(shape, clockAssign(shape, rng.Intn(3), rng), rng)
		base.Name = fmt.Sprintf("n7-k%d", k)
		out = append(out, base)
		ps := perturbations(base)
		p := ps[rng.Intn(len(ps))]
		p.Name = fmt.Sprintf("%s-%s@%d", base.Name, p.Perturb, p.At)
		out = append(out, p)
	}
	return out
}

// runDagCase writes the history into a fresh go-git repository (as a local ref and as a
// remote-tracking ref of remote "x") and into the in-memory backend, reads it through
// bug.Read / bug.ReadAll / bug.MergeAll and compares with the model.
func runDagCase(c DagCase) DagResult {
	res := DagResult{}
	fail := func(key, what string) { res.Findings = append(res.Findings, key+"|"+what) }
	dir := world.ScratchDir("dag-")
	rep, err := world.InitRepo(dir+"/r", false)
	if err != nil {
		res.HarnessError = err.Error()
		return res
	}
	defer func() { _ = rep.Repo.Close(); _ = removeAll(dir) }()
	author, err := rep.NewAuthor("crafter")
	if err != nil {
		res.HarnessError = err.Error()
		return res
	}
	commits := c.Commits
	if c.Swap {
		commits = make([]world.CraftCommit, len(c.Commits))
		for i, cc := range c.Commits {
			if len(cc.Parents) == 2 {
				cc.Parents = []int{cc.Parents[1], cc.Parents[0]}
			}
			commits[i] = cc
		}
	}
	hashes, eid, err := world.CraftHistory(rep.Repo, author, commits, c.Name)
	if err != nil || eid == "" {
		res.HarnessError = fmt.Sprintf("craft: %v (id %q)", err, eid)
		return res
	}
	head := hashes[len(hashes)-1]
	id := entity.Id(eid)
	remoteRef := "refs/remotes/x/bugs/" + eid
	if err := rep.Repo.UpdateRef(remoteRef, head); err != nil {
		res.HarnessError = err.Error()
		return res
	}
	h, ok, err := gitraw.ReadRef(rep.Repo, remoteRef)
	if !ok || err != nil {
		res.HarnessError = fmt.Sprintf("gitraw: %v", err)
		return res
	}
	verdict := refmodel.Order(h)
	res.ModelRefuse, res.ModelReason = verdict.MustRefuse, verdict.Reason
	res.Shape = fmt.Sprintf("n=%d merges=%d perturb=%s roots=%d swap=%v", len(h.Commits), h.MergeCommits(), c.Perturb, len(h.Roots()), c.Swap)
	if c.Intent != "model" && (c.Intent == "refuse") != verdict.MustRefuse {
		res.HarnessError = fmt.Sprintf("generator intent %q but model says refuse=%v (%s)", c.Intent, verdict.MustRefuse, verdict.Reason)
		return res
	}

	// (1) merge from the remote-tracking ref
	var mres []entity.MergeResult
	for m := range bug.MergeAll(rep.Repo, world.Resolvers(rep.Repo), "x", author) {
		mres = append(mres, m)
	}
	if len(mres) != 1 {
		fail("merge-result-count", fmt.Sprintf("%d merge results for one remote ref", len(mres)))
	} else {
		res.MergeStatus = statusName(mres[0].Status)
		localExists, _ := rep.Repo.RefExist("refs/bugs/" + eid)
		if verdict.MustRefuse {
			if mres[0].Status != entity.MergeStatusInvalid {
				fail("merge-accepted-must-refuse:"+verdict.Reason, fmt.Sprintf("history that must be refused (%s) merged with status %s", verdict.Reason, res.MergeStatus))
			}
			if localExists {
				fail("merge-created-ref-for-refused:"+verdict.Reason, "a local ref was created for a refused history")
			}
		} else {
			if mres[0].Status != entity.MergeStatusNew {
				fail("merge-refused-must-accept:"+errKey(mres[0].Reason), fmt.Sprintf("acceptable history merged with status %s: %s %v", res.MergeStatus, mres[0].Reason, mres[0].Err))
			}
		}
	}
	// (2) direct read of a local ref (also for refused histories: local corrupt data must give an error)
	if err := rep.Repo.UpdateRef("refs/bugs/"+eid, head); err != nil {
		res.HarnessError = err.Error()
		return res
	}
	b, rerr := world.ReadBug(rep.Repo, id)
	res.Accepted = rerr == nil
	if rerr != nil {
		res.ReadErr = rerr.Error()
	}
	switch {
	case rerr != nil && strings.HasPrefix(rerr.Error(), "PANIC"):
		fail("read-panics", rerr.Error())
	case verdict.MustRefuse && rerr == nil:
		fail("read-accepted-must-refuse:"+verdict.Reason, fmt.Sprintf("history that must be refused (%s) was ordered", verdict.Reason))
	case !verdict.MustRefuse && rerr != nil:
		fail("read-refused-must-accept:"+errKey(rerr.Error()), "acceptable history refused: "+rerr.Error())
	case rerr == nil:
		obs := world.OpIds(b)
		if !reflect.DeepEqual(obs, verdict.Order) {
			fail("order-differs-from-model", fmt.Sprintf("observed %v model %v", shortAll(obs), shortAll(verdict.Order)))
		}
		if msg := refmodel.CheckCausal(h, obs); msg != "" {
			fail("causality:"+strings.Fields(msg)[0], msg)
		}
		// ReadAll must agree
		for se := range bug.ReadAll(rep.Repo) {
			if se.Err != nil {
				fail("readall-differs", "ReadAll failed where Read succeeded: "+se.Err.Error())
			} else if se.Entity.Id() == id && !reflect.DeepEqual(world.OpIds(se.Entity), obs) {
				fail("readall-differs", "ReadAll order differs from Read order")
			}
		}
		// (3) the same history on the in-memory backend
		mock := repository.NewMockRepo()
		if msg := transplant(rep.Repo, mock, remoteRef, "refs/bugs/"+eid); msg != "" {
			res.HarnessError = "transplant: " + msg
			return res
		}
		if msg := transplantIdentity(rep.Repo, mock, author.Id().String()); msg != "" {
			res.HarnessError = "transplant identity: " + msg
			return res
		}
		mb, merr := world.ReadBug(mock, id)
		if merr != nil {
			fail("mock-backend-refuses:"+errKey(merr.Error()), "in-memory backend refuses the history the go-git backend accepts: "+merr.Error())
		} else if !reflect.DeepEqual(world.OpIds(mb), obs) {
			fail("mock-backend-order-differs", fmt.Sprintf("go-git %v vs in-memory %v", shortAll(obs), shortAll(world.OpIds(mb))))
		}
	}
	return res
}

func errKey(s string) string {
	return errClass(fmt.Errorf("%s", s))
}

// transplant copies the commit DAG under srcRef from one backend to another (object by object,
// through the storage primitives) and points dstRef at the copied head.
func transplant(src repository.RepoData, dst repository.RepoData, srcRef, dstRef string) string {
	head, err := src.ResolveRef(srcRef)
	if err != nil {
		return err.Error()
	}
	memo := map[repository.Hash]repository.Hash{}
	var copyCommit func(h repository.Hash) (repository.Hash, error)
	copyCommit = func(h repository.Hash) (repository.Hash, error) {
		if v, ok := memo[h]; ok {
			return v, nil
		}
		c, err := src.ReadCommit(h)
		if err != nil {
			return "", err
		}
		var parents []repository.Hash
		for _, p := range c.Parents {
			np, err := copyCommit(p)
			if err != nil {
				return "", err
			}
			parents = append(parents, np)
		}
		entries, err := src.ReadTree(c.TreeHash)
		if err != nil {
			return "", err
		}
		var nt []repository.TreeEntry
		for _, e := range entries {
			if e.ObjectType != repository.Blob {
				continue
			}
			data, err := src.ReadData(e.Hash)
			if err != nil {
				return "", err
			}
			nh, err := dst.StoreData(data)
			if err != nil {
				return "", err
			}
			nt = append(nt, repository.TreeEntry{ObjectType: repository.Blob, Hash: nh, Name: e.Name})
		}
		th, err := dst.StoreTree(nt)
		if err != nil {
			return "", err
		}
		nh, err := dst.StoreCommit(th, parents...)
		if err != nil {
			return "", err
		}
		memo[h] = nh
		return nh, nil
	}
	nh, err := copyCommit(head)
	if err != nil {
		return err.Error()
	}
	if err := dst.UpdateRef(dstRef, nh); err != nil {
		return err.Error()
	}
	return ""
}

func transplantIdentity(src repository.RepoData, dst repository.RepoData, id string) string {
	return transplant(src, dst, "refs/identities/"+id, "refs/identities/"+id)
}

func init() {
	registerChild("dag", func(args []string) int { return serveBatch(args, runDagCase) })
	register("C03", runC03)
}

func runC03(tier, replay string) int {
	r := mon.NewRun("C03", "exploration", tier)

	// part (i): histories git-bug itself produces, monitored at every read
	scs := syncScenarios(r, "sync")
	if !r.Thorough() {
		scs = scs[:len(scs)*2/3]
	}
	outcomes := runBatches[Scenario, ScenarioResult]("", "sync", scs, 6, 30*time.Second, nil)
	for i, oc := range outcomes {
		sc := scs[i]
		if oc.Crashed {
			r.Case("crash", false)
			r.Violation("crash:"+oc.Site, "process died while running scenario "+sc.Name+":\n"+oc.Excerpt, sc)
			continue
		}
		if oc.Result == nil {
			r.Case("timeout", false)
			r.Inconclusive("scenario " + sc.Name + " did not finish")
			continue
		}
		res := oc.Result
		r.Case("produced:"+res.Shape, res.Reads > 0 && res.MergeCommits > 0)
		r.Count("produced_history_reads_monitored", res.Reads)
		if res.Ties > 0 {
			r.Count("produced_histories_with_equal_clock_ties", 1)
		}
		for _, f := range res.Findings {
			if f.Monitor == "order" {
				r.Violation(f.Key, f.What+" [scenario "+sc.Name+"]", sc)
			}
		}
	}

	// part (ii): crafted histories
	cases := c03Cases(r)
	douts := runBatches[DagCase, DagResult]("", "dag", cases, 40, 10*time.Second, nil)
	for i, oc := range douts {
		c := cases[i]
		if oc.Crashed {
			r.Case("crash", false)
			r.Violation("crash:"+oc.Site, "process died on crafted history "+c.Name+":\n"+oc.Excerpt, c)
			continue
		}
		if oc.Result == nil {
			r.Case("timeout", false)
			r.Inconclusive("crafted case " + c.Name + " did not finish")
			continue
		}
		res := oc.Result
		if res.HarnessError != "" {
			r.Case("harness-error", false)
			r.Inconclusive("crafted case " + c.Name + ": " + res.HarnessError)
			continue
		}
		r.Case("crafted:"+res.Shape, true)
		if res.ModelRefuse {
			r.Count("crafted_must_refuse", 1)
			r.Seen("refusal_rules_exercised", res.ModelReason)
		} else {
			r.Count("crafted_must_accept", 1)
		}
		if c.Perturb != "" {
			r.Seen("perturbations", c.Perturb)
		}
		for _, f := range res.Findings {
			parts := strings.SplitN(f, "|", 2)
			r.Violation(parts[0], parts[1]+" [crafted "+c.Name+"]", c)
		}
		if i%97 == 0 {
			r.Sample(map[string]any{"case": c, "observed": res})
		}
	}
	r.Extra("exhaustive", false)
	r.Extra("crafted_scope", fmt.Sprintf("all fork/merge shapes with 1..%d commits x 3 clock assignments, each single perturbation at every commit, plus a sample of 7-commit shapes; each read through bug.Read, bug.ReadAll, bug.MergeAll (go-git backend) and bug.Read on the in-memory backend", r.Pick(5, 6)))
	return r.Finish("(i) every bug read in generated replica schedules is compared with the order model evaluated on the independently decoded DAG; (ii) hand-crafted DAGs in the documented on-disk format: model classifies must-accept/must-refuse by the listed rules, observed verdict = bug.Read error / merge status; non-trivial = history with >=1 merge commit (produced) or any crafted case; distinct = distinct shape signature",
		30, []string{"the order model (refmodel/order.go) is written from the property statement and doc/model.md", "crafted histories use valid operations and a resolvable author, so only structure and clocks vary"})
}
