package checks

// C17 case generation: per mutation field of the served schema, argument classes by input type.

import (
	"fmt"
	"math/rand"
	"sort"
	"strings"

	"verif/harness/mon"
)

// c17Case is one request (JSON-able, replayable).
type c17Case struct {
	Kind     string            `json:"kind"`           // mutation | upload | query | direct | after (a request, then probe requests) | prefix-reuse
	Sub      string            `json:"sub,omitempty"`  // after, when Mutation is empty: upload (default) | query
	Open     string            `json:"open,omitempty"` // after: cold (cache closed and loaded again from its files: no bug in memory) | warm
	Mutation string            `json:"mutation,omitempty"`
	Auth     bool              `json:"auth"`
	Method   string            `json:"method,omitempty"` // POST (default) | GET
	Fields   map[string]string `json:"fields,omitempty"` // argument path ("input", "input.title") -> class
	Variant  string            `json:"variant,omitempty"`
	Gen      string            `json:"gen,omitempty"`
	Topo     string            `json:"topo,omitempty"` // served registry (c17Topologies); "": the single default repository
	Repo     int               `json:"repo,omitempty"` // index of the addressed repository of that registry
	Rnd      int64             `json:"rnd"`
	Seed     int64             `json:"seed"`
}

// c17Modelled is the table of mutations whose effect the monitor knows: expected new operation kinds.
var c17Modelled = map[string][]string{
	"newBug":              {"create"},
	"addComment":          {"comment"},
	"addCommentAndClose":  {"comment", "status:closed"},
	"addCommentAndReopen": {"comment", "status:open"},
	"editComment":         {"edit"},
	"changeLabels":        {"labels"},
	"openBug":             {"status:open"},
	"closeBug":            {"status:closed"},
	"setTitle":            {"title"},
}

// one-line text fields of the modelled mutations (cleanup removes line breaks there)
var c17OneLine = map[string]bool{"title": true}

type c17Leaf struct {
	Path    string
	Name    string
	Type    *GQLTypeRef
	Family  string // prefix | target | repo | cmid | text | hashes | labels | generic | object
	Classes []string
	Valid   []string // classes that keep a modelled mutation valid
	Base    string   // class used by the base case
}

func c17Family(name string, t *GQLTypeRef) string {
	b := t.Base()
	switch {
	case b.Kind == "INPUT_OBJECT":
		return "object"
	case t.IsList() && b.Name == "Hash":
		return "hashes"
	case t.IsList() && b.Name == "String":
		return "labels"
	case !t.IsList() && b.Name == "String":
		switch name {
		case "prefix":
			return "prefix"
		case "targetPrefix":
			return "target"
		case "repoRef":
			return "repo"
		case "clientMutationId":
			return "cmid"
		}
		return "text"
	}
	return "generic"
}

// c17Leaves flattens the arguments of a mutation field into argument paths with their classes.
func c17Leaves(s *GQLSchema, f GQLField) []c17Leaf {
	var out []c17Leaf
	var visit func(path, name string, t *GQLTypeRef, depth int)
	visit = func(path, name string, t *GQLTypeRef, depth int) {
		l := c17Leaf{Path: path, Name: name, Type: t, Family: c17Family(name, t)}
		switch l.Family {
		case "object":
			l.Classes = []string{"OBJ", "NULL", "OMIT"}
			l.Valid, l.Base = []string{"OBJ"}, "OBJ"
		case "prefix":
			l.Classes = []string{"P_FULL", "P_SHORT", "P_UNKNOWN", "P_AMBIG", "P_EMPTY", "P_UPPER", "NULL", "OMIT", "P_1HEX", "P_2HEX", "P_LONG", "P_HUGE", "P_NONHEX", "P_SPACE"}
			l.Valid, l.Base = []string{"P_FULL", "P_SHORT"}, "P_FULL"
		case "target":
			l.Classes = []string{"T_FULL", "T_SHORT", "T_CREATE", "T_UNKNOWN", "T_EMPTY", "T_BUGID", "NULL", "OMIT", "T_1HEX", "T_2HEX", "T_4HEX", "T_AMBIG", "T_LONG", "T_HUGE", "T_NONHEX", "T_SPACE"}
			l.Valid, l.Base = []string{"T_FULL", "T_SHORT", "T_CREATE"}, "T_FULL"
		case "repo":
			l.Classes = []string{"OMIT", "NULL", "R_DEFAULT", "R_UNKNOWN"}
			l.Valid, l.Base = []string{"OMIT", "NULL"}, "OMIT"
		case "cmid":
			l.Classes = []string{"OMIT", "NULL", "C_SET"}
			l.Valid, l.Base = []string{"OMIT", "NULL", "C_SET"}, "OMIT"
		case "text":
			l.Classes = []string{"S_CLEAN", "S_UNICODE", "S_LONG", "S_MULTILINE", "S_EMPTY", "S_SPACES", "S_CONTROL", "S_CRLF", "S_PADDED", "S_FORMAT", "S_NUMBER", "NULL", "OMIT"}
			l.Valid, l.Base = []string{"S_CLEAN", "S_UNICODE", "S_LONG"}, "S_CLEAN"
			if !c17OneLine[name] {
				l.Valid = append(l.Valid, "S_MULTILINE")
			}
		case "hashes":
			l.Classes = []string{"OMIT", "NULL", "H_EMPTY", "H_ONE", "H_TWO", "H_BADFORMAT", "H_UNKNOWN", "H_MIXED", "H_WRONGTYPE"}
			l.Valid, l.Base = []string{"OMIT", "NULL", "H_EMPTY", "H_ONE", "H_TWO"}, "OMIT"
		case "labels":
			l.Classes = []string{"OMIT", "NULL", "L_EMPTY", "L_FRESH", "L_FRESH2", "L_PRESENT", "L_ABSENT", "L_EMPTYSTR", "L_DUP", "L_CONTROL"}
			if strings.EqualFold(name, "removed") {
				l.Valid, l.Base = []string{"OMIT", "NULL", "L_EMPTY", "L_PRESENT"}, "OMIT"
			} else {
				l.Valid, l.Base = []string{"OMIT", "L_FRESH", "L_FRESH2"}, "L_FRESH"
			}
		default:
			l.Classes = []string{"G_DEFAULT", "NULL", "OMIT"}
			l.Valid, l.Base = []string{"G_DEFAULT"}, "G_DEFAULT"
		}
		out = append(out, l)
		if l.Family == "object" && depth < 4 {
			if it := s.Types[t.Base().Name]; it != nil {
				for _, inf := range it.InputFields {
					visit(path+"."+inf.Name, inf.Name, inf.Type, depth+1)
				}
			}
		}
	}
	for _, a := range f.Args {
		visit(a.Name, a.Name, a.Type, 0)
	}
	return out
}

// afterKind is the kind of the request under test of an aftermath case.
func (c c17Case) afterKind() string {
	switch {
	case c.Mutation != "":
		return "mutation"
	case c.Sub == "query":
		return "query"
	}
	return "upload"
}

func c17CaseSig(c c17Case) string {
	who := "anon"
	if c.Auth {
		who = "user"
	}
	if c.Topo != "" {
		cc := c
		cc.Topo = ""
		return fmt.Sprintf("registry:%s/repo%d/%s", c.Topo, c.Repo, c17CaseSig(cc))
	}
	switch c.Kind {
	case "after":
		cc := c
		cc.Kind = c.afterKind()
		return "after/" + c.Open + "/" + c17CaseSig(cc)
	case "mutation":
		keys := make([]string, 0, len(c.Fields))
		for k, v := range c.Fields {
			if v == "OBJ" {
				continue
			}
			keys = append(keys, k[strings.LastIndex(k, ".")+1:]+"="+v)
		}
		sort.Strings(keys)
		m := ""
		if c.Method == "GET" {
			m = "/GET"
		}
		return fmt.Sprintf("%s/%s%s/%s", c.Mutation, who, m, strings.Join(keys, ","))
	case "direct":
		return fmt.Sprintf("direct/%s/%s", c.Mutation, who)
	}
	return fmt.Sprintf("%s/%s/%s", c.Kind, who, c.Variant)
}

// c17GenCases builds the fixed case list for (seed, tier).
func c17GenCases(r *mon.Run, s *GQLSchema) []c17Case {
	var cases []c17Case
	idx := 0
	add := func(c c17Case) {
		idx++
		c.Seed = r.Seed
		c.Rnd = mon.Rng(r.Seed, "c17-case", idx).Int63()
		cases = append(cases, c)
	}
	copyFields := func(m map[string]string) map[string]string {
		o := make(map[string]string, len(m))
		for k, v := range m {
			o[k] = v
		}
		return o
	}
	both := []bool{false, true}
	nRandom := r.Pick(3, 650)
	nValid := r.Pick(4, 420)
	for mi, f := range s.Mutations() {
		leaves := c17Leaves(s, f)
		base := map[string]string{}
		for _, l := range leaves {
			base[l.Path] = l.Base
		}
		for _, auth := range both {
			add(c17Case{Kind: "mutation", Mutation: f.Name, Auth: auth, Fields: copyFields(base), Gen: "base"})
			add(c17Case{Kind: "mutation", Mutation: f.Name, Auth: auth, Method: "GET", Fields: copyFields(base), Gen: "base-get"})
		}
		// one factor at a time
		n := 0
		for _, l := range leaves {
			for _, cl := range l.Classes {
				if cl == l.Base {
					continue
				}
				for _, auth := range both {
					n++
					// quick: every variation with a user, every second one without (n is odd for anon)
					if !auth && !r.Thorough() && n%4 == 1 {
						continue
					}
					fl := copyFields(base)
					fl[l.Path] = cl
					add(c17Case{Kind: "mutation", Mutation: f.Name, Auth: auth, Fields: fl, Gen: "one-factor"})
				}
			}
		}
		pick := func(rng *rand.Rand, l c17Leaf, validOnly bool) string {
			if l.Family == "object" {
				if validOnly || rng.Intn(20) > 0 {
					return "OBJ"
				}
				return l.Classes[1+rng.Intn(2)]
			}
			if validOnly || rng.Intn(10) < 6 {
				return l.Valid[rng.Intn(len(l.Valid))]
			}
			return l.Classes[rng.Intn(len(l.Classes))]
		}
		for _, auth := range both {
			for i := 0; i < nRandom; i++ {
				rng := mon.Rng(r.Seed, "c17-random-"+f.Name, i*2+mi*100000+map[bool]int{true: 1}[auth])
				fl := map[string]string{}
				for _, l := range leaves {
					fl[l.Path] = pick(rng, l, false)
				}
				add(c17Case{Kind: "mutation", Mutation: f.Name, Auth: auth, Fields: fl, Gen: "random"})
			}
			nv := nValid
			if !auth {
				nv = nValid / 2
			}
			for i := 0; i < nv; i++ {
				rng := mon.Rng(r.Seed, "c17-valid-"+f.Name, i*2+mi*100000+map[bool]int{true: 1}[auth])
				fl := map[string]string{}
				for _, l := range leaves {
					fl[l.Path] = pick(rng, l, true)
				}
				add(c17Case{Kind: "mutation", Mutation: f.Name, Auth: auth, Fields: fl, Gen: "valid"})
			}
		}
		// resolver-level probe for mutations that carry a list of file hashes (the HTTP path cannot
		// deliver a non-empty list as long as the Hash scalar cannot be unmarshalled)
		hasFiles := false
		for _, l := range leaves {
			if l.Family == "hashes" {
				hasFiles = true
			}
		}
		if hasFiles {
			for i := 0; i < r.Pick(1, 6); i++ {
				for _, auth := range both {
					add(c17Case{Kind: "direct", Mutation: f.Name, Auth: auth, Gen: "direct"})
				}
			}
		}
		// aftermath: a refused / invalid request with degenerate prefixes, then probes that read bugs which are
		// not in memory and mutate with a user
		for rep := 0; rep < r.Pick(1, 8); rep++ {
			for _, c := range c17AfterCases(leaves, base, f.Name, r.Thorough()) {
				add(c)
			}
		}
		// thorough: several arguments off at once
		for i := 0; i < r.Pick(0, 120); i++ {
			rng := mon.Rng(r.Seed, "c17-after-random-"+f.Name, i+mi*100000)
			fl := map[string]string{}
			for _, l := range leaves {
				fl[l.Path] = pick(rng, l, false)
			}
			add(c17Case{Kind: "after", Mutation: f.Name, Auth: rng.Intn(2) == 0, Open: []string{"cold", "warm"}[rng.Intn(2)], Fields: fl, Gen: "after-random"})
		}
	}
	for rep := 0; rep < r.Pick(1, 6); rep++ {
		for _, v := range []string{"png", "text", "unknown-repo", "wrong-field", "empty"} {
			add(c17Case{Kind: "after", Auth: false, Open: "cold", Variant: v, Gen: "after-upload"})
		}
	}
	for i := 0; i < r.Pick(2, 30); i++ {
		for _, auth := range both {
			for _, v := range []string{"png", "text", "unknown-repo", "wrong-field", "empty"} {
				add(c17Case{Kind: "upload", Auth: auth, Variant: v})
			}
			for _, v := range []string{"overview", "bug-detail", "gitfile"} {
				add(c17Case{Kind: "query", Auth: auth, Variant: v})
			}
		}
	}
	// a server that lives on: a prefix that was unique when it was first used designates two bugs later (c17_prefix.go)
	for rep := 0; rep < r.Pick(1, 4); rep++ {
		for _, v := range []string{"addComment", "setTitle"} {
			has := false
			for _, f := range s.Mutations() {
				has = has || f.Name == v
			}
			if has {
				add(c17Case{Kind: "prefix-reuse", Auth: true, Variant: v, Gen: "prefix-reuse"})
			}
		}
	}
	rng := mon.Rng(r.Seed, "c17-shuffle", 0)
	rng.Shuffle(len(cases), func(i, j int) { cases[i], cases[j] = cases[j], cases[i] })
	return cases
}
