package checks

import (
	"bytes"
	"encoding/json"
	"fmt"
	"os"
	"os/exec"
	"regexp"
	"runtime/debug"
	"sort"
	"strconv"
	"strings"
	"time"

	"github.com/ProtonMail/go-crypto/openpgp"

	"github.com/MichaelMure/git-bug/entities/bug"
	"github.com/MichaelMure/git-bug/entities/identity"
	"github.com/MichaelMure/git-bug/entity"
	"github.com/MichaelMure/git-bug/repository"
	"github.com/MichaelMure/git-bug/util/lamport"

	"verif/harness/gitraw"
	"verif/harness/mon"
	"verif/harness/refmodel"
	"verif/harness/world"
)

const sigClock = "bugs-edit"

func lamportTime(t uint64) lamport.Time { return lamport.Time(t) }

// KeyHistVersion is one version of the keyed author's identity.
type KeyHistVersion struct {
	Time uint64 `json:"time"` // value of the bugs-edit clock when the version is made
	Keys []int  `json:"keys"` // pool indexes
}

// SigCase is one (identity version history, commit at logical time T) pair.
type SigCase struct {
	Name      string           `json:"name"`
	Versions  []KeyHistVersion `json:"versions"`
	T         uint64           `json:"t"`
	Writer    string           `json:"writer"` // craft | gitbug
	Sign      string           `json:"sign"`   // craft: right|right2|removed|future|stranger|none|altered-tree|altered-time; gitbug: auto|nokey
	SignKey   int              `json:"sign_key"`
	Kind      string           `json:"kind"`   // create | append | merge
	Reader    string           `json:"reader"` // pubonly | inmemory
	Intent    string           `json:"intent"` // accept | refuse
	InForce   int              `json:"in_force"`
	Rel       string           `json:"rel"`
	MergeOnly bool             `json:"merge_only,omitempty"`
}

// SigResult is the child's observation.
type SigResult struct {
	Findings      []string `json:"findings"`
	HarnessError  string   `json:"harness_error"`
	ModelAccept   bool     `json:"model_accept"`
	ModelWhy      string   `json:"model_why"`
	InForce       int      `json:"in_force"`
	Signed        bool     `json:"signed"`
	VerifiedBy    int      `json:"verified_by"`
	ObservedT     uint64   `json:"observed_t"`
	ReadVerdict   string   `json:"read_verdict"` // accepted | refused | panic | skipped
	ReadErr       string   `json:"read_err"`
	ReadPanicSite string   `json:"read_panic_site"`
	MergeVerdict  string   `json:"merge_verdict"` // new | invalid | ... | skipped
	MergeReason   string   `json:"merge_reason"`
	// WriterRefused: git-bug itself refused to write the commit (keys in force, no private key): a valid outcome
	WriterRefused bool `json:"writer_refused,omitempty"`
	// what was compared after a write that git-bug refused or failed
	RefusedRefsCompared int `json:"refused_refs_compared,omitempty"`
	RefusedBugsReread   int `json:"refused_bugs_reread,omitempty"`
}

// ---- generator ------------------------------------------------------------------------

const strangerKey = 5 // pool index never used in a history

func inForceAt(vs []KeyHistVersion, t uint64) ([]int, int) {
	var keys []int
	idx := -1
	for i, v := range vs {
		if v.Time <= t {
			keys, idx = v.Keys, i
		}
	}
	return keys, idx
}

func has(l []int, x int) bool {
	for _, y := range l {
		if y == x {
			return true
		}
	}
	return false
}

func fixedHistories() [][]KeyHistVersion {
	return [][]KeyHistVersion{
		{{6, []int{0}}},
		{{6, nil}},
		{{6, nil}, {8, []int{0}}},
		{{7, []int{0}}, {9, nil}},
		{{6, []int{0}}, {8, []int{1}}},
		{{6, []int{0}}, {7, []int{0, 1}}, {9, []int{1}}, {10, nil}},
		{{6, []int{0, 1}}, {6, []int{1}}, {9, []int{2, 1}}},
		{{8, []int{2}}, {9, []int{2}}, {11, []int{3, 4}}, {12, []int{2}}},
		// time 0 = the version is made before the bugs-edit clock exists in the repository (fresh clone): it
		// records no time for that clock
		{{0, []int{0}}},
		{{0, []int{0}}, {8, []int{1}}},
		{{0, nil}, {7, []int{0}}},
	}
}

func c08Histories(r *mon.Run) [][]KeyHistVersion {
	hs := fixedHistories()
	n := r.Pick(2, 40)
	for i := 0; i < n; i++ {
		rng := mon.Rng(r.Seed, "c08-hist", i)
		nv := 1 + rng.Intn(4)
		t := uint64(6 + rng.Intn(4))
		var cur []int
		for k := rng.Intn(3); k > 0; k-- {
			if x := rng.Intn(5); !has(cur, x) {
				cur = append(cur, x)
			}
		}
		var h []KeyHistVersion
		for v := 0; v < nv; v++ {
			if v > 0 {
				gap := []uint64{0, 1, 1, 2, 3}[rng.Intn(5)]
				t += gap
				next := append([]int{}, cur...)
				switch op := rng.Intn(4); {
				case op == 0 && len(next) < 2: // add
					if x := rng.Intn(5); !has(next, x) {
						next = append(next, x)
					}
				case op == 1 && len(next) > 0: // remove
					p := rng.Intn(len(next))
					next = append(next[:p], next[p+1:]...)
				case op == 2 && len(next) > 0: // rotate
					if x := rng.Intn(5); !has(next, x) {
						next[rng.Intn(len(next))] = x
					}
				case len(next) == 0:
					next = []int{rng.Intn(5)}
				}
				cur = next
			}
			h = append(h, KeyHistVersion{Time: t, Keys: append([]int{}, cur...)})
		}
		hs = append(hs, h)
	}
	return hs
}

func c08Cases(r *mon.Run) []SigCase {
	var out []SigCase
	kinds := []string{"create", "append", "merge"}
	readers := []string{"pubonly", "inmemory"}
	counter := int(r.Seed)
	for hi, h := range c08Histories(r) {
		first, last := h[0].Time, h[len(h)-1].Time
		start := first - 1
		if first == 0 {
			start = 5 // a commit needs room below T for its parents
			if last < 6 {
				last = 6
			}
		}
		for t := start; t <= last+1; t++ {
			inForce, vidx := inForceAt(h, t)
			rel := "before-first"
			switch {
			case vidx >= 0 && t == h[vidx].Time:
				rel = "at-version"
			case vidx == len(h)-1:
				rel = "after-last"
			case vidx >= 0:
				rel = "between"
			}
			removed, future := -1, -1
			for i, v := range h {
				for _, k := range v.Keys {
					if has(inForce, k) {
						continue
					}
					if i <= vidx && removed < 0 {
						removed = k
					}
					if i > vidx && future < 0 {
						// only "not yet valid" when it was never valid before either
						seenBefore := false
						for j := 0; j <= vidx; j++ {
							seenBefore = seenBefore || has(h[j].Keys, k)
						}
						if !seenBefore {
							future = k
						}
					}
				}
			}
			type mode struct {
				writer, sign string
				key          int
			}
			modes := []mode{{"craft", "none", -1}, {"craft", "stranger", strangerKey}, {"gitbug", "auto", -1}}
			signer := strangerKey
			if len(inForce) > 0 {
				signer = inForce[0]
				modes = append(modes, mode{"craft", "right", inForce[0]}, mode{"gitbug", "nokey", -1})
				if len(inForce) > 1 {
					modes = append(modes, mode{"craft", "right2", inForce[1]})
				}
			}
			modes = append(modes, mode{"craft", "altered-tree", signer}, mode{"craft", "altered-time", signer})
			if removed >= 0 {
				modes = append(modes, mode{"craft", "removed", removed})
			}
			if future >= 0 {
				modes = append(modes, mode{"craft", "future", future})
			}
			for mi, m := range modes {
				if !r.Thorough() && (mi+int(t)+hi)%3 == 0 {
					continue // quick: two thirds of the signing modes at each T, rotating
				}
				ks := []string{kinds[counter%3]}
				if r.Thorough() {
					ks = kinds
				}
				for _, kind := range ks {
					counter++
					c := SigCase{Versions: h, T: t, Writer: m.writer, Sign: m.sign, SignKey: m.key, Kind: kind,
						Reader: readers[(counter/3+counter)%2], InForce: len(inForce), Rel: rel, Intent: "refuse"}
					if len(inForce) == 0 || m.sign == "right" || m.sign == "right2" || m.sign == "auto" {
						c.Intent = "accept"
					}
					c.Name = fmt.Sprintf("h%d-t%d-%s-%s-%s-%s", hi, t, m.writer, m.sign, kind, c.Reader)
					out = append(out, c)
				}
			}
		}
	}
	// whatever the rotation above left out: git-bug's own writer without the private key, every kind, on a
	// plain and on a rotated history (a refused write must leave the writer's bugs alone, see c08_refused.go)
	names := map[string]bool{}
	for _, c := range out {
		names[c.Name] = true
	}
	hs := fixedHistories()
	for _, at := range []struct {
		hi int
		t  uint64
	}{{0, 7}, {4, 9}} {
		h := hs[at.hi]
		inForce, _ := inForceAt(h, at.t)
		for _, kind := range kinds {
			c := SigCase{Versions: h, T: at.t, Writer: "gitbug", Sign: "nokey", SignKey: -1, Kind: kind, Reader: "pubonly", InForce: len(inForce), Intent: "refuse"}
			c.Rel = "after-last"
			c.Name = fmt.Sprintf("h%d-t%d-%s-%s-%s-%s", at.hi, at.t, c.Writer, c.Sign, kind, c.Reader)
			if !names[c.Name] {
				out = append(out, c)
			}
		}
	}
	return out
}

// ---- crafter ---------------------------------------------------------------------------

func craftPackTree(repo repository.RepoData, authorId string, ops []json.RawMessage, edit, create uint64) (repository.Hash, error) {
	empty, err := repo.StoreData([]byte{})
	if err != nil {
		return "", err
	}
	blob, err := repo.StoreData(world.PackBlob(authorId, ops))
	if err != nil {
		return "", err
	}
	tree := []repository.TreeEntry{
		{ObjectType: repository.Blob, Hash: blob, Name: "ops"},
		{ObjectType: repository.Blob, Hash: empty, Name: "version-4"},
		{ObjectType: repository.Blob, Hash: empty, Name: fmt.Sprintf("edit-clock-%d", edit)},
	}
	if create > 0 {
		tree = append(tree, repository.TreeEntry{ObjectType: repository.Blob, Hash: empty, Name: fmt.Sprintf("create-clock-%d", create)})
	}
	return repo.StoreTree(tree)
}

func gitIn(dir string, stdin []byte, args ...string) ([]byte, error) {
	cmd := exec.Command("git", append([]string{"-C", dir}, args...)...)
	if stdin != nil {
		cmd.Stdin = bytes.NewReader(stdin)
	}
	var out, errb bytes.Buffer
	cmd.Stdout, cmd.Stderr = &out, &errb
	if err := cmd.Run(); err != nil {
		return nil, fmt.Errorf("git %s: %v: %s", strings.Join(args, " "), err, errb.String())
	}
	return out.Bytes(), nil
}

var committerLine = regexp.MustCompile(`(?m)^(committer .*> )(\d+)( [+-]\d{4})$`)

// signedCommit stores the commit under test according to the signing mode.
// decoy is a tree with other content, used for "altered-tree".
func signedCommit(rep *world.Replica, mode string, signer *openpgp.Entity, tree, decoy repository.Hash, parents ...repository.Hash) (repository.Hash, error) {
	repo := rep.Repo
	switch mode {
	case "none":
		return repo.StoreCommit(tree, parents...)
	case "altered-tree", "altered-time":
		signedTree := tree
		if mode == "altered-tree" {
			signedTree = decoy
		}
		h, err := repo.StoreSignedCommit(signedTree, signer, parents...)
		if err != nil {
			return "", err
		}
		raw, err := gitIn(rep.Dir, nil, "cat-file", "commit", h.String())
		if err != nil {
			return "", err
		}
		var altered []byte
		if mode == "altered-tree" {
			altered = bytes.Replace(raw, []byte("tree "+decoy.String()), []byte("tree "+tree.String()), 1)
		} else {
			altered = committerLine.ReplaceAllFunc(raw, func(m []byte) []byte {
				sub := committerLine.FindSubmatch(m)
				ts, _ := strconv.ParseInt(string(sub[2]), 10, 64)
				return []byte(fmt.Sprintf("%s%d%s", sub[1], ts+1, sub[3]))
			})
		}
		if bytes.Equal(altered, raw) {
			return "", fmt.Errorf("alteration %s changed nothing", mode)
		}
		out, err := gitIn(rep.Dir, altered, "hash-object", "-t", "commit", "-w", "--stdin")
		if err != nil {
			return "", err
		}
		return repository.Hash(strings.TrimSpace(string(out))), nil
	default:
		return repo.StoreSignedCommit(tree, signer, parents...)
	}
}

// craftBug writes the bug holding the commit under test on rep and returns the bug id.
func craftBug(rep *world.Replica, c SigCase, keyed, plain identity.Interface, signer *openpgp.Entity) (string, error) {
	repo := rep.Repo
	unix := int64(1_650_000_000)
	kid, pid := keyed.Id().String(), plain.Id().String()
	tag := c.Name
	var head repository.Hash
	var eid string
	switch c.Kind {
	case "create":
		ops := world.RawOps(keyed, true, 2, &unix, tag)
		eid = world.Sha256(ops[0])
		tree, err := craftPackTree(repo, kid, ops, c.T, 1)
		if err != nil {
			return "", err
		}
		// the decoy must not be another valid bug: same ops, other edit clock
		decoy, err := craftPackTree(repo, kid, ops, c.T+1, 1)
		if err != nil {
			return "", err
		}
		head, err = signedCommit(rep, c.Sign, signer, tree, decoy)
		if err != nil {
			return "", err
		}
	case "append":
		rootOps := world.RawOps(plain, true, 1, &unix, tag)
		eid = world.Sha256(rootOps[0])
		rt, err := craftPackTree(repo, pid, rootOps, c.T-1, 1)
		if err != nil {
			return "", err
		}
		root, err := repo.StoreCommit(rt)
		if err != nil {
			return "", err
		}
		ops := world.RawOps(keyed, false, 2, &unix, tag+"-k")
		tree, err := craftPackTree(repo, kid, ops, c.T, 0)
		if err != nil {
			return "", err
		}
		decoy, err := craftPackTree(repo, kid, world.RawOps(keyed, false, 1, &unix, tag+"-decoy"), c.T, 0)
		if err != nil {
			return "", err
		}
		head, err = signedCommit(rep, c.Sign, signer, tree, decoy, root)
		if err != nil {
			return "", err
		}
	case "merge":
		rootOps := world.RawOps(plain, true, 1, &unix, tag)
		eid = world.Sha256(rootOps[0])
		rt, err := craftPackTree(repo, pid, rootOps, c.T-2, 1)
		if err != nil {
			return "", err
		}
		root, err := repo.StoreCommit(rt)
		if err != nil {
			return "", err
		}
		var sides []repository.Hash
		for _, s := range []string{"-left", "-right"} {
			st, err := craftPackTree(repo, pid, world.RawOps(plain, false, 1, &unix, tag+s), c.T-1, 0)
			if err != nil {
				return "", err
			}
			sc, err := repo.StoreCommit(st, root)
			if err != nil {
				return "", err
			}
			sides = append(sides, sc)
		}
		tree, err := craftPackTree(repo, kid, nil, c.T, 0)
		if err != nil {
			return "", err
		}
		decoy, err := craftPackTree(repo, kid, nil, c.T+1, 0)
		if err != nil {
			return "", err
		}
		head, err = signedCommit(rep, c.Sign, signer, tree, decoy, sides...)
		if err != nil {
			return "", err
		}
	default:
		return "", fmt.Errorf("unknown kind %q", c.Kind)
	}
	if err := repo.UpdateRef("refs/bugs/"+eid, head); err != nil {
		return "", err
	}
	return eid, nil
}

// gitbugWrite lets git-bug itself write the commit under test on rep (whose clock is fresh).
func gitbugWrite(rep *world.Replica, c SigCase, keyedId entity.Id, probe *writeProbe) (string, error) {
	repo := rep.Repo
	keyed, err := identity.ReadLocal(repo, keyedId)
	if err != nil {
		return "", fmt.Errorf("writer cannot read the keyed identity: %w", err)
	}
	plain, err := rep.NewAuthor("plain-writer")
	if err != nil {
		return "", err
	}
	unix := int64(1_660_000_000)
	witness := func(t uint64) error { return repo.Witness(sigClock, lamportTime(t)) }
	switch c.Kind {
	case "create":
		if err := witness(c.T - 1); err != nil {
			return "", err
		}
		b, _, err := bug.Create(keyed, unix, "written by git-bug", "create by the keyed author", nil, nil)
		if err != nil {
			return "", err
		}
		if err := probe.before(rep); err != nil {
			return "", err
		}
		if err := b.Commit(repo); err != nil {
			return "", err
		}
		return b.Id().String(), nil
	case "append":
		if err := witness(c.T - 2); err != nil {
			return "", err
		}
		b, _, err := bug.Create(plain, unix, "written by git-bug", "create by the plain author", nil, nil)
		if err != nil {
			return "", err
		}
		if err := b.Commit(repo); err != nil {
			return "", err
		}
		if _, _, err := bug.AddComment(b, keyed, unix+1, "comment by the keyed author", nil, nil); err != nil {
			return "", err
		}
		if err := probe.before(rep); err != nil {
			return "", err
		}
		if err := b.Commit(repo); err != nil {
			return "", err
		}
		return b.Id().String(), nil
	case "merge":
		if err := witness(c.T - 4); err != nil {
			return "", err
		}
		b, _, err := bug.Create(plain, unix, "written by git-bug", "create by the plain author", nil, nil)
		if err != nil {
			return "", err
		}
		if err := b.Commit(repo); err != nil {
			return "", err
		}
		ref := "refs/bugs/" + b.Id().String()
		h0, err := repo.ResolveRef(ref)
		if err != nil {
			return "", err
		}
		if _, _, err := bug.AddComment(b, plain, unix+1, "their side", nil, nil); err != nil {
			return "", err
		}
		if err := b.Commit(repo); err != nil {
			return "", err
		}
		h1, err := repo.ResolveRef(ref)
		if err != nil {
			return "", err
		}
		tmpRemote := "refs/remotes/x/bugs/" + b.Id().String()
		if err := repo.UpdateRef(tmpRemote, h1); err != nil {
			return "", err
		}
		if err := repo.UpdateRef(ref, h0); err != nil {
			return "", err
		}
		b2, err := bug.Read(repo, b.Id())
		if err != nil {
			return "", err
		}
		if _, _, err := bug.AddComment(b2, plain, unix+2, "our side", nil, nil); err != nil {
			return "", err
		}
		if err := b2.Commit(repo); err != nil {
			return "", err
		}
		if err := probe.before(rep); err != nil {
			return "", err
		}
		for m := range bug.MergeAll(repo, world.Resolvers(repo), "x", keyed) {
			// without a private key git-bug writes the merge commit unsigned and may then fail to
			// read its own work back; what counts here is the commit it left behind (checked by the caller)
			if m.Err != nil && strings.Contains(m.Err.Error(), "no private key is available") {
				return "", m.Err
			}
			if (m.Err != nil || m.Status != entity.MergeStatusUpdated) && c.Sign != "nokey" {
				return "", fmt.Errorf("writer-side merge: status %s %v %s", statusName(m.Status), m.Err, m.Reason)
			}
		}
		_ = repo.RemoveRef(tmpRemote)
		return b.Id().String(), nil
	}
	return "", fmt.Errorf("unknown kind %q", c.Kind)
}

// loadPrivates makes the in-memory identity hold the private part of every key of its
// last version (the only exported route is SigningKey + the keyring).
func loadPrivates(k *identity.Identity, rep *world.Replica, pool []loadedKey, keys []int) error {
	clear := func() {
		for _, pk := range pool {
			_ = rep.KR.Remove(pk.Pool.KeyId)
		}
	}
	defer clear()
	for j := len(keys) - 1; j >= 0; j-- {
		clear()
		if err := pool[keys[j]].PutPrivate(rep.KR); err != nil {
			return err
		}
		if sk, err := k.SigningKey(rep.Repo); err != nil || sk == nil {
			return fmt.Errorf("cannot load private key %d: %v", keys[j], err)
		}
	}
	for _, key := range k.Keys() {
		if key.Private() == nil {
			return fmt.Errorf("a key of the last version has no private part after loading")
		}
	}
	return nil
}

func guardRead(repo repository.ClockedRepo, resolvers entity.Resolvers, id entity.Id) (err error, stack string) {
	defer func() {
		if p := recover(); p != nil {
			err = fmt.Errorf("PANIC: %v", p)
			stack = fmt.Sprintf("panic: %v\n\n%s", p, debug.Stack())
		}
	}()
	_, err = bug.ReadWithResolver(repo, resolvers, id)
	return err, ""
}

// ---- child -----------------------------------------------------------------------------

func runSigCase(c SigCase) SigResult {
	res := SigResult{VerifiedBy: -1, ReadVerdict: "skipped", MergeVerdict: "skipped"}
	fail := func(key, what string) { res.Findings = append(res.Findings, key+"|"+what) }
	herr := func(what string, err error) SigResult {
		res.HarnessError = fmt.Sprintf("%s: %v", what, err)
		return res
	}
	pool, err := loadKeyPool()
	if err != nil || len(pool) <= strangerKey {
		return herr("key pool", fmt.Errorf("%v (%d keys)", err, len(pool)))
	}
	w, err := world.New(3)
	if err != nil {
		return herr("world", err)
	}
	defer w.Close()
	owner, reader, writer := w.Replicas[0], w.Replicas[1], w.Replicas[2]
	plain, err := owner.NewAuthor("plain")
	if err != nil {
		return herr("plain author", err)
	}

	// the keyed author's history; git-bug's own writer acts when the history is at the
	// version in force at T
	prefix := 0
	for _, v := range c.Versions {
		if v.Time <= c.T {
			prefix++
		}
	}
	if prefix == 0 {
		prefix = 1
	}
	var keyed *identity.Identity
	bugId := ""
	for k, v := range c.Versions {
		if v.Time > 0 || k > 0 {
			if err := owner.Repo.Witness(sigClock, lamportTime(v.Time)); err != nil {
				return herr("witness", err)
			}
		}
		var keys []*identity.Key
		for _, idx := range v.Keys {
			key, err := pool[idx].Public()
			if err != nil {
				return herr("pool key", err)
			}
			keys = append(keys, key)
		}
		if k == 0 {
			keyed, err = identity.NewIdentityFull(owner.Repo, "keyed author", "keyed@example.com", "", "", keys)
		} else {
			err = keyed.Mutate(owner.Repo, func(m *identity.Mutator) {
				m.Name = fmt.Sprintf("keyed author v%d", k+1)
				if k%2 == 1 {
					// the key list the mutator hands out is edited in place (overwrite, truncate, append)
					m.Keys = append(m.Keys[:0], keys...)
				} else {
					m.Keys = keys
				}
			})
		}
		if err == nil {
			err = keyed.Commit(owner.Repo)
		}
		if err != nil {
			return herr(fmt.Sprintf("identity version %d", k+1), err)
		}
		if c.Reader == "inmemory" {
			if err := loadPrivates(keyed, owner, pool, v.Keys); err != nil {
				return herr("load private keys", err)
			}
		}
		if c.Writer == "gitbug" && k == prefix-1 {
			if _, err := identity.Push(owner.Repo, "origin"); err != nil {
				return herr("push prefix", err)
			}
			if _, err := identity.Fetch(writer.Repo, "origin"); err != nil {
				return herr("writer fetch", err)
			}
			for m := range identity.MergeAll(writer.Repo, "origin") {
				if m.Err != nil || m.Status == entity.MergeStatusInvalid {
					return herr("writer identity merge", fmt.Errorf("%s %v", m.Reason, m.Err))
				}
			}
			if c.Sign == "auto" {
				for _, idx := range v.Keys {
					if err := pool[idx].PutPrivate(writer.KR); err != nil {
						return herr("writer keyring", err)
					}
				}
			}
			probe := &writeProbe{}
			bugId, err = gitbugWrite(writer, c, keyed.Id(), probe)
			if err != nil && probe.taken {
				// git-bug refused or failed the write under test: the writer's own bugs must be what they were
				res.RefusedRefsCompared, res.RefusedBugsReread = probe.after(writer, c.Kind, fmt.Sprintf("%s commit at T=%d by the keyed author (writer mode %s)", c.Kind, c.T, c.Sign), err, fail)
			}
			if err != nil && c.Sign == "nokey" && strings.Contains(err.Error(), "no private key is available") {
				// the editing API refuses to write a commit nobody could accept: nothing to read back
				res.WriterRefused = true
				return res
			}
			if err != nil && c.Sign == "auto" && c.T > 0 {
				// the private key of a key in force is in the keyring: git-bug must be able to write this commit and
				// to read its own work back
				res.Findings = append(res.Findings, "gitbug-cannot-write-a-commit-it-can-sign:"+c.Kind+"|"+fmt.Sprintf("%s commit at T=%d by the keyed author with the private key available: git-bug failed on its own write: %v", c.Kind, c.T, err))
				return res
			}
			if err != nil {
				return herr("git-bug writer", err)
			}
			if err := writer.Push("origin"); err != nil {
				return herr("writer push", err)
			}
		}
	}
	if c.Writer == "craft" {
		var signer *openpgp.Entity
		if c.SignKey >= 0 {
			signer, err = pool[c.SignKey].Signer()
			if err != nil {
				return herr("signer", err)
			}
		}
		bugId, err = craftBug(owner, c, keyed, plain, signer)
		if err != nil {
			return herr("crafter", err)
		}
	}
	if err := owner.Push("origin"); err != nil {
		return herr("owner push", err)
	}

	// the reading side: identities first, then the bug data
	if _, err := identity.Fetch(reader.Repo, "origin"); err != nil {
		return herr("reader fetch identities", err)
	}
	for m := range identity.MergeAll(reader.Repo, "origin") {
		if m.Err != nil || m.Status != entity.MergeStatusNew {
			return herr("reader identity merge", fmt.Errorf("%s %s %v", statusName(m.Status), m.Reason, m.Err))
		}
	}
	if _, err := bug.Fetch(reader.Repo, "origin"); err != nil {
		return herr("reader fetch bugs", err)
	}
	remoteRef := "refs/remotes/origin/bugs/" + bugId
	localRef := "refs/bugs/" + bugId
	hist, ok, gerr := gitraw.ReadRef(reader.Repo, remoteRef)
	if !ok || gerr != nil {
		return herr("gitraw bug", fmt.Errorf("present=%v %v", ok, gerr))
	}
	head := hist.Commits[hist.Head]
	res.ObservedT = head.EditTime
	if head.EditTime != c.T || head.AuthorId != keyed.Id().String() {
		return herr("commit under test", fmt.Errorf("edit time %d (wanted %d), author %s", head.EditTime, c.T, short(head.AuthorId)))
	}
	vs, ok, gerr := gitraw.ReadIdentity(reader.Repo, "refs/identities/"+keyed.Id().String())
	if !ok || gerr != nil || len(vs) != len(c.Versions) {
		return herr("gitraw identity", fmt.Errorf("present=%v versions=%d %v", ok, len(vs), gerr))
	}
	var chain []refmodel.KeyVersion
	for _, v := range vs {
		kv, err := refmodel.DecodeKeyVersion(v.Raw, sigClock)
		if err != nil {
			return herr("decode version", err)
		}
		chain = append(chain, kv)
	}
	raw, err := gitIn(reader.Dir, nil, "cat-file", "commit", hist.Head)
	if err != nil {
		return herr("cat-file", err)
	}
	verdict := refmodel.JudgeCommit(chain, head.EditTime, raw)
	res.ModelAccept, res.ModelWhy, res.InForce, res.Signed, res.VerifiedBy = verdict.Accept, verdict.Why, verdict.InForce, verdict.Signed, verdict.VerifiedBy
	if !verdict.Specified {
		return herr("model", fmt.Errorf("a version has no recorded %s time", sigClock))
	}
	if c.Writer == "gitbug" && c.Sign == "auto" && verdict.InForce > 0 && !verdict.Accept {
		fail("gitbug-own-commit-not-validly-signed", fmt.Sprintf("git-bug wrote a %s commit at T=%d with the private key of a key in force in its keyring, yet the commit is not validly signed (signed=%v): %s", c.Kind, c.T, verdict.Signed, verdict.Why))
		return res
	}
	if (c.Intent == "accept") != verdict.Accept || verdict.InForce != c.InForce {
		return herr("generator and model disagree", fmt.Errorf("intent %s with %d keys in force, model accept=%v with %d keys (%s)", c.Intent, c.InForce, verdict.Accept, verdict.InForce, verdict.Why))
	}

	resolvers := world.Resolvers(reader.Repo)
	if c.Reader == "inmemory" {
		resolvers = entity.Resolvers{&identity.Identity{}: entity.ResolverFunc[entity.Resolved](func(id entity.Id) (entity.Resolved, error) {
			if id == keyed.Id() {
				return keyed, nil
			}
			return identity.ReadLocal(reader.Repo, id)
		})}
	}
	class := c.Sign
	what := fmt.Sprintf("%s commit at T=%d (%s; %d keys in force; written by %s, signing mode %s; reader %s)", c.Kind, c.T, c.Rel, verdict.InForce, c.Writer, c.Sign, c.Reader)
	judge := func(via string, accepted bool, detail string) {
		switch {
		case accepted && !verdict.Accept:
			fail(fmt.Sprintf("must-refuse-accepted:%s:%s", class, via), fmt.Sprintf("%s was accepted by %s; the model refuses it: %s", what, via, verdict.Why))
		case !accepted && verdict.Accept && verdict.InForce == 0 && verdict.Signed:
			fail(fmt.Sprintf("no-key-in-force-but-signed-commit-refused:%s:%s", class, via), fmt.Sprintf("%s was refused by %s: %s", what, via, detail))
		case !accepted && verdict.Accept:
			fail(fmt.Sprintf("must-accept-refused:%s:%s:%s", class, via, errKey(detail)), fmt.Sprintf("%s was refused by %s: %s", what, via, detail))
		}
	}

	if !c.MergeOnly {
		if err := reader.Repo.UpdateRef(localRef, repository.Hash(hist.Head)); err != nil {
			return herr("set local ref", err)
		}
		rerr, stack := guardRead(reader.Repo, resolvers, entity.Id(bugId))
		_ = reader.Repo.RemoveRef(localRef)
		switch {
		case stack != "":
			res.ReadVerdict, res.ReadErr, res.ReadPanicSite = "panic", rerr.Error(), mon.PanicSite(stack)
			fail("panic:bug.Read:"+res.ReadPanicSite, fmt.Sprintf("%s: bug.Read panicked: %v (model: accept=%v)", what, rerr, verdict.Accept))
			return res // the merge would kill the process; the parent runs it separately
		case rerr != nil:
			res.ReadVerdict, res.ReadErr = "refused", rerr.Error()
			judge("read", false, rerr.Error())
		default:
			res.ReadVerdict = "accepted"
			judge("read", true, "")
		}
	}
	var mergeAuthor identity.Interface
	if a, err := identity.ReadLocal(reader.Repo, plain.Id()); err == nil {
		mergeAuthor = a
	}
	var results []entity.MergeResult
	for m := range bug.MergeAll(reader.Repo, resolvers, "origin", mergeAuthor) {
		results = append(results, m)
	}
	if len(results) != 1 {
		fail("merge-result-count", fmt.Sprintf("%s: %d merge results for one remote bug", what, len(results)))
		return res
	}
	m := results[0]
	res.MergeVerdict, res.MergeReason = statusName(m.Status), m.Reason
	exists, _ := reader.Repo.RefExist(localRef)
	switch m.Status {
	case entity.MergeStatusNew:
		judge("merge", true, "")
		if !exists {
			fail("merged-new-without-ref", what+": reported new but no local ref exists")
		}
	case entity.MergeStatusInvalid:
		judge("merge", false, m.Reason)
		if exists {
			fail("refused-but-ref-created", what+": reported invalid but a local ref was created")
		}
	default:
		fail("unexpected-merge-status:"+res.MergeVerdict, fmt.Sprintf("%s: merge status %s (%v)", what, res.MergeVerdict, m.Err))
	}
	return res
}

func init() {
	registerChild("sig", func(args []string) int { return serveBatch(args, runSigCase) })
	register("C08", runC08)
}

func runC08(tier, replay string) int {
	r := mon.NewRun("C08", "exploration", tier)
	tPool := time.Now()
	poolFile, err := makeKeyPool(strangerKey + 1)
	poolTime := time.Since(tPool)
	if err != nil {
		fmt.Println("cannot build the key pool:", err)
		return 2
	}
	defer removeAll(poolFile)
	env := []string{keyPoolEnv + "=" + poolFile}

	if replay != "" {
		// the parts have their own case types: tell them apart by their members
		var probe struct {
			Case struct {
				Steps    []json.RawMessage `json:"steps"`
				Rounds   []json.RawMessage `json:"rounds"`
				Commits  []json.RawMessage `json:"commits"`
				Delivery string            `json:"delivery"`
			} `json:"case"`
		}
		if data, err := os.ReadFile(replay); err == nil {
			_ = json.Unmarshal(data, &probe)
		}
		switch {
		case probe.Case.Steps != nil:
			return replayOne[TLCase, TLResult](replay, "sigtl", env)
		case probe.Case.Rounds != nil:
			return replayOne[CCCase, CCResult](replay, "sigcache", env)
		case probe.Case.Commits != nil:
			return replayOne[ChainCase, ChainResult](replay, "sigchain", env)
		case probe.Case.Delivery != "":
			return replayOne[PullCase, PullResult](replay, "sigpull", env)
		}
		return replayOne[SigCase, SigResult](replay, "sig", env)
	}
	cases := c08Cases(r)
	tStart := time.Now()
	outs := runBatches[SigCase, SigResult]("", "sig", cases, 8, 30*time.Second, env)
	r.Extra("first_pass_s", time.Since(tStart).Seconds())
	// second part: identity histories made in several steps (c08_timeline.go)
	tStart = time.Now()
	tlc := tlCases(r)
	collectTimeline(r, tlc, runBatches[TLCase, TLResult]("", "sigtl", tlc, 2, 60*time.Second, env))
	r.Extra("timeline_pass_s", time.Since(tStart).Seconds())
	// third part: verification through a long-lived cache across pulled identity updates (c08_cache.go)
	tStart = time.Now()
	ccs := ccCases(r)
	collectCacheSessions(r, ccs, runBatches[CCCase, CCResult]("", "sigcache", ccs, 1, 90*time.Second, env))
	r.Extra("cache_pass_s", time.Since(tStart).Seconds())
	// fourth part: bugs holding several judged commits (c08_chain.go)
	tStart = time.Now()
	chs := chainCases(r)
	collectChains(r, chs, runBatches[ChainCase, ChainResult]("", "sigchain", chs, 4, 30*time.Second, env))
	r.Extra("chain_pass_s", time.Since(tStart).Seconds())
	// fifth part: a pull that needs a merge commit after the user's key change (c08_refused.go)
	tStart = time.Now()
	pcs := pullCases()
	collectPulls(r, pcs, runBatches[PullCase, PullResult]("", "sigpull", pcs, 1, 60*time.Second, env))
	r.Extra("pull_pass_s", time.Since(tStart).Seconds())
	var second []SigCase
	perSite := map[string]int{}
	for i, oc := range outs {
		c := cases[i]
		if oc.Crashed {
			r.Case("crash", false)
			r.Violation("crash:"+oc.Site, "process died on case "+c.Name+":\n"+oc.Excerpt, c)
			continue
		}
		if oc.TimedOut || oc.Result == nil {
			r.Case("timeout", false)
			r.Inconclusive("case " + c.Name + " did not finish")
			continue
		}
		res := oc.Result
		if res.RefusedRefsCompared > 0 || res.WriterRefused {
			r.Count("after_refused_or_failed_write/local_refs_compared", res.RefusedRefsCompared)
			r.Count("after_refused_or_failed_write/bugs_read_again", res.RefusedBugsReread)
			r.Seen("refused_write_kinds", c.Kind+"/"+c.Sign)
		}
		if res.HarnessError != "" || res.WriterRefused {
			// what the refused or failed write left behind is reported whatever else became of the case
			for _, f := range res.Findings {
				if k, what := splitFinding(f); strings.HasPrefix(k, "refused-write-") {
					r.Violation(k, what+" [case "+c.Name+"]", c)
				}
			}
		}
		if res.HarnessError != "" {
			r.Case("harness-error", false)
			r.Inconclusive("case " + c.Name + ": " + res.HarnessError)
			continue
		}
		if res.WriterRefused {
			r.Case(fmt.Sprintf("versions=%d rel=%s writer=gitbug sign=nokey kind=%s writer-refused", len(c.Versions), c.Rel, c.Kind), true)
			r.Count("writer_refused_to_write_unsigned_commit", 1)
			continue
		}
		expect := "refuse"
		if res.ModelAccept {
			expect = "accept"
		}
		r.Case(fmt.Sprintf("versions=%d inforce=%d rel=%s writer=%s sign=%s kind=%s reader=%s expect=%s", len(c.Versions), res.InForce, c.Rel, c.Writer, c.Sign, c.Kind, c.Reader, expect), true)
		r.Count("model/"+expect, 1)
		r.Count(fmt.Sprintf("observed/%s/read=%s/merge=%s", expect, res.ReadVerdict, res.MergeVerdict), 1)
		r.Count("reader/"+c.Reader, 1)
		r.Seen("sign_modes_x_kind", c.Sign+"/"+c.Kind+"/"+c.Writer)
		r.Seen("time_relations", fmt.Sprintf("%s/inforce=%d", c.Rel, res.InForce))
		if res.ReadVerdict == "refused" {
			r.Seen("refusal_messages", errKey(res.ReadErr))
		}
		for _, f := range res.Findings {
			k, what := splitFinding(f)
			r.Violation(k, what+" [case "+c.Name+"]", c)
		}
		if res.ReadVerdict == "panic" && perSite[res.ReadPanicSite+"/"+c.Reader] < 6 {
			perSite[res.ReadPanicSite+"/"+c.Reader]++
			mc := c
			mc.MergeOnly = true
			mc.Name += "-mergeonly"
			second = append(second, mc)
		}
		if i%53 == 0 {
			r.Sample(map[string]any{"case": c, "observed": res})
		}
	}
	// where bug.Read panicked, bug.MergeAll runs the same code in its own goroutine: observe it
	// in separate processes (a bounded sample per panic site)
	tStart = time.Now()
	souts := runBatches[SigCase, SigResult]("", "sig", second, 1, 30*time.Second, env)
	r.Extra("second_pass_s", time.Since(tStart).Seconds())
	r.Extra("pool_s", poolTime.Seconds())
	for i, oc := range souts {
		c := second[i]
		switch {
		case oc.Crashed:
			r.Count("merge_after_read_panic/process_died", 1)
			r.Violation("crash:"+oc.Site, "bug.MergeAll killed the process on case "+c.Name+":\n"+oc.Excerpt, c)
		case oc.TimedOut || oc.Result == nil:
			r.Inconclusive("merge-only case " + c.Name + " did not finish")
		case oc.Result.HarnessError != "":
			r.Inconclusive("merge-only case " + c.Name + ": " + oc.Result.HarnessError)
		default:
			r.Count("merge_after_read_panic/"+oc.Result.MergeVerdict, 1)
			for _, f := range oc.Result.Findings {
				k, what := splitFinding(f)
				r.Violation(k, what+" [case "+c.Name+"]", c)
			}
		}
	}
	var hs []string
	for _, h := range c08Histories(r) {
		var parts []string
		for _, v := range h {
			parts = append(parts, fmt.Sprintf("%d:%v", v.Time, v.Keys))
		}
		hs = append(hs, strings.Join(parts, " "))
	}
	sort.Strings(hs)
	if len(hs) > 20 {
		hs = hs[:20]
	}
	r.Extra("identity_histories(time:keys)", hs)
	r.Extra("exhaustive", false)
	r.Extra("added_in_seeding_round_6", "every second identity version edits the key list handed out by the mutator in place (append(m.Keys[:0], ...)) instead of assigning a new slice")
	return r.Finish("pairs (identity version history with 1..4 versions adding/removing/rotating 0..2 keys at steered bugs-edit times) x (commit at every T from first-1 to last+1) x (crafted: unsigned, right key, second right key, removed key, not-yet-valid key, stranger's key, altered tree, altered timestamp; git-bug itself: private key available / not available) x (create, append, empty merge commit) x (reader with public keys only / reader resolving the author to an in-memory identity holding private keys); expectation from the independent model over the raw version blobs and the raw commit object; observed = bug.Read error and bug.MergeAll status on the second replica; non-trivial = every conclusive pair; distinct = (versions, keys in force, relation of T to the version times, writer, signing mode, kind, reader, expectation)"+
		" || timeline scripts: the keyed author edits its identity in several steps (Mutate of keys / of the profile, SetMetadata, Commit now or later, first version still pending) while a keyless author's commits or witnessed times move the edit clock and the author itself writes signed commits in between; the harness records (clock value at the Mutate that changed the key set, new key set); crafted commits (unsigned, every key of the history, a stranger's key) at c-1, c, c+1 of every change and the author's own commits are read and merged on a second replica; expected = key model over that timeline, no expectation where reading a change at clock value c as 'from c' or 'from c+1' gives different verdicts; also ValidKeysAtTime of the stored identity against the timeline; one case per script, distinct = sequence of step kinds"+
		" || long-lived cache sessions: a victim keeps one RepoCache open, pulls and loads a bug of the keyed author, then the author changes keys in 1..3 rounds on another replica and pushes the new identity version with commits in its name at c-1, c, c+1 signed by old/new/stranger's/no key, a commit written by git-bug with the new key and a commit appended to a bug the victim holds; the victim pulls with Pull or Fetch+MergeAll, everything at once, identity first or bugs first; every remote bug differing from the local one is judged with the key model over the identity versions in the victim's repository at that moment; observed = merge status and local ref movement through the long-lived cache, the same pulls on a shadow replica with the plain entity functions, Resolve through the long-lived cache, and a freshly opened cache over the victim's repository at the end; one case per session, distinct = (initial keys, preload, per round: kind of key change, delivery, carrier signing)"+
		" || multi-commit bugs: two keyed authors (disjoint keys, own version histories) and a keyless author write chains and one-fork DAGs of 2..8 crafted commits on ONE bug: a valid use of a key followed by a commit signed with that key after its removal / in the other author's name / unsigned / by a stranger's key, a not-yet-valid key that is validly used later, on the same branch or on a sibling branch, as ordinary or as merge commit, each with its accept counterpart (new key, own key), plus seed-determined random chains biased towards keys the bug has already seen a valid signature of; every commit is judged on its own by the key model (its author's version blobs, its time, its raw object); observed = bug.Read with the ref at every commit and bug.MergeAll of the whole bug on the second replica; expected accepted <=> every commit in reach is accepted; one case per bug, distinct = (topology, reader, versions, per commit author:signing class)"+
		" || refused writes: right before every write by git-bug's own writer in nokey mode (create, append, merge; fixed cases on top of the sampled ones) the writer's refs/bugs/* are listed with `git for-each-ref` and every bug is read; when git-bug refuses or fails the write, the refs must be listed unchanged, resolve to commits (`git cat-file -t`), no ref may have appeared, and every bug must read with the same operations; same comparison for a pull that needs a merge commit in the user's name after the user's key change in another clone (first key / rotation) x (new private key in the keyring: the merge must succeed and be validly signed / not: whatever git-bug answers) x (identity+bug Fetch/MergeAll / RepoCache.Pull)",
		40, []string{
			"refused writes: a write that git-bug answers with an error is expected to leave every refs/bugs/* ref of the writing repository at the commit it pointed at and every bug readable with the operations it had (the statement makes the refusal the right answer for an unsignable commit; a refusal that moves or breaks the ref makes the local commits unreachable)",
			"multi-commit bugs: a bug is expected to be refused as soon as one commit in reach of its ref must be refused, accepted otherwise; no expectation on which of several offending commits is named in the error",
			"timeline scripts: a key set given to Identity.Mutate while the bugs-edit clock stands at c is taken to be introduced at c: it must not apply to commits with a time < c and must apply to commits with a time > c (until the next change); commits at exactly c are not judged when the two readings differ (on this tree a version records clock.Time(), the last used time, so a key change made right after the author's own commit puts that commit under the new key set; counted under timeline/commit_at_the_clock_value_of_a_key_change)",
			"long-lived cache sessions: the author always lets a keyless author's commit advance the clock before a key change, so commits accepted earlier stay valid; a bug already loaded in the cache is not expected to be re-verified",
			"keys in force and signature validity are computed from gitraw's version blobs and `git cat-file commit` output; only the OpenPGP verification primitive is shared with git-bug",
			"a signed commit by an author with no key in force is expected to be accepted (the statement only speaks of unsigned ones); a refusal there has its own key",
			"private keys never reach the reading replica's keyring; the in-memory reader variant mirrors git-bug's own unit test set-up",
		})
}
