package checks

// C14 — removing an entity removes all of it, only it, and is repeatable.
//
// Monitor: a before/after observation of everything a removal may touch
//   - the full ref table, read twice (gitraw over git-bug's storage primitives
//     and `git for-each-ref` of the stock git binary),
//   - the `.git/config` key multiset (`git config --local --list`),
//   - the file listing of `.git/git-bug`, the set of git objects,
//   - the cache answers (AllIds, ResolveExcerpt, Resolve*, Query, marker
//     search) and the search index (document count, direct term hits),
// with a frame condition: the difference must be exactly the refs of the
// removed entity (local + remote-tracking for every configured remote), its
// excerpt and its index document. Then the removal is repeated, the cache is
// reopened, rebuilt from scratch, and MergeAll is run without a new fetch.
// `git-bug wipe` is judged by its stated end state only.
//
// The victim of a single-entity removal is in one of four states (c14Case.State):
// present locally with 0..3 remote-tracking refs; fetched and never merged
// (remote-tracking refs only); removed, fetched again, removed again; removed,
// pulled again, removed again. Findings outside the first state carry a
// ":state=<state>" suffix in their key.

import (
	"bytes"
	"context"
	"encoding/json"
	"fmt"
	"io/fs"
	"os"
	"os/exec"
	"path/filepath"
	"sort"
	"strings"
	"time"

	"github.com/MichaelMure/git-bug/cache"
	"github.com/MichaelMure/git-bug/entities/bug"
	"github.com/MichaelMure/git-bug/entities/identity"
	"github.com/MichaelMure/git-bug/entity"
	"github.com/MichaelMure/git-bug/query"
	"github.com/MichaelMure/git-bug/repository"

	"verif/harness/gitraw"
	"verif/harness/mon"
	"verif/harness/refmodel"
	"verif/harness/world"
)

func init() {
	register("C14", runC14)
	registerChild("c14", func(args []string) int {
		return serveBatch(args, func(c c14Case) c14Result { return c14Run(c) })
	})
}

// ---- case ----------------------------------------------------------------------

type c14Case struct {
	Name     string `json:"name"`
	Seed     int64  `json:"seed"`
	Idx      int    `json:"idx"`
	Kind     string `json:"kind"`     // bug | identity : what is removed
	Remotes  int    `json:"remotes"`  // 0..3 configured remotes
	Holds    int    `json:"holds"`    // bit i set: remote i holds the entity
	Others   int    `json:"others"`   // other entities of the same kind
	SharedK  []int  `json:"shared_k"` // engineered: some others share this many leading id characters with the victim
	CrossK   int    `json:"cross_k"`  // an entity of the other kind sharing this many characters (0: none)
	Api      string `json:"api"`      // entity | cache | cli-rm | cli-wipe
	Point    int    `json:"point"`    // 0 created+pushed | 1 edited locally | 2 edited remotely, pushed, pulled (merge)
	Prefix   string `json:"prefix"`   // full | shortest | human (cache and CLI removal take a prefix)
	UserSet  bool   `json:"user_identity_set"`
	Bridge   bool   `json:"bridge_config"`
	Unmerged bool   `json:"fetched_unmerged_entity"` // wipe: a remote entity was fetched and never merged
	// stock git packed the refs (`git pack-refs --all`, as gc does) after the repository was built and before the removal:
	// the refs of the victim live in .git/packed-refs, not in files of their own
	Packed   bool `json:"refs_packed_before_the_removal,omitempty"`
	PreCache bool `json:"cache_built_before"` // entity API: a cache existed before the removal (informational)
	// State of the victim when it is removed (single-entity removals only; needs a holding remote unless empty):
	//   ""                 it exists locally (+ one remote-tracking ref per holding remote)
	//   fetched-unmerged   it was created elsewhere, fetched from the holding remotes and never merged: remote-tracking refs only
	//   removed-refetched  removed once (as above), fetched again from the holding remotes, removed again: remote-tracking refs only
	//   removed-repulled   removed once, pulled again (fetch + merge: it legitimately comes back), removed again
	State string `json:"state,omitempty"`
	// Names of the configured remotes (len == Remotes). Empty: origin, origin2, peer. The name cases use names that git
	// accepts and that are not a single plain word: with '/', several levels, '.', '-', a name that is a prefix of
	// another one (team, team/alice), names equal to the namespace words (bugs, identities).
	Names   []string `json:"remote_names,omitempty"`
	NameSet string   `json:"remote_name_set,omitempty"`
	// Remote configurations that `git remote` / `git config` accept and that are not "one name, one absolute URL"
	// (configuration cases; CfgSet labels the configuration in the shape):
	//   Urls[i]  index of the bare repository remote i points at (empty: remote i has a repository of its own). Remotes
	//            with equal values are several NAMES of one URL (origin and upstream of one project, an alias).
	//   Odd[i]   "" | multi-url (a second url added with `git remote set-url --add`) | pushurl (a pushurl different from
	//            the url) | relative-url (the url is a path relative to the work tree)
	//   Ghost    one more remote, "ghost", that is configured and was never fetched from nor pushed to:
	//            "" | never-fetched (its URL is an existing, empty repository) | never-fetched-dead-url (nothing is there)
	Urls   []int    `json:"remote_urls,omitempty"`
	Odd    []string `json:"remote_oddities,omitempty"`
	Ghost  string   `json:"ghost_remote,omitempty"`
	CfgSet string   `json:"remote_config_set,omitempty"`
	// cli-rm: a bug is selected with `git-bug bug select` before the removal:
	//   ""  nothing is selected | other (another bug) | other-twin (the other bug sharing the longest id prefix with the
	//   victim) | victim (the bug that is removed)
	Select string `json:"selected,omitempty"`
	// with a selection: `bug rm` with an id that never existed / a mistyped prefix comes after the removal (and its
	// repetition) instead of before
	BadIdsAfter bool `json:"unknown_ids_after_the_removal,omitempty"`
	// Scale cases (c14_scale.go): 11..40 entities in the victim's namespace. Scale labels the family in the shape
	// ("among-many": a single victim removed among many; "remove-all": RemoveAll of the whole population).
	Scale string `json:"scale,omitempty"`
	// a cache rebuild after the removal deletes the cache files only and meets the search index the earlier sessions left
	// (false: cache files and index directory are both deleted, the rebuild starts from nothing)
	KeepIndex bool `json:"rebuild_keeps_the_index,omitempty"`
	// Api cache-removeall / entity-removeall: what is removed - "all" (bugs and identities) | "bugs" (the bugs only)
	Scope string `json:"scope,omitempty"`
	// Api cache-removeall: after RemoveAll a new identity and a new bug (holding the marker every removed bug held) are
	// created in the same session
	Recreate bool `json:"recreate_in_the_same_session,omitempty"`
	// Live cases (c14_scale.go): ONE repository handle (GoGitRepo, with Api cache*: the RepoCache over it) stays open while
	// stock git changes the remote configuration under it, before the removal is asked of the same handle:
	//   add         `git remote add late <url of a new, empty repository>`; the handle pushes everything to late
	//   add-fetch   the same, and the handle fetches from late afterwards
	//   rename      `git remote rename <the first holding remote> renamed`; the handle fetches from renamed
	//   remove      `git remote remove <the first remote>` (git deletes its remote-tracking refs)
	//   remove-add  `git remote remove <the first holding remote>`, `git remote add fresh <the same url>`; the handle fetches from fresh
	// Warm: what the handle did with its remote list before the change: none | get-remotes (GetRemotes, as the shell
	// completion and the bridge configuration do) | decoy-removal (another entity was removed through the same handle and API)
	Live string `json:"remotes_changed_under_the_handle,omitempty"`
	Warm string `json:"handle_used_its_remotes_before,omitempty"`
}

const (
	c14SharedURL   = "shared-url"
	c14MultiURL    = "multi-url"
	c14PushURL     = "pushurl"
	c14RelativeURL = "relative-url"
	c14GhostName   = "ghost"
)

// bareOf is the index of the repository remote i points at.
func (cs c14Case) bareOf(i int) int {
	if i < len(cs.Urls) {
		return cs.Urls[i]
	}
	return i
}

// cfgClass says what is unusual about the configuration of the i-th remote ("plain": nothing; i == Remotes: the ghost).
func (cs c14Case) cfgClass(i int) string {
	if i >= cs.Remotes {
		if cs.Ghost != "" {
			return cs.Ghost
		}
		return "plain"
	}
	var cls []string
	for j := 0; j < cs.Remotes; j++ {
		if j != i && cs.bareOf(j) == cs.bareOf(i) {
			cls = append(cls, c14SharedURL)
			break
		}
	}
	if i < len(cs.Odd) && cs.Odd[i] != "" {
		cls = append(cls, cs.Odd[i])
	}
	if len(cls) == 0 {
		return "plain"
	}
	return strings.Join(cls, "+")
}

// remoteName is the name of the i-th configured remote.
func (cs c14Case) remoteName(i int) string {
	if i < len(cs.Names) {
		return cs.Names[i]
	}
	return c14RemoteNames[i]
}

// c14NameClass says what is unusual about a remote name ("plain": nothing). Used in finding keys and counters.
func c14NameClass(name string) string {
	var cls []string
	segs := strings.Split(name, "/")
	switch {
	case len(segs) == 2:
		cls = append(cls, "slash")
	case len(segs) > 2:
		cls = append(cls, "multi-slash")
	}
	for _, sg := range segs {
		if sg == "bugs" || sg == "identities" {
			cls = append(cls, "ns-word")
			break
		}
	}
	if strings.Contains(name, ".") {
		cls = append(cls, "dot")
	}
	if strings.ContainsAny(name, "-_") {
		cls = append(cls, "dash")
	}
	if len(cls) == 0 {
		return "plain"
	}
	return strings.Join(cls, "+")
}

const (
	c14FetchedUnmerged  = "fetched-unmerged"
	c14RemovedRefetched = "removed-refetched"
	c14RemovedRepulled  = "removed-repulled"
)

// what frame expects of the victim's refs between two observations
type c14Expect int

const (
	c14Same       c14Expect = iota // nothing at all may differ
	c14Gone                        // the victim's refs must have disappeared
	c14GoneOrSame                  // a refused removal: the statement is silent about the victim's refs
)

type c14Result struct {
	HarnessError string              `json:"harness_error,omitempty"`
	Inconclusive []string            `json:"inconclusive,omitempty"`
	Findings     []c13Finding        `json:"findings,omitempty"`
	Shape        string              `json:"shape"`
	Nontrivial   bool                `json:"nontrivial"`
	Counters     map[string]int      `json:"counters"`
	Sets         map[string][]string `json:"sets"`
	Sample       map[string]any      `json:"sample,omitempty"`
}

var c14RemoteNames = []string{"origin", "origin2", "peer"} // "origin" is a prefix of "origin2" on purpose

// ---- environment ----------------------------------------------------------------

type c14Env struct {
	cs   c14Case
	res  *c14Result
	sets map[string]map[string]struct{}
	keys map[string]int

	failedStage string
	round       int // 1: the removal in the case's first state; 2: the removal after the entity was fetched / pulled again

	w       *world.World
	T, R2   *world.Replica
	remotes []string
	holds   []string

	victim    string
	ns        string            // bugs | identities (namespace of the victim)
	bugIds    []string          // every bug that exists before the removal
	identIds  []string          // every identity that exists before the removal
	markerOf  map[string]string // marker token -> bug id
	victimMk  []string          // marker tokens planted in the victim bug
	userIdent *identity.Identity

	selected     string // cli-rm with a selection: id of the selected bug (may be the victim)
	selectedOut  string // what `git-bug bug select` printed (human id and title of the selected bug)
	asked        string // set around a frame that follows a command which was not the removal of the victim: what was asked
	skipRound2   bool   // the population is no longer the expected one (a removal without argument was accepted)
	extraBareURL string // an existing, empty repository: second url / pushurl / url of the ghost

	// live cases: the remotes that hold the victim after the configuration changed (nil: by cs.Holds), the remote the
	// change produced ("" for remove), and the entity removed first through the same handle (decoy-removal)
	liveHolds   map[string]bool
	liveRemote  string
	decoy       string
	commonMk    string   // remove-all cases: a marker token every bug holds
	removedAll  []string // remove-all cases: the ids RemoveAll has to make disappear
	recreated   []string // remove-all cases: refs created after RemoveAll in the same session
	removeAllNs []string // remove-all cases: the namespaces RemoveAll empties
}

func (e *c14Env) count(k string, n int) { e.res.Counters[k] += n }
func (e *c14Env) seen(set, m string) {
	s := e.sets[set]
	if s == nil {
		s = map[string]struct{}{}
		e.sets[set] = s
	}
	s[m] = struct{}{}
}

// finding records a refuting observation. Within one case only the findings of the
// earliest failing stage are reported: what later stages see is a consequence.
//
// In a case with unusual remote names the key says so: a finding about a remote-tracking ref of a configured remote
// (pass the ref) gets ":remote-name=<class of that remote's name>" (nothing for a plain name), every other finding
// ":remote-names=unusual". The keys of the cases with the default names are unchanged.
func (e *c14Env) finding(key, what string, aboutRef ...string) {
	if len(e.cs.Names) > 0 {
		suffix := ":remote-names=unusual"
		if len(aboutRef) > 0 {
			if remote, _, _, ok := e.remoteOfRef(aboutRef[0]); ok {
				suffix = ""
				if cls := c14NameClass(remote); cls != "plain" {
					suffix = ":remote-name=" + cls
				}
			}
		}
		key += suffix
	}
	if e.cs.CfgSet != "" {
		// the same for the configuration cases: a finding about a remote-tracking ref of a configured remote names what is
		// unusual about that remote (nothing for a plain one), every other finding says ":remote-configs=unusual"
		suffix := ":remote-configs=unusual"
		if len(aboutRef) > 0 {
			if remote, _, _, ok := e.remoteOfRef(aboutRef[0]); ok {
				suffix = ""
				for i, r := range e.remotes {
					if r == remote {
						if cls := e.cs.cfgClass(i); cls != "plain" {
							suffix = ":remote-config=" + cls
						}
					}
				}
			}
		}
		key += suffix
	}
	if e.cs.Select != "" {
		key += ":selected=" + e.cs.Select
	}
	if e.cs.Live != "" {
		// a finding about a remote-tracking ref of the remote the configuration change produced says so, every other
		// finding of a live case says that the remotes changed under the handle
		suffix := ":remotes-changed-under-the-handle=" + e.cs.Live
		if len(aboutRef) > 0 && e.liveRemote != "" {
			if remote, _, _, ok := e.remoteOfRef(aboutRef[0]); ok && remote == e.liveRemote {
				suffix = ":remote-configured-under-the-handle=" + e.cs.Live
			}
		}
		key += suffix
	}
	if parts := strings.Split(key, ":"); parts[0] == "remove" {
		// the state the victim was in when this removal was asked for (nothing appended for an entity that exists locally
		// and is removed for the first time: the keys of that class are unchanged)
		switch {
		case e.cs.State == c14FetchedUnmerged:
			key += ":state=" + c14FetchedUnmerged
		case e.round == 2:
			key += ":state=" + e.cs.State
		}
	}
	parts := strings.Split(key, ":")
	stage := ""
	switch {
	case (parts[0] == "remove" || parts[0] == "removeall") && len(parts) > 3:
		stage = parts[3]
	case parts[0] == "wipe" && len(parts) > 1:
		stage = parts[1]
	}
	if e.failedStage == "" {
		e.failedStage = stage
	} else if stage != e.failedStage {
		e.count("consequent_findings_of_later_stages_not_reported", 1)
		return
	}
	e.keys[key]++
	if e.keys[key] > 1 {
		return
	}
	e.res.Findings = append(e.res.Findings, c13Finding{Key: key, What: what, Case: map[string]any{"case": e.cs, "victim": e.victim}})
}
func (e *c14Env) inconclusive(why string) { e.res.Inconclusive = append(e.res.Inconclusive, why) }

func (e *c14Env) remaining(ids []string) []string {
	var out []string
	for _, id := range ids {
		if id != e.victim {
			out = append(out, id)
		}
	}
	sort.Strings(out)
	return out
}

// ---- raw observation --------------------------------------------------------------

type c14Raw struct {
	Refs    map[string]string
	GitRefs map[string]string
	Config  []string
	Storage []string
	Objects map[string]struct{}
	// content of the selection file, "<none>" without one
	Selection string
	Err       string
}

func gitOut(dir string, args ...string) (string, error) {
	ctx, cancel := context.WithTimeout(context.Background(), 60*time.Second)
	defer cancel()
	cmd := exec.CommandContext(ctx, "git", append([]string{"-C", dir}, args...)...)
	var out, errb bytes.Buffer
	cmd.Stdout, cmd.Stderr = &out, &errb
	if err := cmd.Run(); err != nil {
		return out.String(), fmt.Errorf("git %v: %v: %s", args, err, errb.String())
	}
	return out.String(), nil
}

func (e *c14Env) observeRaw() c14Raw {
	o := c14Raw{GitRefs: map[string]string{}, Objects: map[string]struct{}{}}
	var err error
	o.Refs, err = gitraw.RefTable(e.T.Repo, "refs/")
	if err != nil {
		o.Err = "gitraw: " + err.Error()
		return o
	}
	s, err := gitOut(e.T.Dir, "for-each-ref", "--format=%(refname) %(objectname)")
	if err != nil {
		o.Err = err.Error()
		return o
	}
	for _, line := range strings.Split(strings.TrimSpace(s), "\n") {
		if f := strings.Fields(line); len(f) == 2 {
			o.GitRefs[f[0]] = f[1]
		}
	}
	s, err = gitOut(e.T.Dir, "config", "--local", "--list")
	if err != nil && strings.TrimSpace(s) != "" {
		o.Err = err.Error()
		return o
	}
	for _, line := range strings.Split(strings.TrimSpace(s), "\n") {
		if line != "" {
			o.Config = append(o.Config, line)
		}
	}
	sort.Strings(o.Config)
	root := filepath.Join(e.T.Dir, ".git", "git-bug")
	_ = filepath.WalkDir(root, func(p string, d fs.DirEntry, err error) error {
		if err != nil {
			return nil
		}
		rel, _ := filepath.Rel(root, p)
		if rel == "." {
			return nil
		}
		if d.IsDir() {
			o.Storage = append(o.Storage, rel+"/")
		} else {
			o.Storage = append(o.Storage, rel)
		}
		return nil
	})
	sort.Strings(o.Storage)
	o.Selection = "<none>"
	if sel, ok := e.selectionFile(); ok {
		o.Selection = sel
	}
	s, err = gitOut(e.T.Dir, "cat-file", "--batch-all-objects", "--batch-check=%(objectname)")
	if err != nil {
		o.Err = err.Error()
		return o
	}
	for _, line := range strings.Fields(s) {
		o.Objects[line] = struct{}{}
	}
	return o
}

// refClass names what a ref is, relative to the victim.
func (e *c14Env) refClass(ref string) string {
	for _, ns := range []string{"bugs", "identities"} {
		if strings.HasPrefix(ref, "refs/"+ns+"/") {
			if ns == e.ns && strings.TrimPrefix(ref, "refs/"+ns+"/") == e.victim {
				return "victim-local"
			}
			if ns == "bugs" && e.selected != "" && strings.TrimPrefix(ref, "refs/bugs/") == e.selected {
				return "selected-bug-local"
			}
			return "other-" + ns + "-local"
		}
	}
	if strings.HasPrefix(ref, "refs/remotes/") {
		// refs/remotes/<remote>/<namespace>/<id> of a configured remote (whose name may hold any number of '/')
		if _, ns, id, ok := e.remoteOfRef(ref); ok {
			if ns == e.ns && id == e.victim {
				return "victim-remote-tracking"
			}
			if ns == "bugs" && e.selected != "" && id == e.selected {
				return "selected-bug-remote-tracking"
			}
			return "other-" + ns + "-remote-tracking"
		}
		parts := strings.SplitN(strings.TrimPrefix(ref, "refs/remotes/"), "/", 3)
		if len(parts) == 3 && (parts[1] == "bugs" || parts[1] == "identities") {
			return "other-" + parts[1] + "-remote-tracking"
		}
	}
	return "host"
}

// remoteOfRef: ref is refs/remotes/<remote>/<bugs|identities>/<one path element> for a configured remote. With several
// candidates (no name set of the case list has any) the longest remote name wins.
func (e *c14Env) remoteOfRef(ref string) (remote, ns, id string, ok bool) {
	for _, r := range e.remotes {
		for _, n := range []string{"bugs", "identities"} {
			p := "refs/remotes/" + r + "/" + n + "/"
			if strings.HasPrefix(ref, p) && len(ref) > len(p) && !strings.Contains(ref[len(p):], "/") && len(r) > len(remote) {
				remote, ns, id, ok = r, n, ref[len(p):], true
			}
		}
	}
	return
}

func storageOutsideCache(files []string) []string {
	var out []string
	for _, f := range files {
		if strings.HasPrefix(f, "cache/") || strings.HasPrefix(f, "indexes/") || f == "cache" || f == "indexes" {
			continue
		}
		if f == "lock" { // the process lock of an open cache session (C19's business), not a removal effect
			continue
		}
		out = append(out, f)
	}
	return out
}

// withoutSelection drops the selection file (and its directory) from a listing.
func withoutSelection(files []string) []string {
	var out []string
	for _, f := range files {
		if f != "select/" && f != "select/bugs" {
			out = append(out, f)
		}
	}
	return out
}

// selectionFile returns the content of .git/git-bug/select/bugs ("" and false: there is none).
func (e *c14Env) selectionFile() (string, bool) {
	data, err := os.ReadFile(filepath.Join(e.T.Dir, ".git", "git-bug", "select", "bugs"))
	if err != nil {
		return "", false
	}
	return string(data), true
}

// frame compares two raw observations. expect = c14Gone: the victim's refs must have
// disappeared between before and after; c14Same: nothing at all may differ; c14GoneOrSame
// (a refused removal): the victim's refs are not judged, nothing else may differ.
func (e *c14Env) frame(stage string, before, after c14Raw, expect c14Expect) {
	expectGone := expect == c14Gone
	if before.Err != "" || after.Err != "" {
		e.inconclusive(stage + ": raw observation failed: " + before.Err + after.Err)
		return
	}
	kp := fmt.Sprintf("remove:%s:%s:%s:", e.cs.Kind, e.cs.Api, stage)
	for _, reader := range []struct {
		name string
		b, a map[string]string
	}{{"gitraw", before.Refs, after.Refs}, {"for-each-ref", before.GitRefs, after.GitRefs}} {
		for ref, h := range reader.b {
			cls := e.refClass(ref)
			ah, still := reader.a[ref]
			if expect == c14GoneOrSame && strings.HasPrefix(cls, "victim-") {
				e.count("victim_refs_not_judged_after_a_refused_removal", 1)
				continue
			}
			if expectGone && strings.HasPrefix(cls, "victim-") {
				if still {
					e.finding(kp+"ref-left:"+cls, fmt.Sprintf("%s still lists %s after the removal of %s %s", reader.name, ref, e.cs.Kind, e.victim), ref)
				} else {
					e.count("victim_refs_removed/"+cls, 1)
					if remote, _, _, ok := e.remoteOfRef(ref); ok && len(e.cs.Names) > 0 {
						e.count("victim_refs_removed_by_remote_name_class/"+e.cs.Kind+"/"+c14NameClass(remote), 1)
					}
					if remote, _, _, ok := e.remoteOfRef(ref); ok && e.cs.CfgSet != "" {
						for i, r := range e.remotes {
							if r == remote {
								e.count("victim_refs_removed_by_remote_config_class/"+e.cs.Kind+"/"+e.cs.cfgClass(i), 1)
							}
						}
					}
				}
				continue
			}
			only := fmt.Sprintf("although only %s %s was removed", e.cs.Kind, e.victim)
			if e.asked != "" {
				only = "after " + e.asked
			}
			if !still {
				e.finding(kp+"other-ref-deleted:"+cls, fmt.Sprintf("%s: ref %s (%s) disappeared %s", reader.name, ref, cls, only), ref)
			} else if ah != h {
				e.finding(kp+"other-ref-moved:"+cls, fmt.Sprintf("%s: ref %s (%s) moved %s -> %s %s", reader.name, ref, cls, h, ah, only), ref)
			} else {
				e.count("other_refs_unchanged", 1)
				e.seen("protected_ref_classes", cls)
			}
		}
		for ref := range reader.a {
			if _, ok := reader.b[ref]; !ok {
				e.finding(kp+"ref-added:"+e.refClass(ref), fmt.Sprintf("%s: ref %s appeared", reader.name, ref), ref)
			}
		}
	}
	if !equalStrings(sortedKV(after.Refs), sortedKV(after.GitRefs)) {
		e.inconclusive(stage + ": gitraw and git for-each-ref disagree about the ref table")
	}
	if !equalStrings(before.Config, after.Config) {
		e.finding(kp+"config-changed", fmt.Sprintf(".git/config keys changed: before %v after %v", before.Config, after.Config))
	} else {
		e.count("config_keys_unchanged", len(after.Config))
	}
	b, a := storageOutsideCache(before.Storage), storageOutsideCache(after.Storage)
	if e.selected != "" && e.selected == e.victim {
		// the selection names the removed bug itself: whether a removal keeps or clears it is not stated
		b, a = withoutSelection(b), withoutSelection(a)
		e.count("selection_of_the_victim_not_judged", 1)
	}
	if !equalStrings(b, a) {
		e.finding(kp+"storage-changed", fmt.Sprintf("files of .git/git-bug outside cache/ and indexes/ changed: before %v after %v", b, a))
	}
	if e.selected != "" && e.selected != e.victim {
		if before.Selection != after.Selection {
			e.finding(kp+"selection-changed", fmt.Sprintf("the selection (.git/git-bug/select/bugs) changed from %q to %q although only %s %s was to be removed", before.Selection, after.Selection, e.cs.Kind, e.victim))
		} else {
			e.count("selection_unchanged", 1)
		}
	}
	lost := 0
	for obj := range before.Objects {
		if _, ok := after.Objects[obj]; !ok {
			lost++
		}
	}
	if lost > 0 {
		e.finding(kp+"objects-lost", fmt.Sprintf("%d git objects disappeared", lost))
	}
	e.count("objects_checked", len(before.Objects))
}

func sortedKV(m map[string]string) []string {
	out := make([]string, 0, len(m))
	for k, v := range m {
		out = append(out, k+" "+v)
	}
	sort.Strings(out)
	return out
}

// ---- cache observation ---------------------------------------------------------------

type c14CacheObs struct {
	Bugs, Idents []string
	BugEx        map[string]string
	IdentEx      map[string]string
	Queries      map[string]string // query -> sorted ids joined, or "!error"/"!panic"
	IndexHits    map[string]string // marker -> ids found by the index directly
	BugDocs      int
	IdentDocs    int
	Probes       map[string]string // probe of the victim -> outcome
	PrefixBad    []string          // prefixes of the victim id answered differently from the model over the expected population
}

func (e *c14Env) markers() []string {
	var ms []string
	for m := range e.markerOf {
		ms = append(ms, m)
	}
	sort.Strings(ms)
	return ms
}

func outcome(id string, err error, panicked any) string {
	switch {
	case panicked != nil:
		return fmt.Sprintf("panic: %v", panicked)
	case err == nil:
		return "found:" + id
	case isNotFound(err):
		return "notfound"
	}
	if m, ok := asMultiple(err); ok {
		return "multiple:" + strings.Join(m, ",")
	}
	return "error: " + err.Error()
}

// observeCache questions an open cache. expected* are the populations the model assumes.
func (e *c14Env) observeCache(c *cache.RepoCache, expBugs, expIdents []string) c14CacheObs {
	o := c14CacheObs{BugEx: map[string]string{}, IdentEx: map[string]string{}, Queries: map[string]string{}, IndexHits: map[string]string{}, Probes: map[string]string{}}
	for _, id := range c.Bugs().AllIds() {
		o.Bugs = append(o.Bugs, string(id))
	}
	sort.Strings(o.Bugs)
	for _, id := range c.Identities().AllIds() {
		o.Idents = append(o.Idents, string(id))
	}
	sort.Strings(o.Idents)
	for _, id := range o.Bugs {
		if ex, err := c.Bugs().ResolveExcerpt(entity.Id(id)); err == nil {
			o.BugEx[id] = mon.JSON(ex)
		} else {
			o.BugEx[id] = "!" + err.Error()
		}
	}
	for _, id := range o.Idents {
		if ex, err := c.Identities().ResolveExcerpt(entity.Id(id)); err == nil {
			o.IdentEx[id] = mon.JSON(ex)
		} else {
			o.IdentEx[id] = "!" + err.Error()
		}
	}
	qs := append([]string{"", "status:open", "status:closed", "label:lx"}, e.markers()...)
	for _, qstr := range qs {
		func() {
			defer func() {
				if p := recover(); p != nil {
					o.Queries[qstr] = fmt.Sprintf("!panic: %v", p)
				}
			}()
			q, err := query.Parse(qstr)
			if err != nil {
				o.Queries[qstr] = "!parse: " + err.Error()
				return
			}
			ids, err := c.Bugs().Query(q)
			if err != nil {
				o.Queries[qstr] = "!error: " + err.Error()
				return
			}
			o.Queries[qstr] = strings.Join(idStrings(ids), ",")
		}()
	}
	if idx, err := e.T.Repo.GetIndex("bugs"); err == nil {
		if n, err := idx.DocCount(); err == nil {
			o.BugDocs = int(n)
		} else {
			o.BugDocs = -1
		}
		for _, m := range e.markers() {
			hits, err := idx.Search([]string{m})
			if err != nil {
				o.IndexHits[m] = "!error: " + err.Error()
				continue
			}
			sort.Strings(hits)
			o.IndexHits[m] = strings.Join(hits, ",")
		}
	} else {
		o.BugDocs = -1
	}
	if idx, err := e.T.Repo.GetIndex("identities"); err == nil {
		if n, err := idx.DocCount(); err == nil {
			o.IdentDocs = int(n)
		} else {
			o.IdentDocs = -1
		}
	} else {
		o.IdentDocs = -1
	}

	// the victim, by full id
	vid := entity.Id(e.victim)
	probe := func(name string, f func() (string, error)) {
		var id string
		var err error
		var panicked any
		func() {
			defer func() { panicked = recover() }()
			id, err = f()
		}()
		o.Probes[name] = outcome(id, err, panicked)
	}
	exp := expBugs
	if e.ns == "bugs" {
		probe("Resolve", func() (string, error) {
			b, err := c.Bugs().Resolve(vid)
			if err != nil {
				return "", err
			}
			return string(b.Id()), nil
		})
		probe("ResolveExcerpt", func() (string, error) {
			x, err := c.Bugs().ResolveExcerpt(vid)
			if err != nil {
				return "", err
			}
			return string(x.Id()), nil
		})
	} else {
		exp = expIdents
		probe("Resolve", func() (string, error) {
			b, err := c.Identities().Resolve(vid)
			if err != nil {
				return "", err
			}
			return string(b.Id()), nil
		})
		probe("ResolveExcerpt", func() (string, error) {
			x, err := c.Identities().ResolveExcerpt(vid)
			if err != nil {
				return "", err
			}
			return string(x.Id()), nil
		})
	}
	// the victim, by every prefix of its id: the answer must be the model's over the expected population
	pop := refmodel.NewPrefixPopulation(exp)
	for l := 0; l <= len(e.victim); l++ {
		p := e.victim[:l]
		kind, want := pop.Resolve(p)
		for _, api := range []string{"ResolveExcerptPrefix", "ResolvePrefix"} {
			if api == "ResolvePrefix" && l%8 != 0 && l != 7 && l != len(e.victim) {
				continue // the loading variant on a sample of lengths
			}
			var id string
			var err error
			var panicked any
			func() {
				defer func() { panicked = recover() }()
				switch {
				case e.ns == "bugs" && api == "ResolveExcerptPrefix":
					var x *cache.BugExcerpt
					if x, err = c.Bugs().ResolveExcerptPrefix(p); err == nil {
						id = string(x.Id())
					}
				case e.ns == "bugs":
					var x *cache.BugCache
					if x, err = c.Bugs().ResolvePrefix(p); err == nil {
						id = string(x.Id())
					}
				case api == "ResolveExcerptPrefix":
					var x *cache.IdentityExcerpt
					if x, err = c.Identities().ResolveExcerptPrefix(p); err == nil {
						id = string(x.Id())
					}
				default:
					var x *cache.IdentityCache
					if x, err = c.Identities().ResolvePrefix(p); err == nil {
						id = string(x.Id())
					}
				}
			}()
			if _, bad := c13Judge(kind, want, id, err, panicked); bad != "" {
				o.PrefixBad = append(o.PrefixBad, fmt.Sprintf("%s(%q): %s", api, p, bad))
			}
		}
	}
	return o
}

// checkAbsent judges a cache observation made after the removal. All the ways in which the
// removed entity is still served make one finding, all disturbances of other entities another.
func (e *c14Env) checkAbsent(stage string, o c14CacheObs, before *c14CacheObs) {
	kp := fmt.Sprintf("remove:%s:%s:%s:", e.cs.Kind, e.cs.Api, stage)
	expBugs, expIdents := e.remaining(e.bugIds), e.remaining(e.identIds)
	var servedBy, servedDetail, disturbedBy, disturbedDetail []string
	served := func(how, detail string) {
		servedBy = append(servedBy, how)
		servedDetail = append(servedDetail, detail)
	}
	disturbed := func(how, detail string) {
		disturbedBy = append(disturbedBy, how)
		disturbedDetail = append(disturbedDetail, detail)
	}
	has := func(ids []string, id string) bool {
		for _, x := range ids {
			if x == id {
				return true
			}
		}
		return false
	}
	if has(o.Bugs, e.victim) || has(o.Idents, e.victim) {
		served("AllIds", "AllIds() still lists it")
	}
	if got, exp := e.remaining(o.Bugs), expBugs; !equalStrings(got, exp) {
		disturbed("AllIds(bugs)", fmt.Sprintf("Bugs().AllIds() = %v, expected %v", o.Bugs, exp))
	}
	if got, exp := e.remaining(o.Idents), expIdents; !equalStrings(got, exp) {
		disturbed("AllIds(identities)", fmt.Sprintf("Identities().AllIds() = %v, expected %v", o.Idents, exp))
	}
	for _, name := range []string{"Resolve", "ResolveExcerpt"} {
		if got := o.Probes[name]; got != "notfound" {
			served(name, fmt.Sprintf("%s(id): %s", name, got))
		} else {
			e.count("victim_probes_notfound", 1)
		}
	}
	if len(o.PrefixBad) > 0 {
		served("prefix", fmt.Sprintf("%d prefixes of its id are answered wrongly, e.g. %s", len(o.PrefixBad), o.PrefixBad[len(o.PrefixBad)-1]))
	} else {
		e.count("victim_prefix_lengths_checked", 65)
	}
	if e.ns == "bugs" {
		var qs []string
		for q := range o.Queries {
			qs = append(qs, q)
		}
		sort.Strings(qs)
		for _, q := range qs {
			got := o.Queries[q]
			if strings.Contains(got, e.victim) {
				served("query", fmt.Sprintf("query %q returns it", q))
			}
			if strings.HasPrefix(got, "!") {
				disturbed("query-fails", fmt.Sprintf("query %q: %s", q, got))
			}
		}
		for _, m := range e.victimMk {
			if got := o.IndexHits[m]; got != "" {
				served("index", fmt.Sprintf("the search index answers its marker %q with %s", m, got))
			} else {
				e.count("victim_markers_unfindable", 1)
			}
		}
	}
	if got := o.Queries[""]; !strings.HasPrefix(got, "!") && !strings.Contains(got, e.victim) && got != strings.Join(expBugs, ",") {
		disturbed("query-all", fmt.Sprintf("the empty query returns %s, expected %v", got, expBugs))
	}
	wantBugDocs, wantIdentDocs := len(expBugs), len(expIdents)
	if o.BugDocs != wantBugDocs {
		if e.ns == "bugs" && o.BugDocs == wantBugDocs+1 {
			served("index-count", fmt.Sprintf("the bug index still holds %d documents for %d bugs", o.BugDocs, wantBugDocs))
		} else {
			disturbed("index-count(bugs)", fmt.Sprintf("the bug index holds %d documents for %d bugs", o.BugDocs, wantBugDocs))
		}
	}
	if o.IdentDocs != wantIdentDocs {
		if e.ns == "identities" && o.IdentDocs == wantIdentDocs+1 {
			served("index-count", fmt.Sprintf("the identity index still holds %d documents for %d identities", o.IdentDocs, wantIdentDocs))
		} else {
			disturbed("index-count(identities)", fmt.Sprintf("the identity index holds %d documents for %d identities", o.IdentDocs, wantIdentDocs))
		}
	}
	// the others: still found by their markers, excerpts untouched
	for _, m := range e.markers() {
		id := e.markerOf[m]
		if id == e.victim {
			continue
		}
		if got := o.Queries[m]; got != id && !strings.HasPrefix(got, "!") {
			disturbed("marker-query", fmt.Sprintf("marker %q of bug %s is answered with %q", m, id, got))
		} else if got := o.IndexHits[m]; got != id {
			disturbed("marker-index", fmt.Sprintf("the index answers marker %q of bug %s with %q", m, id, got))
		} else {
			e.count("other_markers_still_found", 1)
		}
	}
	if before != nil {
		for _, id := range expBugs {
			if before.BugEx[id] != o.BugEx[id] {
				disturbed("excerpt(bug)", fmt.Sprintf("excerpt of bug %s changed: %s -> %s", id, before.BugEx[id], o.BugEx[id]))
			} else {
				e.count("other_excerpts_unchanged", 1)
			}
		}
		for _, id := range expIdents {
			if before.IdentEx[id] != o.IdentEx[id] {
				disturbed("excerpt(identity)", fmt.Sprintf("excerpt of identity %s changed: %s -> %s", id, before.IdentEx[id], o.IdentEx[id]))
			} else {
				e.count("other_excerpts_unchanged", 1)
			}
		}
		for _, q := range []string{"status:open", "status:closed", "label:lx"} {
			want := strings.Join(e.remaining(strings.Split(before.Queries[q], ",")), ",")
			if before.Queries[q] == "" {
				want = ""
			}
			got := strings.Join(e.remaining(strings.Split(o.Queries[q], ",")), ",")
			if o.Queries[q] == "" {
				got = ""
			}
			if got != want && !strings.HasPrefix(o.Queries[q], "!") {
				disturbed("query-answer", fmt.Sprintf("query %q: before %q, after %q", q, before.Queries[q], o.Queries[q]))
			}
		}
	}
	uniq := func(l []string) []string {
		m := map[string]struct{}{}
		var out []string
		for _, x := range l {
			if _, ok := m[x]; !ok {
				m[x] = struct{}{}
				out = append(out, x)
			}
		}
		return out
	}
	trim := func(l []string) []string {
		if len(l) > 6 {
			return append(l[:6:6], fmt.Sprintf("… (%d more)", len(l)-6))
		}
		return l
	}
	if len(servedBy) > 0 {
		e.finding(kp+"entity-still-served", fmt.Sprintf("the removed %s %s is still served by %v: %s", e.cs.Kind, e.victim, uniq(servedBy), strings.Join(trim(servedDetail), "; ")))
	} else {
		e.count("cache_sessions_without_the_victim", 1)
	}
	if len(disturbedBy) > 0 {
		e.finding(kp+"others-disturbed", fmt.Sprintf("after removing %s %s the answers about other entities changed (%v): %s", e.cs.Kind, e.victim, uniq(disturbedBy), strings.Join(trim(disturbedDetail), "; ")))
	}
}

// ---- helpers: cache sessions, CLI ------------------------------------------------------

func (e *c14Env) openCache() (*cache.RepoCache, error) {
	c, err := cache.NewRepoCacheNoEvents(e.T.Repo)
	if err != nil {
		return nil, err
	}
	e.T.Cache = c
	return c, nil
}

func (e *c14Env) closeCache() error {
	// closes the cache (or the bare repository handle) and opens the repository again
	return e.T.Reopen(bug.ClockLoader)
}

// session opens the cache, observes, closes.
func (e *c14Env) session(expBugs, expIdents []string) (*c14CacheObs, error) {
	c, err := e.openCache()
	if err != nil {
		return nil, err
	}
	o := e.observeCache(c, expBugs, expIdents)
	return &o, e.closeCache()
}

func (e *c14Env) dropCacheFiles() error {
	for _, d := range []string{"cache", "indexes"} {
		if d == "indexes" && e.cs.KeepIndex {
			e.count("rebuilds_over_the_index_of_earlier_sessions", 1)
			continue
		}
		if err := os.RemoveAll(filepath.Join(e.T.Dir, ".git", "git-bug", d)); err != nil {
			return err
		}
	}
	return nil
}

type cliResult struct {
	Out      string
	Code     int
	TimedOut bool
}

func (e *c14Env) cli(args ...string) cliResult {
	r := e.cliOnce(args...)
	// a Go runtime death of the CLI (panic / fatal error, e.g. the data race of the cache build) happens
	// before the command proper and is not this property's business: run the command once more
	if !r.TimedOut && r.Code != 0 && (strings.Contains(r.Out, "fatal error:") || strings.Contains(r.Out, "panic:")) && strings.Contains(r.Out, "goroutine ") {
		e.count("cli_runtime_deaths_rerun", 1)
		e.seen("cli_runtime_deaths", mon.PanicSite(r.Out))
		_ = os.Remove(filepath.Join(e.T.Dir, ".git", "git-bug", "lock"))
		r = e.cliOnce(args...)
	}
	return r
}

func (e *c14Env) cliOnce(args ...string) cliResult {
	bin := filepath.Join(os.Getenv("VERIF_BIN"), "git-bug")
	ctx, cancel := context.WithTimeout(context.Background(), 120*time.Second)
	defer cancel()
	cmd := exec.CommandContext(ctx, bin, args...)
	cmd.Dir = e.T.Dir
	var buf bytes.Buffer
	cmd.Stdout, cmd.Stderr = &buf, &buf
	err := cmd.Run()
	r := cliResult{Out: buf.String()}
	if ctx.Err() != nil {
		r.TimedOut = true
		return r
	}
	if err != nil {
		if ee, ok := err.(*exec.ExitError); ok {
			r.Code = ee.ExitCode()
		} else {
			r.Code = 127
			r.Out += err.Error()
		}
	}
	e.count("cli_runs", 1)
	return r
}

// ---- building the history ----------------------------------------------------------------

func c14Marker(i int, tag byte) string {
	// tokens the English analyzer leaves alone: no stop word, no stemmable suffix
	return fmt.Sprintf("zq%02dx%ck", i, tag)
}

func (e *c14Env) build() error {
	cs := e.cs
	rng := mon.Rng(cs.Seed, "c14-"+cs.Name, cs.Idx)
	dir := world.ScratchDir("c14-")
	e.w = &world.World{Dir: dir}
	mk := func(name string, bare bool) (*world.Replica, error) {
		return world.InitRepo(filepath.Join(dir, name), bare)
	}
	var err error
	if e.T, err = mk("T", false); err != nil {
		return err
	}
	if e.R2, err = mk("R2", false); err != nil {
		return err
	}
	e.w.Replicas = []*world.Replica{e.T, e.R2}
	var bares []*world.Replica
	if len(cs.Names) > 0 && len(cs.Names) != cs.Remotes {
		return fmt.Errorf("%d remote names for %d remotes", len(cs.Names), cs.Remotes)
	}
	if (len(cs.Urls) > 0 && len(cs.Urls) != cs.Remotes) || (len(cs.Odd) > 0 && len(cs.Odd) != cs.Remotes) {
		return fmt.Errorf("%d urls / %d oddities for %d remotes", len(cs.Urls), len(cs.Odd), cs.Remotes)
	}
	if cs.CfgSet != "" {
		// an existing repository that never holds anything: the second url, the pushurl, the url of the ghost
		x, err := mk("remote-extra", true)
		if err != nil {
			return err
		}
		e.extraBareURL = x.Tested.GetLocalRemote()
		_ = x.Repo.Close()
	}
	bareByIdx := map[int]*world.Replica{}
	for i := 0; i < cs.Remotes; i++ {
		name, dirName := cs.remoteName(i), "remote-"+cs.remoteName(i)
		if len(cs.Names) > 0 || cs.CfgSet != "" {
			dirName = fmt.Sprintf("remote-%d", cs.bareOf(i)) // the name may hold '/'; several names may share a repository
		}
		if len(cs.Names) > 0 {
			e.seen("unusual_remote_names", fmt.Sprintf("%s (%s)", name, c14NameClass(name)))
		}
		b := bareByIdx[cs.bareOf(i)]
		if b == nil {
			var err error
			if b, err = mk(dirName, true); err != nil {
				return err
			}
			bareByIdx[cs.bareOf(i)] = b
		}
		bares = append(bares, b) // bares[i]: the repository of remote i (the same one for several names of one URL)
		e.remotes = append(e.remotes, name)
		if cs.Holds&(1<<i) != 0 {
			e.holds = append(e.holds, name)
		}
		for _, r := range []*world.Replica{e.T, e.R2} {
			if err := r.Tested.AddRemote(name, b.Tested.GetLocalRemote()); err != nil {
				return fmt.Errorf("AddRemote(%q): %w", name, err)
			}
			// a second url and a pushurl are there from the start: everything the history does goes through such a remote
			// (the relative url is written at the end of the history: this process does not run in the work tree)
			var err error
			switch {
			case i < len(cs.Odd) && cs.Odd[i] == c14MultiURL:
				_, err = gitOut(r.Dir, "remote", "set-url", "--add", name, e.extraBareURL)
			case i < len(cs.Odd) && cs.Odd[i] == c14PushURL:
				_, err = gitOut(r.Dir, "remote", "set-url", "--push", name, e.extraBareURL)
			}
			if err != nil {
				return err
			}
		}
		if cs.CfgSet != "" {
			e.seen("remote_configuration_classes", fmt.Sprintf("%s/%s/holds-victim=%v", cs.Kind, cs.cfgClass(i), cs.Holds&(1<<i) != 0))
		}
	}
	defer func() {
		for _, b := range bareByIdx {
			_ = b.Repo.Close()
		}
	}()
	T, w := e.T, e.w
	alice, err := T.NewAuthor("alice")
	if err != nil {
		return err
	}
	if _, err := T.NewAuthor("bob"); err != nil {
		return err
	}
	e.userIdent = alice
	e.identIds = []string{string(T.Authors[0].Id()), string(T.Authors[1].Id())}
	e.markerOf = map[string]string{}
	author := func() identity.Interface { return T.Authors[rng.Intn(2)] }

	// host content that a removal must never touch
	blob, err := T.Repo.StoreData([]byte("host file\n"))
	if err != nil {
		return err
	}
	tree, err := T.Repo.StoreTree([]repository.TreeEntry{{ObjectType: repository.Blob, Hash: blob, Name: "README"}})
	if err != nil {
		return err
	}
	hostCommit, err := T.Repo.StoreCommit(tree)
	if err != nil {
		return err
	}

	newBug := func(i int, op *bug.CreateOperation, title string) (*bug.Bug, error) {
		var b *bug.Bug
		var err error
		if op != nil {
			b, err = bugFromOp(op)
		} else {
			b, _, err = bug.Create(author(), w.Now(), title, "message of "+title, nil, nil)
		}
		if err != nil {
			return nil, err
		}
		for k := rng.Intn(3); k > 0; k-- {
			if _, _, err := bug.AddComment(b, author(), w.Now(), fmt.Sprintf("plain comment %d", k), nil, nil); err != nil {
				return nil, err
			}
		}
		if rng.Intn(2) == 0 {
			if _, _, err := bug.ChangeLabels(b, author(), w.Now(), []string{"lx"}, nil, nil); err != nil {
				return nil, err
			}
		}
		if rng.Intn(4) == 0 {
			if _, err := bug.Close(b, author(), w.Now(), nil); err != nil {
				return nil, err
			}
		}
		return b, nil
	}
	commitBug := func(b *bug.Bug, marker string) error {
		if err := b.Commit(T.Repo); err != nil {
			return err
		}
		e.bugIds = append(e.bugIds, string(b.Id()))
		if marker != "" {
			e.markerOf[marker] = string(b.Id())
		}
		return nil
	}
	commitIdent := func(i *identity.Identity) error {
		if err := i.Commit(T.Repo); err != nil {
			return err
		}
		e.identIds = append(e.identIds, string(i.Id()))
		return nil
	}
	engNote := func(kind string, k int, a, b string) {
		e.seen("engineered_shared_prefixes", fmt.Sprintf("%s:asked=%d:realised=%d", kind, k, refmodel.SharedPrefixLen(a, b)))
	}

	var victimBug *bug.Bug
	var victimIdent *identity.Identity
	common := "" // remove-all cases: a token every bug holds (in its title)
	if cs.Scale == c14RemoveAll {
		e.commonMk = c14Marker(99, 'c')
		common = " " + e.commonMk
	}
	if cs.Kind == "bug" {
		e.ns = "bugs"
		m1, m2 := c14Marker(0, 'v'), c14Marker(0, 'w')
		victimBug, _, err = bug.Create(author(), w.Now(), "victim "+m1+common, "victim message", nil, nil)
		if err != nil {
			return err
		}
		if _, _, err := bug.AddComment(victimBug, author(), w.Now(), "a comment holding "+m2, nil, nil); err != nil {
			return err
		}
		if _, _, err := bug.ChangeLabels(victimBug, author(), w.Now(), []string{"lx"}, nil, nil); err != nil {
			return err
		}
		e.victim = string(victimBug.Id())
		e.victimMk = []string{m1, m2}
		for i := 0; i < cs.Others; i++ {
			m := c14Marker(i+1, 'o')
			title := fmt.Sprintf("other %d %s", i, m) + common
			var op *bug.CreateOperation
			if i < len(cs.SharedK) {
				op, _ = engCreateOp(author(), w.Now(), title, "message of "+title, e.victim[:cs.SharedK[i]])
				if op == nil {
					e.inconclusive(fmt.Sprintf("no bug id sharing %d characters found", cs.SharedK[i]))
				}
			}
			b, err := newBug(i, op, title)
			if err != nil {
				return err
			}
			if op != nil {
				engNote("bug", cs.SharedK[i], e.victim, string(b.Id()))
			}
			if err := commitBug(b, m); err != nil {
				return err
			}
		}
		if cs.CrossK > 0 {
			if id, _ := engIdentity("crossns", "crossns@example.com", e.victim[:cs.CrossK]); id != nil {
				engNote("identity-vs-bug", cs.CrossK, e.victim, string(id.Id()))
				if err := commitIdent(id); err != nil {
					return err
				}
			}
		}
	} else {
		e.ns = "identities"
		vrepo := T.Repo
		if cs.State == c14FetchedUnmerged {
			vrepo = e.R2.Repo // the victim comes into existence on another replica
		}
		victimIdent, err = identity.NewIdentity(vrepo, "victim", "victim@example.com")
		if err != nil {
			return err
		}
		e.victim = string(victimIdent.Id())
		for i := 0; i < cs.Others; i++ {
			var id *identity.Identity
			if i < len(cs.SharedK) {
				id, _ = engIdentity(fmt.Sprintf("other%d", i), "other@example.com", e.victim[:cs.SharedK[i]])
				if id == nil {
					e.inconclusive(fmt.Sprintf("no identity id sharing %d characters found", cs.SharedK[i]))
				} else {
					engNote("identity", cs.SharedK[i], e.victim, string(id.Id()))
				}
			}
			if id == nil {
				if id, err = identity.NewIdentity(T.Repo, fmt.Sprintf("other%d", i), "other@example.com"); err != nil {
					return err
				}
			}
			if err := commitIdent(id); err != nil {
				return err
			}
		}
		// bystander bugs
		for i := 0; i < 2+rng.Intn(2); i++ {
			m := c14Marker(i+1, 'o')
			title := fmt.Sprintf("bystander %d %s", i, m) + common
			var op *bug.CreateOperation
			if i == 0 && cs.CrossK > 0 {
				op, _ = engCreateOp(author(), w.Now(), title, "message of "+title, e.victim[:cs.CrossK])
			}
			b, err := newBug(i, op, title)
			if err != nil {
				return err
			}
			if op != nil {
				engNote("bug-vs-identity", cs.CrossK, e.victim, string(b.Id()))
			}
			if err := commitBug(b, m); err != nil {
				return err
			}
		}
	}

	// remotes that do NOT hold the victim get everything that exists so far
	for i, name := range e.remotes {
		if cs.Holds&(1<<i) == 0 {
			if err := T.Push(name); err != nil {
				return fmt.Errorf("push %s: %w", name, err)
			}
		}
	}
	if cs.State != "" && len(e.holds) == 0 {
		return fmt.Errorf("state %q needs a remote that holds the victim", cs.State)
	}
	if cs.State == c14FetchedUnmerged {
		return e.buildFetchedUnmerged(rng, victimBug, victimIdent, hostCommit)
	}
	// now the victim comes into existence and goes to the holding remotes
	if victimBug != nil {
		if err := victimBug.Commit(T.Repo); err != nil {
			return err
		}
		e.bugIds = append(e.bugIds, e.victim)
		for _, m := range e.victimMk {
			e.markerOf[m] = e.victim
		}
	} else {
		if err := victimIdent.Commit(T.Repo); err != nil {
			return err
		}
		e.identIds = append(e.identIds, e.victim)
	}
	for _, name := range e.holds {
		if err := T.Push(name); err != nil {
			return fmt.Errorf("push %s: %w", name, err)
		}
	}

	// history points
	editVictim := func(r *world.Replica, tag string) error { return e.editVictim(rng, r, tag) }
	if cs.Point >= 1 {
		if err := editVictim(T, "local1"); err != nil {
			return fmt.Errorf("edit: %w", err)
		}
		if err := e.editBystander(); err != nil {
			return err
		}
	}
	if cs.Point >= 2 {
		if len(e.holds) > 0 {
			h0 := e.holds[0]
			if cs.Point >= 1 {
				if err := T.Push(h0); err != nil { // the local edit travels first
					return err
				}
			}
			if err := e.r2Joins(h0); err != nil {
				return err
			}
			if err := editVictim(e.R2, "remote"); err != nil {
				return fmt.Errorf("R2 edit: %w", err)
			}
			for _, h := range e.holds {
				if err := e.R2.Push(h); err != nil {
					return fmt.Errorf("R2 push %s: %w", h, err)
				}
			}
			if cs.Kind == "bug" { // identities only merge fast-forward: no concurrent local edit
				if err := editVictim(T, "local2"); err != nil {
					return err
				}
			}
			e.seen("history", "remote-edit-pulled")
		} else {
			if err := editVictim(T, "local2"); err != nil {
				return err
			}
			e.seen("history", "no-holding-remote:local-edits-only")
		}
	}
	if err := e.settle(); err != nil {
		return err
	}
	return e.buildHost(mk, bares, hostCommit)
}

// editVictim appends to the victim on replica r and commits.
func (e *c14Env) editVictim(rng interface{ Intn(int) int }, r *world.Replica, tag string) error {
	if e.cs.Kind == "bug" {
		return e.w.Edit(r, entity.Id(e.victim), []world.OpSpec{
			{Kind: "comment", Text: "edit " + tag, Author: rng.Intn(2)},
			{Kind: "title", Text: strings.TrimSpace("victim " + e.victimMk[0] + " retitled " + tag + " " + e.commonMk), Author: rng.Intn(2)},
		})
	}
	i, err := identity.ReadLocal(r.Repo, entity.Id(e.victim))
	if err != nil {
		return err
	}
	if err := i.Mutate(r.Repo, func(m *identity.Mutator) { m.Name = "victim " + tag }); err != nil {
		return err
	}
	return i.Commit(r.Repo)
}

// editBystander edits another bug in T: its local ref is ahead of every remote.
func (e *c14Env) editBystander() error {
	if others := e.remaining(e.bugIds); len(others) > 0 {
		return e.w.Edit(e.T, entity.Id(others[0]), []world.OpSpec{{Kind: "comment", Text: "bystander edit"}})
	}
	return nil
}

// r2Joins: the second replica pulls everything remote h holds and adopts T's authors.
func (e *c14Env) r2Joins(h string) error {
	if ml := e.R2.Pull(h); ml.Err != nil {
		return fmt.Errorf("R2 pull: %w", ml.Err)
	}
	for _, a := range e.T.Authors {
		ra, err := identity.ReadLocal(e.R2.Repo, a.Id())
		if err != nil {
			return fmt.Errorf("R2 misses author: %w", err)
		}
		e.R2.Authors = append(e.R2.Authors, ra)
	}
	return nil
}

// settle: everything that the remotes have is fetched and merged, so that a later MergeAll has nothing to do.
func (e *c14Env) settle() error {
	for i, name := range e.remotes {
		if e.staleAlias(i) {
			// another NAME of a repository that holds the victim, through which the victim was neither pushed nor fetched: it is
			// not fetched from any more. All that T knows through this name was pushed by T before the victim was published
			// (no other entity is edited elsewhere), so a merge without fetch still has nothing to do.
			e.seen("history", "a-name-of-a-holding-repository-not-fetched-since-the-victim-was-published")
			continue
		}
		ml := e.T.Pull(name)
		if ml.Err != nil {
			return fmt.Errorf("settle pull %s: %w", name, ml.Err)
		}
		for _, res := range append(ml.Identities, ml.Bugs...) {
			if res.Err != nil {
				return fmt.Errorf("settle pull %s: %s: %w", name, res.Id, res.Err)
			}
			if string(res.Id) == e.victim {
				e.seen("victim_merge_status_before_removal", c14Status(res.Status))
			}
		}
	}
	return nil
}

// staleAlias: remote i does not hold the victim (by the case) and is another name of a repository that does.
func (e *c14Env) staleAlias(i int) bool {
	cs := e.cs
	if i >= cs.Remotes || cs.Holds&(1<<i) != 0 {
		return false
	}
	for j := 0; j < cs.Remotes; j++ {
		if j != i && cs.bareOf(j) == cs.bareOf(i) && cs.Holds&(1<<j) != 0 {
			return true
		}
	}
	return false
}

// buildFetchedUnmerged: everything but the victim is published and settled; then the victim is created on a second
// replica, published to the holding remotes, and T only fetches it. T never has a local ref of the victim.
func (e *c14Env) buildFetchedUnmerged(rng interface{ Intn(int) int }, victimBug *bug.Bug, victimIdent *identity.Identity, hostCommit repository.Hash) error {
	cs, T, R2 := e.cs, e.T, e.R2
	for _, name := range e.holds {
		if err := T.Push(name); err != nil {
			return fmt.Errorf("push %s: %w", name, err)
		}
	}
	if err := e.settle(); err != nil {
		return err
	}
	if err := e.r2Joins(e.holds[0]); err != nil {
		return err
	}
	if victimBug != nil {
		if err := victimBug.Commit(R2.Repo); err != nil {
			return fmt.Errorf("R2 commit victim: %w", err)
		}
		for _, m := range e.victimMk {
			e.markerOf[m] = e.victim // asked for, never to be found in T
		}
	} else if err := victimIdent.Commit(R2.Repo); err != nil {
		return fmt.Errorf("R2 commit victim: %w", err)
	}
	if cs.Point >= 1 {
		if err := e.editVictim(rng, R2, "remote1"); err != nil {
			return fmt.Errorf("R2 edit: %w", err)
		}
	}
	for _, h := range e.holds {
		if err := R2.Push(h); err != nil {
			return fmt.Errorf("R2 push %s: %w", h, err)
		}
		if err := T.Fetch(h); err != nil {
			return fmt.Errorf("fetch %s: %w", h, err)
		}
	}
	if cs.Point >= 2 {
		// a second edit reaches the first holding remote only: the remote-tracking refs of the victim differ
		if err := e.editVictim(rng, R2, "remote2"); err != nil {
			return fmt.Errorf("R2 edit: %w", err)
		}
		if err := R2.Push(e.holds[0]); err != nil {
			return err
		}
		if err := T.Fetch(e.holds[0]); err != nil {
			return err
		}
	}
	if cs.Point >= 1 {
		if err := e.editBystander(); err != nil {
			return err
		}
	}
	e.seen("history", fmt.Sprintf("victim-created-elsewhere:fetched-never-merged:point%d", cs.Point))
	return e.buildHost(nil, nil, hostCommit)
}

func (e *c14Env) buildHost(mk func(string, bool) (*world.Replica, error), bares []*world.Replica, hostCommit repository.Hash) error {
	cs, T, w := e.cs, e.T, e.w
	alice := e.userIdent
	if cs.Unmerged && len(e.remotes) > 0 && mk != nil {
		// a third replica publishes an entity (and its author) that T only fetches
		r3, err := mk("R3", false)
		if err != nil {
			return err
		}
		e.w.Replicas = append(e.w.Replicas, r3)
		if err := r3.Tested.AddRemote(e.remotes[0], bares[0].Tested.GetLocalRemote()); err != nil {
			return err
		}
		if _, err := r3.NewAuthor("carol"); err != nil {
			return err
		}
		if _, err := w.NewBug(r3, 0, "remote only bug", "never merged into T"); err != nil {
			return err
		}
		if err := r3.Push(e.remotes[0]); err != nil {
			return err
		}
		if err := T.Fetch(e.remotes[0]); err != nil {
			return err
		}
	}

	// host refs and configuration
	for _, ref := range []string{"refs/heads/main", "refs/tags/v1", "refs/heads/bugs/" + e.victim, "refs/remotes/origin/main", "refs/notes/bugs"} {
		if err := T.Repo.UpdateRef(ref, hostCommit); err != nil {
			return err
		}
	}
	cfg := T.Repo.LocalConfig()
	if err := cfg.StoreString("verifhost.keep", "1"); err != nil {
		return err
	}
	if cs.UserSet {
		if err := identity.SetUserIdentity(T.Repo, alice); err != nil {
			return err
		}
	}
	if cs.Bridge {
		for k, v := range map[string]string{"git-bug.bridge.mybridge.target": "github", "git-bug.bridge.mybridge.owner": "someone", "git-bug.bridge.other.target": "gitlab"} {
			if err := cfg.StoreString(k, v); err != nil {
				return err
			}
		}
	}
	return e.finishRemoteConfig()
}

// finishRemoteConfig (configuration cases): the relative urls are written, the ghost remote is added.
func (e *c14Env) finishRemoteConfig() error {
	cs, T := e.cs, e.T
	if cs.CfgSet == "" {
		return nil
	}
	for i := 0; i < cs.Remotes; i++ {
		if i >= len(cs.Odd) || cs.Odd[i] != c14RelativeURL {
			continue
		}
		name := e.remotes[i]
		rel := fmt.Sprintf("../remote-%d", cs.bareOf(i)) // relative to the work tree T
		if _, err := gitOut(T.Dir, "config", "remote."+name+".url", rel); err != nil {
			return err
		}
		// the configuration works for git: a fetch of the git-bug namespaces through the relative url has nothing new to bring
		before, err := gitraw.RefTable(T.Repo, "refs/")
		if err != nil {
			return err
		}
		if _, err := gitOut(T.Dir, "fetch", name, "refs/bugs/*:refs/remotes/"+name+"/bugs/*", "refs/identities/*:refs/remotes/"+name+"/identities/*"); err != nil {
			return fmt.Errorf("stock git cannot fetch through the relative url: %w", err)
		}
		after, err := gitraw.RefTable(T.Repo, "refs/")
		if err != nil {
			return err
		}
		if e.staleAlias(i) {
			return fmt.Errorf("case list: a relative url on a name that must not be fetched")
		}
		if !equalStrings(sortedKV(before), sortedKV(after)) {
			return fmt.Errorf("the fetch through the relative url of %s changed the ref table", name)
		}
		e.count("fetches_by_stock_git_through_a_relative_url", 1)
	}
	if cs.Ghost != "" {
		url := e.extraBareURL
		if cs.Ghost == "never-fetched-dead-url" {
			url = filepath.Join(e.w.Dir, "no-such-repository")
		}
		if err := T.Tested.AddRemote(c14GhostName, url); err != nil {
			return fmt.Errorf("AddRemote(ghost): %w", err)
		}
		e.remotes = append(e.remotes, c14GhostName) // index cs.Remotes: never holds anything
		e.seen("remote_configuration_classes", fmt.Sprintf("%s/%s/holds-victim=false", cs.Kind, cs.Ghost))
	}
	if s, err := gitOut(T.Dir, "config", "--local", "--get-regexp", `^remote\.`); err == nil {
		e.seen("remote_sections_sample", cs.CfgSet+": "+strings.Join(strings.Fields(strings.ReplaceAll(s, e.w.Dir, "<dir>")), " "))
	}
	return nil
}

// ---- the removal scenarios ------------------------------------------------------------------

func (e *c14Env) maxShared() int {
	ids := e.bugIds
	if e.ns == "identities" {
		ids = e.identIds
	}
	return refmodel.NewPrefixPopulation(ids).MaxSharedPrefix(e.victim)
}

func (e *c14Env) removalPrefix() string {
	s := e.maxShared()
	switch e.cs.Prefix {
	case "shortest":
		return e.victim[:s+1]
	case "human":
		if s < 7 {
			return e.victim[:7]
		}
		return e.victim[:s+1]
	}
	return e.victim
}

// refLess: the victim is (by construction) known to T through remote-tracking refs only when this round's removal is asked for.
func (e *c14Env) refLess() bool {
	return e.cs.State == c14FetchedUnmerged || (e.cs.State == c14RemovedRefetched && e.round == 2)
}

// stateName names the state the victim is in when this round's removal is asked for.
func (e *c14Env) stateName() string {
	switch {
	case e.cs.State == c14FetchedUnmerged:
		return c14FetchedUnmerged
	case e.round == 2:
		return e.cs.State
	}
	return "local"
}

func (e *c14Env) preconditions(before c14Raw) bool {
	if before.Err != "" {
		e.inconclusive("cannot observe the repository: " + before.Err)
		return false
	}
	if _, ok := before.Refs["refs/"+e.ns+"/"+e.victim]; ok == e.refLess() {
		e.inconclusive(fmt.Sprintf("local ref of the victim before the removal: present=%v, state %s wants %v", ok, e.stateName(), !e.refLess()))
		return false
	}
	for i, r := range e.remotes {
		_, has := before.Refs["refs/remotes/"+r+"/"+e.ns+"/"+e.victim]
		want := e.cs.Holds&(1<<i) != 0
		if e.liveHolds != nil {
			want = e.liveHolds[r]
		}
		if has != want {
			e.inconclusive(fmt.Sprintf("remote-tracking ref of the victim for %s: present=%v, the configuration wants %v", r, has, want))
			return false
		}
	}
	e.seen("victim_states_at_removal", fmt.Sprintf("%s/%s/%s/local-ref=%v/remote-tracking-refs=%d", e.cs.Kind, e.cs.Api, e.stateName(), !e.refLess(), len(e.holds)))
	return true
}

func (e *c14Env) mergeAllEntityAPI() {
	for _, name := range e.remotes {
		ml := e.T.Merge(name)
		for _, res := range append(ml.Identities, ml.Bugs...) {
			if string(res.Id) == e.victim {
				e.seen("mergeall_mentions_victim", c14Status(res.Status))
			}
		}
		e.count("mergeall_without_fetch", 1)
	}
}

func (e *c14Env) mergeAllCacheAPI(c *cache.RepoCache) {
	for _, name := range e.remotes {
		for res := range c.MergeAll(name) {
			if string(res.Id) == e.victim {
				e.seen("mergeall_mentions_victim", c14Status(res.Status))
			}
		}
		e.count("mergeall_without_fetch", 1)
	}
}

// afterwards runs the persistence part shared by all single-entity removals:
// reopen, second removal (done by the caller through again), rebuild, MergeAll without fetch, reopen.
func (e *c14Env) afterwards(afterRaw c14Raw, beforeCache *c14CacheObs, again func() string) {
	expBugs, expIdents := e.remaining(e.bugIds), e.remaining(e.identIds)

	o, err := e.session(expBugs, expIdents)
	if err != nil {
		e.finding(fmt.Sprintf("remove:%s:%s:reopen:cache-unusable", e.cs.Kind, e.cs.Api), "the cache cannot be opened after the removal: "+err.Error())
		return
	}
	e.checkAbsent("reopen", *o, beforeCache)

	// second removal
	outcome2 := again()
	e.seen("second_removal_outcomes", e.cs.Api+": "+outcome2)
	raw2 := e.observeRaw()
	e.frame("second-removal", afterRaw, raw2, c14Same)
	o2, err := e.session(expBugs, expIdents)
	if err != nil {
		e.finding(fmt.Sprintf("remove:%s:%s:second-removal:cache-unusable", e.cs.Kind, e.cs.Api), "the cache cannot be opened after the second removal: "+err.Error())
		return
	}
	e.checkAbsent("second-removal", *o2, o)

	// rebuild from scratch
	if err := e.dropCacheFiles(); err != nil {
		e.inconclusive("cannot delete the cache files: " + err.Error())
		return
	}
	o3, err := e.session(expBugs, expIdents)
	if err != nil {
		e.finding(fmt.Sprintf("remove:%s:%s:rebuild:cache-unusable", e.cs.Kind, e.cs.Api), "the cache cannot be rebuilt after the removal: "+err.Error())
		return
	}
	e.checkAbsent("rebuild", *o3, o)
	e.frame("rebuild", raw2, e.observeRaw(), c14Same)

	// MergeAll without a new fetch
	if e.cs.Api == "entity" {
		e.mergeAllEntityAPI()
		if err := e.dropCacheFiles(); err != nil {
			e.inconclusive("cannot delete the cache files: " + err.Error())
			return
		}
	} else {
		c, err := e.openCache()
		if err != nil {
			e.inconclusive("cannot open the cache for MergeAll: " + err.Error())
			return
		}
		e.mergeAllCacheAPI(c)
		om := e.observeCache(c, expBugs, expIdents)
		e.checkAbsent("mergeall-same-session", om, o)
		if err := e.closeCache(); err != nil {
			e.inconclusive("close: " + err.Error())
			return
		}
	}
	raw3 := e.observeRaw()
	e.frame("mergeall", raw2, raw3, c14Same)
	o4, err := e.session(expBugs, expIdents)
	if err != nil {
		e.finding(fmt.Sprintf("remove:%s:%s:mergeall:cache-unusable", e.cs.Kind, e.cs.Api), "the cache cannot be opened after MergeAll: "+err.Error())
		return
	}
	e.checkAbsent("mergeall", *o4, o)
}

func c14ErrClass(err error) string {
	switch {
	case err == nil:
		return "nil"
	case isNotFound(err):
		return "not-found error"
	}
	if _, ok := asMultiple(err); ok {
		return "multiple-match error"
	}
	return "other error"
}

func (e *c14Env) runEntityAPI() {
	allBugs, allIdents := append([]string{}, e.bugIds...), append([]string{}, e.identIds...)
	sort.Strings(allBugs)
	sort.Strings(allIdents)
	if e.cs.PreCache {
		if _, err := e.session(allBugs, allIdents); err != nil {
			e.inconclusive("cannot build the cache before the removal: " + err.Error())
			return
		}
	}
	before := e.observeRaw()
	if !e.preconditions(before) {
		return
	}
	remove := func() error {
		if e.cs.Kind == "bug" {
			return bug.Remove(e.T.Repo, entity.Id(e.victim))
		}
		return identity.Remove(e.T.Repo, entity.Id(e.victim))
	}
	if err := remove(); err != nil {
		if e.refLess() {
			// the entity does not exist locally: the statement does not say that such a removal has to be accepted
			e.refused(before, c14ErrClass(err))
			return
		}
		e.finding(fmt.Sprintf("remove:%s:entity:failed", e.cs.Kind), "the removal returned an error: "+err.Error())
		return
	}
	e.res.Nontrivial = true
	if e.refLess() {
		e.count("accepted_removals_of_an_entity_without_local_ref", 1)
	}
	after := e.observeRaw()
	e.frame("removal", before, after, c14Gone)
	if e.cs.PreCache {
		// the entity layer cannot know about a cache built earlier; what a later session serves is recorded, not judged
		if o, err := e.session(e.remaining(e.bugIds), e.remaining(e.identIds)); err == nil {
			if o.Probes["ResolveExcerpt"] == "notfound" {
				e.seen("entity_api_removal_with_existing_cache", "later session does not know the entity")
			} else {
				e.seen("entity_api_removal_with_existing_cache", "later session still serves the stale excerpt (recorded, not judged)")
			}
		} else {
			e.seen("entity_api_removal_with_existing_cache", "later session fails to open and rebuilds")
		}
		if err := e.dropCacheFiles(); err != nil {
			e.inconclusive("cannot delete the cache files: " + err.Error())
			return
		}
		after = e.observeRaw()
	}
	e.afterwards(after, nil, func() string { return c14ErrClass(remove()) })
}

// refused records a removal that returned an error for an entity without local ref. Only the frame is judged:
// whatever the refusal did to the victim's refs, nothing else may have changed.
func (e *c14Env) refused(before c14Raw, how string) {
	e.seen("removal_of_an_entity_without_local_ref", fmt.Sprintf("%s/%s/%s: refused (%s), not judged", e.cs.Kind, e.cs.Api, e.stateName(), how))
	e.count("refused_removals_of_an_entity_without_local_ref", 1)
	after := e.observeRaw()
	e.frame("refused-removal", before, after, c14GoneOrSame)
	left := 0
	for ref := range after.Refs {
		if strings.HasPrefix(e.refClass(ref), "victim-") {
			left++
		}
	}
	e.seen("victim_refs_after_a_refused_removal", fmt.Sprintf("%s/%s: %d of %d left", e.cs.Kind, e.cs.Api, left, len(e.holds)))
}

// runRefLessThroughCache: removal through the cache API or the CLI of an entity that T only knows through remote-tracking
// refs. The cache does not know such an entity; a refusal is recorded, an accepted removal is judged like any other.
func (e *c14Env) runRefLessThroughCache() {
	before := e.observeRaw()
	if !e.preconditions(before) {
		return
	}
	attempt := func() (accepted bool, how string, ok bool) {
		if e.cs.Api == "cli-rm" {
			r := e.cli("bug", "rm", e.victim)
			_ = e.T.Reopen(bug.ClockLoader)
			if r.TimedOut {
				return false, "timed out", false
			}
			return r.Code == 0, fmt.Sprintf("exit %d", r.Code), true
		}
		c, err := e.openCache()
		if err != nil {
			return false, "cannot open the cache: " + err.Error(), false
		}
		var rerr error
		if e.cs.Kind == "bug" {
			rerr = c.Bugs().Remove(e.victim)
		} else {
			rerr = c.Identities().Remove(e.victim)
		}
		if err := e.closeCache(); err != nil {
			return false, "close: " + err.Error(), false
		}
		return rerr == nil, c14ErrClass(rerr), true
	}
	accepted, how, ok := attempt()
	if !ok {
		e.inconclusive("removal of an entity without local ref: " + how)
		return
	}
	if !accepted {
		e.refused(before, how)
		return
	}
	e.res.Nontrivial = true
	e.count("accepted_removals_of_an_entity_without_local_ref", 1)
	after := e.observeRaw()
	e.frame("removal", before, after, c14Gone)
	e.afterwards(after, nil, func() string {
		_, how, _ := attempt()
		return how
	})
}

func (e *c14Env) runCacheAPI() {
	if e.refLess() {
		e.runRefLessThroughCache()
		return
	}
	allBugs, allIdents := append([]string{}, e.bugIds...), append([]string{}, e.identIds...)
	sort.Strings(allBugs)
	sort.Strings(allIdents)
	c, err := e.openCache()
	if err != nil {
		e.inconclusive("cannot open the cache: " + err.Error())
		return
	}
	beforeCache := e.observeCache(c, allBugs, allIdents)
	if len(beforeCache.PrefixBad) > 0 || beforeCache.Probes["Resolve"] != "found:"+e.victim {
		e.inconclusive(fmt.Sprintf("before the removal the cache does not serve the victim as expected: %v %v", beforeCache.Probes, beforeCache.PrefixBad))
		_ = e.closeCache()
		return
	}
	before := e.observeRaw()
	if !e.preconditions(before) {
		_ = e.closeCache()
		return
	}
	remove := func(prefix string) error {
		if e.cs.Kind == "bug" {
			return c.Bugs().Remove(prefix)
		}
		return c.Identities().Remove(prefix)
	}
	// an ambiguous prefix must remove nothing
	if s := e.maxShared(); s >= 1 {
		err := remove(e.victim[:s])
		e.seen("ambiguous_prefix_removal", c14ErrClass(err))
		if err == nil {
			e.finding(fmt.Sprintf("remove:%s:cache:ambiguous-prefix:accepted", e.cs.Kind), fmt.Sprintf("Remove(%q) matches several entities and returned no error", e.victim[:s]))
		}
		e.frame("ambiguous-prefix", before, e.observeRaw(), c14Same)
		oa := e.observeCache(c, allBugs, allIdents)
		if !equalStrings(oa.Bugs, beforeCache.Bugs) || !equalStrings(oa.Idents, beforeCache.Idents) || oa.BugDocs != beforeCache.BugDocs {
			e.finding(fmt.Sprintf("remove:%s:cache:ambiguous-prefix:cache-changed", e.cs.Kind), fmt.Sprintf("after the refused Remove(%q) the cache lists bugs %v identities %v", e.victim[:s], oa.Bugs, oa.Idents))
		}
		e.count("ambiguous_prefix_removals_refused", 1)
	}
	prefix := e.removalPrefix()
	if err := remove(prefix); err != nil {
		e.finding(fmt.Sprintf("remove:%s:cache:failed", e.cs.Kind), fmt.Sprintf("Remove(%q) returned an error: %v", prefix, err))
		_ = e.closeCache()
		return
	}
	e.res.Nontrivial = true
	expBugs, expIdents := e.remaining(e.bugIds), e.remaining(e.identIds)
	same := e.observeCache(c, expBugs, expIdents)
	e.checkAbsent("same-session", same, &beforeCache)
	// repeat in the same session
	err2 := remove(prefix)
	e.seen("second_removal_outcomes", "cache(same session): "+c14ErrClass(err2))
	same2 := e.observeCache(c, expBugs, expIdents)
	e.checkAbsent("second-removal-same-session", same2, &beforeCache)
	if err := e.closeCache(); err != nil {
		e.inconclusive("close: " + err.Error())
		return
	}
	after := e.observeRaw()
	e.frame("removal", before, after, c14Gone)
	e.afterwards(after, &beforeCache, func() string {
		c2, err := e.openCache()
		if err != nil {
			return "cannot open: " + err.Error()
		}
		var rerr error
		if e.cs.Kind == "bug" {
			rerr = c2.Bugs().Remove(prefix)
		} else {
			rerr = c2.Identities().Remove(prefix)
		}
		_ = e.closeCache()
		return c14ErrClass(rerr)
	})
}

func (e *c14Env) runCliRm() {
	if e.refLess() {
		e.runRefLessThroughCache()
		return
	}
	allBugs, allIdents := append([]string{}, e.bugIds...), append([]string{}, e.identIds...)
	sort.Strings(allBugs)
	sort.Strings(allIdents)
	beforeCache, err := e.session(allBugs, allIdents)
	if err != nil {
		e.inconclusive("cannot open the cache: " + err.Error())
		return
	}
	if beforeCache.Probes["Resolve"] != "found:"+e.victim {
		e.inconclusive(fmt.Sprintf("before the removal the cache does not serve the victim: %v", beforeCache.Probes))
		return
	}
	if e.cs.Select != "" && !e.selectBug() {
		return
	}
	before := e.observeRaw()
	if !e.preconditions(before) {
		return
	}
	// a removal that names no bug, or several, must remove nothing
	if s := e.maxShared(); s >= 1 {
		if !e.refusedRm("ambiguous-prefix", e.victim[:s], before) {
			return
		}
		e.count("ambiguous_prefix_removals_refused", 1)
	}
	if e.cs.Select != "" && !e.cs.BadIdsAfter && !e.unknownIds(before) {
		return
	}
	prefix := e.removalPrefix()
	r := e.cli("bug", "rm", prefix)
	if r.TimedOut {
		e.inconclusive("git-bug bug rm timed out")
		return
	}
	_ = e.T.Reopen(bug.ClockLoader)
	if r.Code != 0 {
		e.finding("remove:bug:cli-rm:failed", fmt.Sprintf("`git-bug bug rm %s` exited %d: %s", prefix, r.Code, r.Out))
		return
	}
	e.res.Nontrivial = true
	after := e.observeRaw()
	e.frame("removal", before, after, c14Gone)
	e.afterwards(after, beforeCache, func() string {
		r := e.cli("bug", "rm", prefix)
		_ = e.T.Reopen(bug.ClockLoader)
		if r.TimedOut {
			return "timed out"
		}
		if r.Code == 0 {
			return "exit 0"
		}
		return "exit non-zero"
	})
	if e.cs.Select != "" {
		e.afterRemovalWithSelection()
	}
}

// refusedRm: `git-bug bug rm arg` where arg names no bug, or several. Whatever the command answers, nothing may differ from base.
func (e *c14Env) refusedRm(stage, arg string, base c14Raw) bool {
	r := e.cli("bug", "rm", arg)
	_ = e.T.Reopen(bug.ClockLoader)
	if r.TimedOut {
		e.inconclusive("git-bug bug rm timed out")
		return false
	}
	if stage == "ambiguous-prefix" {
		e.seen("ambiguous_prefix_removal", fmt.Sprintf("cli exit %d", r.Code))
	}
	e.seen("removal_of_nothing_outcomes", fmt.Sprintf("%s/selected=%s: cli exit %d", stage, map[bool]string{true: "nothing", false: e.cs.Select}[e.cs.Select == ""], r.Code))
	if r.Code == 0 && stage == "ambiguous-prefix" {
		e.finding("remove:bug:cli-rm:ambiguous-prefix:accepted", fmt.Sprintf("`git-bug bug rm %s` matches several bugs and exited 0: %s", arg, r.Out))
	}
	e.asked = fmt.Sprintf("`git-bug bug rm %s` (%s: it names no single bug) exited %d", arg, stage, r.Code)
	e.frame(stage, base, e.observeRaw(), c14Same)
	e.asked = ""
	return true
}

// unknownIds: `bug rm` with an id that never existed, and with a mistyped prefix of the victim's id: they match no bug.
func (e *c14Env) unknownIds(base c14Raw) bool {
	if !e.refusedRm("unknown-id", e.absentId(64), base) || !e.refusedRm("mistyped-prefix", e.absentId(8), base) {
		return false
	}
	e.count("removals_of_an_unknown_id_with_a_selection", 2)
	e.seen("removals_of_an_unknown_id", map[bool]string{true: "after the removal of the victim", false: "before the removal of the victim"}[e.cs.BadIdsAfter])
	return true
}

// absentId returns n characters that are the prefix of no bug id: the first n-1 characters of the victim's id and a last
// character chosen so that nothing matches (for n = 64 an id that never existed, differing from the victim's in its last
// character only).
func (e *c14Env) absentId(n int) string {
	for _, c := range "0123456789abcdef" {
		cand := e.victim[:n-1] + string(c)
		hit := false
		for _, id := range e.bugIds {
			if strings.HasPrefix(id, cand) {
				hit = true
			}
		}
		if !hit {
			return cand
		}
	}
	return strings.Repeat("0", n) // 16 bugs sharing n-1 characters: not in this world
}

// selectBug runs `git-bug bug select` for the bug the case names.
func (e *c14Env) selectBug() bool {
	others := e.remaining(e.bugIds)
	switch e.cs.Select {
	case "victim":
		e.selected = e.victim
	case "other-twin":
		best := -1
		for _, id := range others {
			if k := refmodel.SharedPrefixLen(id, e.victim); k > best {
				best, e.selected = k, id
			}
		}
	default:
		if len(others) > 0 {
			e.selected = others[len(others)/2]
		}
	}
	if e.selected == "" {
		e.inconclusive("no bug to select")
		return false
	}
	r := e.cli("bug", "select", e.selected)
	_ = e.T.Reopen(bug.ClockLoader)
	if sel, ok := e.selectionFile(); r.TimedOut || r.Code != 0 || !ok || sel != e.selected {
		e.inconclusive(fmt.Sprintf("`git-bug bug select %s` exited %d, selection file %q: %s", e.selected, r.Code, sel, r.Out))
		return false
	}
	e.selectedOut = r.Out
	e.count("selections_made", 1)
	e.seen("selections", fmt.Sprintf("%s/shares-%d-characters-with-the-victim", e.cs.Select, refmodel.SharedPrefixLen(e.selected, e.victim)))
	return true
}

// refsOnly keeps what a command that is not a removal must leave alone in any case: refs, configuration, objects.
func refsOnly(o c14Raw, like c14Raw) c14Raw {
	o.Storage, o.Selection = like.Storage, like.Selection
	return o
}

// afterRemovalWithSelection: the victim is gone (removed twice, cache rebuilt, merged without fetch) and a selection was
// made before. What the selection then does to commands that take their bug from it.
func (e *c14Env) afterRemovalWithSelection() {
	if e.failedStage != "" || len(e.res.Inconclusive) > 0 {
		return
	}
	kp := "remove:bug:cli-rm:"
	base := e.observeRaw()
	if e.cs.BadIdsAfter && (!e.unknownIds(base) || e.failedStage != "") {
		return
	}
	show := func() (cliResult, bool) {
		r := e.cli("bug", "show")
		_ = e.T.Reopen(bug.ClockLoader)
		if r.TimedOut {
			e.inconclusive("git-bug bug show timed out")
		}
		return r, !r.TimedOut
	}
	if e.selected != e.victim {
		// the selected bug is still there and still selected: a command without id works on it
		r, ok := show()
		if !ok {
			return
		}
		human := e.selected[:7]
		if r.Code != 0 || !strings.Contains(r.Out, human) {
			e.finding(kp+"selection-after:selected-bug-not-shown", fmt.Sprintf("bug %s was selected before bug %s was removed; afterwards `git-bug bug show` (no id) exits %d: %s", e.selected, e.victim, r.Code, r.Out))
			return
		}
		e.count("selected_bug_still_shown_after_the_removal", 1)
		e.frame("selection-after", base, e.observeRaw(), c14Same)
	}
	// a removal without any id. The documented usage is `rm BUG_ID`; whatever the command does then, only a bug that the
	// user designated (the selected one) may go, and a command that fails must not have changed anything.
	r := e.cli("bug", "rm")
	_ = e.T.Reopen(bug.ClockLoader)
	if r.TimedOut {
		e.inconclusive("git-bug bug rm timed out")
		return
	}
	sel := map[bool]string{true: "dangling (the selected bug was removed)", false: "another bug"}[e.selected == e.victim]
	e.seen("removal_without_id_outcomes", fmt.Sprintf("selection: %s: cli exit %d", sel, r.Code))
	now := e.observeRaw()
	if r.Code != 0 {
		if e.selected == e.victim {
			e.frame("no-id", base, refsOnly(now, base), c14Same) // a dangling selection may be cleared
		} else {
			e.frame("no-id", base, now, c14Same)
		}
		e.count("removals_without_id_refused", 1)
	} else {
		// accepted: judged as a removal of the selected bug (its refs are not judged, nothing else may differ)
		victim := e.victim
		e.victim = e.selected
		e.frame("no-id", base, refsOnly(now, base), c14GoneOrSame)
		e.victim = victim
		e.skipRound2 = true
		e.count("removals_without_id_accepted", 1)
		return
	}
	if e.selected == e.victim {
		// the selection names a bug that is gone: recorded, and the next commands must not be hurt by it
		_, dangling := e.selectionFile()
		e.seen("selection_of_the_removed_bug", fmt.Sprintf("after the removal and `bug rm` without id: selection file present=%v", dangling))
		r, ok := show()
		if !ok {
			return
		}
		_, still := e.selectionFile()
		e.seen("dangling_selection_next_command", fmt.Sprintf("`bug show` without id: exit %d, selection file afterwards present=%v, output: %s", r.Code, still, firstLine(r.Out)))
		if r.Code == 0 {
			e.finding(kp+"selection-after:removed-bug-shown", fmt.Sprintf("bug %s was selected and removed; afterwards `git-bug bug show` (no id) exits 0: %s", e.victim, r.Out))
			return
		}
		e.frame("selection-after", base, refsOnly(e.observeRaw(), base), c14Same)
		// selecting another bug works again
		if others := e.remaining(e.bugIds); len(others) > 0 {
			r := e.cli("bug", "select", others[0])
			_ = e.T.Reopen(bug.ClockLoader)
			sel, _ := e.selectionFile()
			e.seen("dangling_selection_next_command", fmt.Sprintf("`bug select <another bug>`: exit %d, selection file names it=%v", r.Code, sel == others[0]))
			if !r.TimedOut && (r.Code != 0 || sel != others[0]) {
				e.finding(kp+"selection-after:cannot-select-again", fmt.Sprintf("bug %s was selected and removed; afterwards `git-bug bug select %s` exits %d, selection file %q: %s", e.victim, others[0], r.Code, sel, r.Out))
				return
			}
			if r2, ok := show(); ok && (r2.Code != 0 || !strings.Contains(r2.Out, others[0][:7])) {
				e.finding(kp+"selection-after:selected-bug-not-shown", fmt.Sprintf("after the removal of the selected bug %s, bug %s was selected; `git-bug bug show` (no id) exits %d: %s", e.victim, others[0], r2.Code, r2.Out))
				return
			}
			e.frame("selection-after", base, refsOnly(e.observeRaw(), base), c14Same)
			e.count("selections_made_again_after_a_dangling_one", 1)
		}
	}
}

func firstLine(s string) string {
	s = strings.TrimSpace(s)
	if i := strings.IndexByte(s, '\n'); i >= 0 {
		s = s[:i]
	}
	if len(s) > 160 {
		s = s[:160]
	}
	return s
}

func (e *c14Env) wipeEndState(stage string, raw c14Raw, r cliResult) bool {
	flags := fmt.Sprintf("user-identity-set=%v:bridge-config=%v", e.cs.UserSet, e.cs.Bridge)
	if raw.Err != "" {
		e.inconclusive("cannot observe after wipe: " + raw.Err)
		return false
	}
	clean := true
	for _, reader := range []struct {
		name string
		t    map[string]string
	}{{"gitraw", raw.Refs}, {"for-each-ref", raw.GitRefs}} {
		for ref := range reader.t {
			cls := e.refClassWipe(ref)
			if cls == "" {
				continue
			}
			clean = false
			e.finding(fmt.Sprintf("wipe:%s:ref-left:%s:fetched-unmerged=%v", stage, cls, e.cs.Unmerged),
				fmt.Sprintf("after `git-bug wipe` (exit %d) %s still lists %s (gitraw: %q, for-each-ref: %q); output: %s", r.Code, reader.name, ref, raw.Refs[ref], raw.GitRefs[ref], r.Out), ref)
		}
	}
	for _, line := range raw.Config {
		if strings.HasPrefix(line, "git-bug.") {
			clean = false
			e.finding(fmt.Sprintf("wipe:%s:config-left:%s", stage, flags), fmt.Sprintf("after `git-bug wipe` (exit %d) the configuration still holds %q; output: %s", r.Code, line, r.Out))
		}
	}
	var files []string
	for _, f := range raw.Storage {
		if !strings.HasSuffix(f, "/") {
			files = append(files, f)
		}
	}
	if len(files) > 0 {
		clean = false
		if len(files) > 8 {
			files = append(files[:8], "…")
		}
		e.finding(fmt.Sprintf("wipe:%s:storage-left:%s", stage, flags), fmt.Sprintf("after `git-bug wipe` (exit %d) .git/git-bug still holds %v; output: %s", r.Code, files, r.Out))
	} else if len(raw.Storage) > 0 {
		e.seen("wipe_leaves_empty_directories", strings.Join(raw.Storage, " "))
	}
	e.seen("wipe_exit_codes", fmt.Sprintf("%s: exit %d clean=%v %s bridge=%v unmerged=%v", stage, r.Code, clean, flags, e.cs.Bridge, e.cs.Unmerged))
	if clean {
		e.count("wipe_end_states_clean", 1)
	}
	// recorded only: the statement says nothing about the host's own refs and keys for wipe
	host := 0
	for ref := range raw.Refs {
		if e.refClass(ref) == "host" {
			host++
		}
	}
	e.seen("host_refs_after_wipe", fmt.Sprint(host))
	return clean
}

func (e *c14Env) refClassWipe(ref string) string {
	switch {
	case strings.HasPrefix(ref, "refs/bugs/"):
		return "refs/bugs"
	case strings.HasPrefix(ref, "refs/identities/"):
		return "refs/identities"
	case strings.HasPrefix(ref, "refs/remotes/"):
		if _, ns, _, ok := e.remoteOfRef(ref); ok {
			return "refs/remotes/*/" + ns
		}
		parts := strings.SplitN(strings.TrimPrefix(ref, "refs/remotes/"), "/", 3)
		if len(parts) == 3 && (parts[1] == "bugs" || parts[1] == "identities") {
			return "refs/remotes/*/" + parts[1]
		}
	}
	return ""
}

func (e *c14Env) runCliWipe() {
	// a cache exists, as after any use of the tool
	allBugs, allIdents := append([]string{}, e.bugIds...), append([]string{}, e.identIds...)
	sort.Strings(allBugs)
	sort.Strings(allIdents)
	if !e.cs.Unmerged { // with unknown remote entities around the expected populations differ; the session is only there to build the cache
		if _, err := e.session(allBugs, allIdents); err != nil {
			e.inconclusive("cannot open the cache: " + err.Error())
			return
		}
	}
	before := e.observeRaw()
	if !e.preconditions(before) {
		return
	}
	r := e.cli("wipe")
	if r.TimedOut {
		e.inconclusive("git-bug wipe timed out")
		return
	}
	e.res.Nontrivial = true
	raw := e.observeRaw()
	if !e.wipeEndState("first", raw, r) {
		// the leftovers of the first wipe would only be reported a second time
		e.seen("second_removal_outcomes", "cli-wipe: not judged, the first wipe was not clean")
		return
	}
	// repeating the wipe does no further harm
	r2 := e.cli("wipe")
	if r2.TimedOut {
		e.inconclusive("second git-bug wipe timed out")
		return
	}
	e.wipeEndState("second", e.observeRaw(), r2)
	e.seen("second_removal_outcomes", fmt.Sprintf("cli-wipe: exit %d", r2.Code))
}

// comeBack: after the first removal the holding remotes still hold the victim. A NEW fetch legitimately brings its
// remote-tracking refs back (removed-refetched); a new pull (fetch + merge) legitimately brings the entity back
// (removed-repulled; through the cache for the cache API and the CLI, so that the cache learns about it).
func (e *c14Env) comeBack() error {
	if e.cs.State == c14RemovedRefetched {
		for _, h := range e.holds {
			if err := e.T.Fetch(h); err != nil {
				return err
			}
		}
		e.count("fetches_after_a_removal", len(e.holds))
		return nil
	}
	if e.cs.Api == "entity" {
		for _, h := range e.holds {
			ml := e.T.Pull(h)
			if ml.Err != nil {
				return ml.Err
			}
			for _, res := range append(ml.Identities, ml.Bugs...) {
				if res.Err != nil {
					return fmt.Errorf("pull %s: %s: %w", h, res.Id, res.Err)
				}
				if string(res.Id) == e.victim {
					e.seen("victim_merge_status_when_pulled_again", c14Status(res.Status))
				}
			}
		}
		e.count("pulls_after_a_removal", len(e.holds))
		return e.dropCacheFiles() // the entity layer does not maintain the cache: the next session builds it
	}
	c, err := e.openCache()
	if err != nil {
		return err
	}
	for _, h := range e.holds {
		if _, err := c.Fetch(h); err != nil {
			_ = e.closeCache()
			return err
		}
		for res := range c.MergeAll(h) {
			if res.Err != nil {
				err = fmt.Errorf("pull %s: %s: %w", h, res.Id, res.Err)
			}
			if string(res.Id) == e.victim {
				e.seen("victim_merge_status_when_pulled_again", c14Status(res.Status))
			}
		}
		if err != nil {
			_ = e.closeCache()
			return err
		}
	}
	e.count("pulls_after_a_removal", len(e.holds))
	return e.closeCache()
}

// ---- one case --------------------------------------------------------------------------------

func c14Run(cs c14Case) c14Result {
	res := c14Result{Counters: map[string]int{}, Sets: map[string][]string{}}
	e := &c14Env{cs: cs, res: &res, sets: map[string]map[string]struct{}{}, keys: map[string]int{}}
	defer func() {
		if e.w != nil {
			e.w.Close()
		}
	}()
	finish := func() c14Result {
		for name, set := range e.sets {
			for m := range set {
				res.Sets[name] = append(res.Sets[name], m)
			}
			sort.Strings(res.Sets[name])
		}
		return res
	}
	holdCount := 0
	for i := 0; i < cs.Remotes; i++ {
		if cs.Holds&(1<<i) != 0 {
			holdCount++
		}
	}
	maxK := 0
	for _, k := range cs.SharedK {
		if k > maxK {
			maxK = k
		}
	}
	res.Shape = fmt.Sprintf("%s/%s/point%d/remotes%d/holding%d/sharedK%d/cross%d/prefix=%s/user=%v/bridge=%v/unmerged=%v/precache=%v/state=%s",
		cs.Kind, cs.Api, cs.Point, cs.Remotes, holdCount, maxK, cs.CrossK, cs.Prefix, cs.UserSet, cs.Bridge, cs.Unmerged, cs.PreCache, map[bool]string{true: "local", false: cs.State}[cs.State == ""])
	if cs.NameSet != "" {
		res.Shape += "/remote-names=" + cs.NameSet
	}
	if cs.CfgSet != "" {
		res.Shape += "/remote-config=" + cs.CfgSet
	}
	if cs.Select != "" {
		res.Shape += "/selected=" + cs.Select + map[bool]string{true: "/unknown-ids-after", false: ""}[cs.BadIdsAfter]
	}
	if cs.Packed {
		res.Shape += "/packed-refs"
	}
	res.Shape += c14ScaleShape(cs)
	if err := e.build(); err != nil {
		res.HarnessError = "build: " + err.Error()
		return finish()
	}
	if cs.Packed {
		if out, err := gitOut(e.T.Dir, "pack-refs", "--all"); err != nil {
			res.HarnessError = "git pack-refs: " + err.Error() + " " + out
			return finish()
		}
		e.count("cases_with_refs_packed_before_the_removal", 1)
	}
	e.count("other_entities", len(e.bugIds)+len(e.identIds)-1)
	e.seen("remote_configurations", fmt.Sprintf("remotes=%d holds=%03b", cs.Remotes, cs.Holds))
	e.round = 1
	switch {
	case cs.Api == "cache-removeall" || cs.Api == "entity-removeall":
		e.runRemoveAll()
		res.Sample = map[string]any{"case": cs, "victim": e.victim, "bugs": len(e.bugIds), "identities": len(e.identIds)}
		return finish()
	case cs.Live != "":
		e.runLive()
		res.Sample = map[string]any{"case": cs, "victim": e.victim, "bugs": len(e.bugIds), "identities": len(e.identIds)}
		return finish()
	}
	switch cs.Api {
	case "entity":
		e.runEntityAPI()
	case "cache":
		e.runCacheAPI()
	case "cli-rm":
		e.runCliRm()
	case "cli-wipe":
		e.runCliWipe()
	default:
		res.HarnessError = "unknown api " + cs.Api
	}
	if (cs.State == c14RemovedRefetched || cs.State == c14RemovedRepulled) && cs.Api != "cli-wipe" {
		// the remotes still hold the entity: it is fetched (pulled) again, then removed again through the same API
		switch {
		case len(res.Findings) > 0:
			e.count("second_rounds_skipped_after_findings_of_the_first", 1)
		case !res.Nontrivial || len(res.Inconclusive) > 0:
			e.inconclusive("the first removal was not carried out: nothing to fetch again")
		case e.skipRound2:
			e.count("second_rounds_skipped_after_an_accepted_removal_without_id", 1)
		default:
			e.round = 2
			if err := e.comeBack(); err != nil {
				e.inconclusive("fetching the removed entity again: " + err.Error())
				break
			}
			switch cs.Api {
			case "entity":
				e.runEntityAPI()
			case "cache":
				e.runCacheAPI()
			case "cli-rm":
				e.runCliRm()
			}
		}
	}
	res.Sample = map[string]any{"case": cs, "victim": e.victim, "bugs": len(e.bugIds), "identities": len(e.identIds)}
	return finish()
}

// ---- the check ----------------------------------------------------------------------------------

func c14Cases(r *mon.Run) []c14Case {
	type ak struct{ api, kind string }
	cycle := []ak{
		{"cache", "bug"}, {"cli-rm", "bug"}, {"entity", "bug"}, {"cli-wipe", "bug"}, {"cache", "identity"},
		{"cli-rm", "bug"}, {"entity", "identity"}, {"cli-wipe", "identity"}, {"cache", "bug"}, {"entity", "bug"},
	}
	type rh struct{ remotes, holds int }
	var combos []rh
	for n := 0; n <= 3; n++ {
		for h := 0; h < 1<<n; h++ {
			combos = append(combos, rh{n, h})
		}
	}
	n := r.Pick(40, 600)
	var out []c14Case
	for i := 0; i < n; i++ {
		rng := mon.Rng(r.Seed, "c14-spec", i)
		a, b := i%10, i/10
		co := combos[(a*3+b)%len(combos)]
		cs := c14Case{
			Name: fmt.Sprintf("case-%d", i), Seed: r.Seed, Idx: i,
			Kind: cycle[a].kind, Api: cycle[a].api,
			Remotes: co.remotes, Holds: co.holds,
			Point:  (a + 2*b) % 3,
			Others: 2 + rng.Intn(9),
			Prefix: []string{"full", "shortest", "human"}[rng.Intn(3)],
			Packed: i%3 == 2,
		}
		// engineered shared prefixes: 1..3 of the others, 1..4 characters (quick: the 4-character one in every other case)
		ks := []int{1, 2, 3, 4}
		nShared := 1 + rng.Intn(3)
		if nShared > cs.Others {
			nShared = cs.Others
		}
		for k := 0; k < nShared; k++ {
			cs.SharedK = append(cs.SharedK, ks[rng.Intn(len(ks))])
		}
		if rng.Intn(2) == 0 {
			cs.CrossK = 1 + rng.Intn(3)
		}
		switch cs.Api {
		case "cli-rm":
			cs.UserSet = true
			cs.Bridge = rng.Intn(2) == 0
		case "cli-wipe":
			v := b % 4 // user/bridge variants in turn
			cs.UserSet = v&1 == 0
			cs.Bridge = v&2 != 0
			cs.Unmerged = cs.Remotes > 0 && (b+a)%2 == 0
		case "entity":
			cs.PreCache = rng.Intn(3) == 0
			cs.UserSet = rng.Intn(2) == 0
		default:
			cs.UserSet = rng.Intn(2) == 0
			cs.Bridge = rng.Intn(3) == 0
		}
		out = append(out, cs)
	}
	out = append(out, c14StateCases(r, len(out))...)
	out = append(out, c14NameCases(r, len(out))...)
	out = append(out, c14ConfigCases(r, len(out))...)
	out = append(out, c14SelectCases(r, len(out))...)
	out = append(out, c14ScaleCases(r, len(out))...)
	return append(out, c14LiveCases(r, len(out))...)
}

// c14ConfigSets: remote configurations that `git remote` produces and that are not "every name has a URL of its own":
// two and three NAMES of one URL (origin and upstream of one project; with the default names origin < origin2 < peer every
// pair of positions occurs), a remote with a second url, with a pushurl, with a relative url, and a remote that was
// configured and never fetched.
var c14ConfigSets = []struct {
	label   string
	remotes int
	urls    []int
	odd     []string
	ghost   string
}{
	{"two-names", 2, []int{0, 0}, nil, ""},
	{"multi-url", 2, nil, []string{c14MultiURL, ""}, ""},
	{"two-names-and-another", 3, []int{0, 0, 1}, nil, ""},
	{"never-fetched", 1, nil, nil, "never-fetched"},
	{"another-and-two-names", 3, []int{0, 1, 1}, nil, ""},
	{"pushurl", 2, nil, []string{"", c14PushURL}, ""},
	{"two-names-apart", 3, []int{0, 1, 0}, nil, ""},
	{"relative-url", 2, nil, []string{c14RelativeURL, ""}, ""},
	{"three-names", 3, []int{0, 0, 0}, nil, ""},
	{"never-fetched-dead-url", 2, nil, nil, "never-fetched-dead-url"},
	{"mixed", 3, nil, []string{c14MultiURL, c14PushURL, c14RelativeURL}, "never-fetched"},
}

// c14ConfigCases: the removals of the lists above in repositories with such remote configurations - bugs and identities,
// every API, victims in every state. Template j%13 meets configuration j%11 (coprime): thorough sees every pair.
// Which names hold the victim (it was pushed or fetched through them): all of them, or (names of one URL, no wipe) only the
// last, or only the first, of the names of that URL. (Appended to the list: the cases above are unchanged.)
func c14ConfigCases(r *mon.Run, start int) []c14Case {
	type tpl struct{ api, kind, state string }
	cycle := []tpl{
		{"entity", "bug", ""}, {"cache", "identity", ""}, {"cli-wipe", "bug", ""}, {"entity", "identity", c14FetchedUnmerged},
		{"cache", "bug", c14RemovedRepulled}, {"entity", "identity", ""}, {"cli-rm", "bug", ""}, {"entity", "bug", c14RemovedRefetched},
		{"cache", "bug", ""}, {"cli-wipe", "identity", ""}, {"entity", "bug", c14FetchedUnmerged},
		{"entity", "identity", c14RemovedRepulled}, {"cli-rm", "bug", c14RemovedRepulled},
	}
	n := r.Pick(2*len(cycle), len(c14ConfigSets)*len(cycle))
	var out []c14Case
	for j := 0; j < n; j++ {
		i := start + j
		rng := mon.Rng(r.Seed, "c14-config-spec", j)
		t := cycle[j%len(cycle)]
		set := c14ConfigSets[(j+int(r.Seed))%len(c14ConfigSets)]
		cs := c14Case{
			Name: fmt.Sprintf("case-%d", i), Seed: r.Seed, Idx: i,
			Kind: t.kind, Api: t.api, State: t.state,
			Remotes: set.remotes, Urls: set.urls, Odd: set.odd, Ghost: set.ghost, CfgSet: set.label,
			Holds:   1<<set.remotes - 1,
			Point:   (j / len(cycle)) % 3,
			Others:  2 + rng.Intn(4),
			Prefix:  []string{"full", "shortest", "human"}[rng.Intn(3)],
			UserSet: rng.Intn(2) == 0 || t.api == "cli-rm" || t.api == "cli-wipe" || (t.api == "cache" && t.state == c14RemovedRepulled),
		}
		cs.SharedK = []int{1 + rng.Intn(3)}
		// this process does not run in the work tree: it cannot fetch again through a relative url
		if cs.State == c14RemovedRefetched || cs.State == c14RemovedRepulled {
			for _, o := range cs.Odd {
				if o == c14RelativeURL {
					cs.State = ""
				}
			}
		}
		if len(set.urls) > 0 && t.api != "cli-wipe" {
			// the names of one URL: group[0] < group[1] (< group[2])
			var group []int
			for a := 0; a < set.remotes; a++ {
				for b := 0; b < set.remotes; b++ {
					if a != b && set.urls[a] == set.urls[b] {
						group = append(group, a)
						break
					}
				}
			}
			switch mode := (j / len(c14ConfigSets)) % 3; mode {
			case 1: // through the last name only
				for _, g := range group[:len(group)-1] {
					cs.Holds &^= 1 << g
				}
			case 2: // through the first name only
				for _, g := range group[1:] {
					cs.Holds &^= 1 << g
				}
			}
		}
		switch t.api {
		case "cli-wipe":
			cs.Unmerged = j%2 == 0
			cs.Bridge = rng.Intn(2) == 0
		case "cli-rm":
			if rng.Intn(2) == 0 {
				cs.Select = "other"
				cs.BadIdsAfter = rng.Intn(2) == 0
			}
		case "entity":
			cs.PreCache = rng.Intn(4) == 0
		}
		out = append(out, cs)
	}
	return out
}

// c14SelectCases: `git-bug bug rm` in a repository where a bug was chosen with `git-bug bug select` - another bug, the
// other bug whose id shares the longest prefix with the victim's, or the victim itself - over every remote configuration,
// for a victim removed for the first time and for one removed, pulled again and removed again. Around the removal: `bug rm`
// with an ambiguous prefix, with an id that never existed, with a mistyped prefix, the removal repeated, and (last) `bug rm`
// without any id. (Appended to the list: the cases above are unchanged.)
func c14SelectCases(r *mon.Run, start int) []c14Case {
	type rh struct{ remotes, holds int }
	var combos []rh
	for n := 0; n <= 3; n++ {
		for h := 0; h < 1<<n; h++ {
			combos = append(combos, rh{n, h})
		}
	}
	selects := []string{"other", "victim", "other-twin"}
	n := r.Pick(12, 6*len(combos)) // 15 configurations; 6 = |selects| x |states|
	var out []c14Case
	for j := 0; j < n; j++ {
		i := start + j
		rng := mon.Rng(r.Seed, "c14-select-spec", j)
		co := combos[(j*4+int(r.Seed))%len(combos)] // 4 and 15 are coprime
		cs := c14Case{
			Name: fmt.Sprintf("case-%d", i), Seed: r.Seed, Idx: i,
			Kind: "bug", Api: "cli-rm", Select: selects[j%3],
			Remotes: co.remotes, Holds: co.holds,
			Point:   (j / 3) % 3,
			Others:  2 + rng.Intn(5),
			Prefix:  []string{"full", "shortest", "human"}[rng.Intn(3)],
			UserSet: true,
			Bridge:  rng.Intn(3) == 0,
			// the ids that match nothing: before the removal, or after it and its repetition, in turn for every selection
			BadIdsAfter: (j/6+j%3)%2 == 1,
		}
		if (j/3)%2 == 1 && co.holds != 0 {
			cs.State = c14RemovedRepulled
		}
		for k := 1 + rng.Intn(2); k > 0; k-- {
			cs.SharedK = append(cs.SharedK, 1+rng.Intn(3))
		}
		out = append(out, cs)
	}
	return out
}

// c14NameSets: remote names that git accepts (`git remote add` of git 2.39 takes every one of them, and every set as a
// whole) and that are not one plain word. No set holds two names a, b with b starting with a+"/bugs" or a+"/identities":
// git-bug's own layout refs/remotes/<remote>/<namespace>/<id> is ambiguous for such a pair.
var c14NameSets = []struct {
	label string
	names []string
}{
	{"slash", []string{"team/alice", "origin", "team/alice2"}},                // one '/', and a name that is a string prefix of another
	{"nested-prefix", []string{"team", "team/alice", "team/alice/laptop"}},    // every name is a path prefix of the next
	{"levels", []string{"a/b/c", "a/b", "x/y/z/w"}},                           // several levels
	{"ns-words", []string{"bugs", "identities", "origin"}},                    // the namespace words themselves
	{"ns-words-nested", []string{"bugs/identities", "identities", "my/bugs"}}, // namespace words as path elements
	{"dot-dash", []string{"my.remote", "up-stream", "v1.2_rc-3"}},
	{"dot-slash", []string{"a.b/c-d", "a.b", "a.b/c-d.e"}},
}

// c14NameCases: the removals of the lists above in repositories whose remotes have unusual names — bugs and identities,
// every API, victims in every state. Template j%11 meets name set j%7 (coprime): thorough sees every pair 3 times.
// (Appended to the list: the cases above are unchanged.)
func c14NameCases(r *mon.Run, start int) []c14Case {
	type tpl struct{ api, kind, state string }
	cycle := []tpl{
		{"cache", "bug", ""}, {"entity", "bug", ""}, {"cli-rm", "bug", ""}, {"cache", "identity", ""},
		{"entity", "identity", ""}, {"cli-wipe", "bug", ""}, {"entity", "bug", c14FetchedUnmerged},
		{"entity", "identity", c14RemovedRefetched}, {"cache", "bug", c14RemovedRepulled},
		{"cli-wipe", "identity", ""}, {"cli-rm", "bug", c14RemovedRepulled},
	}
	n := r.Pick(4*len(cycle), 3*len(c14NameSets)*len(cycle))
	var out []c14Case
	for j := 0; j < n; j++ {
		i := start + j
		rng := mon.Rng(r.Seed, "c14-name-spec", j)
		t := cycle[j%len(cycle)]
		set := c14NameSets[j%len(c14NameSets)]
		// every other case: all the names of the set, and all of them hold the victim (so that each class of name is met
		// whatever the seed); otherwise 2 or 3 of the names, starting anywhere in the set, a non-empty subset holding.
		// (The first remote is where a third replica publishes the fetched-unmerged entity of the wipe cases, the first
		// holding one where the second replica joins.)
		k := len(set.names)
		rot := rng.Intn(len(set.names))
		if j%2 != 0 {
			k = 2 + rng.Intn(2)
		}
		var names []string
		for x := 0; x < k; x++ {
			names = append(names, set.names[(rot+x)%len(set.names)])
		}
		holds := 1<<k - 1
		if j%2 != 0 {
			holds = 1 + rng.Intn(1<<k-1)
		}
		cs := c14Case{
			Name: fmt.Sprintf("case-%d", i), Seed: r.Seed, Idx: i,
			Kind: t.kind, Api: t.api, State: t.state,
			Remotes: k, Holds: holds, Names: names, NameSet: set.label,
			Point:   (j / len(cycle)) % 3,
			Others:  2 + rng.Intn(4),
			Prefix:  []string{"full", "shortest", "human"}[rng.Intn(3)],
			UserSet: rng.Intn(2) == 0 || t.api == "cli-rm" || t.api == "cli-wipe" || (t.api == "cache" && t.state == c14RemovedRepulled),
		}
		cs.SharedK = []int{1 + rng.Intn(3)}
		switch t.api {
		case "cli-wipe":
			cs.Unmerged = j%2 == 0
			cs.Bridge = rng.Intn(2) == 0
		case "entity":
			cs.PreCache = rng.Intn(4) == 0
		}
		out = append(out, cs)
	}
	return out
}

// c14StateCases: single-entity removals of a victim that is NOT simply "present locally, removed for the first time":
// fetched and never merged, removed then fetched again, removed then pulled again — over every remote configuration
// with at least one holding remote, through every API. (Appended to the list: the cases above are unchanged.)
func c14StateCases(r *mon.Run, start int) []c14Case {
	type tpl struct{ api, kind, state string }
	cycle := []tpl{
		{"entity", "bug", c14FetchedUnmerged}, {"entity", "identity", c14FetchedUnmerged},
		{"entity", "bug", c14RemovedRefetched}, {"entity", "identity", c14RemovedRefetched},
		{"cache", "bug", c14RemovedRepulled}, {"cli-rm", "bug", c14RemovedRepulled},
		{"entity", "identity", c14FetchedUnmerged}, {"cache", "identity", c14RemovedRepulled},
		{"entity", "identity", c14RemovedRepulled}, {"entity", "bug", c14RemovedRepulled},
		{"entity", "bug", c14FetchedUnmerged}, {"entity", "identity", c14RemovedRefetched},
		{"entity", "bug", c14RemovedRefetched},
		// the cache cannot resolve an entity without local ref: what the cache API and the CLI do then is recorded
		{"cache", "bug", c14FetchedUnmerged}, {"cli-rm", "bug", c14RemovedRefetched},
		{"cache", "identity", c14RemovedRefetched}, {"cli-rm", "bug", c14FetchedUnmerged},
	}
	type rh struct{ remotes, holds int }
	var combos []rh // 11 configurations with a holding remote
	for n := 1; n <= 3; n++ {
		for h := 1; h < 1<<n; h++ {
			combos = append(combos, rh{n, h})
		}
	}
	n := r.Pick(2*len(cycle), 11*len(cycle)) // thorough: every (template, configuration) pair (17 and 11 are coprime)
	var out []c14Case
	nth := map[string]int{}
	for j := 0; j < n; j++ {
		i := start + j
		rng := mon.Rng(r.Seed, "c14-state-spec", j)
		t := cycle[j%len(cycle)]
		co := combos[(j+int(r.Seed))%len(combos)]
		nth[t.state+t.kind]++
		cs := c14Case{
			Name: fmt.Sprintf("case-%d", i), Seed: r.Seed, Idx: i,
			Kind: t.kind, Api: t.api, State: t.state,
			Remotes: co.remotes, Holds: co.holds,
			Point:  nth[t.state+t.kind] % 3, // the k-th case of a (state, kind) is at history point k mod 3
			Others: 2 + rng.Intn(5),
			Prefix: []string{"full", "shortest", "human"}[rng.Intn(3)],
			// the CLI, and MergeAll of the cache (pulling again), need a user identity
			UserSet: rng.Intn(2) == 0 || t.api == "cli-rm" || (t.api == "cache" && t.state == c14RemovedRepulled),
		}
		for k := 1 + rng.Intn(2); k > 0; k-- {
			cs.SharedK = append(cs.SharedK, 1+rng.Intn(3))
		}
		if rng.Intn(3) == 0 {
			cs.CrossK = 1 + rng.Intn(2)
		}
		if t.api == "entity" {
			cs.PreCache = rng.Intn(4) == 0
		}
		out = append(out, cs)
	}
	return out
}

func runC14(tier, replay string) int {
	r := mon.NewRun("C14", "exploration", tier)
	var cases []c14Case
	if replay != "" {
		var rep struct {
			Case struct {
				Case c14Case `json:"case"`
			} `json:"case"`
		}
		data, err := os.ReadFile(replay)
		if err == nil {
			err = json.Unmarshal(data, &rep)
		}
		if err != nil {
			fmt.Println("cannot read replay:", err)
			return 2
		}
		cases = []c14Case{rep.Case.Case}
	} else {
		cases = c14Cases(r)
	}
	if replay == "" {
		c14WipeEmptyNamespace(r)
	}
	refLessJudged := map[string]int{}
	namedRemoved := map[string]int{} // <kind>/<class of the remote's name> -> remote-tracking refs of a victim seen to disappear
	cfgRemoved := map[string]int{}   // <kind>/<class of the remote's configuration> -> the same
	cfgWiped := map[string]int{}     // configuration set -> clean wipes
	selJudged := map[string]int{}    // selection -> CLI removals followed through to the removal without id
	scaleTot := map[string]int{}     // counters of the scale and live cases (c14_scale.go), summed over the judged cases
	outcomes := runBatchesRetry[c14Case, c14Result](r, "c14", cases, 3, 3*time.Minute)
	for i, oc := range outcomes {
		cs := cases[i]
		if oc.Crashed {
			r.Case("crash", false)
			r.Violation("crash:"+oc.Site, "process died while running "+cs.Name+":\n"+oc.Excerpt, map[string]any{"case": cs})
			continue
		}
		if oc.TimedOut || oc.Result == nil {
			r.Case("timeout", false)
			r.Inconclusive("case " + cs.Name + " did not finish: " + oc.Site)
			continue
		}
		res := oc.Result
		if res.HarnessError != "" {
			r.Case(res.Shape, false)
			r.Inconclusive("case " + cs.Name + ": " + res.HarnessError)
			continue
		}
		for _, why := range res.Inconclusive {
			r.Inconclusive("case " + cs.Name + ": " + why)
		}
		r.Case(res.Shape, res.Nontrivial && len(res.Inconclusive) == 0)
		r.Count("removals/"+cs.Api+"/"+cs.Kind, 1)
		if cs.State != "" {
			r.Count("cases_by_victim_state/"+cs.State+"/"+cs.Api+"/"+cs.Kind, 1)
		}
		refLessJudged[cs.Kind] += res.Counters["accepted_removals_of_an_entity_without_local_ref"]
		if cs.NameSet != "" {
			r.Count("cases_by_remote_name_set/"+cs.NameSet+"/"+cs.Api+"/"+cs.Kind, 1)
			if cs.Api == "cli-wipe" && res.Counters["wipe_end_states_clean"] > 0 {
				r.Count("clean_wipes_with_unusual_remote_names/"+cs.NameSet, 1)
			}
			for k, v := range res.Counters {
				if strings.HasPrefix(k, "victim_refs_removed_by_remote_name_class/") {
					namedRemoved[strings.TrimPrefix(k, "victim_refs_removed_by_remote_name_class/")] += v
				}
			}
		}
		if cs.CfgSet != "" {
			r.Count("cases_by_remote_config_set/"+cs.CfgSet+"/"+cs.Api+"/"+cs.Kind, 1)
			if cs.Api == "cli-wipe" && res.Counters["wipe_end_states_clean"] > 0 {
				r.Count("clean_wipes_with_unusual_remote_configs/"+cs.CfgSet, 1)
				cfgWiped[cs.CfgSet]++
			}
			for k, v := range res.Counters {
				if strings.HasPrefix(k, "victim_refs_removed_by_remote_config_class/") {
					cfgRemoved[strings.TrimPrefix(k, "victim_refs_removed_by_remote_config_class/")] += v
				}
			}
		}
		if cs.Select != "" {
			r.Count("cases_by_selection/"+cs.Select+"/"+map[bool]string{true: "local", false: cs.State}[cs.State == ""], 1)
			if res.Nontrivial && len(res.Inconclusive) == 0 {
				selJudged[cs.Select] += res.Counters["removals_without_id_refused"] + res.Counters["removals_without_id_accepted"]
			}
		}
		r.Seen("history_points", fmt.Sprintf("%s/point%d", cs.Api, cs.Point))
		if cs.Scale != "" {
			r.Count("cases_by_scale/"+cs.Scale+"/"+cs.Api+"/"+cs.Kind, 1)
			if cs.Scale == c14AmongMany && res.Nontrivial && len(res.Inconclusive) == 0 {
				scaleTot["among-many/"+cs.Api]++
				if cs.KeepIndex && res.Counters["rebuilds_over_the_index_of_earlier_sessions"] > 0 {
					scaleTot["among-many/rebuild-over-index"]++
				}
			}
		}
		if cs.Live != "" {
			r.Count("cases_by_remote_change_under_the_handle/"+cs.Live+"/"+cs.Warm+"/"+cs.Api+"/"+cs.Kind, 1)
		}
		for k, v := range res.Counters {
			r.Count(k, v)
			if len(res.Inconclusive) == 0 && (strings.HasPrefix(k, "removeall_runs") || strings.HasPrefix(k, "live_removals_through_the_long_lived_handle/")) {
				scaleTot[k] += v
			}
		}
		for set, members := range res.Sets {
			for _, m := range members {
				r.Seen(set, m)
			}
		}
		for _, f := range res.Findings {
			r.Violation(f.Key, f.What+" ["+cs.Name+"]", f.Case)
		}
		if i < 3 || i == len(cases)-1 {
			r.Sample(res.Sample)
		}
		if replay != "" {
			b, _ := json.MarshalIndent(res, "", " ")
			fmt.Printf("replay of %s:\n%s\n", cs.Name, b)
		}
	}
	min := r.Pick(130, 800)
	if replay != "" {
		min = 0
	} else {
		for _, want := range []string{"among-many/entity", "among-many/cache", "among-many/cli-rm", "among-many/rebuild-over-index",
			"removeall_runs/cache-removeall/all", "removeall_runs/cache-removeall/bugs", "removeall_runs/entity-removeall/all", "removeall_runs/entity-removeall/bugs",
			"removeall_runs_over_more_than_10_entities_of_a_namespace"} {
			if scaleTot[want] == 0 {
				r.Inconclusive("no removal of the class " + want + " (11..40 entities in the namespace) was carried out and judged")
			}
		}
		for _, op := range []string{c14LiveAdd, c14LiveAddFetch, c14LiveRename, c14LiveRemove, c14LiveRemoveAdd} {
			n := 0
			for k, v := range scaleTot {
				if strings.HasPrefix(k, "live_removals_through_the_long_lived_handle/"+op+"/") && !strings.HasSuffix(k, "/"+c14WarmNone) {
					n += v
				}
			}
			if n == 0 {
				r.Inconclusive("no removal through a handle that had used its remote list before `git remote` changed the configuration under it (" + op + ") was carried out and judged")
			}
		}
		for _, kind := range []string{"bug", "identity"} {
			for _, want := range []string{"slash", "multi-slash", "ns-word", "dot", "dash"} {
				seen := 0
				for k, v := range namedRemoved {
					if strings.HasPrefix(k, kind+"/") && strings.Contains("+"+strings.TrimPrefix(k, kind+"/")+"+", "+"+want+"+") {
						seen += v
					}
				}
				if seen == 0 {
					r.Inconclusive(fmt.Sprintf("no removal of a %s held by a remote whose name is of class %q was carried out and judged", kind, want))
				}
			}
		}
		for _, want := range []string{c14SharedURL, c14MultiURL, c14PushURL, c14RelativeURL} {
			kinds := 0
			for _, kind := range []string{"bug", "identity"} {
				for k, v := range cfgRemoved {
					if v > 0 && strings.HasPrefix(k, kind+"/") && strings.Contains("+"+strings.TrimPrefix(k, kind+"/")+"+", "+"+want+"+") {
						kinds++
						break
					}
				}
			}
			if kinds < r.Pick(1, 2) {
				r.Inconclusive(fmt.Sprintf("too few removals of an entity held by a remote whose configuration is of class %q were carried out and judged (kinds of entity: %d)", want, kinds))
			}
		}
		for _, sel := range []string{"other", "other-twin", "victim"} {
			if selJudged[sel] == 0 {
				r.Inconclusive("no CLI removal with selection " + sel + " was followed through to the removal without id")
			}
		}
		for _, kind := range []string{"bug", "identity"} {
			if refLessJudged[kind] == 0 {
				r.Inconclusive("no removal of a " + kind + " without local ref (fetched and never merged, or removed and fetched again) was carried out and judged")
			}
		}
	}
	r.Extra("added_in_seeding_round_6", "a third of the base cases: stock `git pack-refs --all` between the build and the removal (the victim's refs live in packed-refs only)")
	return r.Finish("before/after observation (ref table by gitraw and by git for-each-ref, .git/config key multiset, .git/git-bug listing, object set, cache answers, index hits) around a removal through bug.Remove / identity.Remove, RepoCache.{Bugs,Identities}().Remove(prefix), `git-bug bug rm` and `git-bug wipe`, in repositories with 0..3 remotes of which every subset holds the entity, 2..10 other entities with engineered shared id prefixes, at three points of an edit/push/pull history; followed by a second removal, reopen, rebuild from scratch and MergeAll without fetch. The removed entity is in one of four states: present locally (with 0..3 remote-tracking refs); fetched from 1..3 remotes and never merged (remote-tracking refs only); removed, fetched again, removed again (remote-tracking refs only); removed, pulled again, removed again. The remotes are named origin, origin2, peer, or (name cases) by 2..3 names of a set of unusual names git accepts: with one or several '/', with '.', '-', '_', a name that is a string or path prefix of another (team, team/alice, team/alice2, team/alice/laptop), the namespace words (bugs, identities) as name or path element; refs/remotes/<name>/<namespace>/<id> is recognised by the configured names, not by position. Configuration cases: 11 remote configurations that `git remote` produces and that are not one-name-one-absolute-URL: two and three NAMES of one URL (origin and upstream of one project; the victim pushed/fetched through all the names, through the last only, through the first only), a remote with a second url (`set-url --add`), with a pushurl different from its url, with a url relative to the work tree, a remote that was configured and never fetched (its URL an empty repository, or nothing at all), and a mix - with every API and victim state. Selection cases: `git-bug bug rm` after `git-bug bug select` of another bug, of the other bug sharing the longest id prefix with the victim, or of the victim itself; around the removal `bug rm` with an ambiguous prefix, with an id that never existed and with a mistyped prefix (before the removal, or after it and its repetition), the removal repeated, `bug show` without id (the selected bug must still be served), and last `bug rm` without id (refused: nothing may differ; accepted: only the selected bug may be gone); the refs of the selected bug are a class of their own (selected-bug-local / selected-bug-remote-tracking) and the selection file must keep its content unless it names the victim. Scale cases: the namespace of the removed entity holds 11..40 entities - one victim removed among many (entity API, cache API, CLI; with rebuild-keeps-index the cache rebuild deletes the cache files only and meets the search index of the earlier sessions), and RemoveAll of the whole population (RepoCache.RemoveAll, Bugs().RemoveAll, bug.RemoveAll + identity.RemoveAll over a cache and index built before): every ref of the emptied namespaces (local and remote-tracking of every configured remote) must go and no other ref, foreign config key, storage file or object may change; no removed id may be listed, resolved (by id, by prefix), returned by a query or found by its marker or by a marker every removed bug held, and the index document counts must equal the populations - in the same session, after a new identity and bug were created in the same session, after reopen, a second RemoveAll, a rebuild and MergeAll without fetch. Live cases: one handle (GoGitRepo, with the cache API the RepoCache over it) stays open, has used its remote list (GetRemotes, or the removal of another entity; or not at all), then stock git changes the configuration under it (remote add, rename, remove, remove+add), the handle pushes to / fetches from the remote that came out of it, and the victim is removed (or RemoveAll is run) through the same handle: the remote-tracking refs of every remote configured at that moment must go; MergeAll by the same handle and the usual persistence part follow. A removal of an entity without local ref that returns an error (the cache API and the CLI cannot resolve such an entity) is recorded as refused and only its frame is judged. A case is non-trivial when the removal was carried out and everything could be observed; distinct = distinct (kind, API, history point, #remotes, #holding remotes, longest engineered shared prefix, cross-namespace twin, prefix mode, user identity set, bridge config, fetched-unmerged entity, pre-built cache, state of the victim, set of remote names, remote configuration, selection and position of the unknown ids, scale family and population bucket, rebuild-keeps-index, RemoveAll scope, recreation, remote change under the handle and warm-up)",
		min, []string{
			"ids cannot be chosen: the configuration (sizes, shared prefix lengths, remotes) is a function of the seed, the concrete ids are not",
			"removed identities never authored anything (removing an author breaks its bugs by design, the statement leaves that to the caller)",
			"before a single-entity removal every remote is fetched and merged, so that a later MergeAll without fetch has nothing legitimate to change (state fetched-unmerged: this is done before the victim is published; only the victim is fetched and not merged)",
			"a NEW fetch after a removal legitimately brings the remote-tracking refs back, and a new pull the entity: the states removed-refetched / removed-repulled judge the removal that follows, not the return",
			"the statement does not say that removing an entity that does not exist locally must be accepted: a removal of an entity without local ref that returns an error is not judged (beyond: nothing else changed), an accepted one is judged in full",
			"removal through the entity API is judged on repositories whose cache is (re)built afterwards; what a cache built *before* such a removal serves is recorded, not judged",
			"for wipe only the stated end state is judged (no ref under the four namespaces, no git-bug.* key, no file under .git/git-bug); git objects are never expected to disappear",
			"remote names: only names `git remote add` accepts; no configuration holds two remotes a, b with b starting with a+\"/bugs\" or a+\"/identities\" (git-bug's ref layout refs/remotes/<remote>/<namespace>/<id> cannot tell such a pair apart)",
			"remote configurations: the second url and the pushurl are there from the start (git-bug's own fetch and push go through such a remote: go-git uses the first url for both and ignores pushurl, which is not judged here); the relative url is written after the history was built and proved usable by a fetch with stock git, because the monitor does not run inside the work tree; a victim removed and fetched again is not combined with a relative url for the same reason",
			"several names of one URL: a name that (by the case) does not hold the victim is not fetched from once the victim is published; everything known through it was pushed by the repository itself before, so a merge without fetch still has nothing to do",
			"selection: when the selection names the removed bug itself, whether the removal keeps or clears the selection file is not judged (the statement is silent); a dangling selection must only not hurt the next commands (`bug show` without id must not serve the removed bug, selecting another bug must work). `bug rm` without id: the documented usage is `rm BUG_ID`; a refusal must change nothing, an accepted one may only remove the selected bug",
			"full-text assertions use planted marker tokens (zqNNx?k) that the English analyzer leaves alone",
			"RemoveAll: the statement does not say what becomes of git-bug's own configuration keys (the selected user identity) when every identity is removed: only the keys outside git-bug.* are judged there; a second RemoveAll over an empty population may answer anything, it must change nothing",
			"remote configuration changed under an open handle: only by `git remote add|rename|remove` of stock git, between two actions of the handle (never concurrently with one); after `git remote remove` the refs git itself left under refs/remotes/<removed name>/ (none with git 2.39) belong to no configured remote and must stay as they are",
		})
}

func c14Status(s entity.MergeStatus) string {
	switch s {
	case entity.MergeStatusNew:
		return "new"
	case entity.MergeStatusInvalid:
		return "invalid"
	case entity.MergeStatusUpdated:
		return "updated"
	case entity.MergeStatusNothing:
		return "nothing"
	case entity.MergeStatusError:
		return "error"
	}
	return fmt.Sprint(int(s))
}
