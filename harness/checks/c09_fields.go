package checks

import (
	"encoding/json"
	"fmt"
	"math/rand"
	"reflect"
	"runtime/debug"
	"strings"

	"github.com/MichaelMure/git-bug/cache"
	"github.com/MichaelMure/git-bug/entities/identity"
	"github.com/MichaelMure/git-bug/entity"
	"github.com/MichaelMure/git-bug/repository"

	"verif/harness/gitraw"
	"verif/harness/mon"
	"verif/harness/refmodel"
	"verif/harness/world"
)

// ---- C09 part 2: field values through the editing API ------------------------------

// IdFieldCase is one version written through NewIdentityFull/Mutate/SetMetadata + Commit.
type IdFieldCase struct {
	Name     string `json:"name"`
	Class    string `json:"class"`
	Position string `json:"position"` // first | mutate
	API      string `json:"api"`      // entity | cache
	NameV    string `json:"v_name"`
	Login    string `json:"v_login"`
	Email    string `json:"v_email"`
	Avatar   string `json:"v_avatar"`
	MetaK    string `json:"v_meta_key"`
	MetaV    string `json:"v_meta_value"`
	NKeys    int    `json:"v_keys"`
	Clock    string `json:"clock"` // "" | decreasing | dropped
}

// IdFieldResult is the child's observation.
type IdFieldResult struct {
	Findings     []string `json:"findings"`
	Model        string   `json:"model"` // must-refuse | either | plain
	Reason       string   `json:"reason"`
	Observed     string   `json:"observed"` // accepted | rejected
	Err          string   `json:"err"`
	HarnessError string   `json:"harness_error"`
}

type fieldClass struct {
	class                      string
	name, login, email, avatar string
	metaK, metaV               string
	nkeys                      int
	clock                      string
}

func baseFieldClasses() []fieldClass {
	ok := func(class string) fieldClass {
		return fieldClass{class: class, name: "Alice Example", email: "alice@example.com"}
	}
	with := func(class string, f func(*fieldClass)) fieldClass {
		c := ok(class)
		f(&c)
		return c
	}
	long := strings.Repeat("Long Name ", 30)
	return []fieldClass{
		ok("plain-ascii"),
		with("unicode-name", func(c *fieldClass) { c.name = "Zoë Çelik 山田 太郎" }),
		with("login-only", func(c *fieldClass) { c.name, c.login = "", "alice" }),
		with("name-and-login", func(c *fieldClass) { c.login = "alice-42" }),
		with("no-email", func(c *fieldClass) { c.email = "" }),
		with("long-name", func(c *fieldClass) { c.name = long }),
		with("punctuation", func(c *fieldClass) { c.name = `O'Brien, J. (Jr.) <x> "q" \ / & %` }),
		with("email-plus", func(c *fieldClass) { c.email = "alice+bugs@sub.example.co.uk" }),
		with("avatar-https", func(c *fieldClass) { c.avatar = "https://example.com/a.png?size=64" }),
		with("metadata-plain", func(c *fieldClass) { c.metaK, c.metaV = "github-login", "alice" }),
		with("keys-1", func(c *fieldClass) { c.nkeys = 1 }),
		with("keys-2", func(c *fieldClass) { c.nkeys = 2 }),
		with("everything", func(c *fieldClass) {
			c.login, c.avatar, c.metaK, c.metaV, c.nkeys = "alice", "http://example.com/x.jpg", "origin", "gitlab", 1
		}),

		with("no-name-no-login", func(c *fieldClass) { c.name, c.login = "", "" }),
		with("no-name-no-login-no-email", func(c *fieldClass) { c.name, c.login, c.email = "", "", "" }),
		with("name-newline", func(c *fieldClass) { c.name = "Al\nice" }),
		with("name-trailing-newline", func(c *fieldClass) { c.name = "Alice\n" }),
		with("name-cr", func(c *fieldClass) { c.name = "Al\rice" }),
		with("name-nul", func(c *fieldClass) { c.name = "Al\x00ice" }),
		with("name-esc", func(c *fieldClass) { c.name = "\x1b[31mAlice\x1b[0m" }),
		with("name-bel", func(c *fieldClass) { c.name = "Alice\x07" }),
		with("name-del", func(c *fieldClass) { c.name = "Al\x7fice" }),
		with("login-newline", func(c *fieldClass) { c.login = "ali\nce" }),
		with("login-nul", func(c *fieldClass) { c.login = "ali\x00ce" }),
		with("login-only-newline", func(c *fieldClass) { c.name, c.login = "", "al\nice" }),
		with("login-esc", func(c *fieldClass) { c.login = "\x1b]0;title\x07" }),
		with("email-newline", func(c *fieldClass) { c.email = "alice@example.com\nBcc: x@y" }),
		with("email-nul", func(c *fieldClass) { c.email = "alice\x00@example.com" }),
		with("email-cr", func(c *fieldClass) { c.email = "alice@example.com\r" }),
		with("avatar-newline", func(c *fieldClass) { c.avatar = "https://example.com/a\n.png" }),
		with("avatar-nul", func(c *fieldClass) { c.avatar = "https://example.com/a\x00.png" }),
		with("clock-decreasing", func(c *fieldClass) { c.clock = "decreasing" }),
		with("clock-dropped", func(c *fieldClass) { c.clock = "dropped" }),

		with("name-tab", func(c *fieldClass) { c.name = "Alice\tExample" }),
		with("name-c1-control", func(c *fieldClass) { c.name = "Alice\u0085Example" }),
		with("name-zero-width", func(c *fieldClass) { c.name = "Ali\u200bce" }),
		with("name-rtl-override", func(c *fieldClass) { c.name = "Alice \u202eelpmaxE" }),
		with("blank-name", func(c *fieldClass) { c.name, c.login = "   ", "" }),
		with("blank-name-and-login", func(c *fieldClass) { c.name, c.login = " ", " " }),
		with("avatar-not-a-url", func(c *fieldClass) { c.avatar = "not a url" }),
		with("avatar-relative", func(c *fieldClass) { c.avatar = "avatars/alice.png" }),
		with("email-no-at", func(c *fieldClass) { c.email = "not an email" }),
		with("metadata-newline", func(c *fieldClass) { c.metaK, c.metaV = "note", "line1\nline2" }),
		with("metadata-nul", func(c *fieldClass) { c.metaK, c.metaV = "note", "a\x00b" }),
		with("metadata-empty-key", func(c *fieldClass) { c.metaK, c.metaV = "", "v" }),
	}
}

var hardChars = []string{"\n", "\r", "\x00", "\x01", "\x07", "\x08", "\x0b", "\x0c", "\x1b", "\x1f", "\x7f", "\r\n", "\u0085", "\u009b", "\u0080", "\u009f"}
var softChars = []string{"\t", "\u200b", "\u202e", "\ufeff"}

func randomFieldClass(rng *rand.Rand) fieldClass {
	c := fieldClass{name: "Bob Builder", email: "bob@example.net"}
	if rng.Intn(3) == 0 {
		c.login = "bob"
	}
	if rng.Intn(4) == 0 {
		c.avatar = "https://example.net/bob.png"
	}
	inject := func(s, ch string) string {
		if s == "" {
			return ch
		}
		p := rng.Intn(len(s) + 1)
		return s[:p] + ch + s[p:]
	}
	kind, chars := "hard", hardChars
	if rng.Intn(4) == 0 {
		kind, chars = "soft", softChars
	}
	ch := chars[rng.Intn(len(chars))]
	field := []string{"name", "login", "email", "avatar", "metadata"}[rng.Intn(5)]
	switch field {
	case "name":
		c.name = inject(c.name, ch)
	case "login":
		if rng.Intn(2) == 0 {
			c.name = ""
		}
		c.login = inject("bob", ch)
	case "email":
		c.email = inject(c.email, ch)
	case "avatar":
		c.avatar = inject("https://example.net/bob.png", ch)
	case "metadata":
		c.metaK, c.metaV = "note", inject("value", ch)
	}
	c.class = fmt.Sprintf("random-%s-%s-%q", kind, field, ch)
	return c
}

func c09FieldCases(r *mon.Run) []IdFieldCase {
	var out []IdFieldCase
	add := func(fc fieldClass, pos, api string) {
		out = append(out, IdFieldCase{
			Name: fmt.Sprintf("field-%d-%s-%s-%s", len(out), fc.class, pos, api), Class: fc.class, Position: pos, API: api,
			NameV: fc.name, Login: fc.login, Email: fc.email, Avatar: fc.avatar, MetaK: fc.metaK, MetaV: fc.metaV, NKeys: fc.nkeys, Clock: fc.clock,
		})
	}
	for i, fc := range baseFieldClasses() {
		if fc.clock != "" {
			add(fc, "mutate", "entity")
			continue
		}
		apis := []string{"entity", "cache"}
		if !r.Thorough() {
			// quick: both positions, API alternates
			add(fc, "first", apis[(i+int(r.Seed))%2])
			add(fc, "mutate", apis[(i+1+int(r.Seed))%2])
			continue
		}
		for _, api := range apis {
			add(fc, "first", api)
			add(fc, "mutate", api)
		}
	}
	n := r.Pick(12, 1800)
	for i := 0; i < n; i++ {
		rng := mon.Rng(r.Seed, "c09-field", i)
		add(randomFieldClass(rng), []string{"first", "mutate"}[rng.Intn(2)], []string{"entity", "cache"}[rng.Intn(2)])
	}
	return out
}

func guard(fn func() error) (err error, stack string) {
	defer func() {
		if p := recover(); p != nil {
			err = fmt.Errorf("PANIC: %v", p)
			stack = fmt.Sprintf("panic: %v\n\n%s", p, debug.Stack())
		}
	}()
	return fn(), ""
}

func runIdField(c IdFieldCase) IdFieldResult {
	res := IdFieldResult{}
	fail := func(key, what string) { res.Findings = append(res.Findings, key+"|"+what) }
	dir := world.ScratchDir("idfield-")
	defer removeAll(dir)
	rep, err := world.InitRepo(dir+"/r", false)
	if err != nil {
		res.HarnessError = err.Error()
		return res
	}
	var cc *cache.RepoCache
	defer func() {
		if cc != nil {
			_ = cc.Close()
		} else {
			_ = rep.Repo.Close()
		}
	}()
	_ = rep.Repo.Witness("bugs-create", 5)
	_ = rep.Repo.Witness("bugs-edit", 9)
	pool, _ := loadKeyPool()
	var keys []*identity.Key
	for k := 0; k < c.NKeys && k < len(pool); k++ {
		key, err := pool[k].Public()
		if err != nil {
			res.HarnessError = "pool key: " + err.Error()
			return res
		}
		keys = append(keys, key)
	}
	if c.API == "cache" {
		cc, err = cache.NewRepoCacheNoEvents(rep.Repo)
		if err != nil {
			res.HarnessError = "cache: " + err.Error()
			return res
		}
	}
	target := rep.Repo // the repository the version under test is committed to
	var low *world.Replica
	if c.Clock != "" {
		low, err = world.InitRepo(dir+"/low", false)
		if err != nil {
			res.HarnessError = err.Error()
			return res
		}
		defer low.Repo.Close()
		_ = low.Repo.Witness("bugs-create", 6)
		if c.Clock == "decreasing" {
			_ = low.Repo.Witness("bugs-edit", 4)
		}
	}

	// intended facts, for the model when nothing gets written
	intended := []refmodel.VersionFacts{}
	highTimes := map[string]uint64{"bugs-create": 5, "bugs-edit": 9}
	if c.Position == "mutate" {
		intended = append(intended, refmodel.VersionFacts{Name: "Base Identity", Email: "base@example.com", Times: highTimes, HasTimes: true})
	}
	vt := highTimes
	switch c.Clock {
	case "decreasing":
		vt = map[string]uint64{"bugs-create": 6, "bugs-edit": 4}
	case "dropped":
		vt = map[string]uint64{"bugs-create": 6}
	}
	intended = append(intended, refmodel.VersionFacts{Name: c.NameV, Login: c.Login, Email: c.Email, Avatar: c.Avatar, Times: vt, HasTimes: true})

	var id entity.Id
	var werr error
	var stack string
	switch {
	case c.Position == "first" && cc == nil:
		werr, stack = guard(func() error {
			i, err := identity.NewIdentityFull(rep.Repo, c.NameV, c.Email, c.Login, c.Avatar, keys)
			if err != nil {
				return err
			}
			if c.MetaK != "" || c.MetaV != "" {
				i.SetMetadata(c.MetaK, c.MetaV)
			}
			if err := i.Commit(rep.Repo); err != nil {
				return err
			}
			id = i.Id()
			return nil
		})
	case c.Position == "first":
		werr, stack = guard(func() error {
			var meta map[string]string
			if c.MetaK != "" || c.MetaV != "" {
				meta = map[string]string{c.MetaK: c.MetaV}
			}
			ic, err := cc.Identities().NewRaw(c.NameV, c.Email, c.Login, c.Avatar, keys, meta)
			if err != nil {
				return err
			}
			id = ic.Id()
			return nil
		})
	default:
		var base *identity.Identity
		var baseC *cache.IdentityCache
		if cc == nil {
			base, err = identity.NewIdentity(rep.Repo, "Base Identity", "base@example.com")
			if err == nil && c.Clock == "" {
				err = base.Commit(rep.Repo)
			}
			if err == nil {
				id = base.Id()
			}
		} else {
			baseC, err = cc.Identities().New("Base Identity", "base@example.com")
			if err == nil {
				id = baseC.Id()
			}
		}
		if err != nil {
			res.HarnessError = "base identity: " + err.Error()
			return res
		}
		f := func(m *identity.Mutator) {
			m.Name, m.Login, m.Email, m.AvatarUrl = c.NameV, c.Login, c.Email, c.Avatar
			if len(keys) > 0 {
				m.Keys = keys
			}
		}
		werr, stack = guard(func() error {
			if cc == nil {
				clockRepo := repository.RepoClock(rep.Repo)
				if low != nil {
					clockRepo, target = low.Repo, low.Repo
				}
				if err := base.Mutate(clockRepo, f); err != nil {
					return err
				}
				if c.MetaK != "" || c.MetaV != "" {
					base.SetMetadata(c.MetaK, c.MetaV)
				}
				return base.Commit(target)
			}
			if err := baseC.Mutate(rep.Repo, f); err != nil {
				return err
			}
			if c.MetaK != "" || c.MetaV != "" {
				baseC.SetMetadata(c.MetaK, c.MetaV)
			}
			return baseC.Commit()
		})
	}
	res.Observed = "accepted"
	if werr != nil {
		res.Observed, res.Err = "rejected", werr.Error()
	}
	if stack != "" {
		fail("panic-in-commit:"+mon.PanicSite(stack), fmt.Sprintf("writing a version of class %s panicked: %v", c.Class, werr))
	}

	// what is in git now
	facts := intended
	written := false
	wantLen := len(intended)
	if id != "" {
		vs, ok, gerr := gitraw.ReadIdentity(target, "refs/identities/"+id.String())
		if gerr != nil {
			res.HarnessError = "gitraw: " + gerr.Error()
			return res
		}
		if ok && len(vs) == wantLen {
			written = true
			facts = nil
			for _, v := range vs {
				f, derr := refmodel.DecodeVersion(v.Raw)
				if derr != nil {
					res.HarnessError = "stored version undecodable: " + derr.Error()
					return res
				}
				facts = append(facts, f)
			}
			last := facts[len(facts)-1]
			if last.Name != c.NameV || last.Login != c.Login || last.Email != c.Email || last.Avatar != c.Avatar {
				fail("stored-fields-differ:"+c.Class, fmt.Sprintf("stored version has name=%q login=%q email=%q avatar=%q, written were %q %q %q %q", last.Name, last.Login, last.Email, last.Avatar, c.NameV, c.Login, c.Email, c.Avatar))
			}
			if vs[0].Id != id.String() {
				fail("id-not-first-version", "the identity id is not the id of its first stored version")
			}
		}
	}
	verdict, reason := refmodel.ValidateChain(facts)
	res.Model, res.Reason = verdict.String(), reason
	switch {
	case werr == nil && !written:
		fail("commit-ok-but-nothing-written:"+c.Class, "Commit returned no error but the expected chain is not in git")
	case werr != nil && written:
		fail("rejected-but-written:"+c.Class, "the write was reported as failed ("+werr.Error()+") but the version is in git")
	case werr == nil && verdict == refmodel.MustRefuse:
		fail("commit-accepted:"+reason, fmt.Sprintf("a version with %s (class %s, %s, %s API) was accepted by Commit", reason, c.Class, c.Position, c.API))
	}
	return res
}

// ---- C09 part 3: crafted remote versions -------------------------------------------

// IdCraftCase describes a remote chain written object by object.
type IdCraftCase struct {
	Name   string `json:"name"`
	Defect string `json:"defect"`
	Base   string `json:"base"`  // extend (on top of a local identity made by git-bug) | new
	Extra  int    `json:"extra"` // number of crafted versions
	At     int    `json:"at"`    // which crafted version carries the defect
	Other  string `json:"other"` // none | before | after: a valid crafted identity next to it
	Seed   int64  `json:"seed"`
	Idx    int    `json:"idx"`
}

// IdCraftResult is the child's observation.
type IdCraftResult struct {
	Findings     []string `json:"findings"`
	Model        string   `json:"model"`
	Reason       string   `json:"reason"`
	Status       string   `json:"status"`
	MergeReason  string   `json:"merge_reason"`
	OtherStatus  string   `json:"other_status"`
	HarnessError string   `json:"harness_error"`
}

type craftedVersion struct {
	FormatVersion uint              `json:"version"`
	Times         map[string]uint64 `json:"times"`
	UnixTime      int64             `json:"unix_time"`
	Name          string            `json:"name,omitempty"`
	Email         string            `json:"email,omitempty"`
	Login         string            `json:"login,omitempty"`
	AvatarUrl     string            `json:"avatar_url,omitempty"`
	Keys          []string          `json:"pub_keys,omitempty"`
	Nonce         []byte            `json:"nonce"`
	Metadata      map[string]string `json:"metadata,omitempty"`
}

// craft defects: name -> (needs a predecessor version, mutation)
type craftDefect struct {
	name      string
	needsPrev bool
	apply     func(v *craftedVersion, prev map[string]uint64, pool []loadedKey)
}

func craftDefects() []craftDefect {
	return []craftDefect{
		{"valid-control", false, func(v *craftedVersion, _ map[string]uint64, _ []loadedKey) {}},
		{"valid-with-key", false, func(v *craftedVersion, _ map[string]uint64, pool []loadedKey) {
			if len(pool) > 0 {
				var s string
				_ = json.Unmarshal(pool[0].Pool.PubJSON, &s)
				v.Keys = []string{s}
			}
		}},
		{"valid-equal-clocks", true, func(v *craftedVersion, prev map[string]uint64, _ []loadedKey) {
			v.Times = map[string]uint64{}
			for k, t := range prev {
				v.Times[k] = t
			}
		}},
		{"valid-new-clock", false, func(v *craftedVersion, _ map[string]uint64, _ []loadedKey) { v.Times["boards-edit"] = 1 }},
		{"clock-decreasing", true, func(v *craftedVersion, prev map[string]uint64, _ []loadedKey) {
			v.Times["bugs-edit"] = prev["bugs-edit"] - 1
		}},
		{"clock-decreasing-create", true, func(v *craftedVersion, prev map[string]uint64, _ []loadedKey) {
			v.Times["bugs-create"] = prev["bugs-create"] - 2
		}},
		{"clock-back-to-zero", true, func(v *craftedVersion, _ map[string]uint64, _ []loadedKey) { v.Times["bugs-edit"] = 0 }},
		{"clock-dropped", true, func(v *craftedVersion, _ map[string]uint64, _ []loadedKey) { delete(v.Times, "bugs-edit") }},
		{"clock-dropped-all", true, func(v *craftedVersion, _ map[string]uint64, _ []loadedKey) { v.Times = map[string]uint64{} }},
		{"clock-times-null", true, func(v *craftedVersion, _ map[string]uint64, _ []loadedKey) { v.Times = nil }},
		{"clock-renamed", true, func(v *craftedVersion, _ map[string]uint64, _ []loadedKey) {
			v.Times["bugs-edit2"] = v.Times["bugs-edit"]
			delete(v.Times, "bugs-edit")
		}},
		{"no-name-no-login", false, func(v *craftedVersion, _ map[string]uint64, _ []loadedKey) { v.Name, v.Login = "", "" }},
		{"name-newline", false, func(v *craftedVersion, _ map[string]uint64, _ []loadedKey) { v.Name = "Mal\nlory" }},
		{"name-nul", false, func(v *craftedVersion, _ map[string]uint64, _ []loadedKey) { v.Name = "Mal\x00lory" }},
		{"name-esc", false, func(v *craftedVersion, _ map[string]uint64, _ []loadedKey) { v.Name = "\x1b[2JMallory" }},
		{"name-del", false, func(v *craftedVersion, _ map[string]uint64, _ []loadedKey) { v.Name = "Mallory\x7f" }},
		{"name-c1-nel", false, func(v *craftedVersion, _ map[string]uint64, _ []loadedKey) { v.Name = "Mal\u0085lory" }},
		{"login-c1-csi", false, func(v *craftedVersion, _ map[string]uint64, _ []loadedKey) { v.Login = "mal\u009b31mlory" }},
		{"email-c1", false, func(v *craftedVersion, _ map[string]uint64, _ []loadedKey) { v.Email = "m\u0090@example.com" }},
		{"login-newline", false, func(v *craftedVersion, _ map[string]uint64, _ []loadedKey) { v.Login = "mal\nlory" }},
		{"login-cr", false, func(v *craftedVersion, _ map[string]uint64, _ []loadedKey) { v.Login = "mallory\r" }},
		{"login-only-nul", false, func(v *craftedVersion, _ map[string]uint64, _ []loadedKey) { v.Name, v.Login = "", "mal\x00" }},
		{"email-newline", false, func(v *craftedVersion, _ map[string]uint64, _ []loadedKey) { v.Email = "m@example.com\nX: y" }},
		{"email-bel", false, func(v *craftedVersion, _ map[string]uint64, _ []loadedKey) { v.Email = "m\x07@example.com" }},
		{"avatar-newline", false, func(v *craftedVersion, _ map[string]uint64, _ []loadedKey) {
			v.AvatarUrl = "https://example.com/\nx.png"
		}},
		// open questions: any verdict, but no crash and consistent refs
		{"name-tab", false, func(v *craftedVersion, _ map[string]uint64, _ []loadedKey) { v.Name = "Mal\tlory" }},
		{"blank-name", false, func(v *craftedVersion, _ map[string]uint64, _ []loadedKey) { v.Name, v.Login = "  ", "" }},
		{"metadata-newline", false, func(v *craftedVersion, _ map[string]uint64, _ []loadedKey) {
			v.Metadata = map[string]string{"k": "a\nb"}
		}},
		{"avatar-not-a-url", false, func(v *craftedVersion, _ map[string]uint64, _ []loadedKey) { v.AvatarUrl = "not a url" }},
		{"garbage-key", false, func(v *craftedVersion, _ map[string]uint64, _ []loadedKey) {
			v.Keys = []string{"-----BEGIN NOTHING-----"}
		}},
		{"short-nonce", false, func(v *craftedVersion, _ map[string]uint64, _ []loadedKey) { v.Nonce = v.Nonce[:4] }},
		{"format-version-9", false, func(v *craftedVersion, _ map[string]uint64, _ []loadedKey) { v.FormatVersion = 9 }},
	}
}

func craftDefectByName(name string) *craftDefect {
	for _, d := range craftDefects() {
		if d.name == name {
			d := d
			return &d
		}
	}
	return nil
}

func c09CraftCases(r *mon.Run) []IdCraftCase {
	var out []IdCraftCase
	add := func(c IdCraftCase) {
		c.Seed, c.Idx = r.Seed, len(out)
		c.Name = fmt.Sprintf("craft-%d-%s-%s-%d.%d-%s", c.Idx, c.Defect, c.Base, c.At, c.Extra, c.Other)
		out = append(out, c)
	}
	others := []string{"none", "before", "after"}
	for i, d := range craftDefects() {
		k := i + int(r.Seed)
		// defect in the only crafted version on top of a local identity
		add(IdCraftCase{Defect: d.name, Base: "extend", Extra: 1, At: 0, Other: others[k%3]})
		// defect in the middle, a sound version after it
		add(IdCraftCase{Defect: d.name, Base: "extend", Extra: 2 + k%2, At: k % 2, Other: others[(k+1)%3]})
		// an identity unknown locally
		if d.needsPrev {
			add(IdCraftCase{Defect: d.name, Base: "new", Extra: 2 + k%2, At: 1 + k%2, Other: others[(k+2)%3]})
		} else {
			add(IdCraftCase{Defect: d.name, Base: "new", Extra: 1 + k%2, At: 0, Other: others[(k+2)%3]})
			if r.Thorough() {
				add(IdCraftCase{Defect: d.name, Base: "new", Extra: 3, At: 2, Other: others[k%3]})
			}
		}
	}
	for i, dn := range []string{"valid-control", "valid-with-key", "valid-new-clock", "name-newline", "clock-dropped", "name-tab"} {
		k := i + int(r.Seed)
		add(IdCraftCase{Defect: dn, Base: "replace", Extra: 1 + k%2, At: 0, Other: others[k%3]})
		add(IdCraftCase{Defect: dn, Base: "fork", Extra: 1 + (k+1)%2, At: 0, Other: others[(k+1)%3]})
	}
	n := r.Pick(0, 600)
	ds := craftDefects()
	for i := 0; i < n; i++ {
		rng := mon.Rng(r.Seed, "c09-craft", i)
		d := ds[rng.Intn(len(ds))]
		c := IdCraftCase{Defect: d.name, Base: []string{"extend", "new"}[rng.Intn(2)], Extra: 1 + rng.Intn(3), Other: others[rng.Intn(3)]}
		c.At = rng.Intn(c.Extra)
		if d.needsPrev && c.Base == "new" && c.At == 0 {
			c.Extra++
			c.At = 1
		}
		add(c)
	}
	return out
}

func storeVersion(repo repository.RepoData, v craftedVersion, parent repository.Hash) (commit repository.Hash, blob []byte, err error) {
	blob, err = json.Marshal(v)
	if err != nil {
		return "", nil, err
	}
	bh, err := repo.StoreData(blob)
	if err != nil {
		return "", nil, err
	}
	th, err := repo.StoreTree([]repository.TreeEntry{{ObjectType: repository.Blob, Hash: bh, Name: "version"}})
	if err != nil {
		return "", nil, err
	}
	if parent == "" {
		commit, err = repo.StoreCommit(th)
	} else {
		commit, err = repo.StoreCommit(th, parent)
	}
	return commit, blob, err
}

func nonce(rng *rand.Rand) []byte {
	b := make([]byte, 20)
	rng.Read(b)
	return b
}

func runIdCraft(c IdCraftCase) IdCraftResult {
	res := IdCraftResult{}
	fail := func(key, what string) { res.Findings = append(res.Findings, key+"|"+what) }
	d := craftDefectByName(c.Defect)
	if d == nil {
		res.HarnessError = "unknown defect " + c.Defect
		return res
	}
	rng := mon.Rng(c.Seed, "c09-craft-run", c.Idx)
	pool, _ := loadKeyPool()
	dir := world.ScratchDir("idcraft-")
	defer removeAll(dir)
	rep, err := world.InitRepo(dir+"/r", false)
	if err != nil {
		res.HarnessError = err.Error()
		return res
	}
	defer rep.Repo.Close()
	repo := rep.Repo
	_ = repo.Witness("bugs-create", 3)
	_ = repo.Witness("bugs-edit", 7)

	var parent repository.Hash
	var mainId string
	prev := map[string]uint64{}
	if c.Base != "new" {
		loc, err := identity.NewIdentity(repo, "Local Person", "local@example.com")
		if err == nil {
			err = loc.Commit(repo)
		}
		var firstCommit repository.Hash
		if err == nil {
			firstCommit, err = repo.ResolveRef("refs/identities/" + loc.Id().String())
		}
		if err == nil && (c.Base == "fork" || rng.Intn(2) == 0) {
			err = loc.Mutate(repo, func(m *identity.Mutator) { m.Login = "local" })
			if err == nil {
				err = loc.Commit(repo)
			}
		}
		if err != nil {
			res.HarnessError = "local identity: " + err.Error()
			return res
		}
		mainId = loc.Id().String()
		parent, err = repo.ResolveRef("refs/identities/" + mainId)
		if err != nil {
			res.HarnessError = err.Error()
			return res
		}
		prev = map[string]uint64{"bugs-create": 3, "bugs-edit": 7}
		switch c.Base {
		case "replace": // a chain that shares nothing with the local one, under the local identity's name
			parent = ""
			prev = map[string]uint64{}
		case "fork": // a chain that keeps the first local version only
			parent = firstCommit
		}
	}
	for k := 0; k < c.Extra; k++ {
		v := craftedVersion{
			FormatVersion: 2, UnixTime: 1_700_000_000 + int64(k), Name: fmt.Sprintf("Crafted Person v%d", k), Email: "crafted@example.com",
			Times: map[string]uint64{"bugs-create": 3 + uint64(k), "bugs-edit": 8 + uint64(k)}, Nonce: nonce(rng),
		}
		if k == c.At {
			d.apply(&v, prev, pool)
		}
		commit, blob, err := storeVersion(repo, v, parent)
		if err != nil {
			res.HarnessError = "store version: " + err.Error()
			return res
		}
		if mainId == "" {
			mainId = world.Sha256(blob)
		}
		parent = commit
		for n, t := range v.Times {
			prev[n] = t
		}
	}
	mainRemote := "refs/remotes/x/identities/" + mainId
	if err := repo.UpdateRef(mainRemote, parent); err != nil {
		res.HarnessError = err.Error()
		return res
	}
	otherId := ""
	if c.Other != "none" {
		for try := 0; try < 30000 && otherId == ""; try++ {
			v := craftedVersion{FormatVersion: 2, UnixTime: 1_700_000_100, Name: "Bystander", Email: "by@example.com",
				Times: map[string]uint64{"bugs-create": 1, "bugs-edit": 1}, Nonce: nonce(rng)}
			blob, _ := json.Marshal(v)
			oid := world.Sha256(blob)
			if (c.Other == "before") != (oid < mainId) {
				continue
			}
			commit, _, err := storeVersion(repo, v, "")
			if err == nil {
				err = repo.UpdateRef("refs/remotes/x/identities/"+oid, commit)
			}
			if err != nil {
				res.HarnessError = "bystander: " + err.Error()
				return res
			}
			otherId = oid
		}
		if otherId == "" {
			res.HarnessError = "could not place the bystander " + c.Other
			return res
		}
	}

	// the model, from the independently decoded remote chain
	vs, ok, gerr := gitraw.ReadIdentity(repo, mainRemote)
	if !ok || gerr != nil {
		res.HarnessError = fmt.Sprintf("gitraw on crafted chain: %v", gerr)
		return res
	}
	verdict, reason := refmodel.Plain, ""
	var facts []refmodel.VersionFacts
	for _, v := range vs {
		f, derr := refmodel.DecodeVersion(v.Raw)
		if derr != nil {
			verdict, reason = refmodel.Either, "undecodable by the model"
			break
		}
		facts = append(facts, f)
	}
	if reason == "" {
		verdict, reason = refmodel.ValidateChain(facts)
	}
	if verdict == refmodel.Plain && (c.Defect == "garbage-key" || c.Defect == "short-nonce" || c.Defect == "format-version-9" || c.Defect == "avatar-not-a-url" || c.Defect == "metadata-newline") {
		verdict, reason = refmodel.Either, "outside the statement: "+c.Defect
	}
	res.Model, res.Reason = verdict.String(), reason

	before, _ := snapAll(repo, "refs/identities/", true)
	rem, order := snapAll(repo, "refs/remotes/x/identities/", false)
	var results []entity.MergeResult
	for m := range identity.MergeAll(repo, "x") {
		results = append(results, m)
	}
	after, _ := snapAll(repo, "refs/identities/", false)

	byId := map[string][]entity.MergeResult{}
	for _, m := range results {
		byId[m.Id.String()] = append(byId[m.Id.String()], m)
	}
	status := func(id string) string {
		switch len(byId[id]) {
		case 0:
			return "none"
		case 1:
			return statusName(byId[id][0].Status)
		}
		return "several"
	}
	res.Status = status(mainId)
	if len(byId[mainId]) > 0 {
		res.MergeReason = byId[mainId][0].Reason
	}
	bs, rs, as := before[mainId], rem[mainId], after[mainId]
	chain := refmodel.MergeChains(bs.Exists, bs.Versions, rs.Versions)
	untouched := as.Exists == bs.Exists && as.Hash == bs.Hash && reflect.DeepEqual(as.Versions, bs.Versions)
	adopted := as.Exists && as.Hash == rs.Hash
	if chain.Status == refmodel.IdInvalid {
		// whatever the fields say: this is not an extension of the local history
		verdict, reason = refmodel.MustRefuse, "history rewritten ("+chain.Pos+")"
		res.Model, res.Reason = verdict.String(), reason
	}
	tag := fmt.Sprintf("crafted %s chain (%s; defect %s at crafted version %d of %d)", c.Base, reason, c.Defect, c.At, c.Extra)
	switch verdict {
	case refmodel.MustRefuse:
		if res.Status != "invalid" {
			fail("merge-accepted:"+reason, fmt.Sprintf("%s was reported %q instead of invalid", tag, res.Status))
		}
		if !untouched {
			fail("refused-but-local-changed:"+reason, fmt.Sprintf("%s: the local ref went from %s to %s", tag, short(bs.Hash), short(as.Hash)))
		}
	case refmodel.Plain:
		if res.Status != chain.Status {
			fail("crafted-valid-refused:"+res.Status+":"+errKey(res.MergeReason), fmt.Sprintf("a sound crafted chain (%s) was reported %q instead of %q: %s", c.Defect, res.Status, chain.Status, res.MergeReason))
		} else if !adopted || !reflect.DeepEqual(as.Versions, chain.After) {
			fail("crafted-valid-not-adopted", fmt.Sprintf("a sound crafted chain (%s) was reported %s but the local ref is %s, remote %s", c.Defect, res.Status, short(as.Hash), short(rs.Hash)))
		}
	default:
		switch res.Status {
		case "invalid":
			if !untouched {
				fail("refused-but-local-changed:open-question", tag+": reported invalid but the local ref moved")
			}
		case chain.Status:
			if !adopted {
				fail("accepted-but-not-adopted:open-question", tag+": reported "+res.Status+" but the local ref is not the remote head")
			}
		default:
			fail("inconsistent-report:open-question", fmt.Sprintf("%s: reported %q, which is neither invalid nor %q", tag, res.Status, chain.Status))
		}
	}
	if otherId != "" {
		res.OtherStatus = status(otherId)
		oa := after[otherId]
		merged := oa.Exists && oa.Hash == rem[otherId].Hash
		mainFirst := len(order) > 0 && order[0] == mainId
		switch {
		case merged && res.OtherStatus == "new":
		case !merged && res.OtherStatus == "none" && mainFirst && res.Status == "invalid":
			fail("others-skipped-after-refused-identity", fmt.Sprintf("a sound new identity listed after the refused %s got no merge result and was not created locally", tag))
		default:
			fail("crafted-bystander-not-merged", fmt.Sprintf("a sound new identity next to the %s: status %q, local ref present=%v", tag, res.OtherStatus, oa.Exists))
		}
	}
	for id := range byId {
		if _, ok := rem[id]; !ok {
			fail("merge-result-for-unknown-ref", "a merge result names "+short(id)+", which is not a remote ref")
		}
	}
	return res
}
