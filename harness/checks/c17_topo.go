package checks

// C17 over every registry shape the server supports: the web UI's handler stack on top of a MultiRepoCache
// holding the single default repository, one named repository, two or three named repositories, or the
// default one next to a named one. The cases are the ones of the single default repository (mutations with
// repoRef, uploads and downloads through the routes of commands/webui.go, read queries), addressed to each
// repository of the registry in turn, plus the ways of naming no repository (unknown name, empty name, no
// name, the default's name where there is no default). The oracle is the before/after snapshot oracle of the
// addressed repository; in addition every other repository of the registry is snapshotted before and after:
// a refused request changes nothing anywhere, an accepted one changes the addressed repository only.

import (
	"bytes"
	"fmt"
	"path/filepath"
	"sort"
	"strings"

	"github.com/MichaelMure/git-bug/entities/identity"
	"github.com/MichaelMure/git-bug/repository"

	"verif/harness/mon"
	"verif/harness/world"
)

type c17Topology struct {
	Name  string
	Repos []string // names under which the repositories are registered, in registration order
	// Class is appended to the keys of findings ("" for the registry every other C17 case runs on): it names
	// the registry shape, not the instance.
	Class string
}

var c17Topologies = []c17Topology{
	{"default", []string{gqlDefaultRepoName}, ""},
	{"one-named", []string{"alpha"}, "@one-named-repository"},
	{"two-named", []string{"alpha", "beta"}, "@several-repositories"},
	{"three-named", []string{"alpha", "beta", "gamma"}, "@several-repositories"},
	{"default-and-named", []string{gqlDefaultRepoName, "alpha"}, "@several-repositories"},
}

func c17TopologyByName(name string) *c17Topology {
	for i := range c17Topologies {
		if c17Topologies[i].Name == name {
			return &c17Topologies[i]
		}
	}
	return nil
}

// c17Topo is one served registry: a world with one replica per repository, one handler stack, and one c17Env
// per repository (a view: same handler stack, its own repository, cache, snapshot and memo tables).
type c17Topo struct {
	def   *c17Topology
	w     *world.World
	h     *GQLHarness
	views []*c17Env
}

var c17ChildTopo *c17Topo

const c17TopoBugs = 5 // bugs per repository of a registry

func c17BuildTopo(seed int64, def *c17Topology) (*c17Topo, error) {
	n := len(def.Repos)
	w, err := world.New(n)
	if err != nil {
		return nil, err
	}
	fail := func(err error) (*c17Topo, error) { w.Close(); return nil, err }
	// the same two identities in every repository: created in the first one, fetched by the others
	r0 := w.Replicas[0]
	user, err := r0.NewAuthor("c17-user")
	if err != nil {
		return fail(err)
	}
	other, err := r0.NewAuthor("c17-other")
	if err != nil {
		return fail(err)
	}
	if n > 1 {
		if _, err := identity.Push(r0.Repo, "origin"); err != nil {
			return fail(fmt.Errorf("pushing the identities: %w", err))
		}
	}
	for _, rep := range w.Replicas[1:] {
		if _, err := identity.Fetch(rep.Repo, "origin"); err != nil {
			return fail(fmt.Errorf("fetching the identities: %w", err))
		}
		for res := range identity.MergeAll(rep.Repo, "origin") {
			if res.Err != nil {
				return fail(fmt.Errorf("merging the identities: %w", res.Err))
			}
		}
		for _, id := range []*identity.Identity{user, other} {
			local, err := identity.ReadLocal(rep.Repo, id.Id())
			if err != nil {
				return fail(fmt.Errorf("identity %s in %s: %w", id.Id(), rep.Name, err))
			}
			rep.Authors = append(rep.Authors, local)
		}
	}
	labels := []string{"bug", "feature", "ui", "core", "docs"}
	blobs := make([][]string, n)
	ambig := make([]string, n)
	for ri, rep := range w.Replicas {
		rng := mon.Rng(seed, "c17-registry-"+def.Name, ri)
		var ids []string
		for k := 0; k < c17TopoBugs; k++ {
			b, err := w.NewBug(rep, k, fmt.Sprintf("%s bug %d", def.Repos[ri], k), fmt.Sprintf("%s message %d", def.Repos[ri], k))
			if err != nil {
				return fail(err)
			}
			ids = append(ids, b.Id().String())
			specs := []world.OpSpec{{Kind: "labels", Add: []string{labels[(k+ri)%len(labels)], labels[(k+ri+2)%len(labels)]}, Author: k + 1}}
			for c := 0; c < 1+rng.Intn(3); c++ {
				specs = append(specs, world.OpSpec{Kind: "comment", Text: fmt.Sprintf("%s comment %d/%d", def.Repos[ri], k, c), Author: k + c})
			}
			if k%3 == 2 {
				specs = append(specs, world.OpSpec{Kind: "close", Author: k})
			}
			if err := w.Edit(rep, b.Id(), specs); err != nil {
				return fail(err)
			}
		}
		sort.Strings(ids)
		for i := 0; i+1 < len(ids); i++ {
			k := 0
			for k < len(ids[i]) && ids[i][k] == ids[i+1][k] {
				k++
			}
			if k > len(ambig[ri]) {
				ambig[ri] = ids[i][:k]
			}
		}
		for i := 0; i < 3; i++ {
			hsh, err := rep.Repo.StoreData([]byte(fmt.Sprintf("c17 attachment %d of %s/%s (seed %d)", i, def.Name, def.Repos[ri], seed)))
			if err != nil {
				return fail(err)
			}
			blobs[ri] = append(blobs[ri], hsh.String())
		}
	}
	h, err := NewGQLHarnessMulti(w.Replicas, def.Repos, user.Id())
	if err != nil {
		return fail(err)
	}
	t := &c17Topo{def: def, w: w, h: h}
	failOpen := func(err error) (*c17Topo, error) { t.Close(); return nil, err }
	if len(h.Repos) != n {
		return failOpen(fmt.Errorf("%d repositories registered, %d wanted", len(h.Repos), n))
	}
	schema, err := h.Introspect(false)
	if err != nil {
		return failOpen(err)
	}
	for ri, s := range h.Repos {
		// as in c17BuildEnv: the configured identity of each repository is NOT the one attached to requests
		ic, err := s.RC.Identities().Resolve(other.Id())
		if err != nil {
			return failOpen(err)
		}
		if err := s.RC.SetUserIdentity(ic); err != nil {
			return failOpen(err)
		}
		hv := *h // same handler stacks and registry; RC / Rep designate this repository
		hv.RC, hv.Rep = s.RC, s.Rep
		v := &c17Env{w: w, rep: s.Rep, h: &hv, schema: schema, user: user, other: other, blobs: blobs[ri], ambig: ambig[ri],
			gitDir: filepath.Join(s.Rep.Dir, ".git"), opsMemo: map[string][]string{}, infoMemo: map[string]*c17BugInfo{},
			opened: "built", repoName: s.Name, served: append([]string{}, def.Repos...), topo: t}
		t.views = append(t.views, v)
	}
	for _, v := range t.views {
		if v.snap, err = v.snapshot(); err != nil {
			return failOpen(err)
		}
	}
	return t, nil
}

func (t *c17Topo) Close() {
	if t.h != nil {
		t.h.Close()
	}
	t.w.Close()
}

// c17TopoFor gives the child's registry for the case, building it (and closing the one of another shape) when needed.
func c17TopoFor(c c17Case) (*c17Topo, error) {
	if c17ChildTopo != nil && c17ChildTopo.def.Name == c.Topo {
		return c17ChildTopo, nil
	}
	def := c17TopologyByName(c.Topo)
	if def == nil {
		return nil, fmt.Errorf("unknown registry shape %q", c.Topo)
	}
	if c.Repo < 0 || c.Repo >= len(def.Repos) {
		return nil, fmt.Errorf("registry %s has no repository %d", c.Topo, c.Repo)
	}
	if c17ChildTopo != nil {
		c17ChildTopo.Close()
		c17ChildTopo = nil
	}
	t, err := c17BuildTopo(c.Seed, def)
	if err != nil {
		return nil, err
	}
	c17ChildTopo = t
	return t, nil
}

// run executes one case against the addressed repository of the registry and then looks at all the others.
func (t *c17Topo) run(c c17Case, v *c17Env, res *c17Result) {
	cc := c
	cc.Topo = ""
	if c17NamesDefault(c) && v.repoName != gqlDefaultRepoName && v.serves(gqlDefaultRepoName) {
		// (not generated: the request would designate another repository of the registry than the one under observation)
		res.Inconclusive = "the case names the default repository, which is served next to the addressed one"
		return
	}
	switch c.Kind {
	case "mutation":
		v.runMutation(cc, res)
	case "upload":
		v.runUpload(cc, res)
	case "query":
		v.runQuery(cc, res)
	default:
		res.Inconclusive = "case kind " + c.Kind + " is not run against a registry"
		return
	}
	if t.def.Class != "" {
		for i := range res.Findings {
			res.Findings[i].Key += t.def.Class
		}
	}
	what := c.Mutation
	if c.Kind != "mutation" {
		what = c.Kind
	}
	for _, o := range t.views {
		if o == v {
			continue
		}
		o.g = v.g
		o.g.Stage("snapshot of repository %s (not addressed) after %s", o.repoName, c17CaseSig(c))
		after, err := o.snapshot()
		if err != nil {
			if res.Inconclusive == "" {
				res.Inconclusive = "snapshot of repository " + o.repoName + " failed: " + err.Error()
			}
			continue
		}
		diff := c17Diff(o.snap, after)
		o.snap = after
		res.count("other_repositories_compared_before_after", 1)
		if len(diff) == 0 {
			continue
		}
		var parts []string
		for k, d := range diff {
			parts = append(parts, k+": "+d)
		}
		sort.Strings(parts)
		key := "nouser-changed-other-repository:"
		if c.Auth {
			key = "user-changed-other-repository:"
		}
		res.find(key+what+t.def.Class, fmt.Sprintf("registry %v: the request was addressed to %q (%s), repository %q changed: %s — %s -> %s",
			t.def.Repos, v.repoName, res.Outcome, o.repoName, strings.Join(parts, " | "), truncateStr(res.Request, 600), truncateStr(res.Response, 300)))
	}
	res.seen("registries_served", fmt.Sprintf("%s %v", t.def.Name, t.def.Repos))
	if res.Inconclusive == "" {
		res.count(fmt.Sprintf("registry/%s/%s/%s/%s", t.def.Name, c.Kind, who(c.Auth), res.Outcome), 1)
	}
}

// c17NamesDefault says whether the case uses the internal name of the default repository.
func c17NamesDefault(c c17Case) bool {
	if (c.Kind == "upload" || c.Kind == "query") && strings.HasSuffix(c.Variant, "default-name") {
		return true
	}
	for _, cl := range c.Fields {
		if cl == "R_DEFAULT" {
			return true
		}
	}
	return false
}

// c17RepoClasses are the ways a mutation names (or does not name) its repository.
var c17RepoClasses = []string{"R_NAME", "OMIT", "NULL", "R_UNKNOWN", "R_EMPTY", "R_DEFAULT"}

// c17UploadVariants: the variants of the single default repository plus the ways of naming no repository.
var c17UploadVariants = []string{"png", "text", "unknown-repo", "wrong-field", "empty", "empty-name", "default-name", "no-name"}

// c17TopoCases is the fixed list of registry cases for (seed, tier), grouped by registry shape.
func c17TopoCases(r *mon.Run, s *GQLSchema) []c17Case {
	var cases []c17Case
	idx := 0
	add := func(c c17Case) {
		if def := c17TopologyByName(c.Topo); c17NamesDefault(c) && def.Repos[c.Repo] != gqlDefaultRepoName {
			for _, n := range def.Repos {
				if n == gqlDefaultRepoName {
					return // "__default" designates another repository of this registry: covered by addressing that one
				}
			}
		}
		idx++
		c.Seed = r.Seed
		c.Rnd = mon.Rng(r.Seed, "c17-registry-case", idx).Int63()
		cases = append(cases, c)
	}
	both := []bool{false, true}
	rounds := r.Pick(1, 4)
	for di, def := range c17Topologies {
		first := len(cases)
		for ri := range def.Repos {
			for round := 0; round < rounds; round++ {
				for mi, f := range s.Mutations() {
					leaves := c17Leaves(s, f)
					repoPath := ""
					for _, l := range leaves {
						if l.Family == "repo" && repoPath == "" {
							repoPath = l.Path
						}
					}
					classes := c17RepoClasses
					if repoPath == "" {
						classes = []string{""}
					}
					for ci, rc := range classes {
						for _, auth := range both {
							fl := map[string]string{}
							rng := mon.Rng(r.Seed, "c17-registry-"+def.Name+"-"+f.Name, ((mi*10+ri)*10+round)*100+ci*2+map[bool]int{true: 1}[auth])
							for _, l := range leaves {
								fl[l.Path] = l.Base
								if round > 0 && l.Family != "object" {
									// further rounds: the other arguments vary within the classes that keep the request valid
									fl[l.Path] = l.Valid[rng.Intn(len(l.Valid))]
								}
							}
							if repoPath != "" {
								fl[repoPath] = rc
							}
							add(c17Case{Kind: "mutation", Mutation: f.Name, Auth: auth, Fields: fl, Gen: "registry", Topo: def.Name, Repo: ri})
						}
					}
				}
				for _, auth := range both {
					for _, v := range c17UploadVariants {
						add(c17Case{Kind: "upload", Auth: auth, Variant: v, Gen: "registry", Topo: def.Name, Repo: ri})
					}
					for _, v := range []string{"overview", "bug-detail", "gitfile"} {
						add(c17Case{Kind: "query", Auth: auth, Variant: v, Gen: "registry", Topo: def.Name, Repo: ri})
					}
					for _, v := range c17NoRepoReads {
						add(c17Case{Kind: "query", Auth: auth, Variant: v, Gen: "registry", Topo: def.Name, Repo: ri})
					}
				}
			}
		}
		// the repositories of a registry are addressed in turn, anonymous and authenticated requests interleaved
		group := cases[first:]
		mon.Rng(r.Seed, "c17-registry-shuffle", di).Shuffle(len(group), func(i, j int) { group[i], group[j] = group[j], group[i] })
	}
	return cases
}

// c17NoRepoReads are read requests that name no repository, or name it in a roundabout way.
var c17NoRepoReads = []string{
	"norepo-gitfile-unknown", "norepo-gitfile-empty-name", "norepo-gitfile-no-name", "norepo-gitfile-default-name",
	"norepo-query-unknown", "norepo-query-empty", "norepo-query-omitted", "norepo-query-default-name",
}

// queryNoRepo sends a download / a query whose repository is an unknown name, the empty name, no name, or the
// default's internal name. The statement only asks two things of a read: it changes nothing (here and, through
// c17Topo.run, in every other repository of the registry) and it keeps working where it designates a repository.
// What the server answers when no repository is designated is recorded, not judged.
func (e *c17Env) queryNoRepo(c c17Case, blob string, res *c17Result) {
	before := e.snap
	res.Class, res.Nontrivial = "query", true
	name, direct, omitted := "no-such-repo", false, false
	switch {
	case strings.HasSuffix(c.Variant, "-empty-name"), strings.HasSuffix(c.Variant, "-empty"):
		name = ""
	case strings.HasSuffix(c.Variant, "-no-name"):
		name, direct = "", true
	case strings.HasSuffix(c.Variant, "-omitted"):
		omitted = true
	case strings.HasSuffix(c.Variant, "-default-name"):
		name = gqlDefaultRepoName
	}
	// the request designates this repository: by its name, or (no name at all) because it is the only one served
	designated := name == e.repoName && !direct && !omitted
	if direct || omitted {
		designated = e.nServed() == 1
	}
	answered, failure, panicked := "", "", ""
	if strings.HasPrefix(c.Variant, "norepo-gitfile-") {
		var st int
		var got []byte
		if direct {
			res.Request = fmt.Sprintf("GET to the download handler with route variables repo=%q hash=%s", name, blob)
			e.g.Inflight(res.Request)
			st, got, panicked = e.h.GitFileVars(c.Auth, name, blob)
		} else {
			res.Request = "GET /gitfile/" + name + "/" + blob
			e.g.Inflight(res.Request)
			st, got, panicked = e.h.GitFile(c.Auth, name, blob)
		}
		e.g.Inflight("")
		answered = fmt.Sprint(st)
		res.Response = fmt.Sprintf("%d (%d bytes)", st, len(got))
		if want, err := e.rep.Repo.ReadData(repository.Hash(blob)); designated && (st != 200 || err != nil || !bytes.Equal(got, want)) {
			failure = fmt.Sprintf("status %d, %d bytes (stored: %d bytes, err=%v)", st, len(got), len(want), err)
		}
	} else {
		sel := fmt.Sprintf("repository(ref: %q)", name)
		if omitted {
			sel = "repository"
		}
		doc := "query { " + sel + " { name allBugs { totalCount nodes { id } } } }"
		res.Request = doc
		resp := e.post(c.Auth, doc)
		panicked = resp.Panic
		res.Response = truncateStr(resp.Raw, 300)
		answered = "repository=null"
		if jget(resp.Data, "repository") != nil {
			answered = "repository answered"
		}
		if resp.HasErrors() {
			answered += "+errors"
		}
		if designated {
			if resp.HasErrors() {
				failure = resp.ErrorText()
			} else if got := jstrs(jlist(resp.Data, "repository", "allBugs", "nodes"), "id"); !stringSetEq(got, before.CacheBugIds) {
				failure = fmt.Sprintf("allBugs lists %d bugs, the cache of %s %d", len(got), e.repoName, len(before.CacheBugIds))
			}
		}
	}
	if e.topo != nil {
		res.Request += fmt.Sprintf(" [registry %v]", e.served)
	}
	e.g.Stage("snapshot after the %s read", c.Variant)
	after, err := e.snapshot()
	if err != nil {
		res.Inconclusive = err.Error()
		return
	}
	e.snap = after
	e.noteServed(c17Case{Kind: "query", Auth: c.Auth, Variant: c.Variant}, false)
	res.seen("reads_naming_no_repository(recorded, not judged)", fmt.Sprintf("%d served/%s/designates one=%v: %s", e.nServed(), strings.TrimPrefix(c.Variant, "norepo-"), designated, answered))
	if panicked != "" {
		res.find("handler-panic:"+c.Variant, "a panic escaped the handler stack: "+panicked+" — "+res.Request)
	}
	if failure != "" {
		res.find("query-failed:"+who(c.Auth)+":"+c.Variant, "a read query must keep working: "+failure+" — "+res.Request+" -> "+res.Response)
	}
	if diff := c17Diff(before, after); len(diff) > 0 {
		res.find("query-changed:"+c.Variant, fmt.Sprintf("a read changed the repository: %v — %s", diff, res.Request))
	}
	res.Outcome = "read"
}
