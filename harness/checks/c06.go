package checks

import (
	"encoding/json"
	"fmt"
	"os"
	"os/exec"
	"path/filepath"
	"reflect"
	"sort"
	"strconv"
	"strings"
	"time"

	"github.com/MichaelMure/git-bug/cache"
	"github.com/MichaelMure/git-bug/entities/bug"
	"github.com/MichaelMure/git-bug/entities/identity"
	"github.com/MichaelMure/git-bug/entity"
	"github.com/MichaelMure/git-bug/repository"

	"verif/harness/gitraw"
	"verif/harness/inject"
	"verif/harness/mon"
	"verif/harness/world"
)

// ---- the action executed (and interrupted) in a child -------------------------------

// CrashJob is what `vh child crashrun` executes on a repository directory.
type CrashJob struct {
	Dir      string            `json:"dir"`
	Scenario string            `json:"scenario"`
	KillAt   int               `json:"kill_at"` // -1 = run to completion and print the call log
	Ids      map[string]string `json:"ids"`
}

var crashLoaders = []repository.ClockLoader{bug.ClockLoader}

func crashRun(args []string) int {
	var job CrashJob
	if len(args) < 1 || json.Unmarshal([]byte(args[0]), &job) != nil {
		fmt.Fprintln(os.Stderr, "crashrun: bad job")
		return 3
	}
	rep, err := world.OpenRepo(job.Dir, nil, crashLoaders...)
	if err != nil {
		fmt.Println("@@OPENERR", err)
		return 4
	}
	dec := inject.Wrap(rep.Repo)
	dec.KillAt = job.KillAt
	err = crashAction(dec, job)
	if err != nil {
		fmt.Println("@@ACTIONERR", err)
		return 5
	}
	logJSON, _ := json.Marshal(dec.Log)
	fmt.Printf("@@K %d %s\n", dec.Calls(), logJSON)
	return 0
}

func mustIdentity(repo repository.ClockedRepo, id string) (*identity.Identity, error) {
	return identity.ReadLocal(repo, entity.Id(id))
}

// crashAction performs the write path of one scenario on the decorated repository.
func crashAction(repo repository.ClockedRepo, job CrashJob) error {
	const unix = 1_700_000_500
	a0, err := mustIdentity(repo, job.Ids["a0"])
	if err != nil {
		return fmt.Errorf("author a0: %w", err)
	}
	author := func(name string) *identity.Identity {
		i, err := mustIdentity(repo, job.Ids[name])
		if err != nil {
			panic(err)
		}
		return i
	}
	switch job.Scenario {
	case "create1":
		b, _, err := bug.Create(a0, unix, "crash create1", "message create1", nil, nil)
		if err != nil {
			return err
		}
		return b.Commit(repo)
	case "create3":
		b, _, err := bug.Create(a0, unix, "crash create3", "message create3", nil, nil)
		if err != nil {
			return err
		}
		if _, _, err := bug.AddComment(b, author("a1"), unix+1, "create3 comment by a1", nil, nil); err != nil {
			return err
		}
		if _, err := bug.SetTitle(b, author("a2"), unix+2, "create3 retitled by a2", nil); err != nil {
			return err
		}
		if _, _, err := bug.AddComment(b, a0, unix+3, "create3 comment by a0", nil, nil); err != nil {
			return err
		}
		return b.Commit(repo)
	case "createfiles":
		h1, err := repo.StoreData([]byte("attached file one"))
		if err != nil {
			return err
		}
		b, _, err := bug.Create(a0, unix, "crash createfiles", "message with file", []repository.Hash{h1}, nil)
		if err != nil {
			return err
		}
		return b.Commit(repo)
	case "append":
		b, err := bug.Read(repo, entity.Id(job.Ids["bugA"]))
		if err != nil {
			return err
		}
		if _, _, err := bug.AddComment(b, a0, unix, "append comment", nil, nil); err != nil {
			return err
		}
		if _, err := bug.SetTitle(b, a0, unix+1, "append title", nil); err != nil {
			return err
		}
		return b.Commit(repo)
	case "append2authors":
		b, err := bug.Read(repo, entity.Id(job.Ids["bugA"]))
		if err != nil {
			return err
		}
		if _, _, err := bug.AddComment(b, a0, unix, "append2 by a0", nil, nil); err != nil {
			return err
		}
		if _, _, err := bug.AddComment(b, author("a1"), unix+1, "append2 by a1", nil, nil); err != nil {
			return err
		}
		return b.Commit(repo)
	case "newident":
		i, err := identity.NewIdentity(repo, "crash newident", "new@example.com")
		if err != nil {
			return err
		}
		return i.Commit(repo)
	case "mutident":
		if err := a0.Mutate(repo, func(m *identity.Mutator) { m.Name = "a0 renamed"; m.Email = "renamed@example.com" }); err != nil {
			return err
		}
		if !a0.NeedCommit() {
			return nil // the interrupted run had completed: repeating the same mutation changes nothing
		}
		return a0.Commit(repo)
	case "merge-new", "merge-ff", "merge-diverged", "merge-all":
		for res := range identity.MergeAll(repo, "origin") {
			if res.Err != nil {
				return res.Err
			}
		}
		for res := range bug.MergeAll(repo, world.Resolvers(repo), "origin", a0) {
			if res.Err != nil {
				return res.Err
			}
		}
		return nil
	case "pull":
		if _, err := identity.Fetch(repo, "origin"); err != nil {
			return err
		}
		for res := range identity.MergeAll(repo, "origin") {
			if res.Err != nil {
				return res.Err
			}
		}
		if _, err := bug.Fetch(repo, "origin"); err != nil {
			return err
		}
		for res := range bug.MergeAll(repo, world.Resolvers(repo), "origin", a0) {
			if res.Err != nil {
				return res.Err
			}
		}
		return nil
	case "cache-create":
		c, err := cache.NewRepoCacheNoEvents(repo)
		if err != nil {
			return err
		}
		if _, _, err := c.Bugs().NewRaw(a0, unix, "crash cache-create", "message cache-create", nil, nil); err != nil {
			return err
		}
		return c.Close()
	case "cache-edit":
		c, err := cache.NewRepoCacheNoEvents(repo)
		if err != nil {
			return err
		}
		b, err := c.Bugs().Resolve(entity.Id(job.Ids["bugA"]))
		if err != nil {
			return err
		}
		if _, _, err := b.AddCommentRaw(a0, unix, "cache-edit comment", nil, nil); err != nil {
			return err
		}
		if _, err := b.CloseRaw(a0, unix+1, nil); err != nil {
			return err
		}
		if err := b.Commit(); err != nil {
			return err
		}
		return c.Close()
	case "cache-pull":
		c, err := cache.NewRepoCacheNoEvents(repo)
		if err != nil {
			return err
		}
		if err := c.Pull("origin"); err != nil {
			return err
		}
		return c.Close()
	}
	return fmt.Errorf("unknown scenario %q", job.Scenario)
}

// ---- the state reader, run in a fresh process after the crash ---------------------------------

// CrashState is what a fresh process sees in the repository.
type CrashState struct {
	OpenErr   string              `json:"open_err,omitempty"`
	Bugs      map[string][]string `json:"bugs"` // id -> content signatures of the ordered operations
	BugErr    map[string]string   `json:"bug_err"`
	Idents    map[string][]string `json:"idents"` // id -> content signatures of the versions
	IdentErr  map[string]string   `json:"ident_err"`
	Listed    []string            `json:"listed"`
	Clocks    map[string]uint64   `json:"clocks"`
	MaxStored map[string]uint64   `json:"max_stored"`
	ReadAll   string              `json:"read_all,omitempty"`
	CacheErr  string              `json:"cache_err,omitempty"`
	CacheIds  []string            `json:"cache_ids,omitempty"`
	Fsck      string              `json:"fsck,omitempty"`
}

func opSig(o map[string]any) string {
	payload, _ := o["payload"].(map[string]any)
	cp := map[string]any{}
	for k, v := range payload {
		if k == "nonce" || k == "timestamp" {
			continue
		}
		cp[k] = v
	}
	return world.JSON(cp) + "@" + fmt.Sprint(o["author"])
}

func crashState(args []string) int {
	dir := args[0]
	withCache := len(args) > 1 && args[1] == "cache"
	st := readCrashState(dir, withCache)
	b, _ := json.Marshal(st)
	fmt.Printf("@@STATE %s\n", b)
	return 0
}

func readCrashState(dir string, withCache bool) CrashState {
	st := CrashState{Bugs: map[string][]string{}, BugErr: map[string]string{}, Idents: map[string][]string{}, IdentErr: map[string]string{}, Clocks: map[string]uint64{}, MaxStored: map[string]uint64{}}
	rep, err := world.OpenRepo(dir, nil, crashLoaders...)
	if err != nil {
		st.OpenErr = err.Error()
		return st
	}
	defer rep.Repo.Close()
	// the clocks are read first: reading entities witnesses their times and would heal a clock that is too low
	clocks, err := rep.Repo.AllClocks()
	if err != nil {
		st.OpenErr = "clocks: " + err.Error()
		return st
	}
	for name, c := range clocks {
		st.Clocks[name] = uint64(c.Time())
	}
	ids, err := bug.ListLocalIds(rep.Repo)
	if err != nil {
		st.OpenErr = "list: " + err.Error()
		return st
	}
	for _, id := range ids {
		st.Listed = append(st.Listed, id.String())
		b, err := world.ReadBug(rep.Repo, id)
		if err != nil {
			st.BugErr[id.String()] = err.Error()
			continue
		}
		var sigs []string
		for _, o := range world.RenderOps(b) {
			sigs = append(sigs, opSig(o))
		}
		st.Bugs[id.String()] = sigs
		if h, ok, err := gitraw.ReadRef(rep.Repo, "refs/bugs/"+id.String()); ok && err == nil {
			if m := h.MaxEdit(); m > st.MaxStored["bugs-edit"] {
				st.MaxStored["bugs-edit"] = m
			}
			if m := h.MaxCreate(); m > st.MaxStored["bugs-create"] {
				st.MaxStored["bugs-create"] = m
			}
		}
	}
	sort.Strings(st.Listed)
	for se := range bug.ReadAll(rep.Repo) {
		if se.Err != nil {
			st.ReadAll = se.Err.Error()
		}
	}
	iids, _ := identity.ListLocalIds(rep.Repo)
	for _, id := range iids {
		i, err := safeReadIdentity(rep.Repo, id)
		if err != nil {
			st.IdentErr[id.String()] = err.Error()
			continue
		}
		vs, _, _ := gitraw.ReadIdentity(rep.Repo, "refs/identities/"+id.String())
		var sigs []string
		for _, v := range vs {
			sigs = append(sigs, fmt.Sprintf("%s|%s|%s|%d", v.Name, v.Login, v.Email, v.Keys))
		}
		_ = i
		st.Idents[id.String()] = sigs
	}
	if withCache {
		c, err := cache.NewRepoCacheNoEvents(rep.Repo)
		if err != nil {
			st.CacheErr = err.Error()
		} else {
			for _, id := range c.Bugs().AllIds() {
				st.CacheIds = append(st.CacheIds, id.String())
				bc, err := c.Bugs().Resolve(id)
				if err != nil {
					st.CacheErr = "resolve " + id.Human() + ": " + err.Error()
				} else {
					_ = bc.Snapshot()
				}
			}
			sort.Strings(st.CacheIds)
			_ = c.Close()
		}
	}
	return st
}

// ---- scenario setup (parent) ----------------------------------------------------------------

type crashScenario struct {
	Name  string
	Cache bool
	// Setup builds the pristine world and returns the victim dir and named ids.
	Setup func(w *world.World) (map[string]string, error)
}

func crashScenarios() []crashScenario {
	base := func(w *world.World) (map[string]string, error) {
		ids := map[string]string{}
		r0 := w.Replicas[0]
		for _, n := range []string{"a0", "a1", "a2"} {
			a, err := r0.NewAuthor(n)
			if err != nil {
				return nil, err
			}
			ids[n] = a.Id().String()
		}
		bA, err := w.NewBug(r0, 0, "bug A", "existing bug A")
		if err != nil {
			return nil, err
		}
		if err := w.Edit(r0, bA.Id(), []world.OpSpec{{Kind: "comment", Text: "first comment"}, {Kind: "labels", Add: []string{"la"}}}); err != nil {
			return nil, err
		}
		ids["bugA"] = bA.Id().String()
		bB, err := w.NewBug(r0, 1, "bug B", "existing bug B")
		if err != nil {
			return nil, err
		}
		ids["bugB"] = bB.Id().String()
		if err := identity.SetUserIdentity(r0.Repo, r0.Authors[0]); err != nil {
			return nil, err
		}
		return ids, nil
	}
	// remote side: r1 gets everything, then edits / creates, pushes to origin
	withRemote := func(kind string) func(w *world.World) (map[string]string, error) {
		return func(w *world.World) (map[string]string, error) {
			ids, err := base(w)
			if err != nil {
				return nil, err
			}
			r0, r1 := w.Replicas[0], w.Replicas[1]
			if err := r0.Push("origin"); err != nil {
				return nil, err
			}
			if ml := r1.Pull("origin"); ml.Err != nil {
				return nil, ml.Err
			}
			if _, err := r1.NewAuthor("b0"); err != nil {
				return nil, err
			}
			bugA, bugB := entity.Id(ids["bugA"]), entity.Id(ids["bugB"])
			newOnRemote := kind == "merge-new" || kind == "all"
			ff := kind == "merge-ff" || kind == "all"
			div := kind == "merge-diverged" || kind == "all"
			if newOnRemote {
				if _, err := w.NewBug(r1, 0, "bug from r1", "created on the other replica"); err != nil {
					return nil, err
				}
			}
			if ff {
				if err := w.Edit(r1, bugB, []world.OpSpec{{Kind: "comment", Text: "r1 extends B"}, {Kind: "close"}}); err != nil {
					return nil, err
				}
			}
			if div {
				if err := w.Edit(r1, bugA, []world.OpSpec{{Kind: "comment", Text: "r1 edits A"}}); err != nil {
					return nil, err
				}
				if err := w.Edit(r1, bugA, []world.OpSpec{{Kind: "title", Text: "A by r1"}}); err != nil {
					return nil, err
				}
				if err := w.Edit(r0, bugA, []world.OpSpec{{Kind: "comment", Text: "r0 edits A"}}); err != nil {
					return nil, err
				}
			}
			if kind == "all" {
				au := r1.Authors[0]
				if err := au.Mutate(r1.Repo, func(m *identity.Mutator) { m.Name = "b0 renamed" }); err != nil {
					return nil, err
				}
				if err := au.Commit(r1.Repo); err != nil {
					return nil, err
				}
			}
			if err := r1.Push("origin"); err != nil {
				return nil, err
			}
			return ids, nil
		}
	}
	fetched := func(f func(w *world.World) (map[string]string, error)) func(w *world.World) (map[string]string, error) {
		return func(w *world.World) (map[string]string, error) {
			ids, err := f(w)
			if err != nil {
				return nil, err
			}
			return ids, w.Replicas[0].Fetch("origin")
		}
	}
	return []crashScenario{
		{Name: "create1", Setup: base},
		{Name: "create3", Setup: base},
		{Name: "createfiles", Setup: base},
		{Name: "append", Setup: base},
		{Name: "append2authors", Setup: base},
		{Name: "newident", Setup: base},
		{Name: "mutident", Setup: base},
		{Name: "merge-new", Setup: fetched(withRemote("merge-new"))},
		{Name: "merge-ff", Setup: fetched(withRemote("merge-ff"))},
		{Name: "merge-diverged", Setup: fetched(withRemote("merge-diverged"))},
		{Name: "merge-all", Setup: fetched(withRemote("all"))},
		{Name: "pull", Setup: withRemote("all")},
		{Name: "cache-create", Cache: true, Setup: base},
		{Name: "cache-edit", Cache: true, Setup: base},
		{Name: "cache-pull", Cache: true, Setup: withRemote("all")},
	}
}

func copyTree(src, dst string) error {
	return exec.Command("cp", "-a", src, dst).Run()
}

func childState(dir string, withCache bool) (CrashState, mon.ChildResult) {
	args := []string{"child", "crashstate", dir}
	if withCache {
		args = append(args, "cache")
	}
	cr := mon.RunChild("", args, nil, nil, 60*time.Second)
	var st CrashState
	for _, line := range strings.Split(cr.Out, "\n") {
		if strings.HasPrefix(line, "@@STATE ") {
			_ = json.Unmarshal([]byte(strings.TrimPrefix(line, "@@STATE ")), &st)
			return st, cr
		}
	}
	st.OpenErr = "state reader produced no state"
	return st, cr
}

type crashPoint struct {
	Scenario string `json:"scenario"`
	KillAt   int    `json:"kill_at"`
	Call     string `json:"call"`
	Tier     string `json:"tier"`
}

// judge compares the post-crash state with the pre (P) and post (Q) states.
func judgeCrash(P, Q, S CrashState, site string) (key, what string) {
	if S.OpenErr != "" {
		return "reopen-fails:" + errKey(S.OpenErr), "repository does not re-open after the crash: " + S.OpenErr
	}
	if S.ReadAll != "" {
		return "readall-fails:" + errKey(S.ReadAll), "bug.ReadAll fails after the crash: " + S.ReadAll
	}
	for id, e := range S.BugErr {
		return "bug-unreadable:" + errKey(e), fmt.Sprintf("bug %s listed but unreadable after the crash: %s", id[:7], e)
	}
	for id, e := range S.IdentErr {
		return "identity-unreadable:" + errKey(e), fmt.Sprintf("identity %s unreadable after the crash: %s", id[:7], e)
	}
	if S.CacheErr != "" {
		return "cache-open-fails:" + errKey(S.CacheErr), "cache does not open / resolve after the crash: " + S.CacheErr
	}
	newQ := [][]string{}
	for id, q := range Q.Bugs {
		if _, ok := P.Bugs[id]; !ok {
			newQ = append(newQ, q)
		}
	}
	for id := range P.Bugs {
		if _, ok := S.Bugs[id]; !ok {
			return "entity-vanished", fmt.Sprintf("bug %s existed before the interrupted step and is gone", id[:7])
		}
	}
	for id, s := range S.Bugs {
		if p, ok := P.Bugs[id]; ok {
			if !reflect.DeepEqual(s, p) && !reflect.DeepEqual(s, Q.Bugs[id]) {
				return "mixture", fmt.Sprintf("bug %s is neither in its old (%d ops) nor its new (%d ops) state: %d ops", id[:7], len(p), len(Q.Bugs[id]), len(s))
			}
			continue
		}
		okNew := false
		for _, q := range newQ {
			if reflect.DeepEqual(s, q) {
				okNew = true
			}
		}
		if !okNew {
			return "partial-new-entity", fmt.Sprintf("new bug %s has %d operations, no complete new state matches", id[:7], len(s))
		}
	}
	newQi := [][]string{}
	for id, q := range Q.Idents {
		if _, ok := P.Idents[id]; !ok {
			newQi = append(newQi, q)
		}
	}
	for id := range P.Idents {
		if _, ok := S.Idents[id]; !ok {
			return "entity-vanished", fmt.Sprintf("identity %s existed before the interrupted step and is gone", id[:7])
		}
	}
	for id, s := range S.Idents {
		if p, ok := P.Idents[id]; ok {
			if !reflect.DeepEqual(s, p) && !reflect.DeepEqual(s, Q.Idents[id]) {
				return "mixture", fmt.Sprintf("identity %s is neither old nor new", id[:7])
			}
			continue
		}
		okNew := false
		for _, q := range newQi {
			if reflect.DeepEqual(s, q) {
				okNew = true
			}
		}
		if !okNew {
			return "partial-new-entity", fmt.Sprintf("new identity %s matches no complete new state", id[:7])
		}
	}
	for name, stored := range S.MaxStored {
		if S.Clocks[name] < stored {
			return "clock-below-stored-time:" + name, fmt.Sprintf("clock %s = %d after re-open but a reachable commit stores %d", name, S.Clocks[name], stored)
		}
	}
	return "", ""
}

// judgeRepeat checks that repeating the action completes it.
func judgeRepeat(P, Q, R CrashState) (key, what string) {
	if k, w := judgeBasic(R); k != "" {
		return "after-repeat:" + k, w
	}
	has := func(m map[string][]string, want []string) bool {
		for _, s := range m {
			if len(s) >= len(want) && reflect.DeepEqual(s[:len(want)], want) {
				return true
			}
		}
		return false
	}
	for id, q := range Q.Bugs {
		if _, ok := P.Bugs[id]; ok {
			r := R.Bugs[id]
			if len(r) < len(q) || !reflect.DeepEqual(r[:len(q)], q) {
				return "repeat-does-not-complete", fmt.Sprintf("after repeating the action bug %s does not contain the post-state (%d ops, expected prefix of %d)", id[:7], len(r), len(q))
			}
		} else if !has(R.Bugs, q) {
			return "repeat-does-not-complete", "after repeating the action no bug carries the content the uninterrupted action creates"
		}
	}
	for id, q := range Q.Idents {
		if _, ok := P.Idents[id]; ok {
			r := R.Idents[id]
			if len(r) < len(q) || !reflect.DeepEqual(r[:len(q)], q) {
				return "repeat-does-not-complete", fmt.Sprintf("after repeating the action identity %s does not contain the post-state", id[:7])
			}
		} else if !has(R.Idents, q) {
			return "repeat-does-not-complete", "after repeating the action no identity carries the content the uninterrupted action creates"
		}
	}
	for name, stored := range R.MaxStored {
		if R.Clocks[name] < stored {
			return "clock-below-stored-time-after-repeat:" + name, fmt.Sprintf("clock %s = %d but a reachable commit stores %d", name, R.Clocks[name], stored)
		}
	}
	return "", ""
}

func judgeBasic(S CrashState) (string, string) {
	if S.OpenErr != "" {
		return "reopen-fails:" + errKey(S.OpenErr), "repository does not re-open: " + S.OpenErr
	}
	if S.ReadAll != "" {
		return "readall-fails:" + errKey(S.ReadAll), "bug.ReadAll fails: " + S.ReadAll
	}
	for id, e := range S.BugErr {
		return "bug-unreadable:" + errKey(e), fmt.Sprintf("bug %s unreadable: %s", id[:7], e)
	}
	for id, e := range S.IdentErr {
		return "identity-unreadable:" + errKey(e), fmt.Sprintf("identity %s unreadable: %s", id[:7], e)
	}
	if S.CacheErr != "" {
		return "cache-open-fails:" + errKey(S.CacheErr), "cache: " + S.CacheErr
	}
	return "", ""
}

func init() {
	registerChild("crashrun", crashRun)
	registerChild("crashstate", crashState)
	register("C06", runC06)
}

func runJob(job CrashJob) mon.ChildResult {
	b, _ := json.Marshal(job)
	return mon.RunChild("", []string{"child", "crashrun", string(b)}, nil, nil, 120*time.Second)
}

func runC06(tier, replay string) int {
	r := mon.NewRun("C06", "fault_enumeration", tier)
	scs := crashScenarios()
	if only := os.Getenv("VERIF_C06_ONLY"); only != "" { // debugging aid: restrict to some scenarios
		var keep []crashScenario
		for _, sc := range scs {
			if strings.Contains(","+only+",", ","+sc.Name+",") {
				keep = append(keep, sc)
			}
		}
		scs = keep
	}
	type prepared struct {
		sc     crashScenario
		dir    string // pristine world dir
		ids    map[string]string
		P, Q   CrashState
		K      int
		log    []string
		broken string
	}
	preps := parallel(len(scs), func(i int) *prepared {
		sc := scs[i]
		p := &prepared{sc: sc}
		w, err := world.New(2)
		if err != nil {
			p.broken = err.Error()
			return p
		}
		ids, err := sc.Setup(w)
		dir := w.Dir
		// close the repositories but keep the directory: it is the pristine copy
		for _, rp := range append([]*world.Replica{w.Origin}, w.Replicas...) {
			_ = rp.Repo.Close()
		}
		p.dir, p.ids = dir, ids
		if err != nil {
			p.broken = "setup: " + err.Error()
			return p
		}
		// dry run on a copy
		work := world.ScratchDir("c06-dry-")
		defer os.RemoveAll(work)
		if err := copyTree(dir, filepath.Join(work, "w")); err != nil {
			p.broken = "copy: " + err.Error()
			return p
		}
		victim := filepath.Join(work, "w", "r0")
		fixRemotes(filepath.Join(work, "w"), dir)
		var cr mon.ChildResult
		p.P, cr = childState(victim, sc.Cache)
		if p.P.OpenErr != "" {
			p.broken = "pre-state: " + p.P.OpenErr + " " + mon.CrashExcerpt(cr.Out)
			return p
		}
		cr = runJob(CrashJob{Dir: victim, Scenario: sc.Name, KillAt: -1, Ids: ids})
		for _, line := range strings.Split(cr.Out, "\n") {
			if strings.HasPrefix(line, "@@K ") {
				parts := strings.SplitN(strings.TrimPrefix(line, "@@K "), " ", 2)
				p.K, _ = strconv.Atoi(parts[0])
				_ = json.Unmarshal([]byte(parts[1]), &p.log)
			}
		}
		if p.K == 0 {
			p.broken = "dry run produced no mutating call: " + mon.CrashExcerpt(cr.Out)
			return p
		}
		p.Q, _ = childState(victim, sc.Cache)
		if k, wh := judgeBasic(p.Q); k != "" {
			p.broken = "post-state of the uninterrupted action is already bad: " + wh
		}
		return p
	})
	defer func() {
		for _, p := range preps {
			if p.dir != "" {
				os.RemoveAll(p.dir)
			}
		}
	}()

	type point struct {
		p *prepared
		k int
	}
	var points []point
	for _, p := range preps {
		if p.broken != "" {
			r.Inconclusive("scenario " + p.sc.Name + ": " + p.broken)
			continue
		}
		r.Count("mutating_calls/"+p.sc.Name, p.K)
		for k := 0; k < p.K; k++ {
			points = append(points, point{p, k})
		}
	}
	type verdict struct {
		key, what string
		incon     string
		completed bool
	}
	verdicts := parallel(len(points), func(i int) verdict {
		pt := points[i]
		work := world.ScratchDir("c06-")
		defer os.RemoveAll(work)
		if err := copyTree(pt.p.dir, filepath.Join(work, "w")); err != nil {
			return verdict{incon: "copy: " + err.Error()}
		}
		fixRemotes(filepath.Join(work, "w"), pt.p.dir)
		victim := filepath.Join(work, "w", "r0")
		cr := runJob(CrashJob{Dir: victim, Scenario: pt.p.sc.Name, KillAt: pt.k, Ids: pt.p.ids})
		if cr.Signal != "killed" && cr.ExitCode == 0 && strings.Contains(cr.Out, "@@K ") {
			// the number of clock-moving Witness calls depends on the iteration order of a map inside read():
			// this run issued fewer mutating calls than the dry run and completed before the kill point
			return verdict{completed: true}
		}
		if cr.Signal != "killed" {
			return verdict{incon: fmt.Sprintf("child was not killed at call %d (exit %d signal %q): %s", pt.k, cr.ExitCode, cr.Signal, mon.CrashExcerpt(cr.Out))}
		}
		S, scr := childState(victim, pt.p.sc.Cache)
		if scr.Died() {
			return verdict{key: "state-reader-crashed:" + mon.PanicSite(scr.Out), what: "a fresh process reading the repository after the crash died:\n" + mon.CrashExcerpt(scr.Out)}
		}
		if k, w := judgeCrash(pt.p.P, pt.p.Q, S, pt.p.log[pt.k]); k != "" {
			return verdict{key: k, what: w}
		}
		// repeat the interrupted action, uninterrupted
		rc := runJob(CrashJob{Dir: victim, Scenario: pt.p.sc.Name, KillAt: -1, Ids: pt.p.ids})
		if rc.ExitCode != 0 || rc.Died() {
			return verdict{key: "repeat-fails:" + errKey(lastLine(rc.Out)), what: "repeating the interrupted action fails: " + mon.CrashExcerpt(rc.Out)}
		}
		R, _ := childState(victim, pt.p.sc.Cache)
		if k, w := judgeRepeat(pt.p.P, pt.p.Q, R); k != "" {
			return verdict{key: k, what: w}
		}
		return verdict{}
	})
	for i, v := range verdicts {
		pt := points[i]
		call := pt.p.log[pt.k]
		cp := crashPoint{Scenario: pt.p.sc.Name, KillAt: pt.k, Call: call, Tier: "api-call"}
		if v.completed {
			r.Count("kill_point_beyond_the_calls_of_this_run", 1)
			continue
		}
		if v.incon != "" {
			r.Case("inconclusive", false)
			r.Inconclusive(fmt.Sprintf("%s@%d: %s", pt.p.sc.Name, pt.k, v.incon))
			continue
		}
		r.Case(fmt.Sprintf("%s/before-call-%d-%s", pt.p.sc.Name, pt.k, callClass(call)), true)
		r.Seen("crash_sites_api", pt.p.sc.Name+":"+callClass(call))
		if v.key != "" {
			r.Violation(fmt.Sprintf("%s:%s:before-%s", v.key, pt.p.sc.Name, callClass(call)), fmt.Sprintf("%s [scenario %s, process killed before mutating call #%d (%s)]", v.what, pt.p.sc.Name, pt.k, call), cp)
		}
		if i%37 == 0 {
			r.Sample(cp)
		}
	}

	// torn clock files
	if len(preps) > 3 {
		c06TornClocks(r, preps[3].dir)
	}

	// tier 2: syscall-granularity kills under strace
	// quick runs the syscall tier on the three smallest scenarios only (about 110 kill positions: inside clock,
	// object and ref writes, which the API-call tier cannot reach)
	quickStrace := map[string]bool{"create1": true, "newident": true, "mutident": true}
	for _, p := range preps {
		if p.broken != "" {
			continue
		}
		if r.Thorough() || os.Getenv("VERIF_C06_STRACE") == "1" || quickStrace[p.sc.Name] {
			c06Strace(r, p.sc, p.dir, p.ids, p.P, p.Q)
		}
	}
	r.Extra("exhaustive", true)
	r.Extra("exhaustive_scope", "per scenario, every prefix of the sequence of mutating storage calls (process SIGKILLed immediately before call k, k = 0..K-1); every proper prefix of every clock file; thorough: every mutating syscall position under strace")
	return r.Finish("fault enumeration: for each write-path scenario a dry run records the K mutating storage calls; for every k the scenario runs in a child process that SIGKILLs itself before call k; a fresh process re-opens the repository (with the bug clock loader), reads every entity and the clocks, and the monitor compares each entity with the pre and post states, then repeats the action; non-trivial = every kill point; distinct = (scenario, k, call kind)",
		60, []string{"the post state Q comes from an uninterrupted run of the same action on a copy", "content signatures ignore nonces and timestamps (ids of re-created operations differ between runs)", "clocks are compared with times stored under local refs only"})
}

func lastLine(s string) string {
	lines := strings.Split(strings.TrimSpace(s), "\n")
	return lines[len(lines)-1]
}

func callClass(call string) string {
	if i := strings.Index(call, ":"); i > 0 {
		return call[:i] + "(" + call[i+1:] + ")"
	}
	return call
}

// fixRemotes rewrites the remote URLs of the copied world so that they point inside the copy.
func fixRemotes(copyRoot, origRoot string) {
	for _, rn := range []string{"r0", "r1"} {
		cfg := filepath.Join(copyRoot, rn, ".git", "config")
		data, err := os.ReadFile(cfg)
		if err != nil {
			continue
		}
		_ = os.WriteFile(cfg, []byte(strings.ReplaceAll(string(data), origRoot, copyRoot)), 0o644)
	}
}

// c06TornClocks truncates every clock file to every proper prefix and re-opens.
func c06TornClocks(r *mon.Run, pristine string) {
	work := world.ScratchDir("c06-torn-")
	defer os.RemoveAll(work)
	clockDir := filepath.Join(pristine, "r0", ".git", "git-bug", "clocks")
	entries, err := os.ReadDir(clockDir)
	if err != nil || len(entries) == 0 {
		r.Inconclusive("no clock files to tear")
		return
	}
	n := 0
	for _, e := range entries {
		content, _ := os.ReadFile(filepath.Join(clockDir, e.Name()))
		// make the value multi-digit so that a non-empty proper prefix exists
		for _, full := range []string{string(content), "1507"} {
			for cut := 0; cut < len(full); cut++ {
				n++
				dst := filepath.Join(work, fmt.Sprintf("t%d", n))
				if err := copyTree(pristine, dst); err != nil {
					continue
				}
				fixRemotes(dst, pristine)
				victim := filepath.Join(dst, "r0")
				_ = os.WriteFile(filepath.Join(victim, ".git", "git-bug", "clocks", e.Name()), []byte(full), 0o644)
				// the stored entities are below `full`; now tear
				_ = os.WriteFile(filepath.Join(victim, ".git", "git-bug", "clocks", e.Name()), []byte(full[:cut]), 0o644)
				S, cr := childState(victim, false)
				cls := "empty"
				if cut > 0 {
					cls = "nonempty-prefix"
				}
				r.Case("torn-clock/"+e.Name()+"/"+cls, true)
				r.Count("torn_clock_files", 1)
				cp := map[string]any{"clock": e.Name(), "full": full, "torn_to": full[:cut]}
				if cr.Died() {
					r.Violation("torn-clock:reader-crashed:"+cls, "process died re-opening with a torn clock file:\n"+mon.CrashExcerpt(cr.Out), cp)
					continue
				}
				if k, w := judgeBasic(S); k != "" {
					r.Violation("torn-clock:"+cls+":"+k, fmt.Sprintf("clock file %s truncated from %q to %q: %s", e.Name(), full, full[:cut], w), cp)
					continue
				}
				if S.Clocks[e.Name()] < S.MaxStored[e.Name()] {
					r.Violation("torn-clock:"+cls+":clock-below-stored-time", fmt.Sprintf("clock file %s truncated from %q to %q: clock is %d after re-open, stored entities reach %d", e.Name(), full, full[:cut], S.Clocks[e.Name()], S.MaxStored[e.Name()]), cp)
				}
				os.RemoveAll(dst)
			}
		}
	}
}
