package checks

// C19, third part.
//
// entry: ONE repository reached through several directories. The holder and the openers are started
// in different entry points of the same repository: its main work tree, a directory below it, a
// linked worktree (made with stock `git worktree add` in the schedule's setup), a directory below
// that one, a second linked worktree. Whatever the directory a process is started in, it is the
// cache of the one repository that it opens, so the rules are the ones of every other schedule:
// while the proven holder lives nobody else is granted the cache and the refusal names the holder;
// after its end the next open succeeds. Each entry point is first opened alone, on the free cache
// (recorded, not judged): an entry point that cannot be opened at all takes the schedule out.
//
// stalepid: what a holder that died leaves behind is a lock file naming a process that does not
// exist. Such files are planted for the whole range of process ids Linux can hand out (1 to 7
// digits, up to 4194303 = PID_MAX_LIMIT-1), each followed by an open that has to succeed. Values
// at or above /proc/sys/kernel/pid_max cannot be alive; below it a value is taken that is seen
// dead and is the farthest from being handed out again (never again below 300; else the pid of a
// process reaped a moment ago or the closest value behind the allocation cursor). Other contents
// (0, negative, trailing newline, 10 bytes, values no process can have ...) are planted as well:
// what the open does with them is recorded, not judged (the statement is about locks of dead
// processes only).

import (
	"fmt"
	"math/rand"
	"os"
	"os/exec"
	"path/filepath"
	"strconv"
	"strings"

	"verif/harness/refmodel"
)

var c19EntryPoints = []string{"main", "main-subdir", "linked-worktree", "linked-worktree-subdir", "second-linked-worktree"}

// c19EntryDir: where the entry point is, dir being the directory of the schedule.
func c19EntryDir(dir, at string) string {
	switch at {
	case "main-subdir":
		return filepath.Join(dir, "repo", "sub", "deep")
	case "linked-worktree":
		return filepath.Join(dir, "wt1")
	case "linked-worktree-subdir":
		return filepath.Join(dir, "wt1", "sub", "deep")
	case "second-linked-worktree":
		return filepath.Join(dir, "wt2")
	}
	return filepath.Join(dir, "repo")
}

func c19EntryName(at string) string {
	switch at {
	case "main-subdir":
		return "directory below the main work tree"
	case "linked-worktree":
		return "linked worktree"
	case "linked-worktree-subdir":
		return "directory below the linked worktree"
	case "second-linked-worktree":
		return "second linked worktree"
	}
	return "main work tree"
}

// layout gives the repository of the schedule a first commit, a directory below the work tree and two
// linked worktrees (siblings of the main work tree), one with a directory below it. Stock git does it.
func (e *c19Exec) layout() string {
	git := func(args ...string) string {
		cmd := exec.Command("git", args...)
		cmd.Dir = e.repo
		cmd.Env = os.Environ()
		if out, err := cmd.CombinedOutput(); err != nil {
			return fmt.Sprintf("git %s: %v: %s", strings.Join(args, " "), err, excerptTail(string(out), 200))
		}
		return ""
	}
	for _, args := range [][]string{
		{"commit", "--allow-empty", "-q", "-m", "first commit"},
		{"worktree", "add", "-q", "-b", "wt1", filepath.Join(e.dir, "wt1")},
		{"worktree", "add", "-q", "-b", "wt2", filepath.Join(e.dir, "wt2")},
	} {
		if why := git(args...); why != "" {
			return why
		}
	}
	for _, at := range c19EntryPoints {
		if err := os.MkdirAll(c19EntryDir(e.dir, at), 0o755); err != nil {
			return err.Error()
		}
	}
	// what makes a linked worktree: a .git FILE naming a private git directory inside the main one
	for _, wt := range []string{"wt1", "wt2"} {
		data, err := os.ReadFile(filepath.Join(e.dir, wt, ".git"))
		if err != nil || !strings.HasPrefix(string(data), "gitdir:") {
			return fmt.Sprintf("%s/.git is not a gitdir link (%v, %q)", wt, err, data)
		}
		if _, err := os.Stat(filepath.Join(e.repo, ".git", "worktrees", wt, "commondir")); err != nil {
			return "the private git directory of " + wt + " has no commondir: " + err.Error()
		}
	}
	return ""
}

// c19EntrySchedule: occ chooses the holder's entry point; every other entry point gets an opener
// while the holder lives (in an order and with commands chosen by the seed).
func c19EntrySchedule(s *LockSchedule, rng *rand.Rand, occ int) []string {
	g := c19Gen{s, rng}
	hE := c19EntryPoints[occ%len(c19EntryPoints)]
	holder := pick(rng, "webui", "webui", "webui-ro")
	runAt := func(label, class, at string, record bool, tag string) {
		g.add(LockStep{Op: "observe", Tag: "before " + label}, LockStep{Op: "run", P: label, Cmd: class, At: at, Record: record, Tag: tag}, LockStep{Op: "observe", Tag: "after " + label})
	}
	g.add(LockStep{Op: "layout"})
	// the unchanged code first, each entry point alone on the free cache
	for k, at := range c19EntryPoints {
		runAt(fmt.Sprintf("E%d", k), "user", at, true, "probe")
	}
	g.add(LockStep{Op: "phase", Tag: "holder-in-" + hE},
		LockStep{Op: "start", P: "H", Cmd: holder, Wait: "ready", At: hE}, LockStep{Op: "observe", Tag: "holder ready"})
	shape := []string{holder + "@" + hE}
	var others []string
	for _, at := range c19EntryPoints {
		if at != hE {
			others = append(others, at)
		}
	}
	rng.Shuffle(len(others), func(a, b int) { others[a], others[b] = others[b], others[a] })
	if rng.Intn(2) == 0 {
		// and one from the holder's own entry point
		k := rng.Intn(len(others) + 1)
		others = append(others[:k], append([]string{hE}, others[k:]...)...)
	}
	for c, at := range others {
		label := fmt.Sprintf("C%d", c)
		class := pick(rng, "bug", "bug-new", "user", "pull", "push", "label", "bug", "webui-ro")
		g.add(LockStep{Op: "phase", Tag: "holder-in-" + hE + ",opener-in-" + at})
		if c19Command(class, 0).long {
			// a second long-lived opener: refused, it ends by itself; granted, it is closed by the harness
			g.add(LockStep{Op: "observe", Tag: "before " + label}, LockStep{Op: "start", P: label, Cmd: class, Wait: "resolved", At: at}, LockStep{Op: "observe", Tag: "after " + label},
				LockStep{Op: "signal", P: label, Sig: "SIGINT", IfLive: true}, LockStep{Op: "reap", P: label}, LockStep{Op: "observe", Tag: label + " gone"})
		} else {
			runAt(label, class, at, false, "")
		}
		shape = append(shape, "c:"+class+"@"+at)
	}
	sig := g.sig()
	g.add(LockStep{Op: "phase", Tag: "holder-in-" + hE + "-gone"},
		LockStep{Op: "signal", P: "H", Sig: sig}, LockStep{Op: "reap", P: "H"}, LockStep{Op: "observe", Tag: "holder gone"})
	shape = append(shape, sig)
	for a := 0; a < 2; a++ {
		at := c19EntryPoints[rng.Intn(len(c19EntryPoints))]
		class := pick(rng, "bug", "user", "bug-new", "bug")
		runAt(fmt.Sprintf("A%d", a), class, at, false, "")
		shape = append(shape, "a:"+class+"@"+at)
	}
	return shape
}

// ---- planted lock files ----------------------------------------------------------

// the highest process id Linux can hand out: PID_MAX_LIMIT (4*1024*1024) - 1
const c19PidLimit = 4*1024*1024 - 1

// c19PlantJudged: locks of dead processes, "dead-pid:<digits>[:lowest|highest]" (the value is chosen by
// the generator) and "just-reaped" (the pid of a process the harness has just run and reaped).
var c19PlantJudged = []string{
	"dead-pid:1", "dead-pid:2", "dead-pid:3", "dead-pid:4", "dead-pid:5", "dead-pid:6", "dead-pid:7",
	"dead-pid:6:lowest", "dead-pid:6:highest", "dead-pid:7:lowest", "dead-pid:7:highest", "just-reaped",
	"dead-pid:5:highest", "dead-pid:7", "dead-pid:4:lowest",
}

// c19PlantRecorded: contents about which the statement says nothing (N = a number no process can have here).
var c19PlantRecorded = []struct{ name, content string }{
	{"zero", "0"},
	{"minus-one", "-1"},
	{"negative", "-N"},
	{"trailing-newline", "N\n"},
	{"leading-space", " N"},
	{"plus-sign", "+N"},
	{"leading-zeros", "00N"},
	{"ten-bytes", "1234567890"},
	{"nine-digits", "999999999"},
	{"pid-max-limit", "4194304"},
	{"just-above-the-pid-limit", "4194305"},
	{"eight-digits", "41943040"},
	{"text", "not a pid"},
	{"pid-and-text", "N git-bug"},
	{"hexadecimal", "0x7fff"},
}

func c19PidRange(digits int) (lo, hi int) {
	lo = 1
	for k := 1; k < digits; k++ {
		lo *= 10
	}
	hi = lo*10 - 1
	if hi > c19PidLimit {
		hi = c19PidLimit
	}
	if digits == 1 {
		lo = 2 // 1 is alive everywhere
	}
	return
}

// c19PlantStep makes the plant step of a judged spec: the value wanted goes along ("dead-pid:7:2718281").
func c19PlantStep(spec string, rng *rand.Rand) LockStep {
	parts := strings.Split(spec, ":")
	if parts[0] != "dead-pid" {
		return LockStep{Op: "plant", Plant: spec}
	}
	digits, _ := strconv.Atoi(parts[1])
	lo, hi := c19PidRange(digits)
	v := lo + rng.Intn(hi-lo+1)
	if len(parts) > 2 && parts[2] == "lowest" {
		v = lo
	}
	if len(parts) > 2 && parts[2] == "highest" {
		v = hi
	}
	return LockStep{Op: "plant", Plant: fmt.Sprintf("dead-pid:%d:%d", digits, v)}
}

// c19StalePidSchedule: occ chooses a third of each list, the seed the order, the values and the commands.
func c19StalePidSchedule(s *LockSchedule, rng *rand.Rand, occ int) []string {
	g := c19Gen{s, rng}
	prebuilt := rng.Intn(2) == 0
	if prebuilt {
		g.run("P0", "bug", "")
	}
	shape := []string{fmt.Sprintf("prebuilt=%v", prebuilt)}
	type item struct {
		step   LockStep
		record bool
		name   string
	}
	var items []item
	for k, spec := range c19PlantJudged {
		if k%3 == occ%3 {
			items = append(items, item{step: c19PlantStep(spec, rng), name: spec})
		}
	}
	never := 5000000 + rng.Intn(4000000) // beyond what Linux hands out
	for k, rec := range c19PlantRecorded {
		if k%3 == occ%3 {
			items = append(items, item{step: LockStep{Op: "plant", Plant: "other:" + rec.name, Tag: strings.ReplaceAll(rec.content, "N", strconv.Itoa(never))}, record: true, name: "other:" + rec.name})
		}
	}
	rng.Shuffle(len(items), func(a, b int) { items[a], items[b] = items[b], items[a] })
	for k, it := range items {
		label := fmt.Sprintf("A%d", k)
		class := pick(rng, "bug", "user", "bug", "label")
		g.add(it.step, LockStep{Op: "observe", Tag: "lock file planted (" + it.name + ")"},
			LockStep{Op: "run", P: label, Cmd: class, Record: it.record}, LockStep{Op: "observe", Tag: "after " + label})
		if it.record {
			g.add(LockStep{Op: "plant", Plant: "clear"})
		}
		shape = append(shape, it.name+">"+class)
	}
	g.run("Z", "bug", "")
	return shape
}

func c19PidMax() int {
	data, err := os.ReadFile("/proc/sys/kernel/pid_max")
	if err != nil {
		return 0
	}
	v, _ := strconv.Atoi(strings.TrimSpace(string(data)))
	return v
}

// c19ReapedPid runs a process to its end and returns its pid: nobody has it now, and it is the last
// one that will be handed out again.
func c19ReapedPid() (int, error) {
	dead := exec.Command("/bin/true")
	if err := dead.Run(); err != nil {
		return 0, err
	}
	return dead.Process.Pid, nil
}

// c19DeadPid returns a process id with the given number of digits that no live process has: the
// wanted value when no process can have it here (>= pid_max), else a value seen dead that is as far
// as possible from being handed out again. canLive says that a process could get it later.
func c19DeadPid(digits, wanted int) (pid int, canLive bool, why string) {
	pidMax := c19PidMax()
	if pidMax <= 0 {
		return 0, false, "cannot read /proc/sys/kernel/pid_max"
	}
	if wanted >= pidMax {
		return wanted, false, ""
	}
	lo, hi := c19PidRange(digits)
	if hi >= pidMax {
		hi = pidMax - 1
	}
	scanDown := func(from, to int) int {
		for v := from; v >= to; v-- {
			if !pidAlive(v) {
				return v
			}
		}
		return 0
	}
	const reserved = 300 // once the allocation has wrapped the kernel starts again at 300: lower values are never handed out again
	if lo < reserved {
		top := hi
		if top >= reserved {
			top = reserved - 1
		}
		if wanted <= top && !pidAlive(wanted) {
			return wanted, true, ""
		}
		if v := scanDown(top, lo); v > 0 {
			return v, true, ""
		}
	}
	cur, err := c19ReapedPid()
	if err != nil {
		return 0, false, err.Error()
	}
	if cur >= lo && cur <= hi {
		return cur, true, "" // reaped a moment ago
	}
	// the whole range lies behind the allocation cursor (the highest value is the one handed out last)
	// or ahead of it (the highest value is the one handed out latest)
	if pid = scanDown(hi, lo); pid == 0 {
		return 0, false, fmt.Sprintf("no dead process id with %d digits found", digits)
	}
	return pid, true, ""
}

// plant puts a lock file in place as a dead holder (or something else) would have left it.
func (e *c19Exec) plant(st LockStep) bool {
	res := e.res
	gb := filepath.Join(e.repo, ".git", "git-bug")
	lock := filepath.Join(gb, "lock")
	parts := strings.Split(st.Plant, ":")
	var class, content string
	e.plantedPid, e.plantedTag = 0, ""
	switch parts[0] {
	case "clear":
		// what the user has to do by hand after an open that leaves the planted file where it is
		if _, err := os.Stat(lock); err == nil {
			if err := os.Remove(lock); err != nil {
				res.Inconclusive = "plant: " + err.Error()
				return false
			}
			e.log(refmodel.LockEvent{Kind: "fault", Class: "lock-file-removed-by-hand"})
		}
		return true
	case "dead-pid":
		digits, _ := strconv.Atoi(parts[1])
		wanted, _ := strconv.Atoi(parts[2])
		pid, canLive, why := c19DeadPid(digits, wanted)
		if why != "" {
			res.NotReached = "stale lock not planted: " + why
			return false
		}
		if canLive {
			e.plantedPid = pid
		}
		class, content = fmt.Sprintf("stale-lock-of-dead-%d-digit-pid", digits), strconv.Itoa(pid)
	case "just-reaped":
		pid, err := c19ReapedPid()
		if err != nil {
			res.Inconclusive = "plant: " + err.Error()
			return false
		}
		e.plantedPid = pid
		class, content = "stale-lock-of-just-reaped-pid", strconv.Itoa(pid)
	case "other":
		class, content = "planted-lock-file:"+parts[1], st.Tag
	default:
		panic("c19: unknown plant " + st.Plant)
	}
	_ = os.MkdirAll(gb, 0o755)
	if err := os.WriteFile(lock, []byte(content), 0o644); err != nil {
		res.Inconclusive = "plant: " + err.Error()
		return false
	}
	e.plantedTag = class
	e.log(refmodel.LockEvent{Kind: "fault", Class: class, Tag: fmt.Sprintf("lock file put in place, content %q", content)})
	return true
}

// afterRun looks at a command that ran to its end: the probe of an entry point, the open after a planted lock file.
func (e *c19Exec) afterRun(st LockStep, p *c19Proc) bool {
	res := e.res
	if !p.loggedExit {
		return true // the watchdog has spoken
	}
	outcome := res.Outcomes[p.label+":"+p.spec.class]
	failed := !strings.HasPrefix(outcome, "exit=0 ")
	if st.Tag == "probe" {
		if failed {
			res.NotReached = fmt.Sprintf("the %s cannot be opened at all, nobody holding the cache: `git-bug %s`: %s: %s", c19EntryName(st.At), strings.Join(p.spec.argv, " "), outcome, excerptTail(p.errb.String(), 200))
			return false
		}
		res.Notes = append(res.Notes, "entry_points_opened_alone_on_the_free_cache|"+st.At)
		return true
	}
	if e.plantedTag != "" {
		if failed && e.plantedPid > 0 && pidAlive(e.plantedPid) {
			res.Inconclusive = fmt.Sprintf("the process id %d named by the planted lock file has been handed out to a new process meanwhile", e.plantedPid)
			return false
		}
		after := "lock file gone"
		if c, ok := e.lockState(); ok {
			after = "lock file still there"
			if c == strconv.Itoa(p.pid) {
				after = "lock file names the command"
			}
		}
		what := "opened (" + outcome[:strings.IndexByte(outcome, ' ')] + "), " + after
		if failed {
			what = "failed: " + c19NoDigits(lastLineOf(p.errb.String())) + ", " + after
		}
		res.Notes = append(res.Notes, "planted_lock_outcomes|"+e.plantedTag+" -> "+what)
		if st.Record {
			res.Notes = append(res.Notes, "planted_locks/recorded_not_judged|#")
		} else {
			res.Notes = append(res.Notes, "planted_locks/of_a_dead_process(open must succeed)|#")
			res.Notes = append(res.Notes, "planted_locks/digits_of_the_dead_pid|"+strconv.Itoa(len(strings.TrimSpace(e.plantedContent()))))
		}
		e.plantedTag, e.plantedPid = "", 0
	}
	return true
}

// plantedContent: the content of the last planted lock file, from the log.
func (e *c19Exec) plantedContent() string {
	e.mu.Lock()
	defer e.mu.Unlock()
	for k := len(e.events) - 1; k >= 0; k-- {
		if ev := e.events[k]; ev.Kind == "fault" && strings.HasPrefix(ev.Tag, "lock file put in place, content ") {
			s, err := strconv.Unquote(strings.TrimPrefix(ev.Tag, "lock file put in place, content "))
			if err == nil {
				return s
			}
		}
	}
	return ""
}

func lastLineOf(s string) string {
	s = strings.TrimSpace(s)
	if i := strings.LastIndexByte(s, '\n'); i >= 0 {
		s = s[i+1:]
	}
	if len(s) > 120 {
		s = s[:120]
	}
	return s
}

// c19NoDigits replaces every run of digits by N (pids in messages).
func c19NoDigits(s string) string {
	var b strings.Builder
	in := false
	for _, r := range s {
		if r >= '0' && r <= '9' {
			if !in {
				b.WriteByte('N')
			}
			in = true
			continue
		}
		in = false
		b.WriteRune(r)
	}
	return b.String()
}

// c19EntryStats counts what an entry-point schedule showed: attempts per (holder entry, opener entry) made
// while the holder was proven alive, and their outcome (from the log; no verdict).
func c19EntryStats(r interface {
	Count(string, int)
	Seen(string, string)
}, evs []refmodel.LockEvent) {
	phase := ""
	spawnPhase := map[int]string{}
	for _, ev := range evs {
		switch ev.Kind {
		case "phase":
			phase = ev.Class
		case "spawn":
			spawnPhase[ev.Proc] = phase
		case "exit":
			ph := spawnPhase[ev.Proc]
			if !strings.Contains(ph, ",opener-in-") {
				continue
			}
			r.Count("entry_points/open_attempts_from_another_or_the_same_entry_point_while_the_holder_lives", 1)
			out := "failed otherwise"
			switch {
			case strings.Contains(ev.Stderr, "already locked by the process pid"):
				out = "refused naming a pid"
			case ev.ExitCode == 0 && ev.KilledBy == "":
				out = "exit 0"
			case ev.KilledBy != "":
				out = "killed"
			}
			r.Seen("entry_points/pairs_and_outcomes", ph+": "+out)
		}
	}
}
