package checks

// C17 prefix-reuse cases: a server that lives on. A mutation addresses a bug by the shortest prefix that is unique
// at that moment and is carried out; other requests then create bugs until one of the new ids shares that prefix;
// the same mutation is sent again with the same prefix. The prefix now designates two bugs: the request is invalid,
// must be answered with an error and must change nothing ("exactly the requested change, or a refusal that changes
// nothing"). Every step is a request of its own to the same served cache, as a browser tab left open sends them.
//
// The case builds a repository of its own (it creates many bugs).

import (
	"fmt"
	"strings"

	"verif/harness/gitraw"
)

func (e *c17Env) runPrefixReuse(c c17Case, res *c17Result) {
	own, err := c17BuildEnv(c.Seed ^ 0x70f1)
	if err != nil {
		res.Inconclusive = "cannot build the served repository: " + err.Error()
		return
	}
	defer own.Close()
	own.g = e.g
	ids := own.bugIds()
	target, prefix := "", ""
	for _, id := range ids {
		if p := uniquePrefix(id, ids, 1); len(p) == 1 {
			target, prefix = id, p
			break
		}
	}
	if target == "" {
		res.count("prefix_reuse/not_reached(no bug with a unique first character)", 1)
		return
	}
	var doc func(text string) string
	switch c.Variant {
	case "addComment":
		doc = func(text string) string {
			return fmt.Sprintf(`mutation { addComment(input: {prefix: %q, message: %q}) { bug { id } } }`, prefix, text)
		}
	case "setTitle":
		doc = func(text string) string {
			return fmt.Sprintf(`mutation { setTitle(input: {prefix: %q, title: %q}) { bug { id } } }`, prefix, text)
		}
	default:
		res.Inconclusive = "unknown prefix-reuse variant " + c.Variant
		return
	}
	first := own.post(true, doc("while the prefix is unique"))
	if first.HasErrors() || jstr(first.Data, c.Variant, "bug", "id") != target {
		res.count("prefix_reuse/not_reached(the first request was not carried out)", 1)
		res.seen("prefix_reuse/first_request_outcomes", normalizeMsg(first.ErrorText()))
		return
	}
	// further requests create bugs until one of them shares the prefix
	twin := ""
	for k := 0; k < 400 && twin == ""; k++ {
		nb := own.post(true, fmt.Sprintf(`mutation { newBug(input: {title: "filler %d", message: "m"}) { bug { id } } }`, k))
		if nb.HasErrors() {
			res.Inconclusive = "newBug refused: " + nb.ErrorText()
			return
		}
		res.count("prefix_reuse/bugs_created_until_the_prefix_was_shared", 1)
		if id := jstr(nb.Data, "newBug", "bug", "id"); strings.HasPrefix(id, prefix) {
			twin = id
		}
	}
	if twin == "" {
		res.count("prefix_reuse/not_reached(no new id shares the prefix)", 1)
		return
	}
	before, err := gitraw.RefTable(own.rep.Repo, "refs/")
	if err != nil {
		res.Inconclusive = "ref table: " + err.Error()
		return
	}
	res.Nontrivial = true
	res.count("prefix_reuse/ambiguous_requests_sent", 1)
	again := own.post(true, doc("now that the prefix is shared"))
	res.Request, res.Response = doc("now that the prefix is shared"), truncateStr(again.ErrorText(), 300)
	after, err := gitraw.RefTable(own.rep.Repo, "refs/")
	if err != nil {
		res.Inconclusive = "ref table: " + err.Error()
		return
	}
	var moved []string
	for ref, h := range after {
		if before[ref] != h {
			moved = append(moved, ref)
		}
	}
	for ref := range before {
		if _, ok := after[ref]; !ok {
			moved = append(moved, ref)
		}
	}
	switch {
	case !again.HasErrors():
		res.Outcome = "accepted"
		res.find("prefix-reuse:"+c.Variant+":ambiguous-prefix-accepted", fmt.Sprintf("%s with prefix %q was carried out while the prefix was unique; %d requests later the bugs %s and %s share it, and the same request is answered without an error (bug %s); refs changed: %v",
			c.Variant, prefix, res.Counts["prefix_reuse/bugs_created_until_the_prefix_was_shared"], target[:10], twin[:10], truncateStr(jstr(again.Data, c.Variant, "bug", "id"), 10), moved))
	case len(moved) > 0:
		res.Outcome = "refused-but-changed"
		res.find("prefix-reuse:"+c.Variant+":refused-request-changed-refs", fmt.Sprintf("%s with the ambiguous prefix %q was answered with an error (%s) and yet moved %v", c.Variant, prefix, normalizeMsg(again.ErrorText()), moved))
	default:
		res.Outcome = "refused"
		res.seen("prefix_reuse/refusals", normalizeMsg(again.ErrorText()))
	}
}
