package checks

// C13, mutating session — the answer of a resolution must follow every change of the
// population within one long-lived cache.
//
// The statement of C13 speaks about "the entities" that match a prefix: that is the
// population of the repository at the moment of the question, not at the moment some
// helper structure was last computed. After the passes over a fixed population the
// repository is reopened, ONE cache is opened and kept, and a seed-determined sequence
// of *batches* of population changes is applied through the cache API:
//
//	create-bug / remove-bug / create-identity / remove-identity / add-comment
//	  (Bugs().NewRaw + AddCommentRaw, Bugs().Remove(full id | shortest unique prefix),
//	   Identities().NewRaw, Identities().Remove)
//	pull-new       a peer replica created bugs (and sometimes an identity) whose ids were
//	               engineered (nonce re-rolled) to share 1..4 characters with an entity removed
//	               in this very batch, removed earlier, or still alive; RepoCache.Pull
//	pull-updated   the peer appended comments (op id engineered against a comment of the same
//	               bug) to bugs the session knows; RepoCache.Pull
//	remove-all     RepoCache.RemoveAll, later followed by a pull that brings back what the
//	               remote holds
//
// A batch holds one change, or several with NO question in between — patterns that keep
// the number of entities constant (remove+create, create+remove, remove+pull-new, 2+2),
// grow it, shrink it, or touch both namespaces at once. After EACH batch the reference
// model is recomputed over the current population (cross-checked against the refs read by
// gitraw and the comments read through the entity layer) and a sample of questions is
// asked through every lookup the check drives: every prefix length 0..64 (+ the last
// character replaced, + one extra character) of the ids of the entities the batch created,
// removed, pulled; of their nearest neighbours in the current population; of entities
// removed by earlier batches; and of a few untouched ones.

import (
	"fmt"
	"math/rand"
	"path/filepath"
	"sort"
	"strings"

	"github.com/MichaelMure/git-bug/cache"
	_select "github.com/MichaelMure/git-bug/commands/select"
	"github.com/MichaelMure/git-bug/entities/bug"
	"github.com/MichaelMure/git-bug/entities/identity"
	"github.com/MichaelMure/git-bug/entity"

	"verif/harness/gitraw"
	"verif/harness/mon"
	"verif/harness/refmodel"
	"verif/harness/world"
)

// c13Target is an id whose prefixes are asked, with the role it plays in the batch.
type c13Target struct {
	Id   string
	Role string // created | removed | pulled-new | pulled-updated | pulled-back | neighbour | dead | untouched | foreign
}

// c13Elem is one executed elementary change (for the witness).
type c13Elem struct {
	Kind string `json:"kind"`
	Ns   string `json:"ns"`
	Id   string `json:"id,omitempty"`
	Note string `json:"note,omitempty"`
}

type c13Session struct {
	p   c13Pop
	acc *c13Acc
	rng *rand.Rand
	w   *world.World
	r   *world.Replica
	c   *cache.RepoCache

	// the population the session predicts
	bugs, idents map[string]bool
	ops          map[string][]string          // bug -> comment-bearing op ids
	combined     map[string]map[string]string // bug -> op -> combined id (as git-bug reports it)
	bugMeta      map[string]string            // bug -> value of c13MetaKey on the create operation
	identMeta    map[string]string
	authored     map[string]bool // identities that authored an operation: never removed one by one
	user         string

	// what the remote "origin" holds
	synced                 bool
	oBugs, oIdents         map[string]bool
	oOps                   map[string][]string
	oBugMeta, oIdentMeta   map[string]string
	peer                   *world.Replica
	peerAuthor             *identity.Identity
	peerBugs               map[string]bool
	deadBugs, deadIdents   []string
	deadComments           []string // combined ids of comments of removed bugs
	nCreated               int
	broken                 string // why the session cannot go on (inconclusive)
	batchNo                int
	pattern                string
	elems                  []c13Elem
	tBugs, tIdents, tComms []c13Target // touched in the current batch
}

// ---- plan ------------------------------------------------------------------------------

// c13SessionPlan: the batches of a session, a function of (seed, population index, steps).
func c13SessionPlan(rng *rand.Rand, steps, idx int) [][]string {
	local := [][]string{
		{"remove-bug", "create-bug"},
		{"create-bug", "remove-bug"},
		{"create-bug"},
		{"remove-bug"},
		{"remove-bug", "remove-bug", "create-bug", "create-bug"},
		{"create-bug", "create-bug"},
		{"remove-bug", "remove-bug"},
		{"remove-identity", "create-identity"},
		{"create-identity", "remove-identity"},
		{"create-identity"},
		{"remove-identity"},
		{"add-comment"},
		{"remove-bug", "create-identity", "create-bug", "remove-identity"},
		{"remove-bug", "add-comment", "create-bug"},
	}
	remote := [][]string{
		{"pull-new"},
		{"pull-updated"},
		{"remove-bug", "pull-new"},
		{"remove-bug", "remove-bug", "pull-new"},
		{"pull-new", "remove-bug"},
		{"pull-new+updated"},
		{"remove-identity", "pull-new"},
	}
	// the free places of a part go through the patterns in turn, starting at a place that depends on the
	// population's index: over the populations of a run every pattern comes up, whatever the seed
	turn := 0
	pick := func(from [][]string, n int, must ...[]string) [][]string {
		out := append([][]string{}, must...)
		for len(out) < n {
			out = append(out, from[(idx*5+turn)%len(from)])
			turn++
		}
		rng.Shuffle(len(out), func(i, j int) { out[i], out[j] = out[j], out[i] })
		return out
	}
	nLocal := steps * 4 / 10
	nRemote := steps * 3 / 10
	nLate := steps - nLocal - nRemote
	if steps >= 8 {
		nLate -= 3 // the closing trio
	}
	if nLate < 1 {
		nLate = 1
	}
	var plan [][]string
	// before anything was pushed: the count-constant swap in both namespaces is always there
	plan = append(plan, pick(local, nLocal, local[0], local[7])...)
	// the remote enters: pulls, and removals answered by pulls
	plan = append(plan, pick(remote, nRemote, remote[0], remote[2], remote[1])...)
	// local changes again, now over a population that partly came through merges
	plan = append(plan, pick(append(append([][]string{}, local...), remote...), nLate, local[0])...)
	if steps >= 8 {
		plan = append(plan, []string{"remove-all"}, []string{"create-identity", "create-bug"}, []string{"pull-back"})
	}
	return plan
}

// ---- helpers over the model ------------------------------------------------------------------

func sortedKeys(m map[string]bool) []string {
	out := make([]string, 0, len(m))
	for k, v := range m {
		if v {
			out = append(out, k)
		}
	}
	sort.Strings(out)
	return out
}

// nearest returns the member of the sorted list (other than id) sharing the longest prefix with id.
func nearest(sorted []string, id string) string {
	i := sort.SearchStrings(sorted, id)
	best, bestN := "", -1
	for _, j := range []int{i - 1, i, i + 1} {
		if j < 0 || j >= len(sorted) || sorted[j] == id {
			continue
		}
		if n := refmodel.SharedPrefixLen(id, sorted[j]); n > bestN {
			best, bestN = sorted[j], n
		}
	}
	return best
}

func (s *c13Session) allCombined() (ids []string, of map[string]c13Comment) {
	of = map[string]c13Comment{}
	for b := range s.bugs {
		for op, comb := range s.combined[b] {
			ids = append(ids, comb)
			of[comb] = c13Comment{Bug: b, Op: op, Combined: comb}
		}
	}
	sort.Strings(ids)
	return ids, of
}

func (s *c13Session) metaMap(of map[string]string, alive map[string]bool) map[string][]string {
	m := map[string][]string{}
	for id, v := range of {
		if alive[id] && v != "" {
			m[v] = append(m[v], id)
		}
	}
	return m
}

func (s *c13Session) metaValue() string {
	if s.rng.Intn(5) == 0 {
		return ""
	}
	n := len(s.bugs)
	if n < 2 {
		n = 2
	}
	return fmt.Sprintf("o%d", s.rng.Intn((n+1)/2))
}

func (s *c13Session) note(kind, ns, id, note string) {
	s.elems = append(s.elems, c13Elem{Kind: kind, Ns: ns, Id: id, Note: note})
	s.acc.count("session_elementary/"+kind, 1)
}

func (s *c13Session) fail(why string) {
	if s.broken == "" {
		s.broken = fmt.Sprintf("mutating session, batch %d (%s): %s", s.batchNo, s.pattern, why)
	}
}

// bury moves a bug / identity of the model to the graveyard.
func (s *c13Session) buryBug(id string) {
	for _, comb := range s.combined[id] {
		s.deadComments = append(s.deadComments, comb)
	}
	delete(s.bugs, id)
	s.deadBugs = append(s.deadBugs, id)
}

func (s *c13Session) buryIdent(id string) {
	delete(s.idents, id)
	s.deadIdents = append(s.deadIdents, id)
}

// refreshBug reads a bug through the entity layer (not through the cache) and records the combined
// ids git-bug gives to its comments; the comment operations must be the predicted ones.
func (s *c13Session) refreshBug(id string) bool {
	b, err := world.ReadBug(s.r.Repo, entity.Id(id))
	if err != nil {
		s.fail("bug " + id + " of the predicted population cannot be read from git: " + err.Error())
		return false
	}
	got := map[string]string{}
	var gotOps []string
	for _, c := range b.Compile().Comments {
		op, comb := string(c.TargetId()), string(c.CombinedId())
		got[op] = comb
		gotOps = append(gotOps, op)
		if _, known := s.combined[id][op]; known {
			continue
		}
		if len(comb) != 64 {
			s.acc.finding("combined-id:length", fmt.Sprintf("comment %s of bug %s has a combined id of %d characters: %q", op, id, len(comb), comb), map[string]any{"bug": id, "op": op})
			continue
		}
		for l := 0; l <= 64; l++ {
			pp, sp := entity.SeparateIds(comb[:l])
			if why := refmodel.SplitOK(id, op, l, pp, sp); why != "" {
				s.acc.finding("combined-id:comment-not-interleaved", fmt.Sprintf("comment combined id %s (bug %s, op %s): prefix length %d splits into (%q,%q): %s", comb, id, op, l, pp, sp, why), map[string]any{"bug": id, "op": op, "combined": comb, "L": l})
				break
			}
		}
	}
	want := append([]string(nil), s.ops[id]...)
	sort.Strings(want)
	sort.Strings(gotOps)
	if !equalStrings(gotOps, want) {
		s.fail(fmt.Sprintf("the comments of bug %s (%d) are not the comment operations the session appended / pulled (%d): population unknown", id, len(gotOps), len(want)))
		return false
	}
	s.combined[id] = got
	return true
}

// ---- elementary changes ----------------------------------------------------------------------

func (s *c13Session) ensureUser() bool {
	if s.user != "" && s.idents[s.user] {
		return true
	}
	ids := sortedKeys(s.idents)
	if len(ids) == 0 {
		if !s.createIdentity() {
			return false
		}
		ids = sortedKeys(s.idents)
	}
	id := ids[s.rng.Intn(len(ids))]
	ic, err := s.c.Identities().Resolve(entity.Id(id))
	if err != nil {
		s.fail("identity " + id + " cannot be resolved by its full id: " + err.Error())
		return false
	}
	if err := s.c.SetUserIdentity(ic); err != nil {
		s.fail("SetUserIdentity: " + err.Error())
		return false
	}
	s.user = id
	s.authored[id] = true // merge commits are signed off by the user identity
	return true
}

func (s *c13Session) anAuthor() (*cache.IdentityCache, bool) {
	ids := sortedKeys(s.idents)
	if len(ids) == 0 {
		if !s.createIdentity() {
			return nil, false
		}
		ids = sortedKeys(s.idents)
	}
	id := ids[s.rng.Intn(len(ids))]
	ic, err := s.c.Identities().Resolve(entity.Id(id))
	if err != nil {
		s.fail("identity " + id + " cannot be resolved by its full id: " + err.Error())
		return nil, false
	}
	s.authored[id] = true
	return ic, true
}

func (s *c13Session) createIdentity() bool {
	s.nCreated++
	var meta map[string]string
	mv := s.metaValue()
	if mv != "" {
		meta = map[string]string{c13MetaKey: mv}
	}
	ic, err := s.c.Identities().NewRaw(fmt.Sprintf("session user %d", s.nCreated), fmt.Sprintf("s%d@example.com", s.nCreated), "", "", nil, meta)
	if err != nil {
		s.fail("Identities().NewRaw: " + err.Error())
		return false
	}
	id := string(ic.Id())
	s.idents[id] = true
	s.identMeta[id] = mv
	s.tIdents = append(s.tIdents, c13Target{id, "created"})
	s.note("create-identity", "identities", id, "")
	return true
}

func (s *c13Session) createBug() bool {
	author, ok := s.anAuthor()
	if !ok {
		return false
	}
	s.nCreated++
	var meta map[string]string
	mv := s.metaValue()
	if mv != "" {
		meta = map[string]string{c13MetaKey: mv}
	}
	bc, _, err := s.c.Bugs().NewRaw(author, s.w.Now(), fmt.Sprintf("session bug %d", s.nCreated), "created within the session", nil, meta)
	if err != nil {
		s.fail("Bugs().NewRaw: " + err.Error())
		return false
	}
	id := string(bc.Id())
	ops := []string{id}
	for k, n := 0, s.rng.Intn(3); k < n; k++ {
		_, op, err := bc.AddCommentRaw(author, s.w.Now(), fmt.Sprintf("comment %d of a session bug", k), nil, nil)
		if err != nil {
			s.fail("AddCommentRaw on a new bug: " + err.Error())
			return false
		}
		ops = append(ops, string(op.Id()))
	}
	if err := bc.CommitAsNeeded(); err != nil {
		s.fail("commit of the comments of a new bug: " + err.Error())
		return false
	}
	s.bugs[id] = true
	s.ops[id] = ops
	s.bugMeta[id] = mv
	s.tBugs = append(s.tBugs, c13Target{id, "created"})
	s.note("create-bug", "bugs", id, fmt.Sprintf("%d comments", len(ops)))
	return true
}

// removalArg: the full id, or the shortest prefix that is unique in the current population.
func (s *c13Session) removalArg(pop *refmodel.PrefixPopulation, id string) (string, string) {
	if s.rng.Intn(2) == 0 {
		return id, "full id"
	}
	n := pop.MaxSharedPrefix(id) + 1
	if n >= len(id) {
		return id, "full id"
	}
	return id[:n], fmt.Sprintf("shortest unique prefix (%d characters)", n)
}

// judgeRemoval: Remove(prefix) addresses an entity by a prefix the model says is unique; an answer
// "not found" / "several match" is a wrong resolution. Any other failure stops the session.
func (s *c13Session) judgeRemoval(api, arg, id string, pop *refmodel.PrefixPopulation, err error) bool {
	if err == nil {
		return true
	}
	obs := ""
	if isNotFound(err) {
		obs = "notfound"
	} else if _, ok := asMultiple(err); ok {
		obs = "multiple"
	}
	if obs == "" {
		s.fail(fmt.Sprintf("%s(%q) failed: %v", api, arg, err))
		return false
	}
	s.acc.finding(fmt.Sprintf("session:%s:unique->%s", api, obs),
		fmt.Sprintf("%s(%q) in batch %d [%s] of a long-lived cache: exactly one entity matches (%s) but the call failed: %v; changes of this batch so far: %s",
			api, arg, s.batchNo, s.pattern, id, err, s.elemsText()),
		map[string]any{"api": api, "prefix": arg, "expected": "unique", "matching": []string{id}, "batch": s.batchNo, "pattern": s.pattern, "changes": s.elems, "population": pop.Ids()})
	s.fail("a removal was refused (reported as a violation); the population plan cannot be followed any further")
	return false
}

func (s *c13Session) removeBug(preferLocalOnly bool) bool {
	ids := sortedKeys(s.bugs)
	if len(ids) == 0 {
		return true // nothing to remove: the batch goes on without this change
	}
	cands := ids
	if preferLocalOnly {
		var lo []string
		for _, id := range ids {
			if !s.oBugs[id] {
				lo = append(lo, id)
			}
		}
		if len(lo) > 0 {
			cands = lo
		}
	}
	var id string
	pop := refmodel.NewPrefixPopulation(ids)
	switch s.rng.Intn(3) {
	case 0: // the one sharing the longest prefix with another bug
		best := -1
		for _, c := range cands {
			if n := pop.MaxSharedPrefix(c); n > best {
				id, best = c, n
			}
		}
	default:
		id = cands[s.rng.Intn(len(cands))]
	}
	arg, how := s.removalArg(pop, id)
	err := s.c.Bugs().Remove(arg)
	if !s.judgeRemoval("bugs.Remove", arg, id, pop, err) {
		return false
	}
	for _, comb := range s.combined[id] {
		s.tComms = append(s.tComms, c13Target{comb, "removed"})
	}
	s.buryBug(id)
	s.tBugs = append(s.tBugs, c13Target{id, "removed"})
	s.note("remove-bug", "bugs", id, "by "+how)
	return true
}

func (s *c13Session) removeIdentity() bool {
	var cands []string
	for _, id := range sortedKeys(s.idents) {
		if !s.authored[id] && id != s.user {
			cands = append(cands, id)
		}
	}
	if len(cands) == 0 {
		// every identity authored something: make one that can go
		if !s.createIdentity() {
			return false
		}
		cands = []string{s.tIdents[len(s.tIdents)-1].Id}
	}
	id := cands[s.rng.Intn(len(cands))]
	pop := refmodel.NewPrefixPopulation(sortedKeys(s.idents))
	arg, how := s.removalArg(pop, id)
	err := s.c.Identities().Remove(arg)
	if !s.judgeRemoval("identities.Remove", arg, id, pop, err) {
		return false
	}
	s.buryIdent(id)
	s.tIdents = append(s.tIdents, c13Target{id, "removed"})
	s.note("remove-identity", "identities", id, "by "+how)
	return true
}

func (s *c13Session) addComment() bool {
	ids := sortedKeys(s.bugs)
	if len(ids) == 0 {
		return true
	}
	id := ids[s.rng.Intn(len(ids))]
	author, ok := s.anAuthor()
	if !ok {
		return false
	}
	bc, err := s.c.Bugs().Resolve(entity.Id(id))
	if err != nil {
		s.fail("bug " + id + " cannot be resolved by its full id: " + err.Error())
		return false
	}
	_, op, err := bc.AddCommentRaw(author, s.w.Now(), "a comment added within the session", nil, nil)
	if err != nil {
		s.fail("AddCommentRaw: " + err.Error())
		return false
	}
	if err := bc.Commit(); err != nil {
		s.fail("commit of a comment: " + err.Error())
		return false
	}
	s.ops[id] = append(s.ops[id], string(op.Id()))
	s.tBugs = append(s.tBugs, c13Target{id, "commented"})
	s.note("add-comment", "comments", string(op.Id()), "on bug "+id)
	return true
}

func (s *c13Session) removeAll() bool {
	if err := s.c.RemoveAll(); err != nil {
		s.fail("RemoveAll: " + err.Error())
		return false
	}
	keep := func(ids []string) []string { // a few of them are asked about afterwards
		ids = shuffled(ids, s.rng)
		if len(ids) > 3 {
			ids = ids[:3]
		}
		return ids
	}
	for _, id := range keep(sortedKeys(s.bugs)) {
		s.tBugs = append(s.tBugs, c13Target{id, "removed"})
		n := 0
		for _, comb := range s.combined[id] {
			if n < 2 {
				s.tComms = append(s.tComms, c13Target{comb, "removed"})
			}
			n++
		}
	}
	for _, id := range keep(sortedKeys(s.idents)) {
		s.tIdents = append(s.tIdents, c13Target{id, "removed"})
	}
	for _, id := range sortedKeys(s.bugs) {
		s.buryBug(id)
	}
	for _, id := range sortedKeys(s.idents) {
		s.buryIdent(id)
	}
	s.user = ""
	s.note("remove-all", "bugs+identities", "", "")
	return true
}

// ---- the remote side -----------------------------------------------------------------------

func copyBoolMap(m map[string]bool) map[string]bool {
	out := map[string]bool{}
	for k, v := range m {
		if v {
			out[k] = true
		}
	}
	return out
}

// sync pushes the session's repository to origin once and creates the peer from it.
func (s *c13Session) sync() bool {
	if s.synced {
		return true
	}
	if !s.ensureUser() {
		return false
	}
	if _, err := s.c.Push("origin"); err != nil {
		s.fail("Push: " + err.Error())
		return false
	}
	s.oBugs, s.oIdents = copyBoolMap(s.bugs), copyBoolMap(s.idents)
	s.oOps = map[string][]string{}
	for b := range s.bugs {
		s.oOps[b] = append([]string(nil), s.ops[b]...)
	}
	s.oBugMeta, s.oIdentMeta = map[string]string{}, map[string]string{}
	for id := range s.oBugs {
		s.oBugMeta[id] = s.bugMeta[id]
	}
	for id := range s.oIdents {
		s.oIdentMeta[id] = s.identMeta[id]
	}
	peer, err := world.InitRepo(filepath.Join(s.w.Dir, "peer"), false)
	if err != nil {
		s.fail("peer: " + err.Error())
		return false
	}
	s.w.Replicas = append(s.w.Replicas, peer) // closed and removed with the world
	if err := peer.Tested.AddRemote("origin", s.w.Origin.Tested.GetLocalRemote()); err != nil {
		s.fail("peer: " + err.Error())
		return false
	}
	if ml := peer.Pull("origin"); ml.Err != nil {
		s.fail("peer pull: " + ml.Err.Error())
		return false
	}
	s.peer = peer
	s.peerBugs = copyBoolMap(s.oBugs)
	// the peer's author: an identity engineered against one of the session's
	want := ""
	if ids := sortedKeys(s.idents); len(ids) > 0 {
		want = ids[s.rng.Intn(len(ids))][:2]
	}
	pa, tries := engIdentity("peer author", "peer@example.com", want)
	if pa == nil {
		s.fail(fmt.Sprintf("peer author sharing %q not found in %d tries", want, tries))
		return false
	}
	if err := pa.Commit(peer.Repo); err != nil {
		s.fail("peer author: " + err.Error())
		return false
	}
	s.peerAuthor = pa
	s.oIdents[string(pa.Id())] = true
	s.oIdentMeta[string(pa.Id())] = ""
	s.acc.count("engineering_tries", tries)
	s.synced = true
	s.acc.count("session_syncs", 1)
	return true
}

func (s *c13Session) engK() int {
	k := 1 + s.rng.Intn(3)
	if s.rng.Intn(6) == 0 {
		k = 4
	}
	return k
}

// peerNewBug: the peer creates a bug whose id shares k characters with target.
func (s *c13Session) peerNewBug(target, role string) bool {
	k := s.engK()
	want := ""
	if target != "" {
		want = target[:k]
	}
	mv := s.metaValue()
	op, tries := (*bug.CreateOperation)(nil), 0
	max, unix := engTries(len(want)), s.w.Now()
	for tries = 1; tries <= max; tries++ {
		o := bug.NewCreateOp(s.peerAuthor, unix, "peer bug", "created by the peer", nil)
		if mv != "" {
			o.SetMetadata(c13MetaKey, mv) // part of what the id is computed from: set before asking for the id
		}
		if strings.HasPrefix(string(o.Id()), want) {
			op = o
			break
		}
	}
	if op == nil {
		s.acc.res.Inconclusive = append(s.acc.res.Inconclusive, fmt.Sprintf("mutating session: bug sharing %d characters not found in %d tries", k, tries))
		return true
	}
	b, err := bugFromOp(op)
	if err != nil {
		s.fail("peer bug: " + err.Error())
		return false
	}
	id := string(b.Id())
	ops := []string{id}
	for n, c := 0, s.rng.Intn(3); n < c; n++ {
		_, cop, err := bug.AddComment(b, s.peerAuthor, s.w.Now(), "peer comment", nil, nil)
		if err != nil {
			s.fail("peer comment: " + err.Error())
			return false
		}
		ops = append(ops, string(cop.Id()))
	}
	if err := b.Commit(s.peer.Repo); err != nil {
		s.fail("peer commit: " + err.Error())
		return false
	}
	s.peerBugs[id] = true
	s.oBugs[id] = true
	s.oOps[id] = ops
	s.oBugMeta[id] = mv
	s.acc.count("engineering_tries", tries)
	if target != "" {
		s.acc.seen("session_engineered_shared_prefixes", fmt.Sprintf("bug-vs-%s:asked=%d:realised=%d", role, k, refmodel.SharedPrefixLen(target, id)))
		s.acc.count("session_engineered/bug-vs-"+role, 1)
	}
	return true
}

func (s *c13Session) peerNewIdentity(target, role string) bool {
	k := 1 + s.rng.Intn(3)
	want := ""
	if target != "" {
		want = target[:k]
	}
	s.nCreated++
	id, tries := engIdentity(fmt.Sprintf("peer user %d", s.nCreated), "peeruser@example.com", want)
	if id == nil {
		s.acc.res.Inconclusive = append(s.acc.res.Inconclusive, fmt.Sprintf("mutating session: identity sharing %d characters not found in %d tries", k, tries))
		return true
	}
	if err := id.Commit(s.peer.Repo); err != nil {
		s.fail("peer identity: " + err.Error())
		return false
	}
	s.oIdents[string(id.Id())] = true
	s.oIdentMeta[string(id.Id())] = ""
	s.acc.count("engineering_tries", tries)
	if target != "" {
		s.acc.seen("session_engineered_shared_prefixes", fmt.Sprintf("identity-vs-%s:asked=%d:realised=%d", role, k, refmodel.SharedPrefixLen(target, string(id.Id()))))
		s.acc.count("session_engineered/identity-vs-"+role, 1)
	}
	return true
}

// peerUpdate: the peer appends a comment to a bug; its op id shares characters with a comment of that bug.
func (s *c13Session) peerUpdate(id string) bool {
	k := 1 + s.rng.Intn(3)
	tops := s.oOps[id]
	top := tops[s.rng.Intn(len(tops))]
	op, tries := engCommentOp(s.peerAuthor, s.w.Now(), "engineered comment by the peer", top[:k])
	if op == nil {
		s.acc.res.Inconclusive = append(s.acc.res.Inconclusive, fmt.Sprintf("mutating session: comment sharing %d characters not found in %d tries", k, tries))
		return true
	}
	b, err := world.ReadBug(s.peer.Repo, entity.Id(id))
	if err != nil {
		s.fail("peer read " + id + ": " + err.Error())
		return false
	}
	if err := op.Validate(); err != nil {
		s.fail("peer comment: " + err.Error())
		return false
	}
	b.Append(op)
	if err := b.Commit(s.peer.Repo); err != nil {
		s.fail("peer commit: " + err.Error())
		return false
	}
	s.oOps[id] = append(s.oOps[id], string(op.Id()))
	s.acc.count("engineering_tries", tries)
	s.acc.seen("session_engineered_shared_prefixes", fmt.Sprintf("comment-same-bug:asked=%d:realised=%d", k, refmodel.SharedPrefixLen(top, string(op.Id()))))
	s.acc.count("session_engineered/comment", 1)
	return true
}

// pull: the peer prepares (new bugs / identity, updated bugs), pushes, and the session pulls.
func (s *c13Session) pull(withNew, withUpdated bool) bool {
	if !s.sync() || !s.ensureUser() {
		return false
	}
	if withNew {
		// as many new bugs as this batch removed (the count stays), else one or two
		var removedNow []string
		for _, t := range s.tBugs {
			if t.Role == "removed" {
				removedNow = append(removedNow, t.Id)
			}
		}
		n := len(removedNow)
		if n == 0 {
			n = 1 + s.rng.Intn(2)
		}
		alive := sortedKeys(s.bugs)
		for i := 0; i < n; i++ {
			target, role := "", "none"
			switch {
			case i < len(removedNow):
				target, role = removedNow[i], "removed-in-batch"
			case len(s.deadBugs) > 0 && s.rng.Intn(2) == 0:
				target, role = s.deadBugs[s.rng.Intn(len(s.deadBugs))], "removed-earlier"
			case len(alive) > 0:
				target, role = alive[s.rng.Intn(len(alive))], "alive"
			}
			if !s.peerNewBug(target, role) {
				return false
			}
		}
		var removedIdents []string
		for _, t := range s.tIdents {
			if t.Role == "removed" {
				removedIdents = append(removedIdents, t.Id)
			}
		}
		aliveI := sortedKeys(s.idents)
		switch {
		case len(removedIdents) > 0:
			if !s.peerNewIdentity(removedIdents[0], "removed-in-batch") {
				return false
			}
		case s.rng.Intn(2) == 0 && len(s.deadIdents) > 0:
			if !s.peerNewIdentity(s.deadIdents[s.rng.Intn(len(s.deadIdents))], "removed-earlier") {
				return false
			}
		case s.rng.Intn(2) == 0 && len(aliveI) > 0:
			if !s.peerNewIdentity(aliveI[s.rng.Intn(len(aliveI))], "alive") {
				return false
			}
		}
	}
	if withUpdated {
		var cands []string
		for _, id := range sortedKeys(s.bugs) {
			if s.peerBugs[id] {
				cands = append(cands, id)
			}
		}
		cands = shuffled(cands, s.rng)
		if len(cands) > 2 {
			cands = cands[:1+s.rng.Intn(2)]
		}
		for _, id := range cands {
			if !s.peerUpdate(id) {
				return false
			}
		}
	}
	if err := s.peer.Push("origin"); err != nil {
		s.fail("peer push: " + err.Error())
		return false
	}
	if err := s.c.Pull("origin"); err != nil {
		s.fail("Pull: " + err.Error())
		return false
	}
	// after the pull: everything the remote holds is here (again); comments are the union
	nNew, nBack, nUpd := 0, 0, 0
	wasDead := map[string]bool{}
	for _, id := range s.deadBugs {
		wasDead[id] = true
	}
	for _, id := range sortedKeys(s.oBugs) {
		switch {
		case !s.bugs[id]:
			s.bugs[id] = true
			s.ops[id] = append([]string(nil), s.oOps[id]...)
			s.combined[id] = nil
			s.bugMeta[id] = s.oBugMeta[id]
			if wasDead[id] {
				s.tBugs = append(s.tBugs, c13Target{id, "pulled-back"})
				nBack++
			} else {
				s.tBugs = append(s.tBugs, c13Target{id, "pulled-new"})
				nNew++
			}
		default:
			have := map[string]bool{}
			for _, op := range s.ops[id] {
				have[op] = true
			}
			grew := false
			for _, op := range s.oOps[id] {
				if !have[op] {
					s.ops[id] = append(s.ops[id], op)
					grew = true
				}
			}
			if grew {
				s.tBugs = append(s.tBugs, c13Target{id, "pulled-updated"})
				nUpd++
			}
		}
	}
	wasDeadI := map[string]bool{}
	for _, id := range s.deadIdents {
		wasDeadI[id] = true
	}
	for _, id := range sortedKeys(s.oIdents) {
		if s.idents[id] {
			continue
		}
		s.idents[id] = true
		s.identMeta[id] = s.oIdentMeta[id]
		if s.peerAuthor != nil && id == string(s.peerAuthor.Id()) {
			s.authored[id] = true
		}
		if wasDeadI[id] {
			s.tIdents = append(s.tIdents, c13Target{id, "pulled-back"})
		} else {
			s.tIdents = append(s.tIdents, c13Target{id, "pulled-new"})
		}
	}
	// who came back is not dead any more
	s.deadBugs = filterOut(s.deadBugs, s.bugs)
	s.deadIdents = filterOut(s.deadIdents, s.idents)
	s.note("pull", "bugs+identities", "", fmt.Sprintf("%d new bugs, %d bugs back, %d bugs updated", nNew, nBack, nUpd))
	s.acc.count("session_pulled/new-bugs", nNew)
	s.acc.count("session_pulled/bugs-back", nBack)
	s.acc.count("session_pulled/updated-bugs", nUpd)
	return true
}

func filterOut(ids []string, alive map[string]bool) []string {
	var out []string
	for _, id := range ids {
		if !alive[id] {
			out = append(out, id)
		}
	}
	return out
}

func (s *c13Session) elemsText() string {
	var parts []string
	for _, e := range s.elems {
		t := e.Kind
		if e.Id != "" {
			t += " " + e.Id
		}
		if e.Note != "" {
			t += " (" + e.Note + ")"
		}
		parts = append(parts, t)
	}
	return strings.Join(parts, "; ")
}

// ---- one batch ----------------------------------------------------------------------------------

func (s *c13Session) apply(batch []string) {
	s.batchNo++
	s.pattern = strings.Join(batch, "+")
	s.elems, s.tBugs, s.tIdents, s.tComms = nil, nil, nil, nil
	for i, kind := range batch {
		ok := true
		switch kind {
		case "create-bug":
			ok = s.createBug()
		case "remove-bug":
			// a removal answered by a pull within the batch keeps the count only if the bug is not on the remote
			follows := false
			for _, k := range batch[i+1:] {
				if strings.HasPrefix(k, "pull") {
					follows = true
				}
			}
			ok = s.removeBug(follows || s.rng.Intn(2) == 0)
		case "create-identity":
			ok = s.createIdentity()
		case "remove-identity":
			ok = s.removeIdentity()
		case "add-comment":
			ok = s.addComment()
		case "pull-new":
			ok = s.pull(true, false)
		case "pull-updated":
			ok = s.pull(false, true)
		case "pull-new+updated":
			ok = s.pull(true, true)
		case "pull-back":
			ok = s.pull(false, false)
		case "remove-all":
			ok = s.removeAll()
		}
		if !ok || s.broken != "" {
			return
		}
	}
}

// ---- the questions after a batch ----------------------------------------------------------------

// c13TargetQueries: every prefix 0..64 of every target, the last character replaced, one extra character;
// every prefix of the foreign ids. Deduplicated; the first role wins.
func c13TargetQueries(targets, foreign []c13Target, rng *rand.Rand) []c13Query {
	seen := map[string]struct{}{}
	var out []c13Query
	add := func(s, kind, role string, l int) {
		if _, ok := seen[s]; ok {
			return
		}
		seen[s] = struct{}{}
		out = append(out, c13Query{S: s, Kind: kind, L: l, Role: role})
	}
	for _, t := range targets {
		for l := 0; l <= len(t.Id); l++ {
			add(t.Id[:l], "exact", t.Role, l)
		}
	}
	for _, t := range targets {
		for l := 1; l <= len(t.Id); l++ {
			add(t.Id[:l-1]+string(otherHex(t.Id[l-1], rng)), "perturb-last", t.Role, l)
		}
		add(t.Id+string(c13Hex[rng.Intn(16)]), "overlong", t.Role, len(t.Id)+1)
	}
	for _, t := range foreign {
		for l := 1; l <= len(t.Id); l++ {
			add(t.Id[:l], "foreign", "foreign", l)
		}
	}
	return out
}

// targetsFor completes the touched ids with their nearest neighbours in the current population, ids
// removed by earlier batches, and untouched members.
func (s *c13Session) targetsFor(current []string, touched []c13Target, dead []string) []c13Target {
	in := map[string]bool{}
	var out []c13Target
	add := func(id, role string) {
		if id == "" || in[id] {
			return
		}
		in[id] = true
		out = append(out, c13Target{id, role})
	}
	if len(touched) > 6 {
		touched = touched[:6]
	}
	for _, t := range touched {
		add(t.Id, t.Role)
	}
	for _, t := range touched {
		add(nearest(current, t.Id), "neighbour")
	}
	nDead := 0
	for i := len(dead) - 1; i >= 0 && nDead < 3; i-- {
		if !in[dead[i]] {
			add(dead[i], "dead")
			nDead++
		}
	}
	if len(dead) > 3 { // and an old one
		add(dead[s.rng.Intn(len(dead)-3)], "dead")
	}
	rest := shuffled(current, s.rng)
	n := 0
	for _, id := range rest {
		if n >= 2 {
			break
		}
		if !in[id] {
			add(id, "untouched")
			n++
		}
	}
	return out
}

func (s *c13Session) ask() {
	acc := s.acc
	// (1) the population: refs as stored, comments as read through the entity layer
	refIds := func(prefix string) []string {
		t, err := gitraw.RefTable(s.r.Repo, prefix)
		if err != nil {
			return nil
		}
		var out []string
		for name := range t {
			out = append(out, strings.TrimPrefix(name, prefix))
		}
		sort.Strings(out)
		return out
	}
	bugIds, identIds := sortedKeys(s.bugs), sortedKeys(s.idents)
	if got := refIds("refs/bugs/"); !equalStrings(got, bugIds) {
		s.fail(fmt.Sprintf("stored bug refs (%d) differ from the predicted population (%d): population unknown", len(got), len(bugIds)))
		return
	}
	if got := refIds("refs/identities/"); !equalStrings(got, identIds) {
		s.fail(fmt.Sprintf("stored identity refs (%d) differ from the predicted population (%d): population unknown", len(got), len(identIds)))
		return
	}
	for _, t := range s.tBugs {
		if !s.bugs[t.Id] {
			continue
		}
		before := s.combined[t.Id]
		if !s.refreshBug(t.Id) {
			return
		}
		role := t.Role
		if role == "commented" {
			role = "created"
		}
		for op, comb := range s.combined[t.Id] {
			if _, old := before[op]; !old {
				s.tComms = append(s.tComms, c13Target{comb, role})
			}
		}
	}
	sort.SliceStable(s.tComms, func(i, j int) bool { return s.tComms[i].Id < s.tComms[j].Id })
	s.rng.Shuffle(len(s.tComms), func(i, j int) { s.tComms[i], s.tComms[j] = s.tComms[j], s.tComms[i] })

	bugPop, identPop := refmodel.NewPrefixPopulation(bugIds), refmodel.NewPrefixPopulation(identIds)
	combIds, commentOf := s.allCombined()
	comPop := refmodel.NewPrefixPopulation(combIds)
	if comPop.Len() != len(combIds) {
		s.fail("two comments carry the same combined id")
		return
	}
	popN := map[string]int{"bugs": bugPop.Len(), "identities": identPop.Len(), "comments": comPop.Len()}
	acc.seen("session_patterns", s.pattern)
	acc.count("session_batches", 1)

	bugTouched := make([]c13Target, 0, len(s.tBugs))
	for _, t := range s.tBugs {
		if t.Role != "commented" && t.Role != "pulled-updated" { // their ids did not change place
			bugTouched = append(bugTouched, t)
		}
	}
	for _, t := range s.tBugs {
		if t.Role == "pulled-updated" {
			bugTouched = append(bugTouched, t)
		}
	}
	bugTargets := s.targetsFor(bugIds, bugTouched, s.deadBugs)
	identTargets := s.targetsFor(identIds, s.tIdents, s.deadIdents)
	comTargets := s.targetsFor(combIds, s.tComms, s.deadComments)
	bugQ := c13TargetQueries(bugTargets, s.tIdents, s.rng)
	identQ := c13TargetQueries(identTargets, bugTouched, s.rng)
	comQ := c13TargetQueries(comTargets, nil, s.rng)

	selected := ""
	if len(bugIds) > 0 {
		selected = bugIds[s.rng.Intn(len(bugIds))]
	}
	bugLookups, identLookups := c13Lookups(selected)
	bugMetaM, identMetaM := s.metaMap(s.bugMeta, s.bugs), s.metaMap(s.identMeta, s.idents)
	metaQueries := func(m map[string][]string) []c13Query {
		var qs []c13Query
		for _, v := range append(c13MetaQueries(m), "o-absent-key") {
			qs = append(qs, c13Query{S: v, Kind: "metadata", L: 1, Role: "metadata-value"})
		}
		return qs
	}
	metaModel := func(m map[string][]string) func(string) (refmodel.PrefixKind, []string) {
		model := c13MetaModel(m)
		return func(v string) (refmodel.PrefixKind, []string) {
			if v == "o-absent-key" {
				return refmodel.PrefixNone, nil
			}
			return model(v)
		}
	}
	witness := func(api string, q c13Query, kind refmodel.PrefixKind, want []string, a c13Ans, pop []string) map[string]any {
		return map[string]any{"api": api, "query": q.S, "query_kind": q.Kind, "query_derived_from": q.Role, "expected": kind.String(), "matching": want, "answer": a.String(),
			"batch": s.batchNo, "pattern": s.pattern, "changes": s.elems, "population": pop}
	}
	runLookups := func(lookups []*c13Lookup, qs, metaQs []c13Query, pop *refmodel.PrefixPopulation, metaM map[string][]string) {
		for _, l := range lookups {
			queries, model := qs, pop.Resolve
			if l.family == "metadata" {
				queries, model = metaQs, metaModel(metaM)
			}
			if l.setup != nil {
				if err := l.setup(s.c); err != nil {
					acc.res.Inconclusive = append(acc.res.Inconclusive, "mutating session: cannot write the select file: "+err.Error())
					continue
				}
			}
			for _, q := range queries {
				kind, want := model(q.S)
				a := l.call(s.c, q.S)
				judge := l.judge
				if judge == nil {
					judge = c13JudgeSelect(l.selected, []string{q.S, "tail"})
				}
				tail, bad := judge(kind, want, a)
				acc.eval(fmt.Sprintf("%s@session/%s/%s/%s/%s", l.name, q.Role, q.Kind, lenClass(q.L), kind), q.L >= 1 && popN[l.ns] >= 2)
				acc.count(fmt.Sprintf("session_outcome/%s/%s/%s", l.name, q.Role, tail), 1)
				if bad != "" {
					acc.finding(fmt.Sprintf("session:%s:%s", l.name, tail),
						fmt.Sprintf("%s(%q) after batch %d [%s] of a long-lived cache (%s): %s — the query derives from an id in the role %q; population now: %d %s",
							l.name, q.S, s.batchNo, s.pattern, s.elemsText(), bad, q.Role, popN[l.ns], l.ns),
						witness(l.name, q, kind, want, a, pop.Ids()))
				}
			}
			if l.teardown != nil {
				l.teardown(s.c)
			}
		}
	}
	runLookups(identLookups, identQ, metaQueries(identMetaM), identPop, identMetaM)
	runLookups(bugLookups, bugQ, metaQueries(bugMetaM), bugPop, bugMetaM)

	// comments
	for _, q := range comQ {
		kind, want := comPop.Resolve(q.S)
		a := c13CommentCall(s.c, q.S)
		tail, bad := kind.String()+"->"+a.Class, ""
		switch {
		case a.panicked != nil:
			tail, bad = "panic", fmt.Sprintf("panicked: %v", a.panicked)
		case kind == refmodel.PrefixUnique:
			wc := commentOf[want[0]]
			if a.err != nil {
				tail, bad = "unique->error", fmt.Sprintf("exactly one comment matches (%s in bug %s) but the call failed: %v", wc.Combined, wc.Bug, a.err)
			} else if a.Id != wc.Combined || a.Bug != wc.Bug {
				tail, bad = "unique->other-comment", fmt.Sprintf("exactly one comment matches (%s in bug %s) but (%s, bug %s) was returned", wc.Combined, wc.Bug, a.Id, a.Bug)
			}
		case a.err == nil:
			tail, bad = kind.String()+"->success", fmt.Sprintf("%d comments match, yet it returned comment %s without error", len(want), a.Id)
		}
		acc.eval(fmt.Sprintf("bugs.ResolveComment@session/%s/%s/%s/%s", q.Role, q.Kind, lenClass(q.L), kind), q.L >= 1 && popN["comments"] >= 2)
		acc.count(fmt.Sprintf("session_outcome/bugs.ResolveComment/%s/%s", q.Role, tail), 1)
		if bad != "" {
			acc.finding(fmt.Sprintf("session:bugs.ResolveComment:%s", tail),
				fmt.Sprintf("ResolveComment(%q) after batch %d [%s] of a long-lived cache (%s): %s — the query derives from a combined id in the role %q",
					q.S, s.batchNo, s.pattern, s.elemsText(), bad, q.Role),
				witness("bugs.ResolveComment", q, kind, want, a, nil))
		}
	}
	acc.count("session_queries/bugs", len(bugQ))
	acc.count("session_queries/identities", len(identQ))
	acc.count("session_queries/comments", len(comQ))
}

// ---- the session ---------------------------------------------------------------------------------

// c13MutatingSession runs after the passes over the fixed population. It reopens the repository
// and leaves the replica with an open cache (closed by World.Close).
func c13MutatingSession(p c13Pop, cw *c13World, commentOf map[string]c13Comment, acc *c13Acc) (sample map[string]any) {
	if p.Steps <= 0 {
		return nil
	}
	r := cw.rep
	if err := r.Reopen(bug.ClockLoader); err != nil {
		acc.res.Inconclusive = append(acc.res.Inconclusive, "mutating session: cannot reopen the repository: "+err.Error())
		return nil
	}
	c, err := cache.NewRepoCacheNoEvents(r.Repo)
	if err != nil {
		acc.res.Inconclusive = append(acc.res.Inconclusive, "mutating session: cannot open the cache: "+err.Error())
		return nil
	}
	r.Cache = c
	_ = _select.Clear(c, bug.Namespace)

	s := &c13Session{p: p, acc: acc, w: cw.w, r: r, c: c,
		rng:  mon.Rng(p.Seed, "c13-session-"+p.Name, p.Idx),
		bugs: map[string]bool{}, idents: map[string]bool{}, ops: map[string][]string{}, combined: map[string]map[string]string{},
		bugMeta: map[string]string{}, identMeta: map[string]string{}, authored: map[string]bool{},
		oBugs: map[string]bool{}, oIdents: map[string]bool{}, oOps: map[string][]string{}, peerBugs: map[string]bool{},
	}
	for _, id := range cw.bugIds {
		s.bugs[id] = true
		s.ops[id] = append([]string(nil), cw.bugOps[id]...)
		s.combined[id] = map[string]string{}
	}
	for _, cm := range commentOf {
		if s.combined[cm.Bug] != nil {
			s.combined[cm.Bug][cm.Op] = cm.Combined
		}
	}
	for _, id := range cw.identIds {
		s.idents[id] = true
	}
	for id := range cw.authored {
		s.authored[id] = true
	}
	for v, ids := range cw.bugMeta {
		for _, id := range ids {
			s.bugMeta[id] = v
		}
	}
	for v, ids := range cw.identMeta {
		for _, id := range ids {
			s.identMeta[id] = v
		}
	}

	// the session starts with questions (whatever a lookup wants to remember, it may remember now)
	s.pattern = "start"
	s.ask()
	for _, batch := range c13SessionPlan(s.rng, p.Steps, p.Idx) {
		if s.broken != "" {
			break
		}
		nBugs, nIdents := len(s.bugs), len(s.idents)
		before := strings.Join(sortedKeys(s.bugs), ",")
		beforeI := strings.Join(sortedKeys(s.idents), ",")
		s.apply(batch)
		if s.broken != "" {
			break
		}
		class := func(n0, n1 int, same bool) string {
			switch {
			case same:
				return "unchanged"
			case n0 == n1:
				return "count-constant"
			case n1 > n0:
				return "grown"
			}
			return "shrunk"
		}
		acc.count("session_batches_bugs/"+class(nBugs, len(s.bugs), before == strings.Join(sortedKeys(s.bugs), ",")), 1)
		acc.count("session_batches_identities/"+class(nIdents, len(s.idents), beforeI == strings.Join(sortedKeys(s.idents), ",")), 1)
		s.ask()
		if s.broken == "" && len(s.elems) > 1 && (sample == nil || s.rng.Intn(3) == 0) {
			sample = map[string]any{"batch": s.batchNo, "pattern": s.pattern, "changes": s.elems, "bugs_after": len(s.bugs), "identities_after": len(s.idents)}
		}
	}
	if s.broken != "" {
		acc.res.Inconclusive = append(acc.res.Inconclusive, s.broken)
	}
	return sample
}
