package checks

// C13, held and concurrent answers — the answer of a resolution is a value of its own.
//
// The statement of C13 says what a resolution returns: that entity, a multiple-match
// error listing exactly the matching ids, not-found. A caller may look at what it was
// handed at any later moment (the CLI formats the error after more work, the GraphQL
// layer resolves several aliased bug(prefix:) / identity(prefix:) fields at once and
// renders all of them at the end), so what was returned must still be that answer
//
//	(1) after later resolutions on the same cache ("held answers"): sequences of two or
//	    three resolutions are performed, the returned objects (entity, excerpt, error
//	    object, (bug, combined id) of ResolveComment) are kept as they are and only read
//	    and judged against the model when the whole sequence has been performed;
//	(2) while other resolutions run on the same cache ("concurrent"): 4..8 goroutines
//	    each resolve a seed-determined list of prefixes (unique, ambiguous, unknown; bugs,
//	    identities, comments) against the one cache, every answer judged against the
//	    model. The population does not change and every entity is in memory, so the
//	    model's prediction is the only acceptable answer whatever the interleaving.
//
// Both parts run on the cache that has just been built (all entities loaded): nothing is
// read from git during the resolutions and the population is constant.

import (
	"fmt"
	"math/rand"
	"sort"
	"strings"
	"sync"
	"sync/atomic"

	"github.com/MichaelMure/git-bug/cache"
	"github.com/MichaelMure/git-bug/entity"

	"verif/harness/mon"
	"verif/harness/refmodel"
)

// c13Raw is what one resolution handed back, untouched.
type c13Raw struct {
	ent       interface{ Id() entity.Id } // entity or excerpt, only when the call succeeded
	comment   bool                        // ResolveComment: bug + comb
	bug       *cache.BugCache
	comb      entity.CombinedId
	err       error
	panicked  any
	succeeded bool
}

// read looks at the kept objects NOW.
func (h *c13Raw) read() (a c13Ans) {
	if h.panicked != nil {
		return c13Classify("", nil, h.panicked)
	}
	defer func() {
		if p := recover(); p != nil {
			a = c13Classify("", nil, fmt.Sprintf("reading the returned object: %v", p))
		}
	}()
	id := ""
	switch {
	case h.err != nil:
	case h.comment:
		id = string(h.comb)
	case h.ent != nil:
		id = string(h.ent.Id())
	}
	a = c13Classify(id, h.err, nil)
	if h.comment && h.err == nil {
		a.Bug = "<nil>"
		if h.bug != nil {
			a.Bug = string(h.bug.Id())
		}
	}
	return a
}

func c13RawCall(f func(h *c13Raw) error) *c13Raw {
	h := &c13Raw{}
	func() {
		defer func() { h.panicked = recover() }()
		h.err = f(h)
		h.succeeded = h.err == nil
	}()
	if h.err != nil || h.panicked != nil {
		h.ent, h.bug = nil, nil // a typed nil inside the interface is not an entity
	}
	return h
}

// c13HeldApi is one resolution API with its queries sorted by the model's verdict.
type c13HeldApi struct {
	name   string
	ns     string // sub-cache: bugs | identities
	weight int
	call   func(c *cache.RepoCache, q string) *c13Raw
	judge  func(kind refmodel.PrefixKind, want []string, a c13Ans) (tail string, bad string)

	qs     []c13Query
	exp    []c13Expect
	byKind map[refmodel.PrefixKind][]int
	bySize map[int][]int // multiple: number of matches -> queries
	sizes  []int
}

func (api *c13HeldApi) load(qs []c13Query, model func(string) (refmodel.PrefixKind, []string)) {
	api.qs = qs
	api.exp = make([]c13Expect, len(qs))
	api.byKind = map[refmodel.PrefixKind][]int{}
	api.bySize = map[int][]int{}
	for i, q := range qs {
		kind, want := model(q.S)
		api.exp[i] = c13Expect{kind: kind, want: want}
		api.byKind[kind] = append(api.byKind[kind], i)
		if kind == refmodel.PrefixMultiple {
			api.bySize[len(want)] = append(api.bySize[len(want)], i)
		}
	}
	for n := range api.bySize {
		api.sizes = append(api.sizes, n)
	}
	sort.Ints(api.sizes)
}

// pick draws a query of the wanted class (-1 when the population offers none). Ambiguous
// queries are drawn by number of matches first, so that long and short lists follow each other.
func (api *c13HeldApi) pick(kind refmodel.PrefixKind, rng *rand.Rand) int {
	if kind == refmodel.PrefixMultiple {
		if len(api.sizes) == 0 {
			return -1
		}
		l := api.bySize[api.sizes[rng.Intn(len(api.sizes))]]
		return l[rng.Intn(len(l))]
	}
	l := api.byKind[kind]
	if len(l) == 0 {
		return -1
	}
	return l[rng.Intn(len(l))]
}

// pickAny: the wanted class, else whatever class the population offers.
func (api *c13HeldApi) pickAny(kind refmodel.PrefixKind, rng *rand.Rand) int {
	if i := api.pick(kind, rng); i >= 0 {
		return i
	}
	for _, k := range []refmodel.PrefixKind{refmodel.PrefixUnique, refmodel.PrefixMultiple, refmodel.PrefixNone} {
		if i := api.pick(k, rng); i >= 0 {
			return i
		}
	}
	return -1
}

func c13JudgeCommentAns(commentOf map[string]c13Comment) func(refmodel.PrefixKind, []string, c13Ans) (string, string) {
	return func(kind refmodel.PrefixKind, want []string, a c13Ans) (string, string) {
		switch {
		case a.panicked != nil:
			return kind.String() + "->panic", "panic: " + a.Text
		case kind == refmodel.PrefixUnique:
			wc := commentOf[want[0]]
			if a.err != nil {
				return "unique->error", fmt.Sprintf("exactly one comment matches (%s in bug %s) but the call failed: %v", wc.Combined, wc.Bug, a.err)
			}
			if a.Id != wc.Combined || a.Bug != wc.Bug {
				return "unique->other-comment", fmt.Sprintf("exactly one comment matches (%s in bug %s) but (%s, bug %s) was returned", wc.Combined, wc.Bug, a.Id, a.Bug)
			}
			return "unique->resolved", ""
		case a.err == nil:
			return kind.String() + "->success", fmt.Sprintf("%d comments match, yet comment %s was returned without error", len(want), a.Id)
		}
		// the error type for zero or several matching comments is not prescribed by the statement
		return kind.String() + "->error", ""
	}
}

func c13HeldApis(commentOf map[string]c13Comment) []*c13HeldApi {
	metaArgs := func(q string) (string, string) {
		if q == "o-absent-key" {
			return "c13-no-such-key", "o0"
		}
		return c13MetaKey, q
	}
	return []*c13HeldApi{
		{name: "bugs.ResolvePrefix", ns: "bugs", weight: 4, judge: c13JudgePrefix,
			call: func(c *cache.RepoCache, q string) *c13Raw {
				return c13RawCall(func(h *c13Raw) error {
					b, err := c.Bugs().ResolvePrefix(q)
					h.ent = b
					return err
				})
			}},
		{name: "bugs.ResolveExcerptPrefix", ns: "bugs", weight: 4, judge: c13JudgePrefix,
			call: func(c *cache.RepoCache, q string) *c13Raw {
				return c13RawCall(func(h *c13Raw) error {
					e, err := c.Bugs().ResolveExcerptPrefix(q)
					h.ent = e
					return err
				})
			}},
		{name: "bugs.ResolveComment", ns: "bugs", weight: 2, judge: c13JudgeCommentAns(commentOf),
			call: func(c *cache.RepoCache, q string) *c13Raw {
				return c13RawCall(func(h *c13Raw) error {
					h.comment = true
					b, comb, err := c.Bugs().ResolveComment(q)
					h.bug, h.comb = b, comb
					return err
				})
			}},
		{name: "bugs.ResolveBugCreateMetadata", ns: "bugs", weight: 1, judge: c13JudgeMeta,
			call: func(c *cache.RepoCache, q string) *c13Raw {
				return c13RawCall(func(h *c13Raw) error {
					k, v := metaArgs(q)
					b, err := c.Bugs().ResolveBugCreateMetadata(k, v)
					h.ent = b
					return err
				})
			}},
		{name: "identities.ResolvePrefix", ns: "identities", weight: 4, judge: c13JudgePrefix,
			call: func(c *cache.RepoCache, q string) *c13Raw {
				return c13RawCall(func(h *c13Raw) error {
					i, err := c.Identities().ResolvePrefix(q)
					h.ent = i
					return err
				})
			}},
		{name: "identities.ResolveExcerptPrefix", ns: "identities", weight: 4, judge: c13JudgePrefix,
			call: func(c *cache.RepoCache, q string) *c13Raw {
				return c13RawCall(func(h *c13Raw) error {
					e, err := c.Identities().ResolveExcerptPrefix(q)
					h.ent = e
					return err
				})
			}},
		{name: "identities.ResolveIdentityImmutableMetadata", ns: "identities", weight: 1, judge: c13JudgeMeta,
			call: func(c *cache.RepoCache, q string) *c13Raw {
				return c13RawCall(func(h *c13Raw) error {
					k, v := metaArgs(q)
					i, err := c.Identities().ResolveIdentityImmutableMetadata(k, v)
					h.ent = i
					return err
				})
			}},
	}
}

func c13MetaAsQueries(m map[string][]string) []c13Query {
	var out []c13Query
	for _, v := range append(c13MetaQueries(m), "o-absent-key") {
		out = append(out, c13Query{S: v, Kind: "metadata", L: len(v)})
	}
	return out
}

func c13WeightedApi(apis []*c13HeldApi, rng *rand.Rand) *c13HeldApi {
	total := 0
	for _, a := range apis {
		if len(a.qs) > 0 {
			total += a.weight
		}
	}
	if total == 0 {
		return nil
	}
	n := rng.Intn(total)
	for _, a := range apis {
		if len(a.qs) == 0 {
			continue
		}
		if n < a.weight {
			return a
		}
		n -= a.weight
	}
	return nil
}

func c13KindLetter(k refmodel.PrefixKind) string { return strings.ToUpper(k.String()[:1]) }

// c13HeldAndConcurrent runs both parts on the cache c that has just been built over the static
// population of cw. It does not change the population, the cache stays open.
func c13HeldAndConcurrent(p c13Pop, cw *c13World, c *cache.RepoCache,
	bugPop, identPop, comPop *refmodel.PrefixPopulation, commentOf map[string]c13Comment,
	bugQ, identQ, comQ []c13Query, acc *c13Acc) {

	thorough := p.Thorough
	popN := map[string]int{"bugs": bugPop.Len(), "identities": identPop.Len()}
	apis := c13HeldApis(commentOf)
	byName := map[string]*c13HeldApi{}
	for _, api := range apis {
		byName[api.name] = api
	}
	byName["bugs.ResolvePrefix"].load(bugQ, bugPop.Resolve)
	byName["bugs.ResolveExcerptPrefix"].load(bugQ, bugPop.Resolve)
	byName["bugs.ResolveComment"].load(comQ, comPop.Resolve)
	byName["bugs.ResolveBugCreateMetadata"].load(c13MetaAsQueries(cw.bugMeta), c13MetaModel(cw.bugMeta))
	byName["identities.ResolvePrefix"].load(identQ, identPop.Resolve)
	byName["identities.ResolveExcerptPrefix"].load(identQ, identPop.Resolve)
	byName["identities.ResolveIdentityImmutableMetadata"].load(c13MetaAsQueries(cw.identMeta), c13MetaModel(cw.identMeta))
	perNs := map[string][]*c13HeldApi{}
	for _, api := range apis {
		perNs[api.ns] = append(perNs[api.ns], api)
		perNs["mixed"] = append(perNs["mixed"], api)
	}

	// ---- (1) held answers ---------------------------------------------------------------
	kinds := []refmodel.PrefixKind{refmodel.PrefixUnique, refmodel.PrefixMultiple, refmodel.PrefixNone}
	var patterns [][]refmodel.PrefixKind
	for _, a := range kinds {
		for _, b := range kinds {
			patterns = append(patterns, []refmodel.PrefixKind{a, b})
		}
	}
	for _, a := range kinds {
		for _, b := range kinds {
			for _, d := range kinds {
				patterns = append(patterns, []refmodel.PrefixKind{a, b, d})
			}
		}
	}
	type heldStep struct {
		api   *c13HeldApi
		qi    int
		raw   *c13Raw
		first c13Ans
	}
	mult := 1
	if thorough {
		mult = 3
	}
	plan := []struct {
		group string
		n     int
	}{{"bugs", 1260 * mult}, {"identities", 900 * mult}, {"mixed", 540 * mult}}
	for gi, g := range plan {
		rng := mon.Rng(p.Seed, "c13-held-"+g.group+"-"+p.Name, p.Idx*8+gi)
		for t := 0; t < g.n; t++ {
			pat := patterns[t%len(patterns)]
			var steps []*heldStep
			for _, k := range pat {
				api := c13WeightedApi(perNs[g.group], rng)
				if api == nil {
					break
				}
				qi := api.pickAny(k, rng)
				if qi < 0 {
					break
				}
				steps = append(steps, &heldStep{api: api, qi: qi})
			}
			if len(steps) < 2 {
				continue
			}
			// perform all of them, keep what they returned
			for _, s := range steps {
				s.raw = s.api.call(c, s.api.qs[s.qi].S)
				s.first = s.raw.read()
			}
			acc.count("held/sequences", 1)
			// ... and only now judge them
			for pos, s := range steps {
				q, e := s.api.qs[s.qi], s.api.exp[s.qi]
				a := s.raw.read()
				tail, bad := s.api.judge(e.kind, e.want, a)
				last := pos == len(steps)-1
				var after []string
				sameSub := false
				for _, l := range steps[pos+1:] {
					after = append(after, l.api.name+":"+c13KindLetter(l.api.exp[l.qi].kind))
					if l.api.ns == s.api.ns {
						sameSub = true
					}
				}
				sub := "same-subcache"
				if !sameSub {
					sub = "other-subcache"
				}
				if last {
					sub = "last"
				}
				acc.eval(fmt.Sprintf("held/%s/%s/%s/%dof%d/%s/then:%s", s.api.name, q.Kind, e.kind, pos+1, len(steps), sub, strings.Join(after, ",")),
					!last && popN[s.api.ns] >= 2)
				if !last {
					acc.count("held/answers_judged_after_later_resolutions", 1)
					acc.count("held/outcome/"+s.api.name+"/"+tail, 1)
					if e.kind == refmodel.PrefixMultiple {
						acc.count("held/multiple_match_errors_kept", 1)
						follow := steps[pos+1]
						fe := follow.api.exp[follow.qi]
						if follow.api.ns == s.api.ns {
							switch {
							case len(fe.want) == 0:
								acc.seen("held/list_then", "no-match")
							case len(fe.want) < len(e.want):
								acc.seen("held/list_then", "fewer-matches")
							case len(fe.want) == len(e.want):
								acc.seen("held/list_then", "as-many-matches")
							default:
								acc.seen("held/list_then", "more-matches")
							}
						}
					}
					if a.canon() != s.first.canon() {
						acc.count("held/answers_that_changed_while_kept", 1)
					}
				}
				if bad == "" {
					continue
				}
				var seq []map[string]any
				for i, l := range steps {
					seq = append(seq, map[string]any{"n": i + 1, "api": l.api.name, "query": l.api.qs[l.qi].S, "expected": l.api.exp[l.qi].kind.String(), "matching": l.api.exp[l.qi].want, "read_right_after_the_call": l.first.String()})
				}
				rep := map[string]any{"part": "held-answers", "sequence": seq, "judged": pos + 1, "api": s.api.name, "query": q.S, "expected": e.kind.String(), "matching": e.want}
				if last {
					// nothing ran after it: the ordinary verdict, under the keys of the main pass
					key := "prefix:" + s.api.name + ":" + tail
					switch {
					case s.api.name == "bugs.ResolveComment":
						key = "comment:" + tail
					case strings.Contains(s.api.name, "Metadata"):
						key = "metadata:" + s.api.name + ":" + tail
					}
					acc.finding(key, fmt.Sprintf("%s(%q), last of a sequence of %d resolutions: %s", s.api.name, q.S, len(steps), bad), rep)
					continue
				}
				what := fmt.Sprintf("%s(%q) was performed, its answer kept, then %s performed on the same cache; read after those, the kept answer is wrong: %s (read right after the call it was: %s)",
					s.api.name, q.S, strings.Join(after, ", "), bad, s.first.String())
				acc.finding("held-answer:"+s.api.name+":"+tail, what, rep)
			}
		}
	}

	// ---- (2) concurrent resolutions ---------------------------------------------------------
	type conAsk struct {
		api *c13HeldApi
		qi  int
	}
	type conFinding struct {
		key, what string
		rep       map[string]any
	}
	type conResult struct {
		evals    map[string]int // signature -> count
		outcomes map[string]int
		findings []conFinding
		overlap  int
	}
	rounds := []string{"bugs", "identities", "mixed", "bugs-prefix-only"}
	if thorough {
		rounds = append(rounds, "bugs", "identities", "mixed", "bugs-prefix-only")
	}
	perG := 4000
	for ri, round := range rounds {
		rng := mon.Rng(p.Seed, "c13-concurrent-"+round+"-"+p.Name, p.Idx*16+ri)
		var pool []*c13HeldApi
		switch round {
		case "bugs-prefix-only":
			// every goroutine inside the one scan loop of the bug sub-cache
			pool = []*c13HeldApi{byName["bugs.ResolvePrefix"], byName["bugs.ResolveExcerptPrefix"]}
		default:
			pool = perNs[round]
		}
		if c13WeightedApi(pool, rng) == nil {
			continue
		}
		g := 4 + rng.Intn(5)
		lists := make([][]conAsk, g)
		for w := 0; w < g; w++ {
			for n := 0; n < perG; n++ {
				api := c13WeightedApi(pool, rng)
				// unique 50 %, ambiguous 30 %, unknown 20 %
				k := refmodel.PrefixUnique
				switch d := rng.Intn(10); {
				case d >= 8:
					k = refmodel.PrefixNone
				case d >= 5:
					k = refmodel.PrefixMultiple
				}
				qi := api.pickAny(k, rng)
				if qi < 0 {
					continue
				}
				lists[w] = append(lists[w], conAsk{api, qi})
			}
		}
		results := make([]conResult, g)
		var inflight atomic.Int32
		var wg sync.WaitGroup
		start := make(chan struct{})
		for w := 0; w < g; w++ {
			wg.Add(1)
			go func(w int) {
				defer wg.Done()
				res := conResult{evals: map[string]int{}, outcomes: map[string]int{}}
				keys := map[string]int{}
				<-start
				for n, ask := range lists[w] {
					q, e := ask.api.qs[ask.qi], ask.api.exp[ask.qi]
					if inflight.Add(1) > 1 {
						res.overlap++
					}
					raw := ask.api.call(c, q.S)
					inflight.Add(-1)
					a := raw.read()
					tail, bad := ask.api.judge(e.kind, e.want, a)
					res.evals[fmt.Sprintf("concurrent/%s/%s/%s/%s/%s", round, ask.api.name, q.Kind, lenClass(q.L), e.kind)]++
					res.outcomes[ask.api.name+"/"+tail]++
					if bad == "" {
						continue
					}
					key := "concurrent:" + ask.api.name + ":" + tail
					keys[key]++
					if keys[key] > 2 {
						continue
					}
					res.findings = append(res.findings, conFinding{key,
						fmt.Sprintf("%s(%q) asked by goroutine %d of %d (its call number %d) while the others resolve other prefixes on the same cache (round %q): %s", ask.api.name, q.S, w+1, g, n+1, round, bad),
						map[string]any{"part": "concurrent", "round": round, "goroutines": g, "api": ask.api.name, "query": q.S, "expected": e.kind.String(), "matching": e.want, "observed": a.String()}})
				}
				results[w] = res
			}(w)
		}
		close(start)
		wg.Wait()
		acc.count("concurrent/rounds", 1)
		acc.seen("concurrent/goroutines_per_round", fmt.Sprintf("%d", g))
		for _, res := range results {
			for sig, n := range res.evals {
				ns := "bugs"
				if strings.Contains(sig, "/identities.") {
					ns = "identities"
				}
				acc.res.Evals += n - 1
				acc.eval(sig, popN[ns] >= 2 && g >= 2)
			}
			for k, n := range res.outcomes {
				acc.count("concurrent/outcome/"+k, n)
			}
			acc.count("concurrent/calls_started_while_another_was_in_flight", res.overlap)
			for _, f := range res.findings {
				acc.finding(f.key, f.what, f.rep)
			}
		}
		if popN["bugs"]+popN["identities"] >= 2 {
			acc.count("concurrent/rounds_on_populations_of_two_or_more", 1)
		}
	}
}
