package checks

import (
	"os"
	"runtime"
	"sync"
)

// parallel runs fn(i) for i in [0,n) on up to GOMAXPROCS workers; results are
// consumed in index order by the caller through the returned slice.
func parallel[T any](n int, fn func(i int) T) []T {
	out := make([]T, n)
	workers := runtime.GOMAXPROCS(0)
	if workers > n {
		workers = n
	}
	if workers < 1 {
		workers = 1
	}
	var wg sync.WaitGroup
	next := make(chan int, n)
	for i := 0; i < n; i++ {
		next <- i
	}
	close(next)
	for w := 0; w < workers; w++ {
		wg.Add(1)
		go func() {
			defer wg.Done()
			for i := range next {
				out[i] = fn(i)
			}
		}()
	}
	wg.Wait()
	return out
}

func removeAll(dir string) error { return os.RemoveAll(dir) }
