package checks

// C19 — only one process at a time can open a repository's cache.
//
// Real processes (the CLI binary built with -tags verif) are driven along
// generated schedules on fresh repositories; everything that happens is appended
// to an event log {spawn, proof, signal, exit (reaped), observe (lock file, refs,
// files)}; the log is then checked OFFLINE by the one-slot lock model in
// refmodel/lock.go. No verdict depends on time: readiness comes from output lines
// and from the ownership of the listening socket, process end from Wait().

import (
	"bytes"
	"crypto/sha256"
	"encoding/hex"
	"encoding/json"
	"fmt"
	"hash/fnv"
	"math/rand"
	"net"
	"os"
	"os/exec"
	"path/filepath"
	"sort"
	"strconv"
	"strings"
	"sync"
	"syscall"
	"time"

	"github.com/MichaelMure/git-bug/entities/bug"
	"github.com/MichaelMure/git-bug/entities/identity"
	"github.com/MichaelMure/git-bug/repository"

	"verif/harness/mon"
	"verif/harness/refmodel"
	"verif/harness/world"
)

func init() { register("C19", runC19) }

// ---- schedules -----------------------------------------------------------------

// LockStep is one step of a process schedule.
type LockStep struct {
	Op     string   `json:"op"`             // start | run | signal | reap | observe | occupy | race | fault | park | resume | await | phase | stop | cont | steer | settle | drain
	P      string   `json:"p,omitempty"`    // process label
	Cmd    string   `json:"cmd,omitempty"`  // command class (see c19Command)
	Wait   string   `json:"wait,omitempty"` // start: ready | resolved (ready or exited) | building | none
	Delays string   `json:"delays,omitempty"`
	Sig    string   `json:"sig,omitempty"`
	Ps     []string `json:"ps,omitempty"`   // race: the labels to resolve; await: stop waiting when one of these is ready
	Lazy   bool     `json:"lazy,omitempty"` // start: do not reap until a reap step (keeps a zombie)
	Tag    string   `json:"tag,omitempty"`
	Uid    int      `json:"uid,omitempty"`     // start/run: run the process under this (unprivileged) uid and gid; 0 = the harness's own
	Guard  string   `json:"guard,omitempty"`   // run: label of the live holder; stop waiting as soon as the lock file no longer holds its pid
	IfLive bool     `json:"if_live,omitempty"` // signal, stop: skip when the process has already been reaped
	Via    string   `json:"via,omitempty"`     // stop: sigstop | ptrace
	Dur    string   `json:"dur,omitempty"`     // steer: how long (at most) to let time pass
	Hold   string   `json:"hold,omitempty"`    // start: run under the system-call tracer, one thread to be held at: liveness | cleanup
	At     string   `json:"at,omitempty"`      // start/run: the entry point of the repository the process is started in (see c19EntryPoints; "" = the main work tree)
	Record bool     `json:"record,omitempty"`  // start/run: the outcome is recorded, not judged (the statement is silent about the situation)
	Plant  string   `json:"plant,omitempty"`   // plant: what the lock file put in place names (see c19PlantSpecs)
}

// LockSchedule is one replayable case.
type LockSchedule struct {
	Name     string     `json:"name"`
	Kind     string     `json:"kind"`
	Identity bool       `json:"identity"`
	Bugs     int        `json:"bugs"`
	Port     int        `json:"port"`
	Steps    []LockStep `json:"steps"`
	Shape    string     `json:"shape"`
	Mode     string     `json:"mode,omitempty"` // ho-held: liveness | cleanup (chosen by the position in the list)
}

type c19Cmd struct {
	argv   []string
	opens  bool
	benign bool
	long   bool
	class  string // class used by the model (Violation keys)
}

const c19Unknown = "fffffffffffffffffff"

// c19Command maps a command class to a command line. Failing commands get the class
// of their failure so that keys read "lock-left-behind:no-identity".
func c19Command(class string, port int) c19Cmd {
	p := strconv.Itoa(port)
	switch class {
	case "webui":
		return c19Cmd{argv: []string{"webui", "--no-open", "--port", p}, opens: true, long: true, class: "webui"}
	case "webui-ro":
		return c19Cmd{argv: []string{"webui", "--no-open", "--read-only", "--port", p}, opens: true, long: true, class: "webui"}
	case "bug":
		return c19Cmd{argv: []string{"bug"}, opens: true, benign: true, class: "bug"}
	case "bug-new":
		return c19Cmd{argv: []string{"bug", "new", "--non-interactive", "-t", "lock probe", "-m", "zq17xk"}, opens: true, class: "bug-new"}
	case "pull":
		return c19Cmd{argv: []string{"pull"}, opens: true, class: "pull"}
	case "push":
		return c19Cmd{argv: []string{"push"}, opens: true, class: "push"}
	case "user":
		return c19Cmd{argv: []string{"user"}, opens: true, benign: true, class: "user"}
	case "label":
		return c19Cmd{argv: []string{"label"}, opens: true, benign: true, class: "label"}
	case "wipe":
		return c19Cmd{argv: []string{"wipe"}, opens: true, class: "wipe"}
	// commands that fail after (or while) opening the cache
	case "show-unknown":
		return c19Cmd{argv: []string{"bug", "show", c19Unknown}, opens: true, class: "unknown-bug-id"}
	case "rm-unknown":
		return c19Cmd{argv: []string{"bug", "rm", c19Unknown}, opens: true, class: "unknown-bug-id"}
	case "select-unknown":
		return c19Cmd{argv: []string{"bug", "select", c19Unknown}, opens: true, class: "unknown-bug-id"}
	case "comment-unknown":
		return c19Cmd{argv: []string{"bug", "comment", "new", c19Unknown, "--non-interactive", "-m", "x"}, opens: true, class: "unknown-bug-id"}
	case "bad-query":
		return c19Cmd{argv: []string{"bug", "status:nonsense"}, opens: true, class: "bad-query"}
	case "pull-unknown-remote":
		return c19Cmd{argv: []string{"pull", "nosuchremote"}, opens: true, class: "unknown-remote"}
	case "push-unknown-remote":
		return c19Cmd{argv: []string{"push", "nosuchremote"}, opens: true, class: "unknown-remote"}
	case "adopt-unknown":
		return c19Cmd{argv: []string{"user", "adopt", c19Unknown}, opens: true, class: "unknown-user-id"}
	case "webui-busy-port":
		return c19Cmd{argv: []string{"webui", "--no-open", "--read-only", "--port", p}, opens: true, class: "port-in-use"}
	// commands that need an identity, run in a repository without one
	case "noid-bug-new":
		return c19Cmd{argv: []string{"bug", "new", "--non-interactive", "-t", "t", "-m", "m"}, opens: true, class: "no-identity"}
	case "noid-comment":
		return c19Cmd{argv: []string{"bug", "comment", "new", "--non-interactive", "-m", "m"}, opens: true, class: "no-identity"}
	case "noid-close":
		return c19Cmd{argv: []string{"bug", "status", "close"}, opens: true, class: "no-identity"}
	case "noid-title":
		return c19Cmd{argv: []string{"bug", "title", "edit", "--non-interactive", "-t", "t"}, opens: true, class: "no-identity"}
	case "noid-label":
		return c19Cmd{argv: []string{"bug", "label", "new", "la"}, opens: true, class: "no-identity"}
	case "noid-user-show":
		return c19Cmd{argv: []string{"user", "show"}, opens: true, class: "no-identity"}
	case "noid-add-token":
		return c19Cmd{argv: []string{"bridge", "auth", "add-token", "--target", "gitlab", "--login", "l", "tok"}, opens: true, class: "no-identity"}
	}
	panic("c19: unknown command class " + class)
}

var c19Pattern = []string{
	"contend", "build", "failing", "contend", "toctou",
	"contend", "build", "chain", "contend", "failing",
	"contend", "build", "contend", "failing", "contend",
	"build", "zombie", "contend", "build", "toctou",
	"torn", "failing", "chain", "build", "contend",
	// (the first 25 entries are the quick list of the first build round; kept in place)
	"created", "xuid", "created", "xuid", "created", "xuid",
	// (31 entries up to here: second round; kept in place)
	"ho-race", "stopped", "ho-freeze", "traced", "ho-chain", "stopped",
	"ho-race", "stopped", "ho-freeze", "traced", "ho-stale", "ho-race",
	"ho-held", "ho-held",
	// (45 entries up to here: rounds 1-4; kept in place)
	// round 5: one repository entered through several directories (the position among the "entry"
	// schedules chooses the holder's entry point, so that a quick run has every entry point as holder),
	// planted stale locks over the whole range of pids (the position chooses the slice of the two lists)
	"entry", "stalepid", "entry", "entry", "stalepid", "entry", "entry", "stalepid",
}

// c19Occurrence says which occurrence of its kind the i-th schedule of the list is.
func c19Occurrence(i int) int {
	kind := c19Pattern[i%len(c19Pattern)]
	per, before := 0, 0
	for k, v := range c19Pattern {
		if v == kind {
			per++
			if k < i%len(c19Pattern) {
				before++
			}
		}
	}
	return (i/len(c19Pattern))*per + before
}

// the two unprivileged accounts of the cross-uid schedules (no passwd entry needed)
const (
	c19UidA = 61001
	c19UidB = 61002
)

func pick(rng *rand.Rand, l ...string) string { return l[rng.Intn(len(l))] }

func c19Schedules(r *mon.Run) []LockSchedule {
	n := r.Pick(len(c19Pattern), 13*len(c19Pattern))
	out := make([]LockSchedule, 0, n)
	for i := 0; i < n; i++ {
		out = append(out, c19Schedule(r.Seed, i))
	}
	return out
}

func c19Schedule(seed int64, i int) LockSchedule {
	rng := mon.Rng(seed, "c19", i)
	kind := c19Pattern[i%len(c19Pattern)]
	s := LockSchedule{Name: fmt.Sprintf("%s-%d", kind, i), Kind: kind, Identity: true, Bugs: rng.Intn(4)}
	add := func(st ...LockStep) { s.Steps = append(s.Steps, st...) }
	run := func(label, class string) {
		add(LockStep{Op: "observe", Tag: "before " + label}, LockStep{Op: "run", P: label, Cmd: class}, LockStep{Op: "observe", Tag: "after " + label})
	}
	benign := func() string {
		if s.Identity {
			return pick(rng, "bug", "bug-new", "pull", "push", "user", "bug")
		}
		return pick(rng, "bug", "pull", "user", "label")
	}
	var shape []string
	switch kind {
	case "contend":
		holder := "webui"
		if rng.Intn(4) == 0 {
			holder = "webui-ro"
			s.Identity = rng.Intn(2) == 0
		}
		prebuilt := rng.Intn(2) == 0
		if prebuilt {
			run("P0", "bug")
		}
		add(LockStep{Op: "start", P: "H", Cmd: holder, Wait: "ready"}, LockStep{Op: "observe", Tag: "holder ready"})
		nC := rng.Intn(3)
		shape = append(shape, holder, fmt.Sprintf("id=%v prebuilt=%v", s.Identity, prebuilt))
		for c := 0; c < nC; c++ {
			class := benign()
			if rng.Intn(5) == 0 {
				class = "webui-ro" // a second long-lived opener: must be refused and exit
			}
			run(fmt.Sprintf("C%d", c), class)
			shape = append(shape, "c:"+class)
		}
		sig := pick(rng, "SIGINT", "SIGTERM", "SIGKILL")
		add(LockStep{Op: "signal", P: "H", Sig: sig}, LockStep{Op: "reap", P: "H"}, LockStep{Op: "observe", Tag: "holder gone"})
		shape = append(shape, sig)
		for a := 0; a < 1+rng.Intn(2); a++ {
			class := benign()
			run(fmt.Sprintf("A%d", a), class)
			shape = append(shape, "a:"+class)
		}
	case "build":
		victim := pick(rng, "webui", "bug", "pull", "bug-new", "webui")
		add(LockStep{Op: "start", P: "V", Cmd: victim, Wait: "building", Delays: "cache.build=150s"}, LockStep{Op: "observe", Tag: "victim building"})
		shape = append(shape, "victim:"+victim)
		if rng.Intn(2) == 0 {
			class := benign()
			run("C0", class)
			shape = append(shape, "c:"+class)
		}
		sig := pick(rng, "SIGKILL", "SIGKILL", "SIGINT", "SIGTERM")
		add(LockStep{Op: "signal", P: "V", Sig: sig}, LockStep{Op: "reap", P: "V"}, LockStep{Op: "observe", Tag: "victim gone"})
		shape = append(shape, sig)
		run("A0", "bug")
		if rng.Intn(2) == 0 {
			class := benign()
			run("A1", class)
			shape = append(shape, "a:"+class)
		}
	case "failing":
		s.Identity = rng.Intn(2) == 0
		var pool []string
		if s.Identity {
			pool = []string{"show-unknown", "rm-unknown", "select-unknown", "comment-unknown", "bad-query", "pull-unknown-remote", "push-unknown-remote", "adopt-unknown", "webui-busy-port"}
		} else {
			pool = []string{"noid-bug-new", "noid-comment", "noid-close", "noid-title", "noid-label", "noid-user-show", "noid-add-token", "show-unknown", "pull-unknown-remote", "adopt-unknown", "webui-busy-port"}
		}
		shape = append(shape, fmt.Sprintf("id=%v", s.Identity))
		nF := 1 + rng.Intn(3)
		for f := 0; f < nF; f++ {
			class := pool[rng.Intn(len(pool))]
			if f == 0 && !s.Identity {
				class = pool[rng.Intn(7)] // at least one identity-requiring command
			}
			label := fmt.Sprintf("F%d", f)
			if class == "webui-busy-port" {
				add(LockStep{Op: "occupy"})
			}
			run(label, class)
			shape = append(shape, "f:"+class)
		}
		run("A0", "bug")
	case "chain":
		nS := 3 + rng.Intn(3)
		for c := 0; c < nS; c++ {
			class := benign()
			run(fmt.Sprintf("S%d", c), class)
			shape = append(shape, class)
		}
		if rng.Intn(2) == 0 {
			run("W", "wipe")
			shape = append(shape, "wipe")
		}
		run("A0", "bug")
	case "toctou":
		other := pick(rng, "webui", "bug-new", "bug")
		run("P0", "bug") // build the cache first: the race is about the lock, not about two cache builds
		add(LockStep{Op: "observe", Tag: "free"},
			LockStep{Op: "start", P: "X", Cmd: "webui", Wait: "none", Delays: "cache.lock.window=1200ms"},
			LockStep{Op: "start", P: "Y", Cmd: other, Wait: "none", Delays: "cache.lock.window=4s"},
			LockStep{Op: "race", Ps: []string{"X", "Y"}})
		shape = append(shape, "webui+"+other)
		run("A0", "bug")
	case "torn":
		// the on-disk state a holder leaves when it is killed between the creation of the lock
		// file and the write of its pid (cache/repo_cache.go:lock does the two separately; shown
		// with `strace -e inject=write:signal=SIGKILL` on the lock path): an empty lock file, no process
		if rng.Intn(2) == 0 {
			run("P0", "bug")
			shape = append(shape, "prebuilt")
		}
		add(LockStep{Op: "fault", Cmd: "empty-lock"}, LockStep{Op: "observe", Tag: "torn lock file"})
		run("A0", "bug")
		class := benign()
		run("A1", class)
		shape = append(shape, "a:"+class)
	case "created":
		// A is parked (hook delay, then SIGSTOP once the state is seen) between its exclusive creation
		// of the lock file and the write of its pid: alive, lock file empty. Openers started meanwhile
		// run to their end (or to readiness); then A is resumed and finishes its open.
		prebuilt := rng.Intn(2) == 0
		if prebuilt {
			run("P0", "bug")
		}
		aClass := pick(rng, "webui", "webui", "webui-ro")
		add(LockStep{Op: "observe", Tag: "free"},
			LockStep{Op: "start", P: "A", Cmd: aClass, Wait: "none", Delays: "cache.lock.created=2s"},
			LockStep{Op: "park", P: "A"},
			LockStep{Op: "observe", Tag: "A parked after creating the lock file"})
		shape = append(shape, aClass, fmt.Sprintf("prebuilt=%v", prebuilt))
		var long []string
		nB := 1 + rng.Intn(2)
		for b := 0; b < nB; b++ {
			label := fmt.Sprintf("B%d", b)
			class := pick(rng, "webui", "bug", "bug-new", "webui-ro", "pull", "bug")
			if c19Command(class, 0).long {
				add(LockStep{Op: "observe", Tag: "before " + label}, LockStep{Op: "start", P: label, Cmd: class, Wait: "resolved"}, LockStep{Op: "observe", Tag: "after " + label})
				long = append(long, label)
			} else {
				run(label, class)
			}
			shape = append(shape, "b:"+class)
		}
		// (a long-lived opener that was granted the cache meanwhile keeps the index files locked: A
		// cannot be waited for until that one is closed)
		add(LockStep{Op: "resume", P: "A"}, LockStep{Op: "await", P: "A", Ps: long}, LockStep{Op: "observe", Tag: "A resumed"})
		for _, label := range long {
			add(LockStep{Op: "signal", P: label, Sig: "SIGINT", IfLive: true}, LockStep{Op: "reap", P: label})
		}
		if len(long) > 0 {
			add(LockStep{Op: "await", P: "A"}, LockStep{Op: "observe", Tag: "A resolved"})
		}
		sig := pick(rng, "SIGINT", "SIGTERM", "SIGKILL")
		add(LockStep{Op: "signal", P: "A", Sig: sig, IfLive: true}, LockStep{Op: "reap", P: "A"}, LockStep{Op: "observe", Tag: "A gone"})
		shape = append(shape, sig)
		run("A0", "bug")
	case "xuid":
		// holder and openers belong to different accounts: kill(holder, 0) fails with EPERM for the opener
		holderUid := c19UidA
		if rng.Intn(3) == 0 {
			holderUid = 0 // a root-run service on a repository the user can write
		}
		holder := pick(rng, "webui", "webui", "webui-ro")
		prebuilt := rng.Intn(2) == 0
		runAs := func(label, class string, uid int, guard string) {
			add(LockStep{Op: "observe", Tag: "before " + label}, LockStep{Op: "run", P: label, Cmd: class, Uid: uid, Guard: guard}, LockStep{Op: "observe", Tag: "after " + label})
		}
		if prebuilt {
			runAs("P0", "bug", holderUid, "")
		}
		add(LockStep{Op: "start", P: "H", Cmd: holder, Wait: "ready", Uid: holderUid}, LockStep{Op: "observe", Tag: "holder ready"})
		shape = append(shape, holder, fmt.Sprintf("holder-uid=%s prebuilt=%v", c19UidName(holderUid), prebuilt))
		nC := 1 + rng.Intn(2)
		for c := 0; c < nC; c++ {
			class := pick(rng, "bug", "bug-new", "user", "webui-ro", "pull", "bug")
			runAs(fmt.Sprintf("C%d", c), class, c19UidB, "H")
			shape = append(shape, "c:"+class)
		}
		sig := pick(rng, "SIGINT", "SIGTERM", "SIGKILL")
		add(LockStep{Op: "signal", P: "H", Sig: sig}, LockStep{Op: "reap", P: "H"}, LockStep{Op: "observe", Tag: "holder gone"})
		shape = append(shape, sig)
		aUid := c19UidB
		if rng.Intn(3) == 0 {
			aUid = holderUid
		}
		runAs("A0", "bug", aUid, "")
		shape = append(shape, "a:bug/"+c19UidName(aUid))
		if rng.Intn(2) == 0 {
			class := benign()
			runAs("A1", class, c19UidB, "")
			shape = append(shape, "a:"+class)
		}
	case "stopped":
		shape = c19SuspendedSchedule(&s, rng, "sigstop")
	case "traced":
		shape = c19SuspendedSchedule(&s, rng, "ptrace")
	case "ho-race", "ho-freeze", "ho-chain", "ho-stale":
		shape = c19HandoverSchedule(&s, rng, strings.TrimPrefix(kind, "ho-"))
	case "ho-held":
		s.Mode = []string{"liveness", "cleanup"}[(i%len(c19Pattern))%2]
		shape = c19HeldSchedule(&s, rng)
	case "entry":
		shape = c19EntrySchedule(&s, rng, c19Occurrence(i))
	case "stalepid":
		shape = c19StalePidSchedule(&s, rng, c19Occurrence(i))
	case "zombie":
		sig := "SIGKILL"
		add(LockStep{Op: "start", P: "H", Cmd: "webui", Wait: "ready", Lazy: true}, LockStep{Op: "observe", Tag: "holder ready"},
			LockStep{Op: "signal", P: "H", Sig: sig})
		run("Z0", "bug") // the holder is dead but not reaped: outcome not constrained by the model
		add(LockStep{Op: "reap", P: "H"}, LockStep{Op: "observe", Tag: "holder reaped"})
		run("A0", "bug")
	}
	s.Shape = kind + "[" + strings.Join(shape, " ") + "]"
	return s
}

func c19UidName(uid int) string {
	switch uid {
	case 0:
		return "root"
	case c19UidA:
		return "userA"
	case c19UidB:
		return "userB"
	}
	return strconv.Itoa(uid)
}

// ---- executor ------------------------------------------------------------------

type watchBuf struct {
	mu     sync.Mutex
	buf    bytes.Buffer
	notify chan struct{}
}

func newWatchBuf() *watchBuf { return &watchBuf{notify: make(chan struct{}, 1)} }

func (w *watchBuf) Write(p []byte) (int, error) {
	w.mu.Lock()
	w.buf.Write(p)
	w.mu.Unlock()
	select {
	case w.notify <- struct{}{}:
	default:
	}
	return len(p), nil
}

func (w *watchBuf) String() string {
	w.mu.Lock()
	defer w.mu.Unlock()
	return w.buf.String()
}

type c19Proc struct {
	id     int
	label  string
	spec   c19Cmd
	cmd    *exec.Cmd
	pid    int
	port   int
	out    *watchBuf
	errb   *watchBuf
	done   chan struct{} // closed when Wait returned
	waitMu sync.Once
	werr   error
	// what the executor already logged
	loggedBuilding, loggedReady, loggedExit, signalled bool
	loggedIndex                                        bool // proof "index" logged (hand-over schedules)
	stopped                                            bool // SIGSTOP sent and not yet SIGCONT
}

func (p *c19Proc) startWait() {
	p.waitMu.Do(func() {
		go func() {
			p.werr = p.cmd.Wait()
			close(p.done)
		}()
	})
}

func (p *c19Proc) exited() bool {
	select {
	case <-p.done:
		return true
	default:
		return false
	}
}

// C19Result is what one schedule produced.
type C19Result struct {
	Events       []refmodel.LockEvent
	Inconclusive string
	PortBusy     bool   // a holder could not bind: retry on other ports
	NotReached   string // the state the schedule is about could not be set up (hook point missing, window missed)
	Outcomes     map[string]string
	Notes        []string // "set|member" (or "counter|#") for the evidence: what the entry-point and planted-lock schedules saw
}

type c19Exec struct {
	sc     LockSchedule
	dir    string
	repo   string
	bin    string
	mu     sync.Mutex
	events []refmodel.LockEvent
	procs  map[string]*c19Proc
	nproc  int
	lns    []net.Listener
	res    *C19Result
	// second part (c19_handover.go)
	tracers  map[string]*c19Tracer
	holders  map[string]*c19Holder
	holdNext bool         // the next spawn goes through the self-stopping shell
	inLock   map[int]bool // pids seen in the lock file by watchOpeners
	repoReal string       // e.repo with symbolic links resolved (as /proc shows paths)
	nlong    int          // long-lived processes spawned so far
	// third part (c19_entry.go)
	atNext     string // the entry point of the next spawn
	recordNext bool   // the next spawn is recorded, not judged
	plantedPid int    // the pid named by the lock file planted last (0 = none, or not a pid a process can have here)
	plantedTag string
}

const c19Watchdog = 60 * time.Second

func (e *c19Exec) log(ev refmodel.LockEvent) {
	e.mu.Lock()
	ev.Seq = len(e.events) + 1
	e.events = append(e.events, ev)
	e.mu.Unlock()
}

func c19Setup(dir string, withIdentity bool, nBugs int) error {
	origin, err := repository.InitBareGoGitRepo(filepath.Join(dir, "origin"), world.Namespace)
	if err != nil {
		return err
	}
	defer origin.Close()
	rp, err := world.InitRepo(filepath.Join(dir, "repo"), false)
	if err != nil {
		return err
	}
	defer rp.Repo.Close()
	if err := rp.Tested.AddRemote("origin", origin.GetLocalRemote()); err != nil {
		return err
	}
	a, err := rp.NewAuthor("alice")
	if err != nil {
		return err
	}
	if withIdentity {
		if err := identity.SetUserIdentity(rp.Repo, a); err != nil {
			return err
		}
	}
	for i := 0; i < nBugs; i++ {
		b, _, err := bug.Create(a, int64(1_700_000_000+i), fmt.Sprintf("bug %d", i), "message", nil, nil)
		if err != nil {
			return err
		}
		if err := b.Commit(rp.Repo); err != nil {
			return err
		}
	}
	return rp.Push("origin")
}

func (e *c19Exec) observe(tag string) {
	ev := refmodel.LockEvent{Kind: "observe", Tag: tag, Files: map[string]string{}}
	gb := filepath.Join(e.repo, ".git", "git-bug")
	if data, err := os.ReadFile(filepath.Join(gb, "lock")); err == nil {
		ev.LockExists, ev.LockContent = true, string(data)
	} else if e.sc.Kind == "entry" {
		// the statement does not say where the lock is kept: a lock file kept in the private git
		// directory of a linked worktree is a lock file as well (when there is exactly one)
		if alt, _ := filepath.Glob(filepath.Join(e.repo, ".git", "worktrees", "*", "git-bug", "lock")); len(alt) == 1 {
			if data, err := os.ReadFile(alt[0]); err == nil {
				rel, _ := filepath.Rel(e.repo, alt[0])
				ev.LockExists, ev.LockContent, ev.Tag = true, string(data), tag+" [no .git/git-bug/lock; lock file found at "+rel+"]"
			}
		}
	}
	cmd := exec.Command("git", "for-each-ref")
	cmd.Dir = e.repo
	out, err := cmd.Output()
	if err != nil {
		ev.Refs = "error:" + err.Error()
	} else {
		h := sha256.Sum256(out)
		ev.Refs = hex.EncodeToString(h[:8])
	}
	_ = filepath.Walk(gb, func(path string, info os.FileInfo, err error) error {
		if err != nil || info.IsDir() {
			return nil
		}
		rel, _ := filepath.Rel(gb, path)
		if rel == "lock" {
			return nil
		}
		data, err := os.ReadFile(path)
		if err != nil {
			return nil
		}
		h := sha256.Sum256(data)
		ev.Files[rel] = hex.EncodeToString(h[:6])
		return nil
	})
	e.log(ev)
}

// openToAll makes everything under dir readable and writable by every account (an environment
// action of the cross-uid schedules: the repository is shared between accounts).
func openToAll(dir string) {
	_ = filepath.Walk(dir, func(path string, info os.FileInfo, err error) error {
		if err != nil || info.Mode()&os.ModeSymlink != 0 {
			return nil
		}
		m := info.Mode().Perm() | 0o666
		if info.IsDir() || info.Mode().Perm()&0o100 != 0 {
			m |= 0o111
		}
		if m != info.Mode().Perm() {
			_ = os.Chmod(path, m)
		}
		return nil
	})
}

// procStopped says that every thread of pid is in the stopped state (Linux /proc).
func procStopped(pid int) bool {
	tasks, err := os.ReadDir(fmt.Sprintf("/proc/%d/task", pid))
	if err != nil || len(tasks) == 0 {
		return false
	}
	for _, t := range tasks {
		data, err := os.ReadFile(fmt.Sprintf("/proc/%d/task/%s/stat", pid, t.Name()))
		if err != nil {
			return false
		}
		st := string(data)
		i := strings.LastIndexByte(st, ')')
		if i < 0 || i+2 >= len(st) || (st[i+2] != 'T' && st[i+2] != 't') {
			return false
		}
	}
	return true
}

// procUid returns the real uid of a live process (Linux /proc), -1 when unknown.
func procUid(pid int) int {
	data, err := os.ReadFile(fmt.Sprintf("/proc/%d/status", pid))
	if err != nil {
		return -1
	}
	for _, line := range strings.Split(string(data), "\n") {
		if strings.HasPrefix(line, "Uid:") {
			if f := strings.Fields(line); len(f) >= 2 {
				if v, err := strconv.Atoi(f[1]); err == nil {
					return v
				}
			}
		}
	}
	return -1
}

// c19AsUid makes cmd run under an unprivileged account with a home, config and temp directory of its own below dir.
func c19AsUid(cmd *exec.Cmd, dir string, uid int) {
	home := filepath.Join(dir, fmt.Sprintf("home-%d", uid))
	tmp := filepath.Join(dir, fmt.Sprintf("tmp-%d", uid))
	for _, d := range []string{home, filepath.Join(home, ".config"), tmp} {
		_ = os.MkdirAll(d, 0o777)
		_ = os.Chmod(d, 0o777)
	}
	cmd.SysProcAttr = &syscall.SysProcAttr{Credential: &syscall.Credential{Uid: uint32(uid), Gid: uint32(uid)}}
	cmd.Env = append(cmd.Env, "HOME="+home, "XDG_CONFIG_HOME="+filepath.Join(home, ".config"), "TMPDIR="+tmp, "USER="+c19UidName(uid), "LOGNAME="+c19UidName(uid))
}

func (e *c19Exec) spawn(label, class, delays string, lazy bool, uid int) (*c19Proc, error) {
	e.nproc++
	port := e.sc.Port + e.nproc
	switch e.sc.Kind {
	case "stopped", "traced", "ho-race", "ho-freeze", "ho-chain", "ho-stale", "ho-held":
		// many processes: only those that listen get a port of the schedule's range
		if c19Command(class, 0).long {
			e.nlong++
		}
		port = e.sc.Port + e.nlong
	}
	if class == "webui-busy-port" {
		port = e.sc.Port // the port the harness occupies
	}
	spec := c19Command(class, port)
	cmd := exec.Command(e.bin, spec.argv...)
	if e.sc.Kind == "xuid" {
		// shared repository: no umask (the shell execs git-bug, the pid stays), everything made so far opened up
		cmd = exec.Command("/bin/sh", append([]string{"-c", `umask 0; exec "$0" "$@"`, e.bin}, spec.argv...)...)
		openToAll(e.dir)
	}
	if e.holdNext {
		// the shell stops itself, is attached to by the tracer, and then execs git-bug (the pid stays)
		e.holdNext = false
		cmd = exec.Command("/bin/sh", append([]string{"-c", `kill -STOP $$; exec "$0" "$@"`, e.bin}, spec.argv...)...)
	}
	cmd.Dir = e.repo
	at, record := e.atNext, e.recordNext
	e.atNext, e.recordNext = "", false
	if at != "" {
		cmd.Dir = c19EntryDir(e.dir, at)
	}
	cmd.Env = os.Environ()
	if delays != "" {
		cmd.Env = append(cmd.Env, "VERIF_HOOK_DELAYS="+delays)
	}
	if uid != 0 {
		c19AsUid(cmd, e.dir, uid)
	}
	p := &c19Proc{id: e.nproc, label: label, spec: spec, cmd: cmd, port: port, out: newWatchBuf(), errb: newWatchBuf(), done: make(chan struct{})}
	cmd.Stdout, cmd.Stderr = p.out, p.errb
	if err := cmd.Start(); err != nil {
		return nil, err
	}
	p.pid = cmd.Process.Pid
	e.procs[label] = p
	// the uid recorded is the one the process really has (not reaped yet, so /proc still shows it)
	realUid := procUid(p.pid)
	if realUid < 0 {
		realUid = uid
	}
	argv := "git-bug " + strings.Join(spec.argv, " ")
	if e.sc.Kind == "entry" {
		argv += "` started in the " + c19EntryName(at) + " `" + strings.TrimPrefix(cmd.Dir, e.dir+"/")
	}
	e.log(refmodel.LockEvent{Kind: "spawn", Proc: p.id, Pid: p.pid, Class: spec.class, Argv: argv,
		Opens: spec.opens, Benign: spec.benign && !record, Delays: delays, Uid: realUid, Long: spec.long})
	if !lazy {
		p.startWait()
	}
	return p, nil
}

// hasIndexOpen says whether process pid has a file below <repo>/.git/git-bug/indexes/ open (Linux /proc).
func hasIndexOpen(pid int, repo string) bool {
	fds, err := os.ReadDir(fmt.Sprintf("/proc/%d/fd", pid))
	if err != nil {
		return false
	}
	prefix := filepath.Join(repo, ".git", "git-bug", "indexes") + "/"
	for _, fd := range fds {
		if l, err := os.Readlink(fmt.Sprintf("/proc/%d/fd/%s", pid, fd.Name())); err == nil && strings.HasPrefix(l, prefix) {
			return true
		}
	}
	return false
}

// ownsListener says whether process pid owns a listening TCP socket on port (Linux /proc).
func ownsListener(pid, port int) bool {
	data, err := os.ReadFile(fmt.Sprintf("/proc/%d/net/tcp", pid))
	if err != nil {
		return false
	}
	want := fmt.Sprintf(":%04X", port)
	inodes := map[string]bool{}
	for _, line := range strings.Split(string(data), "\n")[1:] {
		f := strings.Fields(line)
		if len(f) < 10 || f[3] != "0A" || !strings.HasSuffix(f[1], want) {
			continue
		}
		inodes["socket:["+f[9]+"]"] = true
	}
	if len(inodes) == 0 {
		return false
	}
	fds, err := os.ReadDir(fmt.Sprintf("/proc/%d/fd", pid))
	if err != nil {
		return false
	}
	for _, fd := range fds {
		if l, err := os.Readlink(fmt.Sprintf("/proc/%d/fd/%s", pid, fd.Name())); err == nil && inodes[l] {
			return true
		}
	}
	return false
}

// progress logs the proofs a process has given so far; returns its stage.
func (e *c19Exec) progress(p *c19Proc) string {
	if !p.loggedBuilding && strings.Contains(p.errb.String(), "Building cache") {
		p.loggedBuilding = true
		e.log(refmodel.LockEvent{Kind: "proof", Proc: p.id, Pid: p.pid, Stage: "building"})
	}
	if !p.loggedReady && p.spec.long && strings.Contains(p.out.String(), "Web UI: http") && ownsListener(p.pid, p.port) {
		p.loggedReady = true
		e.log(refmodel.LockEvent{Kind: "proof", Proc: p.id, Pid: p.pid, Stage: "ready"})
	}
	if !p.loggedIndex && !p.loggedReady && strings.HasPrefix(e.sc.Kind, "ho-") && !p.exited() && hasIndexOpen(p.pid, e.repoReal) {
		// (hand-over schedules) the process has a file of the cache's indexes open: those are opened after lock() only
		p.loggedIndex = true
		e.log(refmodel.LockEvent{Kind: "proof", Proc: p.id, Pid: p.pid, Stage: "index"})
	}
	switch {
	case p.loggedReady:
		return "ready"
	case p.loggedBuilding:
		return "building"
	}
	return ""
}

func (e *c19Exec) logExit(p *c19Proc) {
	if p.loggedExit {
		return
	}
	p.loggedExit = true
	ev := refmodel.LockEvent{Kind: "exit", Proc: p.id, Pid: p.pid, Stderr: p.errb.String()}
	if p.werr != nil {
		if ee, ok := p.werr.(*exec.ExitError); ok {
			ws := ee.Sys().(syscall.WaitStatus)
			if ws.Signaled() {
				ev.KilledBy = ws.Signal().String()
				ev.ExitCode = -1
			} else {
				ev.ExitCode = ws.ExitStatus()
			}
		} else {
			ev.ExitCode = 126
			ev.Stderr += "\nwait: " + p.werr.Error()
		}
	}
	if p.spec.long && !p.signalled && p.loggedReady {
		ev.Unexpected = true
		e.res.Inconclusive = fmt.Sprintf("long-lived %s exited on its own after being ready", p.label)
	}
	if strings.Contains(ev.Stderr, "address already in use") && p.spec.class != "port-in-use" {
		e.res.PortBusy = true
	}
	e.res.Outcomes[p.label+":"+p.spec.class] = fmt.Sprintf("exit=%d killed=%s", ev.ExitCode, ev.KilledBy)
	e.log(ev)
}

// await polls (output notifications, exit, a short tick for the /proc probe) until
// cond holds; the watchdog only turns the schedule inconclusive.
func (e *c19Exec) await(what string, ps []*c19Proc, cond func() bool) bool {
	deadline := time.After(c19Watchdog)
	tick := time.NewTicker(5 * time.Millisecond)
	defer tick.Stop()
	for {
		// every process of the schedule is looked at, in the order of their start, so that the log
		// has the exit of one before the proof of a later one whenever that is what happened
		for _, p := range e.procsInOrder() {
			e.progress(p)
			if p.exited() {
				e.progress(p)
				e.logExit(p)
			}
		}
		if cond() {
			return true
		}
		select {
		case <-deadline:
			e.res.Inconclusive = "watchdog: " + what
			return false
		case <-tick.C:
		}
	}
}

func (e *c19Exec) procsInOrder() []*c19Proc {
	out := make([]*c19Proc, 0, len(e.procs))
	for _, p := range e.procs {
		out = append(out, p)
	}
	sort.Slice(out, func(i, j int) bool { return out[i].id < out[j].id })
	return out
}

func (e *c19Exec) signal(p *c19Proc, sig string) {
	var s syscall.Signal
	switch sig {
	case "SIGINT":
		s = syscall.SIGINT
	case "SIGTERM":
		s = syscall.SIGTERM
	default:
		s = syscall.SIGKILL
	}
	p.signalled = true
	e.log(refmodel.LockEvent{Kind: "signal", Proc: p.id, Pid: p.pid, Signal: sig})
	_ = p.cmd.Process.Signal(s)
}

// lockState reads the lock file: (content, exists).
func (e *c19Exec) lockState() (string, bool) {
	data, err := os.ReadFile(filepath.Join(e.repo, ".git", "git-bug", "lock"))
	if err != nil {
		return "", false
	}
	return string(data), true
}

func (e *c19Exec) lockContent() string {
	c, _ := e.lockState()
	return strings.TrimSpace(c)
}

func (e *c19Exec) cleanup() {
	for l, t := range e.tracers {
		t.release()
		delete(e.tracers, l)
	}
	for l, h := range e.holders {
		h.kill()
		delete(e.holders, l)
	}
	for _, p := range e.procs {
		if !p.exited() {
			_ = p.cmd.Process.Kill()
			p.startWait()
			<-p.done
		}
	}
	for _, l := range e.lns {
		_ = l.Close()
	}
}

// c19Traversable makes sure other accounts can reach dir: every ancestor needs the search bit for
// "other". Only the directories the driver created for this very run ($SCRATCH and below) are changed.
func c19Traversable(dir string) string {
	own := ""
	if s := os.Getenv("VERIF_SCRATCH"); s != "" {
		own = filepath.Dir(filepath.Clean(s))
	}
	for d := filepath.Clean(dir); d != "/" && d != "."; d = filepath.Dir(d) {
		info, err := os.Stat(d)
		if err != nil {
			return err.Error()
		}
		if info.Mode().Perm()&0o001 != 0 {
			continue
		}
		if own == "" || (d != own && !strings.HasPrefix(d, own+"/")) {
			return fmt.Sprintf("%s cannot be searched by other accounts (mode %v) and is not ours to change", d, info.Mode().Perm())
		}
		if err := os.Chmod(d, info.Mode().Perm()|0o011); err != nil {
			return err.Error()
		}
	}
	return ""
}

var (
	c19PtraceOnce   sync.Once
	c19PtraceReason string // "" = a tracer can be attached here
)

var (
	c19XuidOnce   sync.Once
	c19XuidReason string // "" = cross-uid schedules can be run here
	c19XuidProbe  string // what the probe saw
)

// c19XuidPreflight finds out whether this environment lets the harness run the git-bug binary under
// two different unprivileged accounts in a scratch directory, and whether a signal-0 probe from one
// account to a process of the other one fails (the situation the cross-uid schedules are about).
// Whatever goes wrong here is a reason not to run those schedules, never a verdict.
func c19XuidPreflight() string {
	c19XuidOnce.Do(func() {
		if os.Geteuid() != 0 {
			c19XuidReason = fmt.Sprintf("the harness runs as uid %d, not root: it cannot start processes under other accounts", os.Geteuid())
			return
		}
		dir := world.ScratchDir("c19-xuid-probe-")
		defer os.RemoveAll(dir)
		_ = os.Chmod(dir, 0o777)
		if why := c19Traversable(dir); why != "" {
			c19XuidReason = why
			return
		}
		bin := filepath.Join(os.Getenv("VERIF_BIN"), "git-bug")
		for _, uid := range []int{c19UidA, c19UidB} {
			cmd := exec.Command("/bin/sh", "-c", `umask 0; exec "$0" "$@"`, bin, "version")
			cmd.Dir = dir
			cmd.Env = os.Environ()
			c19AsUid(cmd, dir, uid)
			if out, err := cmd.CombinedOutput(); err != nil {
				c19XuidReason = fmt.Sprintf("`git-bug version` under uid %d in %s: %v: %s", uid, dir, err, strings.TrimSpace(string(out)))
				return
			}
		}
		target := exec.Command("/bin/sleep", "300")
		target.Env = os.Environ()
		c19AsUid(target, dir, c19UidA)
		if err := target.Start(); err != nil {
			c19XuidReason = "cannot start a process under uid " + strconv.Itoa(c19UidA) + ": " + err.Error()
			return
		}
		defer func() { _ = target.Process.Kill(); _ = target.Wait() }()
		probe := exec.Command("/bin/sh", "-c", "kill -0 "+strconv.Itoa(target.Process.Pid))
		probe.Env = os.Environ()
		c19AsUid(probe, dir, c19UidB)
		out, err := probe.CombinedOutput()
		switch {
		case err == nil:
			c19XuidReason = fmt.Sprintf("kill(pid, 0) from uid %d on a process of uid %d succeeds here: accounts are not separated", c19UidB, c19UidA)
		case !strings.Contains(strings.ToLower(string(out)), "not permitted"):
			c19XuidReason = fmt.Sprintf("kill(pid, 0) from uid %d on a process of uid %d: unexpected answer %q", c19UidB, c19UidA, strings.TrimSpace(string(out)))
		default:
			c19XuidProbe = fmt.Sprintf("processes run under uid %d (holder; in some schedules root) and uid %d (openers); probe: a live process of uid %d (real uid read back from /proc: %d) answers `kill -0` from uid %d with %q",
				c19UidA, c19UidB, c19UidA, procUid(target.Process.Pid), c19UidB, strings.TrimSpace(string(out)))
		}
	})
	return c19XuidReason
}

func runLockSchedule(sc LockSchedule) (res C19Result) {
	res.Outcomes = map[string]string{}
	if sc.Kind == "xuid" {
		if why := c19XuidPreflight(); why != "" {
			res.NotReached = "cross-uid schedule not exercised: " + why
			return
		}
	}
	if sc.Kind == "traced" {
		if why := c19PtracePreflight(); why != "" {
			res.NotReached = "traced-holder schedule not exercised: " + why
			return
		}
	}
	dir := world.ScratchDir("c19-")
	defer os.RemoveAll(dir)
	if err := c19Setup(dir, sc.Identity, sc.Bugs); err != nil {
		res.Inconclusive = "setup: " + err.Error()
		return
	}
	if sc.Kind == "xuid" {
		// a repository shared between accounts: everything readable and writable by all
		_ = os.MkdirAll(filepath.Join(dir, "repo", ".git", "git-bug"), 0o777)
		if why := c19Traversable(dir); why != "" {
			res.NotReached = "cross-uid schedule not exercised: " + why
			return
		}
		openToAll(dir)
	}
	e := &c19Exec{sc: sc, dir: dir, repo: filepath.Join(dir, "repo"), bin: filepath.Join(os.Getenv("VERIF_BIN"), "git-bug"), procs: map[string]*c19Proc{}, res: &res, tracers: map[string]*c19Tracer{}, holders: map[string]*c19Holder{}, inLock: map[int]bool{}}
	if real, err := filepath.EvalSymlinks(e.repo); err == nil {
		e.repoReal = real
	} else {
		e.repoReal = e.repo
	}
	defer func() {
		e.cleanup()
		res.Events = e.events
	}()
	for _, st := range sc.Steps {
		if res.Inconclusive != "" || res.PortBusy || res.NotReached != "" {
			return
		}
		switch st.Op {
		case "observe":
			e.observe(st.Tag)
		case "fault":
			gb := filepath.Join(e.repo, ".git", "git-bug")
			_ = os.MkdirAll(gb, 0o755)
			if err := os.WriteFile(filepath.Join(gb, "lock"), nil, 0o644); err != nil {
				res.Inconclusive = "fault: " + err.Error()
				return
			}
			e.log(refmodel.LockEvent{Kind: "fault", Class: "torn-lock-file"})
		case "occupy":
			if len(e.lns) > 0 {
				continue
			}
			l, err := net.Listen("tcp", fmt.Sprintf("127.0.0.1:%d", sc.Port))
			if err != nil {
				res.PortBusy = true
				return
			}
			e.lns = append(e.lns, l)
		case "layout":
			if why := e.layout(); why != "" {
				res.Inconclusive = "layout: " + why
				return
			}
		case "plant":
			if !e.plant(st) {
				return
			}
		case "start", "run":
			e.holdNext = st.Hold != ""
			e.atNext, e.recordNext = st.At, st.Record
			p, err := e.spawn(st.P, st.Cmd, st.Delays, st.Lazy, st.Uid)
			if err != nil {
				res.Inconclusive = "spawn: " + err.Error()
				return
			}
			if st.Hold != "" && !e.stepExtra(LockStep{Op: "hold-attach", P: st.P, Hold: st.Hold}) {
				return
			}
			wait := st.Wait
			if st.Op == "run" {
				wait = "exit"
			}
			switch wait {
			case "none":
			case "exit":
				if g := e.procs[st.Guard]; st.Guard != "" && g != nil {
					// an opener that took the lock of the live holder may then block for ever on the
					// holder's index files: the lock file no longer naming the holder ends the wait
					// (an observation of state; the verdict comes from the model)
					if !e.await(st.P+" to exit or to touch the holder's lock", []*c19Proc{p, g}, func() bool {
						return p.loggedExit || g.loggedExit || e.lockContent() != strconv.Itoa(g.pid)
					}) {
						return
					}
					if !p.loggedExit {
						e.observe(fmt.Sprintf("%s still running, lock file no longer names the holder %s", st.P, st.Guard))
						e.signal(p, "SIGKILL")
						e.await(st.P+" to be reaped", []*c19Proc{p}, func() bool { return p.loggedExit })
						// the log ends here: what follows would only show what the harness's own kill of an
						// opener in the middle of taking the lock leaves behind
						e.observe(st.P + " killed by the harness")
						return
					}
					break
				}
				e.await(st.P+" to exit", []*c19Proc{p}, func() bool { return p.loggedExit })
				if !e.afterRun(st, p) {
					return
				}
			case "resolved":
				e.await(st.P+" to be ready or to exit", []*c19Proc{p}, func() bool { return p.loggedReady || p.loggedExit })
			case "building":
				// the process must be parked at the cache.build hook: banner seen, still alive
				if e.await(st.P+" to reach the cache build", []*c19Proc{p}, func() bool { return p.loggedBuilding || p.loggedExit }) && p.loggedExit {
					res.Inconclusive = st.P + " exited before reaching the cache build"
				}
			case "ready":
				if st.Lazy {
					// not reaped on purpose: only its output can be watched
					e.await(st.P+" to be ready", []*c19Proc{p}, func() bool { return p.loggedReady })
				} else if e.await(st.P+" to be ready", []*c19Proc{p}, func() bool { return p.loggedReady || p.loggedExit }) && p.loggedExit && !res.PortBusy {
					res.Inconclusive = st.P + " exited before being ready: " + p.errb.String()
				}
			}
		case "signal":
			if p := e.procs[st.P]; !st.IfLive || !p.loggedExit {
				e.signal(p, st.Sig)
			}
		case "park":
			// The process was started with a delay at cache.lock.created. Seeing the lock file exist
			// and be empty, stop the process; once every thread is seen stopped read the lock file
			// again: still empty = parked between creation and pid write for as long as we like.
			p := e.procs[st.P]
			ok := e.await(st.P+" to create the lock file", []*c19Proc{p}, func() bool {
				_, exists := e.lockState()
				return p.loggedExit || p.loggedReady || p.loggedBuilding || exists
			})
			if !ok {
				return
			}
			if c, exists := e.lockState(); p.loggedExit || !exists || c != "" {
				res.NotReached = fmt.Sprintf("%s was not seen between the creation of the lock file and the pid write (hook point cache.lock.created missing from this build of git-bug?)", st.P)
				return
			}
			_ = p.cmd.Process.Signal(syscall.SIGSTOP)
			p.stopped = true
			if !e.await(st.P+" to be stopped", []*c19Proc{p}, func() bool { return p.loggedExit || procStopped(p.pid) }) {
				return
			}
			c, exists := e.lockState()
			if p.loggedExit || !exists || c != "" {
				res.NotReached = fmt.Sprintf("%s wrote its pid before it could be stopped", st.P)
				return
			}
			e.log(refmodel.LockEvent{Kind: "pause", Proc: p.id, Pid: p.pid, LockExists: exists, LockContent: c,
				Tag: "SIGSTOP, every thread stopped, then the lock file read: exists and is empty"})
		case "resume":
			p := e.procs[st.P]
			e.log(refmodel.LockEvent{Kind: "resume", Proc: p.id, Pid: p.pid})
			p.stopped = false
			_ = p.cmd.Process.Signal(syscall.SIGCONT)
		case "await":
			p := e.procs[st.P]
			watch := []*c19Proc{p}
			for _, l := range st.Ps {
				watch = append(watch, e.procs[l])
			}
			e.await(st.P+" to be ready or to exit", watch, func() bool {
				for _, q := range watch[1:] {
					if q.loggedReady && !q.loggedExit {
						return true
					}
				}
				return p.loggedReady || p.loggedExit
			})
		case "reap":
			p := e.procs[st.P]
			p.startWait()
			e.await(st.P+" to be reaped", []*c19Proc{p}, func() bool { return p.loggedExit })
		case "race":
			// X was started with a short cache.lock.window delay, Y with a long one: both have
			// looked at the (absent) lock file long before either creates it. X becomes ready
			// first; then Y either is refused (window not hit: nothing to see) or writes its
			// own pid over the lock of the live X. Polling the lock file is an observation
			// of state, the verdict comes from the model.
			x, y := e.procs[st.Ps[0]], e.procs[st.Ps[1]]
			both := []*c19Proc{x, y}
			if !e.await("X to be ready", both, func() bool { return x.loggedReady || x.loggedExit }) {
				return
			}
			e.observe("X resolved")
			if x.loggedReady {
				lockPath := filepath.Join(e.repo, ".git", "git-bug", "lock")
				if !e.await("Y to exit or to touch the lock", both, func() bool {
					if y.loggedExit || x.loggedExit {
						return true
					}
					// an empty file is the instant between Y's create and Y's write: keep looking
					data, err := os.ReadFile(lockPath)
					c := strings.TrimSpace(string(data))
					return err != nil || (c != "" && c != strconv.Itoa(x.pid))
				}) {
					return
				}
				e.observe("Y resolved or lock touched")
				if !x.loggedExit {
					e.signal(x, "SIGINT")
					e.await("X to be reaped", both, func() bool { return x.loggedExit })
					e.observe("X closed")
				}
			}
			if !e.await("Y to be ready or to exit", both, func() bool { return y.loggedReady || y.loggedExit }) {
				return
			}
			e.observe("Y resolved")
			if y.loggedReady && !y.loggedExit {
				e.signal(y, "SIGINT")
				e.await("Y to be reaped", both, func() bool { return y.loggedExit })
				e.observe("Y closed")
			}
		default:
			if !e.stepExtra(st) {
				return
			}
		}
	}
	return
}

// ---- check ---------------------------------------------------------------------

func c19PortBase() int {
	h := fnv.New32a()
	h.Write([]byte(mon.VerifDir()))
	return 20000 + int(h.Sum32()%4)*2500
}

func runC19(tier, replay string) int {
	r := mon.NewRun("C19", "fault_enumeration", tier)
	var scs []LockSchedule
	if strings.HasPrefix(replay, "index:") {
		// debugging aid: run one schedule of the list, e.g. --replay index:19
		idx, _ := strconv.Atoi(strings.TrimPrefix(replay, "index:"))
		scs = []LockSchedule{c19Schedule(r.Seed, idx)}
	} else if strings.HasPrefix(replay, "sweep:") {
		// debugging aid: the command-tree sweep of one command, e.g. --replay "sweep:bridge pull"
		runC19Sweep(r, nil, strings.TrimPrefix(replay, "sweep:"))
		return r.Finish("command-tree sweep of one command"+c19SweepRule, 0, c19SweepAssumptions)
	} else if replay != "" {
		var rep struct {
			Case struct {
				Schedule LockSchedule `json:"schedule"`
				Sweep    *c19SwJob    `json:"sweep"`
			} `json:"case"`
		}
		data, err := os.ReadFile(replay)
		if err == nil {
			err = json.Unmarshal(data, &rep)
		}
		if err != nil {
			fmt.Println("cannot read replay:", err)
			return 2
		}
		if rep.Case.Sweep != nil {
			runC19Sweep(r, []c19SwJob{*rep.Case.Sweep}, "")
			return r.Finish("replay of one command-tree sweep job"+c19SweepRule, 0, c19SweepAssumptions)
		}
		scs = []LockSchedule{rep.Case.Schedule}
	} else {
		scs = c19Schedules(r)
	}
	base := c19PortBase()
	for i := range scs {
		scs[i].Port = base + (i%100)*6
	}
	results := parallel(len(scs), func(i int) C19Result {
		sc := scs[i]
		var res C19Result
		for try := 0; try < 4; try++ {
			res = runLockSchedule(sc)
			if !res.PortBusy {
				break
			}
			r.Count("port_retries", 1)
			sc.Port += 600 // another deterministic slice of the range
			res.Inconclusive = "could not find a free port"
		}
		return res
	})
	zombie := map[string]int{}
	notReached := map[string]int{}
	perKind := map[string]int{}
	for _, sc := range scs {
		perKind[sc.Kind]++
	}
	for i, res := range results {
		sc := scs[i]
		if replay != "" || (os.Getenv("VERIF_DEBUG") != "" && res.Inconclusive != "") {
			fmt.Println("events of", sc.Name, res.Inconclusive)
			for _, ev := range trimEvents(res.Events) {
				fmt.Println(mon.JSON(ev))
			}
		}
		if res.PortBusy || res.Inconclusive != "" {
			r.Case("inconclusive", false)
			r.Inconclusive(sc.Name + ": " + res.Inconclusive)
			continue
		}
		if res.NotReached != "" {
			// the situation the schedule is about could not be produced: no verdict, not counted
			r.Case("not-reached:"+sc.Kind, false)
			r.Count("schedules_not_reached/"+sc.Kind, 1)
			r.Seen("schedules_not_reached", sc.Kind+": "+res.NotReached)
			r.Inconclusive(sc.Name + ": " + res.NotReached)
			notReached[sc.Kind]++
			continue
		}
		findings, st := refmodel.CheckLockLog(res.Events)
		for _, n := range res.Notes {
			if k := strings.IndexByte(n, '|'); k > 0 && n[k+1:] == "#" {
				r.Count(n[:k], 1)
			} else if k > 0 {
				r.Seen(n[:k], n[k+1:])
			}
		}
		if sc.Kind == "entry" {
			c19EntryStats(r, res.Events)
		}
		nontrivial := st.Attempts >= 2 && st.Observations >= 2
		r.Case(sc.Shape, nontrivial)
		r.Count("process_schedules", 1)
		r.Count("schedules/"+sc.Kind, 1)
		r.Count("processes_spawned", st.Processes)
		r.Count("open_attempts_resolved", st.Attempts)
		r.Count("refusals_seen", st.Refusals)
		r.Count("refusals_naming_a_holder_pid", st.RefusalsNamingPid)
		r.Count("refusals_bracketed_and_compared(lock,refs,files)", st.RefusedUnchanged)
		r.Count("opens_on_free_cache", st.OpenedWhileFree)
		r.Count("attempts_with_indeterminate_holder", st.Indeterminate)
		r.Count("observations(lock file, refs, files)", st.Observations)
		r.Count("live_lock_checks", st.LiveLockChecks)
		r.Count("exit_followed_by_lock_check", st.SelfExitLockChecks)
		r.Count("attempts_unresolved", st.Unresolved)
		r.Count("created_window/processes_parked_between_lock_creation_and_pid_write", st.CreatedWindows)
		r.Count("created_window/open_attempts_while_parked", st.CreatedWindowAttempts)
		r.Count("created_window/lock_file_checks_while_parked", st.CreatedWindowChecks)
		for k, v := range st.CreatedWindowOutcomes {
			r.Count("created_window/attempt_outcome/"+k, v)
		}
		r.Count("cross_uid/attempts_against_a_proven_holder_of_another_uid", st.CrossUidAttempts)
		for k, v := range st.SuspendedHolders {
			r.Count("suspended_holder/"+k+"/proven_holders_suspended(every thread seen stopped in /proc)", v)
		}
		for k, v := range st.SuspendedHolderAttempts {
			r.Count("suspended_holder/"+k+"/open_attempts_while_suspended", v)
		}
		for k, v := range st.SuspendedHolderOutcomes {
			r.Count("suspended_holder/attempt_outcome/"+k, v)
		}
		r.Count("suspended_holder/lock_file_checks_while_suspended", st.SuspendedHolderChecks)
		r.Count("handover/openers_frozen_by_the_harness(SIGSTOP, every thread seen stopped)", st.SuspendedOpeners)
		for k, v := range st.HeldOpeners {
			r.Count("handover/openers_with_a_thread_held_before_their_"+k+"_call", v)
		}
		r.Count("handover/holder_signalled_with_openers_on_their_way", st.HandoverSignals)
		r.Count("handover/openers_on_their_way_at_the_holder's_signal", st.HandoverRacers)
		for k, v := range st.HandoverOutcomes {
			r.Count("handover/outcome_of_openers_on_their_way/"+k, v)
		}
		if st.HandoverMaxRace > 0 {
			r.Seen("handover/openers_on_their_way_at_one_signal", strconv.Itoa(st.HandoverMaxRace))
		}
		r.Count("handover/openers_started_under_a_live_holder_and_granted_after_its_end", st.GrantedAfterEnd)
		if strings.HasPrefix(sc.Kind, "ho-") {
			for k, v := range res.Outcomes {
				if strings.HasPrefix(k, "frozen:") {
					r.Count("handover/frozen_opener/"+v, 1)
				}
				if strings.HasPrefix(k, "held:") {
					r.Count("handover/held_opener/"+v, 1)
				}
			}
		}
		if sc.Kind == "created" {
			if a := res.Outcomes["A:webui"]; a != "" {
				r.Seen("created_window_creator_after_resume", a)
			}
		}
		for k, v := range st.OpensAfter {
			r.Count("open_succeeded_after/"+k, v)
		}
		for k, v := range st.KillPoints {
			r.Count("signal_points/"+k, v)
			r.Seen("signal_points", k)
		}
		for k := range st.Classes {
			r.Seen("command_classes", k)
		}
		keys := make([]string, 0, len(res.Outcomes))
		for k := range res.Outcomes {
			keys = append(keys, k)
		}
		sort.Strings(keys)
		for _, k := range keys {
			cls := k[strings.IndexByte(k, ':')+1:]
			r.Seen("command_outcomes", cls+" "+res.Outcomes[k])
			if sc.Kind == "zombie" && strings.HasPrefix(k, "Z0:") {
				zombie[res.Outcomes[k]]++
			}
		}
		if sc.Kind == "toctou" {
			reproduced := false
			for _, f := range findings {
				if strings.HasSuffix(f.Key, ":toctou-window") {
					reproduced = true
				}
			}
			if reproduced {
				r.Count("toctou_window_reproduced", 1)
			} else {
				r.Count("toctou_window_not_reproduced", 1)
			}
		}
		if len(findings) > 0 {
			r.Count("schedules_with_findings/"+sc.Kind, 1)
			r.Seen("schedules_with_findings", sc.Name+" "+sc.Shape)
		}
		for _, f := range findings {
			r.Violation(f.Key, fmt.Sprintf("%s [schedule %s, event %d]", f.What, sc.Name, f.Seq), map[string]any{"schedule": sc, "events": trimEvents(res.Events)})
		}
		if i < 3 || sc.Kind == "toctou" {
			r.Sample(map[string]any{"schedule": sc.Name, "shape": sc.Shape, "events": len(res.Events), "outcomes": res.Outcomes})
		}
	}
	c19PidNamespace(r)
	r.Extra("zombie_holder_probe(informational: holder killed, not yet reaped; the model accepts both outcomes)", zombie)
	r.Extra("port_base", base)
	if perKind["xuid"] > 0 {
		if why := c19XuidPreflight(); why != "" {
			r.Extra("cross_uid", "NOT EXERCISED: "+why)
		} else {
			r.Extra("cross_uid", "exercised: "+c19XuidProbe)
		}
	}
	if perKind["traced"] > 0 {
		if why := c19PtracePreflight(); why != "" {
			r.Extra("traced_holder", "NOT EXERCISED: "+why)
		} else {
			r.Extra("traced_holder", "exercised: a tracer (vh child c19-ptrace) attaches to every thread of the holder and keeps them in a tracing stop (state t)")
		}
	}
	for _, kind := range []string{"created", "xuid", "traced", "entry", "stalepid"} {
		if n := notReached[kind]; n > 0 {
			// a harness message, not a verdict: the schedules are left out of the counts
			fmt.Printf("HARNESS-NOTE property=C19 %d of %d %q schedules did not reach the situation they are about and were not counted (see schedules_not_reached in the evidence)\n", n, perKind[kind], kind)
		}
	}
	sweepOK, sweepMin := true, 0
	if replay == "" {
		sweepOK = runC19Sweep(r, nil, "")
		sweepMin = 60
	}
	r.Extra("added_in_seeding_round_6", "holder as process 1 of a pid namespace (c19_pidns.go): unshare -pf git-bug webui, three contenders through nsenter must be refused while the lock file keeps naming 1")
	rc := r.Finish("process schedules on fresh repositories, list = f(seed, tier): contend (web UI holder ready, 0..2 contenders, SIGINT/SIGTERM/SIGKILL, 1..2 new openers), "+
		"build (process parked at the cache.build hook with the lock taken, optional contender, signal, new openers), failing (1..3 failing commands each followed by a lock-file check, with and without identity), "+
		"chain (successful commands incl. wipe, lock check after each), torn (empty lock file as left by a kill between create and write, then openers), toctou (two openers started together, delayed at cache.lock.window by 1.2 s and 4 s, so both pass the availability check before either creates the lock), zombie (informational), "+
		"created (an opener delayed at cache.lock.created and then stopped with SIGSTOP while the lock file it created is still empty; 1..2 other openers incl. long-lived ones run meanwhile; it is resumed and must be the only one granted the cache; the lock file is checked while it is parked), "+
		"xuid (holder under one account or root, openers under another unprivileged account for which kill(holder,0) is EPERM, repository writable by all; same refusal / unchanged / stale-lock recovery rules); "+
		"stopped / traced (a ready web UI holder is suspended — SIGSTOP, every thread seen in state T; or a tracer attached to every thread, state t — while 1..2 openers incl. long-lived ones try; it is then released and closed, or killed while suspended; openers also after the release and after the end); "+
		"ho-race / ho-freeze / ho-chain / ho-stale (hand-over: ready holder + 2..3 openers started 0..35 ms apart, mostly long-lived; race = the holder is signalled 0..320 ms after their start, optionally one more opener right after the signal; freeze = one opener is stopped with SIGSTOP at that moment, the holder closed and reaped, a fresh opener started, one of the others waited for, then the frozen one released; "+
		"chain = the first openers get 320 ms to be turned away, the holder is signalled and two fresh openers started at once; stale = holder killed and reaped, then the openers started together; then every opener that becomes ready is observed, signalled, reaped, observed, until all are gone, and a last command must find the cache free); "+
		"ho-held (a long-lived opener is run under a small system-call tracer, `vh child c19-hold`, which keeps ONE of its threads at the entry of the call by which it asks the kernel whether the pid it read from the lock file is alive — pidfd_open(pid)/kill(pid,0) — or, the holder having been killed before, at the entry of its unlink of the lock file; meanwhile the holder closes or is killed and is reaped and another long-lived opener is started and waited for; then the thread is let go, the lock file watched until it changes or the opener resolves, and the openers drained as above); "+
		"entry (ONE repository entered through five directories: main work tree, a directory below it, a linked worktree made by stock `git worktree add`, a directory below that, a second linked worktree; each is first opened alone on the free cache - recorded; then a web UI holder is started in one of them - the position in the list chooses which, a quick run has all five - and an opener is run from each of the other four, 1 in 2 also from the holder's own, incl. long-lived ones; the holder is closed or killed and two more openers run from entry points chosen by the seed; same rules as contend, finding keys two-holders / refusal-...:holder-in-<entry>,opener-in-<entry>); "+
		"stalepid (lock files as a dead holder leaves them are planted for process ids of 1 to 7 digits up to 4194303, lowest and highest values of 6 and 7 digits, and the pid of a process reaped a moment ago - values >= /proc/sys/kernel/pid_max or seen dead and far from being handed out again - each followed by a command that must open the cache, finding open-failed-without-holder:after-stale-lock-of-dead-<n>-digit-pid; other contents - 0, negative, sign, spaces, trailing newline, 10 bytes, 8 and 9 digits, PID_MAX_LIMIT and above, text - are planted too and what the open does is recorded, not judged; the position in the list chooses a third of both lists); "+
		"the recorded event log is checked offline by refmodel.CheckLockLog; non-trivial = at least 2 resolved open attempts and 2 observations; distinct = distinct schedule shape (kind, holder, contender classes, signal, later openers)"+c19SweepRule,
		r.Pick(12, 60)+sweepMin, append([]string{
			"a process is taken to hold the cache from the moment it printed the cache-build banner or (web UI) its URL while owning its listening socket, until the harness signals it or it is reaped",
			"a command that exits 0 is taken to have opened the cache",
			"hook delays (VERIF_HOOK_DELAYS), the steering pauses of the hand-over schedules and the freezing of an opener only steer; no verdict depends on elapsed time",
			"a process every thread of which is stopped (state T or t in /proc) is alive and keeps what it holds",
			"a short-lived command that runs freely is only taken to hold the cache at the observations that show its pid in the lock file while it has not been reaped; a long-lived one (web UI) from its first proof until it is signalled or reaped",
			"a process stopped with SIGSTOP (all threads seen in state T) while the lock file exists and is empty, being the only live process of the schedule and the file being absent before its start, is a live process between its exclusive creation of the lock file and its pid write; that file is its lock",
			"created / xuid / traced / ho-held schedules whose situation cannot be produced (hook point absent from the build, accounts not separable or no tracer attachable in this environment) are reported as not reached and left out of the counts",
			"the work tree of a repository, the directories below it and its linked worktrees (git worktree add) are entry points of ONE repository with one cache: a process started in any of them opens that cache",
			"a lock file naming a process id that no live process has (>= pid_max, or kill(pid,0) = ESRCH before and after the command) is the lock of a dead process, whatever the number of its digits up to PID_MAX_LIMIT-1",
			"a thread kept by a tracer at the entry of a system call has not made that call; holding it there is an environment action (a thread can be held up anywhere, for any time) and nothing is derived from it but the suffix of the finding key",
		}, c19SweepAssumptions...))
	if rc == 0 && !sweepOK {
		return 1 // the sweep observed too little (the reason was printed)
	}
	return rc
}

func trimEvents(evs []refmodel.LockEvent) []refmodel.LockEvent {
	out := make([]refmodel.LockEvent, len(evs))
	for i, e := range evs {
		e.Files = nil
		if len(e.Stderr) > 400 {
			e.Stderr = "…" + e.Stderr[len(e.Stderr)-400:]
		}
		out[i] = e
	}
	return out
}
