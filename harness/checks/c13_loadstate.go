package checks

// C13, load states — the answer of a resolution must not depend on which entities
// happen to be loaded in memory.
//
// The cache keeps an excerpt of every entity and, besides, the entities themselves
// for those that were built, created, merged or resolved in this process (bounded
// by an LRU). The statement of C13 speaks about the population of the repository,
// so every lookup is asked against the SAME repository in several load states:
//
//	all-loaded          the cache that has just been built (every entity in memory)
//	reopened-none       closed and opened again from its files: nothing in memory
//	reopened-subset     reopened + every other id (in sorted order) resolved by its full id,
//	                    so that of two ids sharing the longest prefixes one is loaded and one is not
//	reopened-complement the same with the other half
//	lru-small           reopened, at most 1..3 loaded entities (VerifSetCacheSize), every
//	                    entity touched by full id in a seed-determined order; then a shuffled
//	                    mix of queries during which the loaded set keeps changing ("churn")
//
// Every answer is compared with the reference model (as in the main pass) and with
// the answer given in the all-loaded state.
//
// A lookup that succeeds through ResolvePrefix loads the entity, so within one state
// the queries the model expects to be ambiguous or unmatched are asked first (on a
// correct implementation they leave the load state untouched; the loaded bugs are read
// back through VerifLoadedBugIds), the uniquely matching ones afterwards.

import (
	"fmt"
	"math/rand"
	"sort"
	"strings"

	"github.com/MichaelMure/git-bug/cache"
	_select "github.com/MichaelMure/git-bug/commands/select"
	"github.com/MichaelMure/git-bug/entities/bug"
	"github.com/MichaelMure/git-bug/entity"

	"verif/harness/mon"
	"verif/harness/refmodel"
)

// c13MetaKey is the metadata key planted on create operations / identity versions.
const c13MetaKey = "c13-origin"

// c13Ans is one observed answer of a lookup.
type c13Ans struct {
	Class string   // entity | multiple | notfound | other-error | panic
	Id    string   // id of the returned entity (combined id for ResolveComment)
	Bug   string   // ResolveComment: the returned bug
	List  []string // sorted ids listed by a multiple-match error
	Text  string   // text of any other error / panic value
	Rest  []string // _select.Resolve: the remaining arguments

	err      error
	panicked any
}

func c13Classify(id string, err error, panicked any) c13Ans {
	a := c13Ans{err: err, panicked: panicked}
	switch {
	case panicked != nil:
		a.Class, a.Text = "panic", fmt.Sprint(panicked)
	case err == nil:
		a.Class, a.Id = "entity", id
	case isNotFound(err):
		a.Class = "notfound"
	default:
		if l, ok := asMultiple(err); ok {
			a.Class, a.List = "multiple", l
		} else {
			a.Class, a.Text = "other-error", err.Error()
		}
	}
	return a
}

// canon is the comparable form of an answer: target or error class + full match list.
func (a c13Ans) canon() string {
	return a.Class + "|" + a.Id + "|" + a.Bug + "|" + strings.Join(a.List, ",") + "|" + a.Text + "|" + strings.Join(a.Rest, ",")
}

func (a c13Ans) String() string {
	switch a.Class {
	case "entity":
		s := a.Id
		if a.Bug != "" {
			s += " in bug " + a.Bug
		}
		if a.Rest != nil {
			s += fmt.Sprintf(" (remaining args %v)", a.Rest)
		}
		return s
	case "multiple":
		return fmt.Sprintf("multiple match %v", a.List)
	case "notfound":
		return "not found"
	}
	return a.Class + ": " + a.Text
}

// c13Lookup is one resolution API in one calling mode.
type c13Lookup struct {
	name   string
	family string // key family: prefix | metadata
	ns     string // bugs | identities
	// judge compares with the model; tail is "<expected>-><observed>", bad "" when consistent
	call  func(c *cache.RepoCache, q string) c13Ans
	judge func(kind refmodel.PrefixKind, want []string, a c13Ans) (tail string, bad string)
	// setup/teardown around a run of queries (the select file)
	setup    func(c *cache.RepoCache) error
	teardown func(c *cache.RepoCache)
	churn    bool // part of the lru churn mix
	// _select.Resolve (judge == nil): the preselected bug, "" for none
	selected string
}

type c13Expect struct {
	kind refmodel.PrefixKind
	want []string
}

// c13QuerySet: queries of one lookup with the model's prediction.
type c13QuerySet struct {
	qs  []c13Query
	exp []c13Expect
}

func c13JudgePrefix(kind refmodel.PrefixKind, want []string, a c13Ans) (string, string) {
	obs, bad := c13Judge(kind, want, a.Id, a.err, a.panicked)
	return kind.String() + "->" + obs, bad
}

// c13JudgeMeta: a lookup by metadata. The statement of C13 is about id prefixes; for these only
// "the entity when exactly one carries the value, a failure otherwise" is judged (the doc comments
// of the functions), the rest is left to the comparison between load states.
func c13JudgeMeta(kind refmodel.PrefixKind, want []string, a c13Ans) (string, string) {
	switch {
	case a.panicked != nil:
		return kind.String() + "->panic", "panic: " + a.Text
	case kind == refmodel.PrefixUnique && a.err != nil:
		return "unique->" + a.Class, fmt.Sprintf("exactly one entity carries the value (%s) but the call failed: %v", want[0], a.err)
	case kind == refmodel.PrefixUnique && a.Id != want[0]:
		return "unique->other-entity", fmt.Sprintf("exactly one entity carries the value (%s) but %s was returned", want[0], a.Id)
	case kind != refmodel.PrefixUnique && a.err == nil:
		return kind.String() + "->entity", fmt.Sprintf("%d entities carry the value but %s was returned without error", len(want), a.Id)
	}
	return kind.String() + "->" + a.Class, ""
}

func c13JudgeSelect(selected string, args []string) func(refmodel.PrefixKind, []string, c13Ans) (string, string) {
	return func(kind refmodel.PrefixKind, want []string, a c13Ans) (string, string) {
		if kind == refmodel.PrefixNone && a.panicked == nil {
			// see the main pass: a fall-back to the preselected bug with the arguments untouched is accepted
			switch {
			case a.err != nil:
				return "none->error", ""
			case selected != "" && a.Id == selected && equalStrings(a.Rest, args):
				return "none->selection", ""
			}
			return "none->entity", fmt.Sprintf("no bug matches, yet bug %q was returned with remaining args %v (selected=%q)", a.Id, a.Rest, selected)
		}
		obs, bad := c13Judge(kind, want, a.Id, a.err, a.panicked)
		if bad == "" && kind == refmodel.PrefixUnique && !equalStrings(a.Rest, args[1:]) {
			obs, bad = "args-not-consumed", fmt.Sprintf("the bug was resolved from the first argument but the remaining arguments are %v", a.Rest)
		}
		return kind.String() + "->" + obs, bad
	}
}

func c13SelectCall(c *cache.RepoCache, q string) c13Ans {
	args := []string{q, "tail"}
	var got *cache.BugCache
	var rest []string
	var err error
	var panicked any
	func() {
		defer func() { panicked = recover() }()
		got, rest, err = _select.Resolve[*cache.BugCache](c, bug.Typename, bug.Namespace, c.Bugs(), args)
	}()
	id := ""
	if err == nil && got != nil {
		id = string(got.Id())
	}
	a := c13Classify(id, err, panicked)
	if err == nil && panicked == nil {
		a.Rest = append([]string{}, rest...)
	}
	return a
}

func c13CommentCall(c *cache.RepoCache, q string) c13Ans {
	var gb *cache.BugCache
	var gc entity.CombinedId
	var err error
	var panicked any
	func() {
		defer func() { panicked = recover() }()
		gb, gc, err = c.Bugs().ResolveComment(q)
	}()
	a := c13Classify(string(gc), err, panicked)
	if err == nil && panicked == nil {
		a.Bug = "<nil>"
		if gb != nil {
			a.Bug = string(gb.Id())
		}
	}
	return a
}

// guarded wraps a (id, error) lookup with recover().
func c13Guarded(f func() (string, error)) c13Ans {
	var id string
	var err error
	var panicked any
	func() {
		defer func() { panicked = recover() }()
		id, err = f()
	}()
	return c13Classify(id, err, panicked)
}

// c13LoadStateQueries keeps the query kinds that carry the ambiguity structure (every prefix of
// every id, the last character replaced, one extra character, ids of the other namespace).
func c13LoadStateQueries(ids, foreign []string, rng *rand.Rand) []c13Query {
	var out []c13Query
	for _, q := range c13Queries(ids, foreign, rng) {
		switch q.Kind {
		case "exact", "perturb-last", "overlong", "foreign":
			out = append(out, q)
		}
	}
	return out
}

func c13MetaModel(m map[string][]string) func(v string) (refmodel.PrefixKind, []string) {
	return func(v string) (refmodel.PrefixKind, []string) {
		ids := append([]string(nil), m[v]...)
		sort.Strings(ids)
		switch len(ids) {
		case 0:
			return refmodel.PrefixNone, nil
		case 1:
			return refmodel.PrefixUnique, ids
		}
		return refmodel.PrefixMultiple, ids
	}
}

// c13MetaQueries: every planted value, values nobody carries, and a planted value under another key
// (encoded as "key=value"; the empty value is left out: a map lookup cannot tell it from "no such key").
func c13MetaQueries(m map[string][]string) []string {
	var vals []string
	for v := range m {
		vals = append(vals, v)
	}
	sort.Strings(vals)
	out := append([]string{}, vals...)
	out = append(out, "o-absent", "O0", "o0 ")
	return out
}

// c13Lookups returns every resolution API the check drives, per namespace, in the order they are
// asked: bugs = ResolvePrefix, ResolveExcerptPrefix, _select.Resolve with nothing selected, the lookup by
// create metadata and (when a bug id is given) _select.Resolve with that bug preselected — last, because
// with nothing matching it falls back to the selected bug, which loads that bug; identities =
// ResolvePrefix, ResolveExcerptPrefix, the lookup by immutable metadata.
func c13Lookups(selected string) (bugLookups, identLookups []*c13Lookup) {
	bugPrefix := func(name string, call func(c *cache.RepoCache, q string) c13Ans) *c13Lookup {
		return &c13Lookup{name: name, family: "prefix", ns: "bugs", call: call, judge: c13JudgePrefix, churn: true}
	}
	bugLookups = []*c13Lookup{
		bugPrefix("bugs.ResolvePrefix", func(c *cache.RepoCache, q string) c13Ans {
			return c13Guarded(func() (string, error) {
				b, err := c.Bugs().ResolvePrefix(q)
				if err != nil {
					return "", err
				}
				return string(b.Id()), nil
			})
		}),
		bugPrefix("bugs.ResolveExcerptPrefix", func(c *cache.RepoCache, q string) c13Ans {
			return c13Guarded(func() (string, error) {
				e, err := c.Bugs().ResolveExcerptPrefix(q)
				if err != nil {
					return "", err
				}
				return string(e.Id()), nil
			})
		}),
		{name: "select.Resolve[bug]/nothing-selected", family: "prefix", ns: "bugs", call: c13SelectCall,
			churn: true},
	}
	var bugSelected *c13Lookup
	if selected != "" {
		bugSelected = (&c13Lookup{name: "select.Resolve[bug]/bug-selected", family: "prefix", ns: "bugs", call: c13SelectCall,
			selected: selected,
			setup:    func(c *cache.RepoCache) error { return _select.Select(c, bug.Namespace, entity.Id(selected)) },
			teardown: func(c *cache.RepoCache) { _ = _select.Clear(c, bug.Namespace) },
		})
	}
	identLookups = []*c13Lookup{
		{name: "identities.ResolvePrefix", family: "prefix", ns: "identities", judge: c13JudgePrefix, churn: true,
			call: func(c *cache.RepoCache, q string) c13Ans {
				return c13Guarded(func() (string, error) {
					i, err := c.Identities().ResolvePrefix(q)
					if err != nil {
						return "", err
					}
					return string(i.Id()), nil
				})
			}},
		{name: "identities.ResolveExcerptPrefix", family: "prefix", ns: "identities", judge: c13JudgePrefix, churn: true,
			call: func(c *cache.RepoCache, q string) c13Ans {
				return c13Guarded(func() (string, error) {
					e, err := c.Identities().ResolveExcerptPrefix(q)
					if err != nil {
						return "", err
					}
					return string(e.Id()), nil
				})
			}},
	}
	bugMeta := &c13Lookup{name: "bugs.ResolveBugCreateMetadata", family: "metadata", ns: "bugs", judge: c13JudgeMeta, churn: true,
		call: func(c *cache.RepoCache, q string) c13Ans {
			return c13Guarded(func() (string, error) {
				key, val := c13MetaKey, q
				if q == "o-absent-key" {
					key, val = "c13-no-such-key", "o0"
				}
				b, err := c.Bugs().ResolveBugCreateMetadata(key, val)
				if err != nil {
					return "", err
				}
				return string(b.Id()), nil
			})
		}}
	identMeta := &c13Lookup{name: "identities.ResolveIdentityImmutableMetadata", family: "metadata", ns: "identities", judge: c13JudgeMeta, churn: true,
		call: func(c *cache.RepoCache, q string) c13Ans {
			return c13Guarded(func() (string, error) {
				key, val := c13MetaKey, q
				if q == "o-absent-key" {
					key, val = "c13-no-such-key", "o0"
				}
				i, err := c.Identities().ResolveIdentityImmutableMetadata(key, val)
				if err != nil {
					return "", err
				}
				return string(i.Id()), nil
			})
		}}

	bugLookups = append(bugLookups, bugMeta)
	if bugSelected != nil {
		bugLookups = append(bugLookups, bugSelected)
	}
	identLookups = append(identLookups, identMeta)
	return bugLookups, identLookups
}

type c13LoadRecipe struct {
	name   string
	reopen bool
	lru    int
	// ids resolved by full id after the reopen, in this order
	bugs, idents []string
}

func everyOther(sorted []string, offset int) []string {
	var out []string
	for i, id := range sorted {
		if i%2 == offset {
			out = append(out, id)
		}
	}
	return out
}

func shuffled(ids []string, rng *rand.Rand) []string {
	out := append([]string(nil), ids...)
	rng.Shuffle(len(out), func(i, j int) { out[i], out[j] = out[j], out[i] })
	return out
}

// c13LoadStates runs the load-state part on a population whose cache c has just been built.
// It leaves the replica with an open cache (closed by World.Close).
func c13LoadStates(p c13Pop, cw *c13World, c *cache.RepoCache,
	bugPop, identPop, comPop *refmodel.PrefixPopulation, commentOf map[string]c13Comment, acc *c13Acc) {

	r := cw.rep
	rng := mon.Rng(p.Seed, "c13-loadstates-"+p.Name, p.Idx)
	popN := map[string]int{"bugs": bugPop.Len(), "identities": identPop.Len(), "comments": comPop.Len()}

	// ---- lookups (c13Lookups) ---------------------------------------------------------
	selected := ""
	if len(cw.bugIds) > 0 {
		selected = cw.bugIds[rng.Intn(len(cw.bugIds))]
	}
	bugLookups, identLookups := c13Lookups(selected)

	// ---- queries with the model's prediction --------------------------------------------
	predict := func(qs []c13Query, model func(string) (refmodel.PrefixKind, []string)) *c13QuerySet {
		set := &c13QuerySet{qs: qs}
		for _, q := range qs {
			k, w := model(q.S)
			set.exp = append(set.exp, c13Expect{k, w})
		}
		return set
	}
	bugQ := predict(c13LoadStateQueries(cw.bugIds, cw.identIds, rng), bugPop.Resolve)
	identQ := predict(c13LoadStateQueries(cw.identIds, cw.bugIds, rng), identPop.Resolve)
	metaQ := func(m map[string][]string) *c13QuerySet {
		var qs []c13Query
		for _, v := range append(c13MetaQueries(m), "o-absent-key") {
			qs = append(qs, c13Query{S: v, Kind: "metadata", L: 1})
		}
		model := c13MetaModel(m)
		return predict(qs, func(v string) (refmodel.PrefixKind, []string) {
			if v == "o-absent-key" {
				return refmodel.PrefixNone, nil
			}
			return model(v)
		})
	}
	bugMetaQ, identMetaQ := metaQ(cw.bugMeta), metaQ(cw.identMeta)
	queriesOf := func(l *c13Lookup) *c13QuerySet {
		switch {
		case l.family == "metadata" && l.ns == "bugs":
			return bugMetaQ
		case l.family == "metadata":
			return identMetaQ
		case l.ns == "bugs":
			return bugQ
		}
		return identQ
	}

	// comments: a sample of combined ids (ResolveComment loads every candidate bug, so with few loaded
	// bugs every query reads bugs from git): the comments sharing the longest prefixes + a random rest
	var comSample []string
	{
		all := append([]string(nil), comPop.Ids()...)
		sort.SliceStable(all, func(i, j int) bool { return comPop.MaxSharedPrefix(all[i]) > comPop.MaxSharedPrefix(all[j]) })
		nTop, nRand := 4, 8
		if p.Bugs > 60 {
			nRand = 12
		}
		for i := 0; i < len(all) && i < nTop; i++ {
			comSample = append(comSample, all[i])
		}
		if len(all) > nTop {
			rest := shuffled(all[nTop:], rng)
			for i := 0; i < len(rest) && i < nRand; i++ {
				comSample = append(comSample, rest[i])
			}
		}
	}
	var comQs []c13Query
	{
		var tail []c13Query
		for _, q := range c13LoadStateQueries(comSample, nil, rng) {
			if bp, _ := entity.SeparateIds(q.S); bp == "" {
				tail = append(tail, q) // no bug part: every bug is a candidate and gets loaded; asked last
				continue
			}
			comQs = append(comQs, q)
		}
		comQs = append(comQs, tail...)
	}
	comQ := predict(comQs, comPop.Resolve)
	acc.count("loadstate_comment_sample", len(comSample))

	// ---- the answers of the all-loaded state, per lookup ---------------------------------
	ref := map[string]map[string]c13Ans{}
	refBad := map[string]map[string]bool{}

	// observe judges one answer: against the model, and against the all-loaded state.
	observe := func(state string, family, name string, q c13Query, e c13Expect, a c13Ans, tail, bad string, loadedNote func() string) {
		if ref[name] == nil {
			ref[name] = map[string]c13Ans{}
			refBad[name] = map[string]bool{}
		}
		rep := func() map[string]any {
			m := map[string]any{"api": name, "load_state": state, "query": q.S, "query_kind": q.Kind, "expected": e.kind.String(), "matching": e.want, "answer": a.String()}
			if loadedNote != nil {
				m["loaded"] = loadedNote()
			}
			return m
		}
		// the keys of the main pass: "prefix:<api>:<expected>-><observed>", "comment:<expected>-><observed>"
		modelKey := fmt.Sprintf("%s:%s:%s", family, name, tail)
		if family == "comment" {
			modelKey = "comment:" + tail
		}
		if state == "all-loaded" {
			ref[name][q.S] = a
			refBad[name][q.S] = bad != ""
			if bad != "" {
				acc.finding(modelKey, fmt.Sprintf("%s(%q) [every entity loaded]: %s", name, q.S, bad), rep())
			}
			return
		}
		base, has := ref[name][q.S]
		differs := has && base.canon() != a.canon()
		ln := ""
		if loadedNote != nil {
			ln = " (" + loadedNote() + ")"
		}
		switch {
		case bad != "" && differs:
			m := rep()
			m["answer_when_all_loaded"] = base.String()
			acc.finding(fmt.Sprintf("loadstate:%s:%s", name, tail),
				fmt.Sprintf("%s(%q) in load state %s%s: %s — the same repository with every entity loaded answered: %s", name, q.S, state, ln, bad, base.String()), m)
		case bad != "":
			acc.finding(modelKey, fmt.Sprintf("%s(%q) [load state %s]: %s", name, q.S, state, bad), rep())
		case differs && !refBad[name][q.S]:
			m := rep()
			m["answer_when_all_loaded"] = base.String()
			acc.finding(fmt.Sprintf("loadstate:%s:answer-differs:%s->%s", name, base.Class, a.Class),
				fmt.Sprintf("%s(%q) answers %s in load state %s, but %s on the same repository with every entity loaded", name, q.S, a.String(), state, base.String()), m)
		}
		if differs {
			acc.count("loadstate_answers_differing_from_all_loaded", 1)
		}
	}

	loadedBugs := func(c *cache.RepoCache) map[string]bool {
		m := map[string]bool{}
		for _, id := range c.VerifLoadedBugIds() {
			m[string(id)] = true
		}
		return m
	}
	countLoaded := func(want []string, loaded map[string]bool) int {
		n := 0
		for _, id := range want {
			if loaded[id] {
				n++
			}
		}
		return n
	}
	// partialNote records how an ambiguous query meets the load state.
	partialNote := func(state, ns string, want []string, loaded map[string]bool) {
		n := countLoaded(want, loaded)
		cls := "some-loaded"
		switch {
		case n == 0:
			cls = "none-loaded"
		case n == len(want):
			cls = "all-loaded"
		case n == 1:
			cls = "exactly-one-loaded"
		}
		acc.count(fmt.Sprintf("loadstate_ambiguous/%s/%s/matches-%s", state, ns, cls), 1)
		if cls == "exactly-one-loaded" || cls == "some-loaded" {
			acc.count("loadstate_ambiguous_partially_loaded/"+ns, 1)
		}
	}

	// run asks queries idx (in that order) of a lookup.
	run := func(c *cache.RepoCache, state string, l *c13Lookup, set *c13QuerySet, idx []int, loadedOf func() map[string]bool) {
		for _, i := range idx {
			q, e := set.qs[i], set.exp[i]
			var loaded map[string]bool
			if e.kind == refmodel.PrefixMultiple && loadedOf != nil {
				loaded = loadedOf()
				ns := l.ns
				if l.family == "metadata" {
					ns += "-by-metadata"
				}
				partialNote(state, ns, e.want, loaded)
			}
			a := l.call(c, q.S)
			judge := l.judge
			if judge == nil {
				judge = c13JudgeSelect(l.selected, []string{q.S, "tail"}) // the arguments are part of the judgement
			}
			tail, bad := judge(e.kind, e.want, a)
			acc.eval(fmt.Sprintf("%s@%s/%s/%s/%s", l.name, state, q.Kind, lenClass(q.L), e.kind), q.L >= 1 && popN[l.ns] >= 2)
			acc.count(fmt.Sprintf("loadstate_outcome/%s/%s/%s", state, l.name, tail), 1)
			var note func() string
			if loaded != nil {
				note = func() string {
					var in []string
					for _, id := range e.want {
						if loaded[id] {
							in = append(in, id)
						}
					}
					return fmt.Sprintf("%d of the %d matching entities are loaded: %v", len(in), len(e.want), in)
				}
			}
			observe(state, l.family, l.name, q, e, a, tail, bad, note)
		}
	}
	split := func(set *c13QuerySet) (quiet, loading []int) {
		for i, e := range set.exp {
			if e.kind == refmodel.PrefixUnique {
				loading = append(loading, i)
			} else {
				quiet = append(quiet, i)
			}
		}
		return
	}
	// section runs all lookups of a namespace in one established load state.
	section := func(c *cache.RepoCache, state string, lookups []*c13Lookup, loadedOf func() map[string]bool) {
		// (1) queries expected to be ambiguous / unmatched: they must not load anything
		for _, l := range lookups {
			if l.setup != nil {
				if err := l.setup(c); err != nil {
					acc.res.Inconclusive = append(acc.res.Inconclusive, "cannot write the select file: "+err.Error())
					continue
				}
			}
			quiet, _ := split(queriesOf(l))
			run(c, state, l, queriesOf(l), quiet, loadedOf)
			if l.teardown != nil {
				l.teardown(c)
			}
		}
		// (2) uniquely matching queries, the lookups taking turns to come first on a not yet loaded entity
		for k, l := range lookups {
			if l.setup != nil {
				if err := l.setup(c); err != nil {
					continue
				}
			}
			_, loading := split(queriesOf(l))
			// rotate the start so that each lookup meets entities the others have not loaded yet
			if n := len(loading); n > 0 {
				off := (k * n) / len(lookups)
				loading = append(append([]int{}, loading[off:]...), loading[:off]...)
			}
			run(c, state, l, queriesOf(l), loading, nil)
			if l.teardown != nil {
				l.teardown(c)
			}
		}
	}
	comments := func(c *cache.RepoCache, state string) {
		for i, q := range comQ.qs {
			e := comQ.exp[i]
			a := c13CommentCall(c, q.S)
			tail, bad := e.kind.String()+"->"+a.Class, ""
			switch {
			case a.panicked != nil:
				tail, bad = "panic", fmt.Sprintf("panicked: %v", a.panicked)
			case e.kind == refmodel.PrefixUnique:
				wc := commentOf[e.want[0]]
				if a.err != nil {
					tail, bad = "unique->error", fmt.Sprintf("exactly one comment matches (%s in bug %s) but the call failed: %v", wc.Combined, wc.Bug, a.err)
				} else if a.Id != wc.Combined || a.Bug != wc.Bug {
					tail, bad = "unique->other-comment", fmt.Sprintf("exactly one comment matches (%s in bug %s) but (%s, bug %s) was returned", wc.Combined, wc.Bug, a.Id, a.Bug)
				}
			case a.err == nil:
				tail, bad = e.kind.String()+"->success", fmt.Sprintf("%d comments match, yet it returned comment %s without error", len(e.want), a.Id)
			}
			acc.eval(fmt.Sprintf("bugs.ResolveComment@%s/%s/%s/%s", state, q.Kind, lenClass(q.L), e.kind), q.L >= 1 && popN["comments"] >= 2)
			acc.count(fmt.Sprintf("loadstate_outcome/%s/bugs.ResolveComment/%s", state, tail), 1)
			observe(state, "comment", "bugs.ResolveComment", q, e, a, tail, bad, nil)
		}
	}

	// ---- all-loaded: the cache as built -----------------------------------------------------
	nLoaded := len(c.VerifLoadedBugIds())
	acc.seen("loadstate_loaded_bugs", fmt.Sprintf("all-loaded:%s", fraction(nLoaded, bugPop.Len())))
	if nLoaded != bugPop.Len() {
		acc.res.Inconclusive = append(acc.res.Inconclusive, fmt.Sprintf("after building the cache %d of %d bugs are loaded: the reference load state is not reached", nLoaded, bugPop.Len()))
		return
	}
	allBugs := func() map[string]bool { return loadedBugs(c) }
	section(c, "all-loaded", identLookups, nil)
	section(c, "all-loaded", bugLookups, allBugs)
	comments(c, "all-loaded")

	// ---- the other load states -------------------------------------------------------------
	sortedBugs, sortedIdents := bugPop.Ids(), identPop.Ids()
	off := rng.Intn(2)
	lru := 1 + rng.Intn(3)
	recipes := []c13LoadRecipe{
		{name: "reopened-none", reopen: true},
		{name: "reopened-subset", reopen: true, bugs: everyOther(sortedBugs, off), idents: everyOther(sortedIdents, off)},
		{name: "reopened-complement", reopen: true, bugs: everyOther(sortedBugs, 1-off), idents: everyOther(sortedIdents, 1-off)},
		{name: "lru-small", reopen: true, lru: lru, bugs: shuffled(sortedBugs, rng), idents: shuffled(sortedIdents, rng)},
	}
	acc.seen("loadstate_lru_sizes", fmt.Sprintf("%d", lru))

	establish := func(rc c13LoadRecipe, ns string) (*cache.RepoCache, bool) {
		if err := r.Reopen(bug.ClockLoader); err != nil {
			acc.res.Inconclusive = append(acc.res.Inconclusive, "load state "+rc.name+": cannot reopen the repository: "+err.Error())
			return nil, false
		}
		nc, err := cache.NewRepoCacheNoEvents(r.Repo)
		if err != nil {
			acc.res.Inconclusive = append(acc.res.Inconclusive, "load state "+rc.name+": cannot reopen the cache: "+err.Error())
			return nil, false
		}
		r.Cache = nc
		if n := len(nc.VerifLoadedBugIds()); n != 0 {
			acc.res.Inconclusive = append(acc.res.Inconclusive, fmt.Sprintf("load state %s: %d bugs are loaded right after reopening the cache (was it rebuilt?)", rc.name, n))
			return nc, false
		}
		if rc.lru > 0 {
			nc.VerifSetCacheSize(rc.lru)
		}
		if ns == "identities" {
			for _, id := range rc.idents {
				if _, err := nc.Identities().Resolve(entity.Id(id)); err != nil {
					acc.res.Inconclusive = append(acc.res.Inconclusive, "load state "+rc.name+": identity "+id+" cannot be resolved by its full id: "+err.Error())
					return nc, false
				}
			}
		} else {
			for _, id := range rc.bugs {
				if _, err := nc.Bugs().Resolve(entity.Id(id)); err != nil {
					acc.res.Inconclusive = append(acc.res.Inconclusive, "load state "+rc.name+": bug "+id+" cannot be resolved by its full id: "+err.Error())
					return nc, false
				}
			}
		}
		return nc, true
	}
	// the identities expected in memory (there is no hook listing them): what the recipe resolved, by
	// construction; valid while nothing else is resolved, i.e. during step (1) of an identity section
	expectedIdents := func(rc c13LoadRecipe) map[string]bool {
		m := map[string]bool{}
		ids := rc.idents
		if rc.lru > 0 && len(ids) > rc.lru {
			ids = ids[len(ids)-rc.lru:]
		}
		for _, id := range ids {
			m[id] = true
		}
		return m
	}

	for _, rc := range recipes {
		for _, ns := range []string{"identities", "bugs", "comments"} {
			nc, ok := establish(rc, ns)
			if !ok {
				continue
			}
			before := len(nc.VerifLoadedBugIds())
			switch ns {
			case "identities":
				exp := expectedIdents(rc)
				section(nc, rc.name, identLookups, func() map[string]bool { return exp })
			case "bugs":
				acc.seen("loadstate_loaded_bugs", rc.name+":"+fraction(before, bugPop.Len()))
				section(nc, rc.name, bugLookups, func() map[string]bool { return loadedBugs(nc) })
			case "comments":
				comments(nc, rc.name)
				acc.seen("loadstate_loaded_bugs_after_comment_queries", rc.name+":"+fraction(len(nc.VerifLoadedBugIds()), bugPop.Len()))
			}
			if rc.lru > 0 && ns != "comments" {
				// churn: ambiguous, unique and unmatched queries shuffled; every unique answer of a loading
				// lookup replaces a loaded entity, so the ambiguous ones meet ever different load states
				lookups := identLookups
				var lo func() map[string]bool
				if ns == "bugs" {
					lookups = bugLookups
					lo = func() map[string]bool { return loadedBugs(nc) }
				}
				for _, l := range lookups {
					if !l.churn {
						continue
					}
					set := queriesOf(l)
					quiet, loading := split(set)
					var amb, none []int
					for _, i := range quiet {
						if set.exp[i].kind == refmodel.PrefixMultiple {
							amb = append(amb, i)
						} else {
							none = append(none, i)
						}
					}
					pick := func(idx []int, n int) []int {
						idx = append([]int(nil), idx...)
						rng.Shuffle(len(idx), func(i, j int) { idx[i], idx[j] = idx[j], idx[i] })
						if len(idx) > n {
							idx = idx[:n]
						}
						return idx
					}
					mix := append(append(pick(amb, 400), pick(loading, 300)...), pick(none, 150)...)
					rng.Shuffle(len(mix), func(i, j int) { mix[i], mix[j] = mix[j], mix[i] })
					run(nc, rc.name+"+churn", l, set, mix, lo)
				}
			}
		}
	}
	acc.count("loadstate_distinct_queries/bugs", len(bugQ.qs))
	acc.count("loadstate_distinct_queries/identities", len(identQ.qs))
	acc.count("loadstate_distinct_queries/comments", len(comQ.qs))
	acc.count("loadstate_distinct_queries/bug-metadata", len(bugMetaQ.qs))
	acc.count("loadstate_distinct_queries/identity-metadata", len(identMetaQ.qs))
}

// fraction classifies n of total without putting population-dependent numbers into set members.
func fraction(n, total int) string {
	switch {
	case total == 0:
		return "empty-population"
	case n == 0:
		return "none"
	case n == total:
		return "all"
	case n*2 == total || n*2 == total-1 || n*2 == total+1:
		return "half"
	case n <= 3:
		return "at-most-3"
	}
	return "some"
}
