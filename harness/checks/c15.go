package checks

// C15 — git-bug never disturbs the host repository and writes only valid git data.
//
// A host repository is created with STOCK git (commits, branches, tags, a stash, a
// dirty work tree, unrelated configuration, two bare remotes, a peer clone). A
// session of CLI and library actions is run on it; before and after EVERY action the
// monitor takes a full snapshot (file manifest, refs, HEAD, index, status, stash,
// config multiset, remote refs) and applies an allow-list to the difference. After
// the session stock git decides about validity: fsck --strict --full, clone, fetch,
// push into a receive.fsckObjects remote, gc --prune=now, with every bug (and every
// attached file) still readable afterwards.

import (
	"bytes"
	"context"
	"crypto/sha256"
	"encoding/hex"
	"encoding/json"
	"fmt"
	"io/fs"
	"math/rand"
	"net/http"
	"net/http/httptest"
	"os"
	"os/exec"
	"path/filepath"
	"regexp"
	"sort"
	"strings"
	"time"

	"github.com/MichaelMure/git-bug/cache"
	"github.com/MichaelMure/git-bug/entities/bug"
	"github.com/MichaelMure/git-bug/entities/identity"
	"github.com/MichaelMure/git-bug/entity"
	"github.com/MichaelMure/git-bug/entity/dag"
	"github.com/MichaelMure/git-bug/repository"

	"verif/harness/mon"
	"verif/harness/world"
)

func init() {
	registerChild("c15", func(args []string) int { return serveBatch(args, runC15Session) })
	register("C15", runC15)
}

// ---- case description -------------------------------------------------------------

// C15Action is one step of a session. Bug operands are indexes into the sorted list of
// the bug ids present when the action runs.
type C15Action struct {
	Kind   string         `json:"kind"`
	Bug    int            `json:"bug,omitempty"`
	Text   string         `json:"text,omitempty"`
	Text2  string         `json:"text2,omitempty"`
	Labels []string       `json:"labels,omitempty"`
	Remote string         `json:"remote,omitempty"`
	Specs  []world.OpSpec `json:"specs,omitempty"`
	N      int            `json:"n,omitempty"`
	UseSel bool           `json:"use_selection,omitempty"` // omit the BUG_ID argument (uses `bug select`)
}

// C15Session is one replayable case.
type C15Session struct {
	Name       string `json:"name"`
	PackedRefs bool   `json:"packed_refs"`   // the host's refs are packed before git-bug touches it
	Detached   bool   `json:"detached_head"` // HEAD is detached
	OddAuthor  bool   `json:"odd_author"`    // author.name / committer.name with characters stock git strips from identities
	// LongLived: "repo" or "cache" — the ll-* actions go through ONE repository handle (a GoGitRepo, or a RepoCache
	// on top of one) that stays open while the foreign actor (env-*, cli-*, peer-work) works on the same repository
	LongLived string `json:"long_lived,omitempty"`
	// IdentCfg: where the host configuration offers material for the author/committer line of a commit (local, global,
	// included file, GIT_AUTHOR_*/GIT_COMMITTER_* environment of the git-bug processes) and with what values;
	// applied at the end of the setup (c15_hostvariants.go). IdentGroup names the one source that holds the hostile values.
	IdentCfg   []C15Cfg `json:"ident_cfg,omitempty"`
	IdentGroup string   `json:"ident_group,omitempty"`
	// Layout: from where in which kind of host repository git-bug is started ("" = the root of an ordinary work tree)
	Layout  string      `json:"layout,omitempty"`
	Actions []C15Action `json:"actions"`
}

// C15Result is what the monitor observed in one session.
type C15Result struct {
	Findings     []string // key|what
	Counters     map[string]int
	Sets         map[string][]string
	Shape        string
	HarnessError string
	Inconclusive string
}

var c15Texts = []string{
	"plain message zq17xk",
	"multi\nline\n\nmessage with trailing newline\n",
	"unicode: żółć ☃ 日本語 \u202e rtl",
	"-starts with a dash",
	"quotes \" ' ` and backslash \\ and $HOME and %s",
	"tab\tand\rcarriage return",
	strings.Repeat("long line ", 1200),
	"refs/heads/main HEAD ../../etc/passwd",
	"",
}

var c15Titles = []string{"crash on start", "żółć ☃", "-t looks like a flag", "title with \"quotes\"", "refs/heads/main", strings.Repeat("t", 300), "x"}
var c15Labels = []string{"bug", "needs review", "ünï", "a/b", "HEAD", "-x", "p:1"}
var c15Files = []string{"attachment one\n", "\x00\x01binary\xff\xfe", "", strings.Repeat("big", 20000), "tree 0\x00not a tree"}

func c15RandSpecs(rng *rand.Rand) []world.OpSpec {
	n := 1 + rng.Intn(3)
	out := make([]world.OpSpec, n)
	for i := range out {
		k := opKinds[rng.Intn(len(opKinds))]
		s := world.OpSpec{Kind: k, Text: c15Texts[rng.Intn(len(c15Texts)-1)]}
		if k == "title" {
			s.Text = c15Titles[rng.Intn(len(c15Titles))]
		}
		if k == "meta" {
			s.Text = fmt.Sprintf("m%03d", rng.Intn(1000))
		}
		if k == "labels" || k == "forcelabels" {
			s.Add = []string{c15Labels[rng.Intn(len(c15Labels))]}
			if rng.Intn(3) == 0 {
				s.Remove = []string{c15Labels[rng.Intn(len(c15Labels))]}
				if s.Remove[0] == s.Add[0] {
					s.Remove = nil
				}
			}
		}
		if (k == "comment" || k == "edit" || k == "editcreate") && rng.Intn(2) == 0 {
			for f := 0; f < 1+rng.Intn(3); f++ {
				s.Files = append(s.Files, c15Files[rng.Intn(len(c15Files))]+fmt.Sprint(rng.Intn(3)))
			}
		}
		out[i] = s
	}
	return out
}

type c15Weighted struct {
	kind string
	w    int
}

var c15Alphabet = []c15Weighted{
	{"cli-bug-new", 14}, {"cli-comment", 10}, {"cli-label-new", 6}, {"cli-label-rm", 4}, {"cli-close", 4}, {"cli-open", 3},
	{"cli-title", 5}, {"cli-rm", 3}, {"cli-select", 3}, {"cli-deselect", 2}, {"cli-push", 7}, {"cli-pull", 7}, {"cli-wipe", 1},
	{"cli-add-token", 2}, {"cli-read", 6}, {"cli-user-new", 1}, {"cli-bridge-new", 2}, {"cli-bridge-rm", 1},
	{"lib-edit", 9}, {"lib-cache", 5}, {"lib-rm", 2}, {"lib-idmut", 2}, {"lib-pull", 3}, {"lib-push", 2}, {"lib-id-rm", 1},
	{"peer-work", 7}, {"env-pack-refs", 2},
}

func c15Sessions(r *mon.Run) []C15Session {
	n := r.Pick(6, 120)
	out := make([]C15Session, n)
	total := 0
	for _, a := range c15Alphabet {
		total += a.w
	}
	for i := range out {
		rng := mon.Rng(r.Seed, "c15", i)
		s := C15Session{Name: fmt.Sprintf("session-%d", i), PackedRefs: i%2 == 1, OddAuthor: i%6 == 4, Detached: i%4 == 3}
		nAct := 15 + rng.Intn(26)
		wiped := false
		// most sessions start with an identity; some run a few commands without one first
		if rng.Intn(5) == 0 {
			s.Actions = append(s.Actions, C15Action{Kind: "cli-bug-new", Text: c15Titles[0], Text2: c15Texts[0]}, C15Action{Kind: "cli-read", N: 0})
		}
		s.Actions = append(s.Actions, C15Action{Kind: "cli-user-new", Text: "Alice Host", Text2: "alice@example.com"},
			C15Action{Kind: "cli-bug-new", Text: c15Titles[rng.Intn(len(c15Titles))], Text2: c15Texts[rng.Intn(len(c15Texts))]})
		// one commit whose operations each carry different attachments (the blobs of all of them have to be
		// referenced from that commit's tree)
		s.Actions = append(s.Actions, C15Action{Kind: "lib-edit", Bug: 0, Specs: []world.OpSpec{
			{Kind: "comment", Text: c15Texts[0], Files: []string{c15Files[0] + "m1", c15Files[1%len(c15Files)] + "m2"}},
			{Kind: "comment", Text: c15Texts[1%len(c15Texts)], Files: []string{c15Files[2%len(c15Files)] + "m3"}},
			{Kind: "editcreate", Text: c15Texts[0], Files: []string{c15Files[0] + "m4", c15Files[0] + "m1"}},
		}})
		for len(s.Actions) < nAct {
			x := rng.Intn(total)
			kind := ""
			for _, a := range c15Alphabet {
				if x < a.w {
					kind = a.kind
					break
				}
				x -= a.w
			}
			a := C15Action{Kind: kind, Bug: rng.Intn(1000), N: rng.Intn(1000)}
			switch kind {
			case "cli-bug-new":
				a.Text, a.Text2 = c15Titles[rng.Intn(len(c15Titles))], c15Texts[rng.Intn(len(c15Texts))]
			case "cli-comment":
				a.Text, a.UseSel = c15Texts[rng.Intn(len(c15Texts))], rng.Intn(4) == 0
			case "cli-label-new", "cli-label-rm":
				a.Labels = []string{c15Labels[rng.Intn(len(c15Labels))]}
				if rng.Intn(2) == 0 {
					a.Labels = append(a.Labels, c15Labels[rng.Intn(len(c15Labels))])
				}
				a.UseSel = rng.Intn(4) == 0
			case "cli-title":
				a.Text, a.UseSel = c15Titles[rng.Intn(len(c15Titles))], rng.Intn(4) == 0
			case "cli-close", "cli-open":
				a.UseSel = rng.Intn(4) == 0
			case "cli-push", "cli-pull", "lib-pull", "lib-push":
				a.Remote = "origin"
				if rng.Intn(4) == 0 {
					a.Remote = "upstream"
				}
			case "cli-wipe":
				if wiped || len(s.Actions) < 8 {
					continue
				}
				wiped = true
				s.Actions = append(s.Actions, a, C15Action{Kind: "cli-user-new", Text: "Alice Again", Text2: "alice2@example.com"})
				continue
			case "cli-user-new":
				a.Text, a.Text2 = fmt.Sprintf("Extra User %d", a.N), "extra@example.com"
			case "lib-edit":
				a.Specs = c15RandSpecs(rng)
			case "lib-cache":
				a.Text, a.Text2 = c15Titles[rng.Intn(len(c15Titles))], c15Texts[rng.Intn(len(c15Texts))]
			case "peer-work":
				a.Specs = c15RandSpecs(rng)
			}
			s.Actions = append(s.Actions, a)
		}
		// rare kinds: make sure a session misses few of them (inserted after the opening actions)
		for _, k := range []string{"cli-add-token", "cli-bridge-new", "lib-push", "lib-id-rm", "env-pack-refs", "cli-rm", "lib-cache", "peer-work", "cli-wipe"} {
			has := false
			for _, a := range s.Actions {
				has = has || a.Kind == k
			}
			if has || (k == "cli-wipe" && i%3 != 0) || (k != "cli-wipe" && rng.Intn(3) == 0) {
				continue
			}
			a := C15Action{Kind: k, Bug: rng.Intn(1000), N: rng.Intn(1000), Remote: "origin", Specs: c15RandSpecs(rng),
				Text: c15Titles[rng.Intn(len(c15Titles))], Text2: c15Texts[rng.Intn(len(c15Texts))]}
			pos := 4 + rng.Intn(len(s.Actions)-4)
			ins := []C15Action{a}
			if k == "cli-wipe" {
				ins = append(ins, C15Action{Kind: "cli-user-new", Text: "Alice Again", Text2: "alice2@example.com"},
					C15Action{Kind: "cli-bug-new", Text: "after the wipe", Text2: c15Texts[0]})
			}
			s.Actions = append(s.Actions[:pos], append(ins, s.Actions[pos:]...)...)
		}
		// targeted shape (every second session): stock git packs all refs (as git gc does), the peer
		// moves a bug on origin, the host pulls: git-bug has to update a remote-tracking ref that only
		// lives in packed-refs
		if i%2 == 0 {
			pos := 6 + rng.Intn(len(s.Actions)-6)
			ins := []C15Action{{Kind: "cli-push", Remote: "origin"}, {Kind: "env-pack-refs"},
				{Kind: "peer-work", N: 1, Bug: rng.Intn(1000), Specs: []world.OpSpec{{Kind: "comment", Text: "from the peer after pack-refs"}}},
				{Kind: "cli-pull", Remote: "origin"}, {Kind: "cli-push", Remote: "origin"}}
			s.Actions = append(s.Actions[:pos], append(ins, s.Actions[pos:]...)...)
		}
		// targeted shape (every second session): a push right after the identity was created, while the repository
		// holds no bug yet - one of the two namespaces has nothing to send; through the CLI and through the library, to the
		// remote nothing of the host was ever pushed to (every host branch would be new there) and to origin
		if i%2 == 1 {
			for k, a := range s.Actions {
				if a.Kind == "cli-user-new" {
					ins := []C15Action{{Kind: "cli-push", Remote: "mirror"}, {Kind: "lib-push", Remote: "mirror"}, {Kind: "cli-push", Remote: "origin"}}
					if k > 0 {
						// a bug was written before the identity existed in this session: nothing to send is the identity side
						ins = ins[:1]
					}
					s.Actions = append(s.Actions[:k+1], append(ins, s.Actions[k+1:]...)...)
					break
				}
			}
		}
		// every session ends with everything exchanged, so that the remote holds git-bug data
		s.Actions = append(s.Actions, C15Action{Kind: "cli-pull", Remote: "origin"}, C15Action{Kind: "cli-push", Remote: "origin"})
		out[i] = s
	}
	out = append(out, c15LongLivedSessions(r)...)
	return append(out, c15HostVariantSessions(r)...)
}

// ---- session state ----------------------------------------------------------------

type c15Sess struct {
	sc   C15Session
	dir  string
	host string // the work tree the setup decorates (branches, stash, dirty files, configuration)
	// root is the directory tree the manifest covers, cwd the directory git-bug (and the observer's stock git) is
	// started from, gitDir the git directory stock git uses from there (rev-parse --git-common-dir), mainDir the
	// directory `git worktree remove` is run from. Ordinary sessions: root = cwd = mainDir = host, gitDir = host/.git.
	root, cwd, gitDir, mainDir string
	otherGit                   map[string]string // manifest-relative prefix of another git directory in root -> what it is
	identEnv                   []string          // extra environment of the git-bug processes (IdentCfg, scope env)
	refused                    bool              // git-bug does not open a repository from cwd (layout not supported)
	crTwin                     map[string]bool   // "key=value" of a config entry that held carriage returns, without them
	misplaced                  bool              // git-bug reported data stock git does not list from the same directory

	origin   string
	upstream string
	mirror   string // a third remote, empty when the session starts: nothing of the host was ever pushed there
	peer     string
	home     string
	env      []string
	bin      string
	res      *C15Result
	w        *world.World
	gitlab   *httptest.Server
	selected bool
	// inValidity is set while stock git judges the result of the session
	inValidity bool
	// long-lived-handle sessions (c15_longlived.go)
	ll      *c15Handle
	envSeq  int
	damaged bool // a finding about invalid git data in the host has been recorded
	// expect is the foreign state as only the foreign actor (env-* actions) has moved it
	expect            *c15Foreign
	foreignTouchedCfg map[string]bool
	foreignTouchedRef map[string]bool
}

func (s *c15Sess) count(k string, n int) { s.res.Counters[k] += n }
func (s *c15Sess) seen(set, m string) {
	for _, x := range s.res.Sets[set] {
		if x == m {
			return
		}
	}
	if len(s.res.Sets[set]) < 60 {
		s.res.Sets[set] = append(s.res.Sets[set], m)
	}
}
func (s *c15Sess) find(key, what string) {
	if s.inValidity && c15IdentLine.MatchString(what) {
		// the same failure in a session with an identity-hostile host configuration is its own class
		switch {
		case s.sc.OddAuthor || s.sc.IdentGroup == "local-author-committer":
			key += "[odd-author-config]"
		case s.sc.IdentGroup != "":
			key += "[hostile-ident-config:" + s.sc.IdentGroup + "]"
		}
	}
	for _, p := range []string{"fsck-error:", "ref-to-missing-object:", "broken-ref-written:"} {
		if strings.HasPrefix(key, p) {
			s.damaged = true // stock git may refuse to work on this repository from now on
		}
	}
	for _, f := range s.res.Findings {
		if strings.HasPrefix(f, key+"|") {
			return
		}
	}
	s.res.Findings = append(s.res.Findings, key+"|"+what)
}

func (s *c15Sess) run(dir string, bin string, args ...string) (stdout, stderr string, code int, err error) {
	ctx, cancel := context.WithTimeout(context.Background(), 120*time.Second)
	defer cancel()
	cmd := exec.CommandContext(ctx, bin, args...)
	cmd.Dir = dir
	cmd.Env = s.env
	if bin == s.bin && len(s.identEnv) > 0 {
		cmd.Env = append(append([]string{}, s.env...), s.identEnv...)
	}
	var o, e bytes.Buffer
	cmd.Stdout, cmd.Stderr = &o, &e
	err = cmd.Run()
	if ctx.Err() != nil {
		return o.String(), e.String(), -1, fmt.Errorf("watchdog: %s %v", filepath.Base(bin), args)
	}
	if ee, ok := err.(*exec.ExitError); ok {
		return o.String(), e.String(), ee.ExitCode(), nil
	}
	return o.String(), e.String(), 0, err
}

// git runs stock git and fails the setup on error.
func (s *c15Sess) git(dir string, args ...string) (string, error) {
	out, errOut, code, err := s.run(dir, "/usr/bin/git", args...)
	if err != nil {
		return out, err
	}
	if code != 0 {
		return out, fmt.Errorf("git %v: exit %d: %s", args, code, errOut)
	}
	return out, nil
}

func (s *c15Sess) mustGit(dir string, args ...string) string {
	out, err := s.git(dir, args...)
	if err != nil {
		panic(c15Harness{err})
	}
	return out
}

type c15Harness struct{ err error }

// c15IdentLine recognises stock git's complaints about author/committer lines.
var c15IdentLine = regexp.MustCompile(`author/committer|badName|badEmail|badDate|badTimezone|missingEmail|missingNameBeforeEmail|missingSpaceBeforeEmail|missingSpaceBeforeDate|zeroPaddedDate`)

func (s *c15Sess) write(rel, content string) {
	p := filepath.Join(s.host, rel)
	_ = os.MkdirAll(filepath.Dir(p), 0o755)
	if err := os.WriteFile(p, []byte(content), 0o644); err != nil {
		panic(c15Harness{err})
	}
}

// setup builds the host repository, its remotes and the peer clone with stock git only.
func (s *c15Sess) setup() {
	g := s.mustGit
	for _, d := range []string{s.home, s.host} {
		_ = os.MkdirAll(d, 0o755)
	}
	g(s.dir, "init", "-q", "--bare", "-b", "main", s.origin)
	g(s.dir, "init", "-q", "--bare", "-b", "main", s.upstream)
	g(s.dir, "init", "-q", "--bare", "-b", "main", s.mirror)
	if c15LayoutFamily(s.sc.Layout) == "separate-git-dir" {
		g(s.host, "init", "-q", "-b", "main", "--separate-git-dir", filepath.Join(s.root, "sep.git"), ".")
	} else {
		g(s.host, "init", "-q", "-b", "main", ".")
	}
	h := s.host
	hostGitDir := strings.TrimSpace(g(h, "rev-parse", "--absolute-git-dir"))
	g(h, "config", "user.name", "Host User")
	g(h, "config", "user.email", "host@example.com")
	g(h, "config", "core.autocrlf", "false")
	g(h, "config", "core.whitespace", "trailing-space,space-before-tab")
	g(h, "config", "alias.lg", "log --pretty=format:'%h %s' --graph")
	g(h, "config", "alias.st", "!f() { git status \"$@\"; }; f")
	g(h, "config", "--add", "myapp.path", "/one")
	g(h, "config", "--add", "myapp.path", "/two # not a comment")
	g(h, "config", "myapp.winpath", "C:\\dir\\file")
	g(h, "config", "myapp.spaced", "  leading and trailing  ")
	g(h, "config", "myApp.CamelKey", "Value;semi")
	g(h, "config", "myapp.cr", "carriage\rreturn, also at the end\r")
	g(h, "config", "url.https://example.invalid/.insteadOf", "ex:")
	g(h, "config", "branch.main.description", "line one\nline two")
	g(h, "config", "include.path", "extra.cfg")
	if err := os.WriteFile(filepath.Join(hostGitDir, "extra.cfg"), []byte("[extra]\n\tkey = value\n"), 0o644); err != nil {
		panic(c15Harness{err})
	}
	if s.sc.OddAuthor {
		// legal for stock git (it strips <, > and newlines when it builds an identity line)
		g(h, "config", "author.name", "Ann <the boss> Lee")
		g(h, "config", "committer.name", "Build\nBot")
		g(h, "config", "committer.email", "bot@example.com>")
	}
	s.write("a.txt", "a1\n")
	s.write("b.txt", "b1\n")
	s.write("dir/c.txt", "c1\n")
	g(h, "add", ".")
	g(h, "commit", "-q", "-m", "one")
	s.write("a.txt", "a2\n")
	g(h, "commit", "-q", "-am", "two")
	g(h, "tag", "-a", "v1", "-m", "version one")
	g(h, "tag", "lightweight")
	g(h, "checkout", "-q", "-b", "feature")
	s.write("dir/f.txt", "f\n")
	g(h, "add", ".")
	g(h, "commit", "-q", "-m", "feature work")
	g(h, "checkout", "-q", "main")
	s.write("b.txt", "b3\n")
	g(h, "commit", "-q", "-am", "three")
	g(h, "remote", "add", "origin", s.origin)
	g(h, "remote", "add", "mirror", s.mirror)
	g(h, "remote", "add", "upstream", s.upstream)
	g(h, "config", "remote.upstream.fetch", "+refs/heads/*:refs/remotes/upstream/custom/*")
	g(h, "config", "--add", "remote.upstream.fetch", "+refs/tags/v*:refs/remotes/upstream/tags/v*")
	g(h, "push", "-q", "origin", "main", "feature", "v1")
	g(h, "push", "-q", "upstream", "main")
	g(h, "fetch", "-q", "origin")
	// peer clone: moves origin and upstream ahead of what the host knows, adds a tag on a commit the host has
	g(s.dir, "clone", "-q", s.origin, s.peer)
	p := s.peer
	g(p, "config", "user.name", "Peer User")
	g(p, "config", "user.email", "peer@example.com")
	g(p, "tag", "peer-tag", "HEAD~1")
	if err := os.WriteFile(filepath.Join(p, "peer.txt"), []byte("peer\n"), 0o644); err != nil {
		panic(c15Harness{err})
	}
	g(p, "add", ".")
	g(p, "commit", "-q", "-m", "peer commit")
	g(p, "tag", "-a", "v2", "-m", "version two")
	g(p, "push", "-q", "origin", "main", "peer-tag", "v2")
	g(p, "remote", "add", "upstream", s.upstream)
	g(p, "push", "-q", "upstream", "main", "v2")
	// stash + dirty work tree
	s.write("a.txt", "a-stashed\n")
	g(h, "stash", "-q")
	s.write("b.txt", "b-staged\n")
	s.write("staged-new.txt", "new\n")
	g(h, "add", "b.txt", "staged-new.txt")
	s.write("a.txt", "a-unstaged\n")
	s.write("untracked.txt", "untracked\n")
	s.write("dir/untracked-too.txt", "u\n")
	// foreign refs right next to git-bug's namespaces (a prefix match without the slash would hit them)
	g(h, "update-ref", "refs/bugsarchive/keep", "HEAD")
	g(h, "update-ref", "refs/identities-old/keep", "HEAD~1")
	g(h, "update-ref", "refs/remotes/origin/bugsarchive/keep", "HEAD")
	g(h, "branch", "bugs/hostbranch")
	g(h, "tag", "identities/hosttag")
	if s.sc.Detached {
		g(h, "checkout", "-q", "--detach")
	}
	if s.sc.PackedRefs {
		g(h, "pack-refs", "--all")
	}
	// everything stock git has to commit is done: the layout git-bug is started from, then the identity configuration
	s.buildLayout()
	s.applyIdentCfg()
}

// ---- snapshot + allow-list ----------------------------------------------------------

type c15Snap struct {
	Files    map[string]string
	Refs     map[string]string
	Broken   []string // refs stock git reports as broken
	Head     string
	Status   string
	Stash    string
	Config   []string // sorted "key=value" entries of git config --local --list -z
	ConfigOK bool
	Packed   []string // foreign lines of packed-refs (with their peel lines)
	PackedHd string
	Remotes  map[string]map[string]string // origin/upstream: refs
}

var c15AllowedRef = regexp.MustCompile(`^refs/(bugs|identities)/|^refs/remotes/[^/]+/(bugs|identities)/`)

func sha(b []byte) string {
	h := sha256.Sum256(b)
	return hex.EncodeToString(h[:10])
}

// refsOf lists the refs stock git sees (value: "<object id> <object type> <symref>"), and the refs it refuses to
// see ("ignoring broken ref"). A ref whose object is not in the repository has the object type "MISSING" (the
// usual `git for-each-ref` with %(objecttype) dies on such a repository: "fatal: missing object ... for <ref>").
func (s *c15Sess) refsOf(dir string) (map[string]string, []string) {
	out, errOut, code, err := s.run(dir, "/usr/bin/git", "for-each-ref", "--format=%(refname) %(objectname) %(objecttype) %(symref)")
	if err == nil && code != 0 && strings.Contains(errOut, "missing object") {
		out, errOut, code, err = s.run(dir, "/usr/bin/git", "for-each-ref", "--format=%(refname) %(objectname) ? %(symref)")
		if err == nil && code == 0 {
			var fixed []string
			for _, l := range strings.Split(strings.TrimSpace(out), "\n") {
				f := strings.SplitN(l, " ", 4)
				if len(f) < 3 {
					continue
				}
				typ, _, tcode, terr := s.run(dir, "/usr/bin/git", "cat-file", "-t", f[1])
				if terr != nil {
					panic(c15Harness{terr})
				}
				f[2] = strings.TrimSpace(typ)
				if tcode != 0 {
					f[2] = "MISSING"
				}
				fixed = append(fixed, strings.Join(f, " "))
			}
			out = strings.Join(fixed, "\n")
		}
	}
	if err != nil || code != 0 {
		panic(c15Harness{fmt.Errorf("git for-each-ref in %s: %v exit %d: %s", dir, err, code, errOut)})
	}
	m := map[string]string{}
	for _, l := range strings.Split(strings.TrimSpace(out), "\n") {
		if l == "" {
			continue
		}
		sp := strings.IndexByte(l, ' ')
		m[l[:sp]] = l[sp+1:]
	}
	var broken []string
	for _, l := range strings.Split(errOut, "\n") {
		if i := strings.Index(l, "broken ref "); i >= 0 {
			broken = append(broken, strings.TrimSpace(l[i+len("broken ref "):]))
		}
	}
	sort.Strings(broken)
	return m, broken
}

func (s *c15Sess) snapshot() *c15Snap {
	sn := &c15Snap{Files: map[string]string{}, Remotes: map[string]map[string]string{}}
	err := filepath.WalkDir(s.root, func(path string, d fs.DirEntry, err error) error {
		if err != nil {
			return nil // a file may vanish (tmp files): the next snapshot decides
		}
		if d.IsDir() {
			return nil
		}
		rel := s.relOf(path)
		info, err := d.Info()
		if err != nil {
			return nil
		}
		if info.Mode()&os.ModeSymlink != 0 {
			t, _ := os.Readlink(path)
			sn.Files[rel] = "L:" + t
			return nil
		}
		data, err := os.ReadFile(path)
		if err != nil {
			return nil
		}
		v := sha(data)
		if !strings.HasPrefix(rel, ".git"+string(filepath.Separator)) {
			v = fmt.Sprintf("%o:%s", info.Mode().Perm(), v)
		}
		sn.Files[rel] = v
		return nil
	})
	if err != nil {
		panic(c15Harness{err})
	}
	s.count("files_hashed", len(sn.Files))
	sn.Refs, sn.Broken = s.refsOf(s.cwd)
	sym, _, _, _ := s.run(s.cwd, "/usr/bin/git", "symbolic-ref", "-q", "HEAD")
	rev, _, _, _ := s.run(s.cwd, "/usr/bin/git", "rev-parse", "HEAD")
	sn.Head = strings.TrimSpace(sym) + " " + strings.TrimSpace(rev)
	if s.sc.Layout == "bare" {
		// no work tree, no index, no stash (the manifest still covers every file of the directory)
		sn.Status, sn.Stash = "n/a (bare repository)", "n/a (bare repository)"
	} else {
		sn.Status = s.mustGit(s.cwd, "status", "--porcelain=v2", "--branch", "--untracked-files=all")
		sn.Stash = s.mustGit(s.cwd, "stash", "list")
	}
	cfg, _, code, _ := s.run(s.cwd, "/usr/bin/git", "config", "--local", "--list", "-z")
	sn.ConfigOK = code == 0
	for _, kv := range strings.Split(cfg, "\x00") {
		if kv == "" {
			continue
		}
		// -z output: key\nvalue
		kv = strings.Replace(kv, "\n", "=", 1)
		sn.Config = append(sn.Config, kv)
	}
	sort.Strings(sn.Config)
	if data, err := os.ReadFile(filepath.Join(s.gitDir, "packed-refs")); err == nil {
		foreign := false
		for _, l := range strings.Split(string(data), "\n") {
			switch {
			case l == "":
			case strings.HasPrefix(l, "#"):
				sn.PackedHd = l
			case strings.HasPrefix(l, "^"):
				if foreign {
					sn.Packed = append(sn.Packed, l)
				}
			default:
				f := strings.Fields(l)
				foreign = len(f) != 2 || !c15AllowedRef.MatchString(f[1])
				if foreign {
					sn.Packed = append(sn.Packed, l)
				}
			}
		}
		sort.Strings(sn.Packed)
	}
	sn.Remotes["origin"], _ = s.refsOf(s.origin)
	sn.Remotes["upstream"], _ = s.refsOf(s.upstream)
	sn.Remotes["mirror"], _ = s.refsOf(s.mirror)
	return sn
}

func refClass(name string) string {
	p := strings.Split(name, "/")
	if len(p) >= 2 && p[0] == "refs" {
		if p[1] == "remotes" && len(p) >= 4 {
			return "refs/remotes/*/" + p[3]
		}
		return "refs/" + p[1]
	}
	return name
}

// fileClass classifies a changed path: "" = allowed, otherwise the violation key.
func fileClass(rel string) string {
	rel = filepath.ToSlash(rel)
	if !strings.HasPrefix(rel, ".git/") {
		return "worktree-file-changed"
	}
	in := rel[len(".git/"):]
	switch {
	case strings.HasPrefix(in, "objects/"), strings.HasPrefix(in, "git-bug/"):
		return ""
	case in == "config", in == "packed-refs":
		return "" // decided by the config multiset / the foreign packed lines
	case in == "index":
		return "index-changed"
	case in == "HEAD":
		return "head-changed"
	case strings.HasPrefix(in, "refs/"):
		if c15AllowedRef.MatchString(in) {
			return ""
		}
		return "foreign-ref-file-changed:" + refClass(in)
	case strings.HasPrefix(in, "logs/refs/"):
		if c15AllowedRef.MatchString(in[len("logs/"):]) {
			return ""
		}
		return "file-outside-allowlist:.git/logs"
	}
	first := in
	if i := strings.IndexByte(in, '/'); i > 0 {
		first = in[:i]
	}
	return "file-outside-allowlist:.git/" + first
}

func configSection(kv string) string {
	k := kv
	if i := strings.IndexByte(kv, '='); i >= 0 {
		k = kv[:i]
	}
	if i := strings.IndexByte(k, '.'); i >= 0 {
		k = k[:i]
	}
	return strings.ToLower(k)
}

func multisetDiff(a, b []string) (removed, added []string) {
	cnt := map[string]int{}
	for _, x := range a {
		cnt[x]++
	}
	for _, x := range b {
		cnt[x]--
	}
	for k, v := range cnt {
		for ; v > 0; v-- {
			removed = append(removed, k)
		}
		for ; v < 0; v++ {
			added = append(added, k)
		}
	}
	sort.Strings(removed)
	sort.Strings(added)
	return
}

// compare applies the allow-list to (before, after) of one action.
func (s *c15Sess) compare(act string, a, b *c15Snap) {
	s.count("snapshots_compared", 1)
	where := " [after action " + act + "]"
	// a foreign ref whose value changed is reported once, at ref level
	refChanged := func(rel string) bool {
		rel = filepath.ToSlash(rel)
		if !strings.HasPrefix(rel, ".git/refs/") {
			return false
		}
		name := rel[len(".git/"):]
		return a.Refs[name] != b.Refs[name]
	}
	// files
	for p, v := range a.Files {
		w, ok := b.Files[p]
		if ok && w == v {
			continue
		}
		s.count("file_changes_seen", 1)
		if filepath.ToSlash(p) == ".git/packed-refs" {
			s.count("packed_refs_rewrites_seen", 1)
		}
		cls := s.fileClass(p)
		if cls == "" {
			s.seen("allowed_paths_touched", allowedBucket(p))
			continue
		}
		if refChanged(p) {
			continue
		}
		what := "deleted"
		if ok {
			what = "modified (" + v + " -> " + w + ")"
		}
		s.find(cls, p+" "+what+where)
	}
	for p := range b.Files {
		if _, ok := a.Files[p]; ok {
			continue
		}
		s.count("file_changes_seen", 1)
		cls := s.fileClass(p)
		if cls == "" {
			s.seen("allowed_paths_touched", allowedBucket(p))
			continue
		}
		if refChanged(p) {
			continue
		}
		s.find(cls, p+" created"+where)
	}
	// refs
	for name, v := range a.Refs {
		w, ok := b.Refs[name]
		if ok && w == v {
			continue
		}
		s.count("ref_changes_seen", 1)
		if c15AllowedRef.MatchString(name) {
			continue
		}
		if !ok {
			s.find("foreign-ref-deleted:"+refClass(name), name+" ("+v+") disappeared"+where)
		} else {
			s.find("foreign-ref-moved:"+refClass(name), name+" "+v+" -> "+w+where)
		}
	}
	for name, w := range b.Refs {
		if _, ok := a.Refs[name]; ok {
			continue
		}
		s.count("ref_changes_seen", 1)
		if c15AllowedRef.MatchString(name) {
			continue
		}
		s.find("foreign-ref-created:"+refClass(name), name+" = "+w+where)
	}
	// a ref file stock git cannot read is not valid git data, whatever its namespace
	for _, name := range b.Broken {
		was := false
		for _, x := range a.Broken {
			was = was || x == name
		}
		if !was {
			content, _ := os.ReadFile(filepath.Join(s.gitDir, filepath.FromSlash(name)))
			cls := refClass(name)
			if c15AllowedRef.MatchString(name) {
				cls = "git-bug-namespace"
				if strings.HasPrefix(name, "refs/remotes/") {
					cls = "git-bug-remote-tracking"
				}
			}
			s.find("broken-ref-written:"+cls, fmt.Sprintf("stock git: \"ignoring broken ref %s\" (loose ref file holds %d bytes %q; value before: %q)%s", name, len(content), content, a.Refs[name], where))
		}
	}
	// a ref that points at an object the repository does not hold is not valid git data either (stock git
	// for-each-ref, fsck, gc and push of that ref fail)
	for name, w := range b.Refs {
		if c15RefMissing(w) && !c15RefMissing(a.Refs[name]) {
			s.count("refs_to_missing_objects_seen", 1)
			s.find("ref-to-missing-object:"+c15RefOwner(name), fmt.Sprintf("%s = %q: stock git does not find that object in the repository (value before: %q)%s", name, w, a.Refs[name], where))
		}
	}
	if a.Head != b.Head {
		s.find("head-changed", fmt.Sprintf("HEAD %q -> %q%s", a.Head, b.Head, where))
	}
	if a.Status != b.Status {
		s.find("status-changed", fmt.Sprintf("git status --porcelain=v2 differs:\n%s\n---\n%s%s", a.Status, b.Status, where))
	}
	if a.Stash != b.Stash {
		s.find("stash-changed", fmt.Sprintf("git stash list %q -> %q%s", a.Stash, b.Stash, where))
	}
	// config multiset
	if !b.ConfigOK {
		s.find("config-unreadable-by-stock-git", "git config --local --list fails"+where)
	}
	rem, add := multisetDiff(a.Config, b.Config)
	for _, kv := range a.Config {
		if strings.Contains(kv, "\r") {
			// the same entry without its carriage returns belongs to the class of the entry with them (configFindingKey)
			s.crTwin[strings.ReplaceAll(kv, "\r", "")] = true
		}
	}
	if len(rem)+len(add) > 0 {
		s.count("config_changes_seen", len(rem)+len(add))
	}
	for _, kv := range rem {
		if sec := configSection(kv); sec != "git-bug" {
			s.find(s.configFindingKey(kv), fmt.Sprintf("config entry %q disappeared (entries added in the same step: %q)%s", kv, add, where))
		}
	}
	for _, kv := range add {
		if sec := configSection(kv); sec != "git-bug" {
			s.find(s.configFindingKey(kv), fmt.Sprintf("config entry %q appeared (entries removed in the same step: %q)%s", kv, rem, where))
		}
	}
	// packed-refs: foreign lines must stay
	if strings.Join(a.Packed, "\n") != strings.Join(b.Packed, "\n") {
		r2, a2 := multisetDiff(a.Packed, b.Packed)
		s.find("packed-refs-foreign-line-changed", fmt.Sprintf("packed-refs lines removed %q added %q%s", r2, a2, where))
	}
	if a.PackedHd != b.PackedHd {
		s.seen("packed_refs_header_rewritten_to", b.PackedHd)
	}
	// the remotes: git-bug pushes there, foreign refs must stay
	for rn, before := range a.Remotes {
		after := b.Remotes[rn]
		for name, v := range before {
			if w, ok := after[name]; (!ok || w != v) && !c15AllowedRef.MatchString(name) {
				s.find("remote-foreign-ref-changed:"+refClass(name), fmt.Sprintf("on remote %s: %s %s -> %q%s", rn, name, v, w, where))
			}
		}
		for name, w := range after {
			if _, ok := before[name]; !ok && !c15AllowedRef.MatchString(name) {
				s.find("remote-foreign-ref-changed:"+refClass(name), fmt.Sprintf("on remote %s: %s created = %s%s", rn, name, w, where))
			}
		}
	}
}

// c15RefMissing: the value refsOf gives to a ref whose object is not there.
func c15RefMissing(v string) bool {
	f := strings.Fields(v)
	return len(f) >= 2 && f[1] == "MISSING"
}

// c15RefOwner names whose ref it is (finding keys).
func c15RefOwner(name string) string {
	if c15AllowedRef.MatchString(name) {
		if strings.HasPrefix(name, "refs/remotes/") {
			return "git-bug-remote-tracking"
		}
		return "git-bug-namespace"
	}
	return refClass(name)
}

func c15AnyMissing(refs map[string]string) bool {
	for _, v := range refs {
		if c15RefMissing(v) {
			return true
		}
	}
	return false
}

func allowedBucket(p string) string {
	p = filepath.ToSlash(p)
	parts := strings.Split(p, "/")
	switch {
	case len(parts) >= 2 && parts[1] == "objects":
		if len(parts) >= 3 && parts[2] == "pack" {
			return ".git/objects/pack"
		}
		return ".git/objects"
	case len(parts) >= 3 && parts[1] == "git-bug":
		return ".git/git-bug/" + parts[2]
	case len(parts) >= 3 && parts[1] == "refs":
		if parts[2] == "remotes" && len(parts) >= 5 {
			return ".git/refs/remotes/*/" + parts[4]
		}
		return ".git/refs/" + parts[2]
	}
	return strings.Join(parts[:2], "/")
}

// ---- actions ------------------------------------------------------------------------

func (s *c15Sess) bugIds(sn *c15Snap) []string {
	var ids []string
	for name := range sn.Refs {
		if strings.HasPrefix(name, "refs/bugs/") {
			ids = append(ids, strings.TrimPrefix(name, "refs/bugs/"))
		}
	}
	sort.Strings(ids)
	return ids
}

func (s *c15Sess) cli(args ...string) string {
	_, errOut, code, err := s.run(s.cwd, s.bin, args...)
	if err != nil {
		s.res.Inconclusive = err.Error()
		return "watchdog"
	}
	s.count("cli_commands_run", 1)
	if code != 0 {
		s.count("cli_commands_failed", 1)
		s.seen("cli_errors", args[0]+": "+c15ErrClass(c15LastLine(errOut)))
		return fmt.Sprintf("exit%d", code)
	}
	return "ok"
}

var c15HexRun = regexp.MustCompile(`[0-9a-f]{7,}`)

// c15ErrClass strips paths and ids from an error message (evidence sets only).
func c15ErrClass(msg string) string {
	words := strings.Fields(msg)
	for i, w := range words {
		if strings.Count(w, "/") >= 2 && !strings.HasPrefix(w, "refs/") {
			words[i] = "<path>"
		}
	}
	msg = c15HexRun.ReplaceAllString(strings.Join(words, " "), "<id>")
	if len(msg) > 100 {
		msg = msg[:100]
	}
	return msg
}

func c15LastLine(s string) string {
	l := strings.Split(strings.TrimSpace(s), "\n")
	for i := len(l) - 1; i >= 0; i-- {
		if strings.HasPrefix(l[i], "Error:") {
			return l[i]
		}
	}
	return l[len(l)-1]
}

// openLib opens a repository directory through git-bug's library with the user identity as author.
func (s *c15Sess) openLib(dir string) (*world.Replica, error) {
	rep, err := world.OpenRepo(dir, nil, bug.ClockLoader)
	if err != nil {
		return nil, err
	}
	if id, err := identity.GetUserIdentity(rep.Repo); err == nil {
		rep.Authors = []*identity.Identity{id}
	}
	return rep, nil
}

func (s *c15Sess) libErr(kind string, err error) string {
	if err == nil {
		return "ok"
	}
	s.count("lib_actions_failed", 1)
	if os.Getenv("VERIF_C15_TRACE") != "" {
		fmt.Fprintf(os.Stderr, "trace   %s: %v\n", kind, err)
	}
	s.seen("lib_errors", kind+": "+c15ErrClass(err.Error()))
	return "err"
}

func (s *c15Sess) gitlabSim() *httptest.Server {
	if s.gitlab == nil {
		s.gitlab = httptest.NewServer(http.HandlerFunc(func(w http.ResponseWriter, r *http.Request) {
			w.Header().Set("Content-Type", "application/json")
			switch {
			case strings.HasSuffix(r.URL.Path, "/api/v4/user"):
				fmt.Fprint(w, `{"id":7,"username":"alice","name":"Alice","state":"active"}`)
			case strings.Contains(r.URL.Path, "/api/v4/projects/"):
				fmt.Fprint(w, `{"id":42,"name":"proj","path_with_namespace":"grp/proj","web_url":"`+"http://"+r.Host+`/grp/proj"}`)
			default:
				w.WriteHeader(404)
				fmt.Fprint(w, `{"message":"404 Not Found"}`)
			}
		}))
	}
	return s.gitlab
}

// do executes one action and returns its outcome class.
func (s *c15Sess) do(a C15Action, sn *c15Snap) string {
	ids := s.bugIds(sn)
	id := ""
	if len(ids) > 0 {
		id = ids[a.Bug%len(ids)]
	}
	// CLI commands that take [BUG_ID]: full id, a prefix, or the selection
	idArg := func(args []string) []string {
		if a.UseSel && s.selected {
			return args
		}
		if id == "" {
			return append(args, "0000000")
		}
		if a.N%2 == 0 {
			return append(args, id[:12])
		}
		return append(args, id)
	}
	switch a.Kind {
	case "cli-user-new":
		return s.cli("user", "new", "--non-interactive", "-n", a.Text, "-e", a.Text2)
	case "cli-bug-new":
		return s.cli("bug", "new", "--non-interactive", "-t", a.Text, "-m", a.Text2)
	case "cli-comment":
		return s.cli(append(idArg([]string{"bug", "comment", "new"}), "--non-interactive", "-m", a.Text)...)
	case "cli-label-new":
		return s.cli(append(idArg([]string{"bug", "label", "new"}), append([]string{"--"}, a.Labels...)...)...)
	case "cli-label-rm":
		return s.cli(append(idArg([]string{"bug", "label", "rm"}), append([]string{"--"}, a.Labels...)...)...)
	case "cli-close":
		return s.cli(idArg([]string{"bug", "status", "close"})...)
	case "cli-open":
		return s.cli(idArg([]string{"bug", "status", "open"})...)
	case "cli-title":
		return s.cli(append(idArg([]string{"bug", "title", "edit"}), "--non-interactive", "-t", a.Text)...)
	case "cli-rm":
		if id == "" {
			id = "0000000"
		}
		return s.cli("bug", "rm", id)
	case "cli-select":
		if id == "" {
			id = "0000000"
		}
		out := s.cli("bug", "select", id)
		if out == "ok" {
			s.selected = true
		}
		return out
	case "cli-deselect":
		s.selected = false
		return s.cli("bug", "deselect")
	case "cli-push":
		return s.cli("push", a.Remote)
	case "cli-pull":
		return s.cli("pull", a.Remote)
	case "cli-wipe":
		s.selected = false
		return s.cli("wipe")
	case "cli-add-token":
		return s.cli("bridge", "auth", "add-token", "--target", "gitlab", "--login", "alice", fmt.Sprintf("glpat-%06d", a.N))
	case "cli-bridge-new":
		srv := s.gitlabSim()
		return s.cli("bridge", "new", "--non-interactive", "--name", fmt.Sprintf("gl%d", a.N%3), "--target", "gitlab",
			"--base-url", srv.URL, "--url", srv.URL+"/grp/proj", "--token", fmt.Sprintf("glpat-%06d", a.N), "--login", "alice")
	case "cli-bridge-rm":
		return s.cli("bridge", "rm", fmt.Sprintf("gl%d", a.N%3))
	case "cli-read":
		switch a.N % 7 {
		case 0:
			return s.cli("bug")
		case 1:
			return s.cli(idArg([]string{"bug", "show"})...)
		case 2:
			return s.cli("user")
		case 3:
			return s.cli("label")
		case 4:
			return s.cli(idArg([]string{"bug", "comment"})...)
		case 5:
			return s.cli("bug", "status:open", "zq17xk")
		default:
			return s.cli("bridge")
		}
	}
	switch {
	case strings.HasPrefix(a.Kind, "env-"):
		return s.doEnv(a, sn)
	case strings.HasPrefix(a.Kind, "ll-"):
		return s.doLL(a, id)
	}
	switch a.Kind {
	case "lib-edit", "lib-rm", "lib-idmut", "lib-pull", "lib-push", "lib-id-rm":
		rep, err := s.openLib(s.cwd)
		if err != nil {
			return s.libErr(a.Kind+"/open", err)
		}
		defer rep.Repo.Close()
		s.count("library_actions_run", 1)
		switch a.Kind {
		case "lib-edit":
			if id == "" || len(rep.Authors) == 0 {
				return "skipped"
			}
			for _, sp := range a.Specs {
				s.count("attachments_stored", len(sp.Files))
			}
			return s.libErr(a.Kind, s.w.Edit(rep, entity.Id(id), a.Specs))
		case "lib-rm":
			if id == "" {
				return "skipped"
			}
			return s.libErr(a.Kind, bug.Remove(rep.Repo, entity.Id(id)))
		case "lib-id-rm":
			// remove an identity nobody refers to: an extra one made by `user new` (possibly pushed
			// already), else a throw-away one; removing an author would make bugs unreadable by design
			all, _ := identity.ListLocalIds(rep.Repo)
			sort.Slice(all, func(i, j int) bool { return all[i] < all[j] })
			for _, iid := range all {
				if i, err := identity.ReadLocal(rep.Repo, iid); err == nil && strings.HasPrefix(i.Name(), "Extra User") {
					return s.libErr(a.Kind, identity.Remove(rep.Repo, iid))
				}
			}
			i, err := identity.NewIdentity(rep.Repo, "Throw Away", "away@example.com")
			if err == nil {
				err = i.Commit(rep.Repo)
			}
			if err != nil {
				return s.libErr(a.Kind+"/new", err)
			}
			return s.libErr(a.Kind, identity.Remove(rep.Repo, i.Id()))
		case "lib-idmut":
			if len(rep.Authors) == 0 {
				return "skipped"
			}
			i := rep.Authors[0]
			err := i.Mutate(rep.Repo, func(m *identity.Mutator) {
				m.Name = fmt.Sprintf("Alice v%d", a.N)
				m.AvatarUrl = "https://example.com/a.png"
			})
			if err == nil {
				err = i.Commit(rep.Repo)
			}
			return s.libErr(a.Kind, err)
		case "lib-pull":
			ml := rep.Pull(a.Remote)
			s.count("library_merge_results", len(ml.Bugs)+len(ml.Identities))
			return s.libErr(a.Kind, ml.Err)
		default:
			return s.libErr(a.Kind, rep.Push(a.Remote))
		}
	case "lib-cache":
		rep, err := s.openLib(s.cwd)
		if err != nil {
			return s.libErr(a.Kind+"/open", err)
		}
		s.count("library_actions_run", 1)
		c, err := cache.NewRepoCacheNoEvents(rep.Repo)
		if err != nil {
			_ = rep.Repo.Close()
			return s.libErr(a.Kind+"/cache", err)
		}
		defer c.Close()
		h, err := c.StoreData([]byte(c15Files[a.N%len(c15Files)] + a.Text))
		if err != nil {
			return s.libErr(a.Kind+"/store", err)
		}
		s.count("attachments_stored", 1)
		if id == "" || a.N%3 == 0 {
			_, _, err = c.Bugs().NewWithFiles(a.Text, a.Text2, []repository.Hash{h})
			return s.libErr(a.Kind+"/new", err)
		}
		b, err := c.Bugs().Resolve(entity.Id(id))
		if err != nil {
			return s.libErr(a.Kind+"/resolve", err)
		}
		if _, _, err = b.AddCommentWithFiles(a.Text2, []repository.Hash{h}); err == nil {
			err = b.Commit()
		}
		return s.libErr(a.Kind+"/comment", err)
	case "peer-work":
		rep, err := s.openLib(s.peer)
		if err != nil {
			return s.libErr(a.Kind+"/open", err)
		}
		defer rep.Repo.Close()
		s.count("library_actions_run", 1)
		if len(rep.Authors) == 0 {
			i, err := rep.NewAuthor("Peer Author")
			if err == nil {
				err = identity.SetUserIdentity(rep.Repo, i)
			}
			if err != nil {
				return s.libErr(a.Kind+"/identity", err)
			}
		}
		if ml := rep.Pull("origin"); ml.Err != nil {
			return s.libErr(a.Kind+"/pull", ml.Err)
		}
		pids, _ := rep.BugIds()
		sort.Slice(pids, func(i, j int) bool { return pids[i] < pids[j] })
		if len(pids) == 0 || a.N%3 == 0 {
			if _, err := s.w.NewBug(rep, 0, "peer bug "+a.Text, "from the peer"); err != nil {
				return s.libErr(a.Kind+"/new", err)
			}
		} else if err := s.w.Edit(rep, pids[a.Bug%len(pids)], a.Specs); err != nil {
			return s.libErr(a.Kind+"/edit", err)
		}
		return s.libErr(a.Kind+"/push", rep.Push("origin"))
	}
	return "unknown-action"
}

// ---- validity: stock git has the last word ---------------------------------------------

var c15MsgId = regexp.MustCompile(`\b([a-z]+[A-Z][A-Za-z]+):`)
var fsckMsg = regexp.MustCompile(`^(error|warning) in (\w+) [0-9a-f]+: (\w+)`)

// fsck runs git fsck --strict --full; returns error classes (exit status + output decide).
func (s *c15Sess) fsck(role, dir string) {
	out, errOut, code, err := s.run(dir, "/usr/bin/git", "fsck", "--strict", "--full")
	if err != nil {
		s.res.Inconclusive = err.Error()
		return
	}
	s.count("fsck_runs", 1)
	var bad []string
	lines := strings.Split(out+"\n"+errOut, "\n")
	for i, l := range lines {
		l = strings.TrimSpace(l)
		if strings.HasPrefix(l, "broken link from") && i+1 < len(lines) && strings.HasPrefix(strings.TrimSpace(lines[i+1]), "to ") {
			// one message on two lines: "broken link from tree <id>" / "to blob <id>"
			l, lines[i+1] = strings.Join(strings.Fields(l+" "+lines[i+1]), " "), ""
		}
		switch {
		case l == "", strings.HasPrefix(l, "dangling "), strings.HasPrefix(l, "Checking "), strings.HasPrefix(l, "notice:"), strings.HasPrefix(l, "unreachable "):
			continue
		}
		if m := fsckMsg.FindStringSubmatch(l); m != nil {
			if m[1] == "warning" {
				s.seen("fsck_warnings", m[2]+":"+m[3])
				continue
			}
			s.find("fsck-error:"+m[2]+":"+m[3], fmt.Sprintf("git fsck --strict --full on the %s repository: %s", role, l))
			bad = append(bad, l)
			continue
		}
		if strings.HasPrefix(l, "warning") {
			s.seen("fsck_warnings", errKey(l))
			continue
		}
		s.find("fsck-error:"+fsckClass(l), fmt.Sprintf("git fsck --strict --full on the %s repository: %s", role, l))
		bad = append(bad, l)
	}
	if code != 0 && len(bad) == 0 {
		s.find("fsck-error:exit-status", fmt.Sprintf("git fsck --strict --full on the %s repository exits %d: %s", role, code, out+errOut))
	}
}

// fsckClass reduces an fsck line that is not of the "error in <type> <id>: <msgid>" form to a stable class.
func fsckClass(l string) string {
	var keep []string
	for _, w := range strings.Fields(l) {
		w = strings.TrimSuffix(w, ":")
		switch {
		case strings.HasPrefix(w, "refs/"):
			keep = append(keep, refClass(w))
		case len(w) >= 40 && strings.Trim(w, "0123456789abcdef") == "":
		default:
			keep = append(keep, w)
		}
	}
	if len(keep) > 8 {
		keep = keep[:8]
	}
	return strings.Join(keep, "-")
}

type c15Read struct {
	Ops   map[string][]string // bug id -> op ids
	Files map[string][]string // bug id -> attachment hashes
	Errs  []string
}

func c15ReadAll(dir string, checkFiles bool) (rd c15Read, err error) {
	rep, err := world.OpenRepo(dir, nil, bug.ClockLoader)
	if err != nil {
		return rd, err
	}
	defer rep.Repo.Close()
	rd.Ops, rd.Files = map[string][]string{}, map[string][]string{}
	for sb := range bug.ReadAll(rep.Repo) {
		if sb.Err != nil {
			rd.Errs = append(rd.Errs, sb.Err.Error())
			continue
		}
		b := sb.Entity
		id := b.Id().String()
		rd.Ops[id] = world.OpIds(b)
		for _, op := range b.Operations() {
			if f, ok := op.(dag.OperationWithFiles); ok {
				for _, h := range f.GetFiles() {
					rd.Files[id] = append(rd.Files[id], string(h))
					if checkFiles {
						if _, err := rep.Repo.ReadData(h); err != nil {
							rd.Errs = append(rd.Errs, fmt.Sprintf("attachment %s of bug %s: %v", h, id[:8], err))
						}
					}
				}
			}
		}
	}
	return rd, nil
}

func sameOps(a, b map[string][]string) string {
	for id, ops := range a {
		if strings.Join(ops, ",") != strings.Join(b[id], ",") {
			return fmt.Sprintf("bug %s: %d ops before, %d after", id[:8], len(ops), len(b[id]))
		}
	}
	for id := range b {
		if _, ok := a[id]; !ok {
			return "bug " + id[:8] + " appeared"
		}
	}
	return ""
}

func countRefs(refs map[string]string, prefix string) int {
	n := 0
	for k := range refs {
		if strings.HasPrefix(k, prefix) {
			n++
		}
	}
	return n
}

func (s *c15Sess) validity() {
	s.inValidity = true
	// A host that already holds a ref stock git calls broken has been reported (broken-ref-written);
	// fsck, gc and re-reading it would only restate that in other words. Its impact is recorded once.
	hostBroken := false
	if end := s.snapshot(); len(end.Broken) > 0 || c15AnyMissing(end.Refs) {
		hostBroken = true
		s.count("sessions_ending_with_broken_refs", 1)
		_, e1, c1, _ := s.run(s.cwd, "/usr/bin/git", "gc", "-q", "--prune=now")
		s.seen("impact_of_broken_ref", fmt.Sprintf("git gc --prune=now: exit %d: %s", c1, c15ErrClass(strings.SplitN(strings.TrimSpace(e1), "\n", 2)[0])))
		_, e2, c2, _ := s.run(s.cwd, "/usr/bin/git", "fsck", "--strict", "--full")
		s.seen("impact_of_broken_ref", fmt.Sprintf("git fsck --strict --full: exit %d: %s", c2, fsckClass(strings.SplitN(strings.TrimSpace(e2), "\n", 2)[0])))
	} else {
		s.fsck("host", s.cwd)
	}
	s.fsck("origin", s.origin)
	s.fsck("upstream", s.upstream)
	s.fsck("mirror", s.mirror)
	s.fsck("peer", s.peer)

	originRefs, _ := s.refsOf(s.origin)
	nOrigin := countRefs(originRefs, "refs/bugs/")
	s.count("bugs_on_origin_at_end", nOrigin)

	// stock clone + fetch of git-bug's refs, with fetch.fsckObjects
	fresh := filepath.Join(s.dir, "fresh")
	stock := func(key string, dir string, args ...string) bool {
		out, errOut, code, err := s.run(dir, "/usr/bin/git", args...)
		if err != nil {
			s.res.Inconclusive = err.Error()
			return false
		}
		s.count("stock_git_commands", 1)
		if code != 0 {
			for _, l := range strings.Split(out+errOut, "\n") {
				if strings.Contains(l, "fatal:") || strings.Contains(l, "error:") {
					if m := c15MsgId.FindStringSubmatch(l); m != nil {
						key += ":" + m[1] // git's fsck message id, e.g. badDate
					} else {
						key += ":" + fsckClass(strings.TrimPrefix(strings.TrimSpace(l), "remote: "))
					}
					break
				}
			}
			s.find("stock-git-failed:"+key, fmt.Sprintf("git %s: exit %d: %s", strings.Join(args, " "), code, out+errOut))
			return false
		}
		return true
	}
	if stock("clone", s.dir, "clone", "-q", s.origin, fresh) &&
		stock("fetch", fresh, "-c", "fetch.fsckObjects=true", "fetch", "-q", "origin", "refs/bugs/*:refs/bugs/*", "refs/identities/*:refs/identities/*") {
		rd, err := c15ReadAll(fresh, true)
		s.count("bugs_read_in_stock_clone", len(rd.Ops))
		switch {
		case err != nil:
			s.find("clone-unreadable:open", "git-bug cannot open the stock clone: "+err.Error())
		case len(rd.Errs) > 0:
			s.find("clone-unreadable:bug", fmt.Sprintf("after stock clone+fetch %d bug(s)/attachment(s) are unreadable: %s", len(rd.Errs), rd.Errs[0]))
		case len(rd.Ops) != nOrigin:
			s.find("clone-unreadable:count", fmt.Sprintf("origin has %d refs/bugs refs, the stock clone reads %d bugs", nOrigin, len(rd.Ops)))
		}
		// a server that checks what it receives
		sink := filepath.Join(s.dir, "sink.git")
		if stock("init", s.dir, "init", "-q", "--bare", sink) && stock("config", sink, "config", "receive.fsckObjects", "true") {
			stock("push-to-fsckobjects-server", fresh, "push", "-q", sink, "refs/bugs/*:refs/bugs/*", "refs/identities/*:refs/identities/*", "refs/heads/*:refs/heads/*")
		}
		if stock("gc-clone", fresh, "gc", "-q", "--prune=now") {
			rd2, err := c15ReadAll(fresh, true)
			if err != nil || len(rd2.Errs) > 0 || sameOps(rd.Ops, rd2.Ops) != "" {
				s.find("gc-lost-data:clone", fmt.Sprintf("after git gc --prune=now in the stock clone: err=%v errs=%v diff=%s", err, rd2.Errs, sameOps(rd.Ops, rd2.Ops)))
			}
		}
	}

	if hostBroken {
		return
	}
	if s.refused {
		// git-bug does not work from this directory at all (recorded): there is nothing of its own to re-read; what its
		// refused commands did to the repository has been judged action by action
		return
	}
	s.identityLinesWritten()
	// gc on the host itself
	before, err := c15ReadAll(s.cwd, true)
	if err != nil {
		s.find("host-unreadable:open", "git-bug cannot open the host repository at the end of the session: "+err.Error())
		return
	}
	if len(before.Errs) > 0 {
		// A bug that git-bug itself cannot read at the end of the session (for instance after a wipe or a removal
		// that failed half-way) is not what this property is about: C15 only demands that stock git's gc, clone
		// and fetch do not take anything away. Recorded, and the comparison below is relative to this state.
		s.seen("unreadable_on_host_before_gc(not judged here)", c15ErrClass(before.Errs[0]))
	}
	cliWorkedBeforeGc := s.cli("bug") == "ok"
	nFiles := 0
	for _, f := range before.Files {
		nFiles += len(f)
	}
	s.count("bugs_on_host_at_end", len(before.Ops))
	s.count("attachments_referenced_at_end", nFiles)
	snBefore := s.snapshot()
	if stock("gc-host", s.cwd, "gc", "-q", "--prune=now") {
		after, err := c15ReadAll(s.cwd, true)
		switch {
		case err != nil:
			s.find("gc-lost-data:open", "after git gc --prune=now git-bug cannot open the host: "+err.Error())
		case len(after.Errs) > len(before.Errs):
			s.find("gc-lost-data:bug-or-attachment", fmt.Sprintf("after git gc --prune=now on the host: %v", after.Errs))
		case sameOps(before.Ops, after.Ops) != "":
			s.find("gc-lost-data:ops", "after git gc --prune=now on the host: "+sameOps(before.Ops, after.Ops))
		default:
			s.count("bugs_reread_after_gc", len(after.Ops))
		}
		s.fsck("host after gc", s.cwd)
		// the CLI still works on the gc'ed repository and leaves the host alone
		sn1 := s.snapshot()
		if out := s.cli("bug"); out != "ok" && cliWorkedBeforeGc {
			s.find("cli-fails-after-gc", "`git-bug bug` worked before and fails after git gc --prune=now: "+out)
		}
		s.compare("cli `bug` after gc", sn1, s.snapshot())
		_ = snBefore
	}
}

// ---- one session ------------------------------------------------------------------------

func runC15Session(sc C15Session) (res C15Result) {
	res.Counters, res.Sets = map[string]int{}, map[string][]string{}
	dir := world.ScratchDir("c15-")
	if os.Getenv("VERIF_KEEP") != "" {
		fmt.Fprintln(os.Stderr, "keeping", dir)
	} else {
		defer os.RemoveAll(dir)
	}
	s := &c15Sess{sc: sc, dir: dir, host: filepath.Join(dir, "host"), origin: filepath.Join(dir, "origin.git"), upstream: filepath.Join(dir, "upstream.git"), mirror: filepath.Join(dir, "mirror.git"),
		peer: filepath.Join(dir, "peer"), home: filepath.Join(dir, "home"), bin: filepath.Join(os.Getenv("VERIF_BIN"), "git-bug"), res: &res, w: &world.World{}}
	s.placeLayout()
	for _, kv := range os.Environ() {
		if strings.HasPrefix(kv, "HOME=") || strings.HasPrefix(kv, "XDG_CONFIG_HOME=") || strings.HasPrefix(kv, "GIT_") || strings.HasPrefix(kv, "VERIF_HOOK") {
			continue
		}
		s.env = append(s.env, kv)
	}
	s.env = append(s.env, "HOME="+s.home, "XDG_CONFIG_HOME="+filepath.Join(s.home, ".config"), "GIT_CONFIG_NOSYSTEM=1", "GIT_OPTIONAL_LOCKS=0",
		"GIT_AUTHOR_DATE=1700000000 +0000", "GIT_COMMITTER_DATE=1700000000 +0000", "GIT_TERMINAL_PROMPT=0", "LC_ALL=C")
	// library calls run in this process: same isolation
	os.Setenv("HOME", s.home)
	os.Setenv("XDG_CONFIG_HOME", filepath.Join(s.home, ".config"))
	os.Setenv("GIT_CONFIG_NOSYSTEM", "1")
	defer func() {
		_ = s.llClose()
		if s.gitlab != nil {
			s.gitlab.Close()
		}
		if p := recover(); p != nil {
			if h, ok := p.(c15Harness); ok {
				res.HarnessError = h.err.Error()
				return
			}
			panic(p)
		}
	}()
	s.setup()

	// the observer itself must not disturb what it observes
	sn := s.snapshot()
	sn2 := s.snapshot()
	probe := C15Result{Counters: map[string]int{}, Sets: map[string][]string{}}
	s.res = &probe
	s.compare("none (observer self-check)", sn, sn2)
	s.res = &res
	if len(probe.Findings) > 0 {
		res.HarnessError = "observer disturbs the repository: " + probe.Findings[0]
		return
	}
	sn = sn2
	sn = s.probeLayout(sn)
	first := c15ForeignOf(sn)
	s.expect, s.foreignTouchedCfg, s.foreignTouchedRef = &first, map[string]bool{}, map[string]bool{}
	kinds := map[string]bool{}
	for i, a := range sc.Actions {
		outcome := s.do(a, sn)
		if res.Inconclusive != "" {
			return
		}
		s.count("actions_run", 1)
		s.seen("action_outcomes", a.Kind+"="+outcome)
		if os.Getenv("VERIF_C15_TRACE") != "" {
			fmt.Fprintf(os.Stderr, "trace %s #%d %s = %s\n", sc.Name, i, a.Kind, outcome)
		}
		if outcome == "ok" {
			kinds[a.Kind] = true
			s.count("ok/"+a.Kind, 1)
		}
		after := s.snapshot()
		if strings.HasPrefix(a.Kind, "env-") {
			// stock git acting on the host: the foreign actor, not judged; what it changed is expected from now on
			s.count("environment_actions", 1)
			s.foreignActed(sn, after)
		} else {
			s.compare(fmt.Sprintf("#%d %s (%s)", i, a.Kind, outcome), sn, after)
		}
		if sc.LongLived != "" && len(after.Broken) == 0 && !c15AnyMissing(after.Refs) {
			// stock git judges what the handle has written so far, after every step
			s.inValidity = true
			s.fsck(fmt.Sprintf("host (handle %s; after action #%d %s (%s))", map[bool]string{true: "open", false: "closed"}[s.ll != nil], i, a.Kind, outcome), s.host)
			s.inValidity = false
			if res.Inconclusive != "" {
				return
			}
		}
		sn = after
		if sc.LongLived != "" && s.damaged {
			// The host holds invalid git data (reported above). What follows would only be consequences, and go-git
			// is known to hang when it has to pack a history with a missing object: the session ends here.
			s.count("sessions_ended_at_first_damage", 1)
			break
		}
	}
	if err := s.llClose(); err != nil {
		s.seen("lib_errors", "ll-close(end): "+c15ErrClass(err.Error()))
	}
	s.count("bugs_max", len(s.bugIds(sn)))
	s.checkExpectedForeign(sn)
	if sc.Layout != "" && !s.refused && res.Inconclusive == "" {
		s.dataWhereStockGitLooks()
	}
	s.validity()
	if sc.Layout != "" && !s.refused && !s.damaged && res.Inconclusive == "" {
		s.layoutEpilogue()
	}
	var ks []string
	for k := range kinds {
		ks = append(ks, k)
	}
	sort.Strings(ks)
	res.Shape = fmt.Sprintf("packed=%v detached=%v odd-author=%v actions=%d kinds=%s", sc.PackedRefs, sc.Detached, sc.OddAuthor, len(sc.Actions)/5*5, mon.Hash(ks...))
	if sc.LongLived != "" {
		res.Shape = "long-lived=" + sc.LongLived + " " + res.Shape
	}
	if sc.IdentGroup != "" {
		res.Shape = "ident=" + c15IdentShape(sc) + " " + res.Shape
	}
	if sc.Layout != "" {
		res.Shape = fmt.Sprintf("layout=%s refused=%v %s", sc.Layout, s.refused, res.Shape)
	}
	return
}

// ---- check ----------------------------------------------------------------------------

func runC15(tier, replay string) int {
	r := mon.NewRun("C15", "exploration", tier)
	var scs []C15Session
	if replay != "" {
		var rep struct {
			Case C15Session `json:"case"`
		}
		data, err := os.ReadFile(replay)
		if err == nil {
			err = json.Unmarshal(data, &rep)
		}
		if err != nil {
			fmt.Println("cannot read replay:", err)
			return 2
		}
		scs = []C15Session{rep.Case}
	} else {
		scs = c15Sessions(r)
		if only := os.Getenv("VERIF_C15_ONLY"); only != "" {
			// debugging aid: one session of the list by name (such a run cannot reach the required number of cases);
			// VERIF_C15_DUMP=file additionally writes it as a replay file
			var keep []C15Session
			for _, sc := range scs {
				if sc.Name == only {
					keep = append(keep, sc)
					if f := os.Getenv("VERIF_C15_DUMP"); f != "" {
						_ = os.WriteFile(f, []byte(mon.JSON(map[string]any{"case": sc})), 0o644)
					}
				}
			}
			scs = keep
		}
	}
	outcomes := runBatches[C15Session, C15Result]("", "c15", scs, 1, 240*time.Second, nil)
	for i, oc := range outcomes {
		sc := scs[i]
		if oc.Crashed {
			r.Case("crash", false)
			r.Violation("crash:"+oc.Site, "process died while running "+sc.Name+":\n"+oc.Excerpt, sc)
			continue
		}
		if oc.TimedOut || oc.Result == nil {
			r.Case("timeout", false)
			r.Inconclusive(sc.Name + " did not finish: " + oc.Site)
			continue
		}
		res := oc.Result
		if res.HarnessError != "" || res.Inconclusive != "" {
			r.Case("inconclusive", false)
			r.Inconclusive(sc.Name + ": " + res.HarnessError + res.Inconclusive)
			// what was observed before the session had to be given up stays observed
			for _, f := range res.Findings {
				parts := strings.SplitN(f, "|", 2)
				r.Violation(parts[0], parts[1]+" ["+sc.Name+"]", sc)
			}
			continue
		}
		nontrivial := res.Counters["actions_run"] >= 15 && (res.Counters["bugs_on_host_at_end"] > 0 || res.Counters["sessions_ending_with_broken_refs"] > 0) && res.Counters["fsck_runs"] >= 3
		if sc.LongLived != "" {
			// a long-lived-handle session that never reached one of the interleavings it exists for observed too little
			nontrivial = nontrivial && res.Counters["ll_actions_ok"] >= 8 && res.Counters["environment_actions"] >= 5 &&
				res.Counters["ll_config_write_after_foreign_config_change"] >= 1 &&
				res.Counters["ll_restore_after_foreign_prune"]+res.Counters["ll_bug_written_after_remove_all_and_foreign_prune"] >= 1
			r.Count("long_lived_sessions", 1)
		}
		if sc.IdentGroup != "" {
			// the configuration was in place and git-bug wrote commits under it
			nontrivial = nontrivial && res.Counters["ident_cfg_entries_applied"] >= 1 && res.Counters["git_bug_commits_inspected"] >= 5
			r.Count("ident_config_sessions", 1)
		}
		if sc.Layout != "" {
			// a layout git-bug refuses to open has only the frame condition of its refused commands to show
			nontrivial = nontrivial && res.Counters["layout_sessions_refused"] == 0 && res.Counters["layout_entities_reported_by_git_bug"] >= 2
			r.Count("layout_sessions", 1)
		}
		r.Case(res.Shape, nontrivial)
		r.Count("sessions", 1)
		for k, v := range res.Counters {
			r.Count(k, v)
		}
		for set, members := range res.Sets {
			for _, m := range members {
				r.Seen(set, m)
			}
		}
		for _, f := range res.Findings {
			parts := strings.SplitN(f, "|", 2)
			r.Violation(parts[0], parts[1]+" ["+sc.Name+"]", sc)
		}
		if replay != "" {
			fmt.Println(mon.JSON(res))
		}
		if i < 2 {
			r.Sample(map[string]any{"session": sc.Name, "packed_refs": sc.PackedRefs, "odd_author": sc.OddAuthor, "first_actions": sc.Actions[:6], "counters": res.Counters})
		}
	}
	r.Extra("not_driven", "bridge configuration is driven for the gitlab target only (`bridge new` against an in-process simulated GitLab, `bridge rm`, `bridge auth add-token`); github, jira and launchpad need their real APIs")
	r.Extra("added_in_seeding_round_6", "a third remote `mirror` (empty, nothing of the host ever pushed there); every second session pushes through the CLI and the library right after the identity was created, while no bug exists")
	return r.Finish("sessions of 15..40 CLI and library actions (list = f(seed, tier)) on a stock-git host repository (3 commits on main, a feature branch, annotated+lightweight tags, a stash, staged/unstaged/untracked changes, user/core/alias/url/include/multi-valued config, remotes origin and upstream with custom fetch refspecs that are ahead of the host, refs packed in every second session, HEAD detached in every fourth, foreign refs under refs/bugsarchive, refs/identities-old, refs/heads/bugs/*, refs/tags/identities/*, identity-hostile author.name/committer.name config in every sixth, a configuration value with carriage returns); "+
		"before/after every action: manifest of every file, for-each-ref, HEAD, index, status --porcelain=v2, stash list, config multiset, refs of both remotes, allow-list on the difference; at the end stock git fsck --strict --full on 4 repositories, clone, fetch with fsckObjects, push into a receive.fsckObjects server, gc --prune=now followed by a full re-read incl. attachments; "+
		"non-trivial = at least 15 actions, a bug present at the end and all fsck runs done; distinct = distinct (packed, odd-author, length class, set of successful action kinds). "+
		"Plus long-lived-handle sessions (quick 6, thorough 60; c15_longlived.go): ONE repository handle (a GoGitRepo in every second session, a RepoCache on top of one in the others) stays open over 30..60 seed-determined actions through it "+
		"(bug create/edit with attachments, uploads never attached, upload-and-attach of a file uploaded before, StoreString/StoreBool/StoreTimestamp/RemoveAll on git-bug.* keys, bridge configuration and removal, user identity selection, remove, remove-all, pull, push, read-all, re-open) "+
		"interleaved with a foreign actor on the same repository: stock git config/--unset-all on keys of 9 unrelated sections, remote add/remove, commit, branch, tag, gc --prune=now, prune --expire=now, repack -a -d, pack-refs; git-bug CLI processes (GoGitRepo sessions only: a RepoCache holds the lock); the peer pushing to origin. "+
		"Every session contains four uninterrupted shapes at seed-determined places: own-key write / foreign config + remote add / own-key write; upload / gc / same upload attached; create / remove-all / gc or prune / create; push / gc / read-all / create / gc or repack / three peer pushes / pull. "+
		"Same per-action snapshot oracle (foreign actions are not judged); additionally git fsck --strict --full after every action, and at the end the foreign state (config entries outside section git-bug, refs outside git-bug's namespaces, HEAD) must equal the EXPECTED foreign state that only the foreign actor's own differences have moved; "+
		"such a session is non-trivial only if >= 8 handle actions succeeded, >= 5 foreign actions ran, an own-key write followed a foreign config change through the same handle, and a re-store after a foreign prune (or a bug written after remove-all + prune) happened. "+
		"Plus host-variant sessions (c15_hostvariants.go; 16..29 actions: user, bugs, every edit kind with attachments, identity mutation, cache API, push/pull with origin, the peer, upstream), same per-action snapshot oracle and same end-of-session judgement by stock git: "+
		"(a) identity configuration (quick 28 = 7 sources x 4 value pairs, thorough 7 x 9 + 3 with bytes that are not UTF-8 + 40 with every key of every source set or not at random; the list of (source, pair) does not depend on the seed): user.*/author.*/committer.* name and email in the local config (user only; author+committer; user plus a proper subset of author/committer), in the global config of the private HOME, in a file included from the local config, and GIT_AUTHOR_*/GIT_COMMITTER_*/EMAIL in the environment of the git-bug processes, with values stock git accepts and cleans for its own commits: "+
		"angle brackets at either end or both, a complete `Name <email>` as the name, a newline inside or at the end, leading/trailing spaces, only spaces, the empty string, 4 kB, unicode incl. RTL override, tab/CR; such a session is non-trivial only if the configuration was read back as written and >= 5 commits under git-bug's refs were inspected; "+
		"(b) start directory (quick 14 = every layout once, thorough 4 x 14): a subdirectory of the work tree; a linked worktree (`git worktree add`, absolute and relative gitdir link, its root and a subdirectory, with its own staged/unstaged/untracked changes); a repository made with `git init --separate-git-dir` (root, subdirectory); a submodule checkout whose git directory was absorbed into <superproject>/.git/modules/<path> (path `mod` and `a/mod`, root and subdirectory; the superproject has its own dirty file); a bare repository; a linked worktree of a bare repository (root, subdirectory). "+
		"The manifest covers the directory tree that holds all of it (work trees, git directories, superproject, the bystander repository); the allow-list is applied relative to the git directory stock git uses from the start directory (git rev-parse --git-common-dir, checked by the harness); a changed file of another git directory is `write-into-other-git-dir`; "+
		"after the actions the bugs and identities git-bug reports (library, from the start directory) must be the refs stock `git for-each-ref refs/bugs refs/identities` lists from the same directory, and after `git worktree remove --force` (run from the main repository) resp. `git submodule deinit -f` + `git submodule update --init` the same refs and the same operations must still be read; "+
		"a layout in which neither `git-bug user` nor the library opens a repository is recorded as refused (layouts_refused), its session is trivial and only the frame condition of the refused commands is judged",
		r.Pick(40, 215), []string{
			"host-variant sessions: the in-process library calls of a layout session are made with the start directory as the current directory (one session per process), like the CLI processes; git-bug resolves the repository from the directory it is started in",
			"host-variant sessions: git-bug does not read GIT_DIR / GIT_WORK_TREE / GIT_AUTHOR_* / GIT_COMMITTER_* (probe: with GIT_DIR pointing at another repository it works on the repository of the current directory); GIT_DIR/GIT_WORK_TREE are therefore not driven, the identity variables are (a change that starts to honour them is judged by fsck)",
			"host-variant sessions: values that are not valid UTF-8 are only put into the global configuration and the environment: with such bytes in the local config every git-bug command refuses to start (go-git: illegal UTF-8 encoding) and writes nothing",
			"host-variant sessions: the identity configuration is put in place after stock git has made its last commit of the setup (stock git refuses to commit with a name that is empty after cleaning)",
			"a configuration entry whose value lost its carriage returns is filed under foreign-config-key-changed:carriage-return-in-value whatever its section",
			"long-lived-handle sessions: an action through a handle that was opened before a foreign gc/repack is not required to succeed (recorded in lib_errors), only to leave the host and the git data valid",
			"long-lived-handle sessions: a blob that was uploaded and not yet attached when the foreign actor ran gc --prune=now is not required to survive; every attaching action stores its files itself right before it commits, with no foreign action in between",
			"long-lived-handle sessions: the foreign actor never touches section `branch` (class of the open known finding about multi-line values) and writes plain single-line values only; after prune/repack it rewrites the commit-graph as gc does (stock git alone leaves a stale commit-graph there, which fsck reports)",
			"a long-lived-handle session ends at the first finding about invalid git data in the host (what follows are consequences; go-git can hang when packing a history with a missing object)",
			"the observer runs stock git with GIT_OPTIONAL_LOCKS=0 and checks on every session that two consecutive snapshots are identical",
			"object files under .git/objects may be added freely; their validity is judged by git fsck and by re-reading after gc --prune=now",
			"configuration is compared as the multiset of (key, value) pairs printed by git config --local --list, not byte-wise",
		})
}
