package checks

// C17 child-side environment: a served repository plus before/after snapshots.

import (
	"encoding/json"
	"fmt"
	"io/fs"
	"os"
	"path/filepath"
	"sort"
	"strings"
	"sync/atomic"

	"github.com/MichaelMure/git-bug/entities/bug"
	"github.com/MichaelMure/git-bug/entities/identity"
	"github.com/MichaelMure/git-bug/entity"

	"verif/harness/gitraw"
	"verif/harness/mon"
	"verif/harness/world"
)

type c17Env struct {
	w      *world.World
	rep    *world.Replica
	h      *GQLHarness
	schema *GQLSchema
	user   *identity.Identity
	other  *identity.Identity
	blobs  []string // hex ids of blobs stored with repo.StoreData
	ambig  string   // a prefix shared by at least two bugs
	gitDir string

	snap     *c17Snap
	opsMemo  map[string][]string    // head commit -> ordered op ids
	infoMemo map[string]*c17BugInfo // head commit -> title, labels, comments (read from git, not via the cache)
	tokenSeq int

	g        *c17Guard // journal of the case in flight (nil: no watchdog)
	light    bool      // snapshots must not make the cache load a bug (aftermath cases: the probes do the loading)
	opened   string    // how the cache in use was obtained: built | loaded-from-disk
	suspects []c17Case // requests served by this cache since (and including) its last accepted mutation

	// the registry this repository is served from (c17_topo.go): the name under which it is registered, every
	// registered name, and the topology (nil: the single default repository of c17BuildEnv)
	repoName string
	served   []string
	topo     *c17Topo
}

// nServed is the number of repositories in the served registry.
func (e *c17Env) nServed() int {
	if len(e.served) == 0 {
		return 1
	}
	return len(e.served)
}

// serves says whether a repository is registered under the name.
func (e *c17Env) serves(name string) bool {
	for _, n := range e.served {
		if n == name {
			return true
		}
	}
	return false
}

// repoSel is the root field of a query addressed to this repository.
func (e *c17Env) repoSel() string {
	if e.nServed() == 1 && e.repoName == gqlDefaultRepoName {
		return "repository"
	}
	return fmt.Sprintf("repository(ref: %q)", e.repoName)
}

// c17MinBugs is the least number of bugs of the served repository; c17SameFirstChar of them share their
// first id character (a one-character prefix is ambiguous among that many), two share three characters.
const (
	c17MinBugs       = 12
	c17SameFirstChar = 7
)

func c17BuildEnv(seed int64) (*c17Env, error) {
	w, err := world.New(1)
	if err != nil {
		return nil, err
	}
	e := &c17Env{w: w, rep: w.Replicas[0], opsMemo: map[string][]string{}, infoMemo: map[string]*c17BugInfo{}, opened: "built",
		repoName: gqlDefaultRepoName, served: []string{gqlDefaultRepoName}}
	fail := func(err error) (*c17Env, error) { w.Close(); return nil, err }
	if e.user, err = e.rep.NewAuthor("c17-user"); err != nil {
		return fail(err)
	}
	if e.other, err = e.rep.NewAuthor("c17-other"); err != nil {
		return fail(err)
	}
	rng := mon.Rng(seed, "c17-world", 0)
	labels := []string{"bug", "feature", "ui", "core", "docs"}
	var ids []string
	shared := func() string {
		// longest prefix shared by two ids
		best := ""
		for i := range ids {
			for j := i + 1; j < len(ids); j++ {
				k := 0
				for k < len(ids[i]) && ids[i][k] == ids[j][k] {
					k++
				}
				if k > len(best) {
					best = ids[i][:k]
				}
			}
		}
		return best
	}
	// Bug ids are hashes over a random nonce: a bug whose id starts with a wanted prefix is found by creating
	// candidates in memory (nothing is stored) until one fits, and only that one is committed.
	create := func(k int, want string) (*bug.Bug, error) {
		author := e.rep.Authors[k%len(e.rep.Authors)]
		for try := 0; ; try++ {
			b, _, err := bug.Create(author, w.Now(), fmt.Sprintf("seed bug %d", k), fmt.Sprintf("seed message %d", k), nil, nil)
			if err != nil {
				return nil, err
			}
			if strings.HasPrefix(b.Id().String(), want) || try > 200000 {
				return b, b.Commit(e.rep.Repo)
			}
		}
	}
	for k := 0; k < c17MinBugs; k++ {
		want := ""
		switch {
		case k >= 1 && k < c17SameFirstChar-1:
			want = ids[0][:1]
		case k == c17SameFirstChar-1:
			want = ids[0][:3]
		}
		b, err := create(k, want)
		if err != nil {
			return fail(err)
		}
		ids = append(ids, b.Id().String())
		specs := []world.OpSpec{{Kind: "labels", Add: []string{labels[k%len(labels)], labels[(k+2)%len(labels)]}, Author: k + 1}}
		for c := 0; c < 1+rng.Intn(3); c++ {
			specs = append(specs, world.OpSpec{Kind: "comment", Text: fmt.Sprintf("seed comment %d/%d", k, c), Author: k + c})
		}
		if k%3 == 2 {
			specs = append(specs, world.OpSpec{Kind: "close", Author: k})
		}
		if err := w.Edit(e.rep, b.Id(), specs); err != nil {
			return fail(err)
		}
	}
	e.ambig = shared()
	for i := 0; i < 3; i++ {
		hsh, err := e.rep.Repo.StoreData([]byte(fmt.Sprintf("c17 attachment %d (seed %d)", i, seed)))
		if err != nil {
			return fail(err)
		}
		e.blobs = append(e.blobs, hsh.String())
	}
	e.gitDir = filepath.Join(e.rep.Dir, ".git")
	if e.h, err = NewGQLHarness(e.rep, e.user.Id()); err != nil {
		return fail(err)
	}
	// Like any real repository, this one has a configured user identity (`git-bug user adopt`). It is
	// deliberately NOT the identity attached to requests, so that a resolver falling back to the
	// configured identity is told apart from one using the request's user.
	if ic, err := e.h.RC.Identities().Resolve(e.other.Id()); err != nil {
		e.Close()
		return nil, err
	} else if err := e.h.RC.SetUserIdentity(ic); err != nil {
		e.Close()
		return nil, err
	}
	if e.schema, err = e.h.Introspect(false); err != nil {
		e.Close()
		return nil, err
	}
	if e.snap, err = e.snapshot(); err != nil {
		e.Close()
		return nil, err
	}
	return e, nil
}

func (e *c17Env) Close() {
	if e.h != nil {
		e.h.Close()
	}
	e.w.Close()
}

// reopen closes the cache and the repository and opens them again the way a new `git-bug webui` process does:
// the cache is loaded from its on-disk files (excerpts only), no bug is in memory until somebody asks for it.
func (e *c17Env) reopen() error {
	e.h.Close() // MultiRepoCache.Close: writes nothing new, releases the lock file and the repository
	n, err := world.OpenRepo(e.rep.Dir, e.rep.KR, bug.ClockLoader)
	if err != nil {
		return fmt.Errorf("re-opening the repository: %w", err)
	}
	e.rep.Repo, e.rep.Tested = n.Repo, n.Tested
	served := e.requests()
	if e.h, err = NewGQLHarness(e.rep, e.user.Id()); err != nil {
		return fmt.Errorf("re-opening the cache: %w", err)
	}
	e.h.Requests = served
	e.opened = "built"
	if len(e.h.RC.VerifLoadedBugIds()) == 0 {
		e.opened = "loaded-from-disk"
	}
	e.suspects = nil
	return nil
}

func (e *c17Env) requests() int64 {
	if e.h == nil {
		return 0
	}
	return atomic.LoadInt64(&e.h.Requests)
}

// abandon gives up an environment in which a request never returned: closing the cache would block as well.
// The directory stays until the child exits (the blocked goroutines still refer to it).
func (e *c17Env) abandon() {
	e.rep.Cache, e.rep.Repo = nil, nil
	c17Abandoned = append(c17Abandoned, e.w.Dir)
}

var c17Abandoned []string

func (e *c17Env) token() string {
	e.tokenSeq++
	return fmt.Sprintf("tk%dx%d", os.Getpid()%10000, e.tokenSeq)
}

// c17Snap is everything the oracle compares before/after a request.
type c17Snap struct {
	Refs          map[string]string
	Objects       map[string]bool
	GitOps        map[string][]string // bug id -> ordered op ids, read from the git data (not via the cache)
	CacheBugIds   []string
	CacheIdentIds []string
	CacheExcerpts map[string]string
	CacheOps      map[string][]string // bug id -> op ids of the cache's snapshot
	Light         bool                // CacheOps only holds the bugs that were in memory already
}

// c17BugInfo is what the request builder needs to know about a bug, read from the git data.
type c17BugInfo struct {
	Title    string
	Labels   []string
	Comments [][2]string // combined id, id of the operation that created the comment
}

// bugInfo reads a bug from git (not via the cache: building a request must not load anything into it).
func (e *c17Env) bugInfo(id string) (*c17BugInfo, error) {
	head := ""
	if e.snap != nil {
		head = e.snap.Refs["refs/bugs/"+id]
	}
	if bi, ok := e.infoMemo[head]; ok && head != "" {
		return bi, nil
	}
	b, err := world.ReadBug(e.rep.Repo, entity.Id(id))
	if err != nil {
		return nil, err
	}
	snap := b.Compile()
	bi := &c17BugInfo{Title: snap.Title}
	for _, l := range snap.Labels {
		bi.Labels = append(bi.Labels, string(l))
	}
	for _, cm := range snap.Comments {
		bi.Comments = append(bi.Comments, [2]string{cm.CombinedId().String(), cm.TargetId().String()})
	}
	if head != "" {
		e.infoMemo[head] = bi
	}
	return bi, nil
}

func (e *c17Env) snapshot() (*c17Snap, error) {
	s := &c17Snap{Objects: map[string]bool{}, GitOps: map[string][]string{}, CacheExcerpts: map[string]string{}, CacheOps: map[string][]string{}, Light: e.light}
	var err error
	inMemory := map[entity.Id]bool{}
	if e.light {
		for _, id := range e.h.RC.VerifLoadedBugIds() {
			inMemory[id] = true
		}
	}
	if s.Refs, err = gitraw.RefTable(e.rep.Repo, "refs/"); err != nil {
		return nil, fmt.Errorf("ref table: %w", err)
	}
	objDir := filepath.Join(e.gitDir, "objects")
	err = filepath.WalkDir(objDir, func(p string, d fs.DirEntry, err error) error {
		if err != nil {
			return nil
		}
		if !d.IsDir() {
			rel, _ := filepath.Rel(objDir, p)
			s.Objects[rel] = true
		}
		return nil
	})
	if err != nil {
		return nil, err
	}
	for ref, head := range s.Refs {
		if !strings.HasPrefix(ref, "refs/bugs/") {
			continue
		}
		id := strings.TrimPrefix(ref, "refs/bugs/")
		if ops, ok := e.opsMemo[head]; ok {
			s.GitOps[id] = ops
			continue
		}
		b, err := world.ReadBug(e.rep.Repo, entity.Id(id))
		if err != nil {
			s.GitOps[id] = []string{"!unreadable: " + err.Error()}
			continue
		}
		ops := world.OpIds(b)
		e.opsMemo[head] = ops
		s.GitOps[id] = ops
	}
	for _, id := range e.h.RC.Bugs().AllIds() {
		s.CacheBugIds = append(s.CacheBugIds, id.String())
		if ex, err := e.h.RC.Bugs().ResolveExcerpt(id); err == nil {
			b, _ := json.Marshal(ex)
			s.CacheExcerpts[id.String()] = string(b)
		} else {
			s.CacheExcerpts[id.String()] = "!" + err.Error()
		}
		if e.light && !inMemory[id] {
			continue
		}
		if bc, err := e.h.RC.Bugs().Resolve(id); err == nil {
			s.CacheOps[id.String()] = world.DagOpIds(bc.Snapshot().Operations)
		} else {
			s.CacheOps[id.String()] = []string{"!" + err.Error()}
		}
	}
	sort.Strings(s.CacheBugIds)
	for _, id := range e.h.RC.Identities().AllIds() {
		s.CacheIdentIds = append(s.CacheIdentIds, id.String())
		if ex, err := e.h.RC.Identities().ResolveExcerpt(id); err == nil {
			b, _ := json.Marshal(ex)
			s.CacheExcerpts["identity/"+id.String()] = string(b)
		}
	}
	sort.Strings(s.CacheIdentIds)
	return s, nil
}

// c17Diff lists the aspects in which two snapshots differ: aspect -> description.
func c17Diff(a, b *c17Snap) map[string]string {
	out := map[string]string{}
	var refd []string
	for k, v := range a.Refs {
		if w, ok := b.Refs[k]; !ok {
			refd = append(refd, "removed "+k)
		} else if w != v {
			refd = append(refd, "moved "+k)
		}
	}
	for k := range b.Refs {
		if _, ok := a.Refs[k]; !ok {
			refd = append(refd, "added "+k)
		}
	}
	if len(refd) > 0 {
		sort.Strings(refd)
		out["refs"] = strings.Join(refd, ", ")
	}
	var objd []string
	for k := range a.Objects {
		if !b.Objects[k] {
			objd = append(objd, "-"+k)
		}
	}
	for k := range b.Objects {
		if !a.Objects[k] {
			objd = append(objd, "+"+k)
		}
	}
	if len(objd) > 0 {
		sort.Strings(objd)
		if len(objd) > 6 {
			objd = append(objd[:6], fmt.Sprintf("… (%d object files)", len(objd)))
		}
		out["objects"] = strings.Join(objd, " ")
	}
	cmpOps := func(x, y map[string][]string, commonOnly bool) string {
		var d []string
		for k, v := range x {
			if w, ok := y[k]; !ok {
				if !commonOnly {
					d = append(d, "bug "+k[:7]+" gone")
				}
			} else if !sameStrings(v, w) {
				d = append(d, fmt.Sprintf("bug %s: %d -> %d operations", k[:7], len(v), len(w)))
			}
		}
		for k := range y {
			if _, ok := x[k]; !ok && !commonOnly {
				d = append(d, "bug "+k[:7]+" appeared")
			}
		}
		sort.Strings(d)
		return strings.Join(d, ", ")
	}
	if d := cmpOps(a.GitOps, b.GitOps, false); d != "" {
		out["git-ops"] = d
	}
	// a light snapshot lists the operations of the bugs that were in memory only: which bugs are in memory is
	// not part of the repository's state, so only bugs present on both sides are compared (the set of bugs the
	// cache knows is compared through cache-ids)
	if d := cmpOps(a.CacheOps, b.CacheOps, a.Light || b.Light); d != "" {
		out["cache-ops"] = d
	}
	if !sameStrings(a.CacheBugIds, b.CacheBugIds) || !sameStrings(a.CacheIdentIds, b.CacheIdentIds) {
		out["cache-ids"] = fmt.Sprintf("bugs %d -> %d, identities %d -> %d", len(a.CacheBugIds), len(b.CacheBugIds), len(a.CacheIdentIds), len(b.CacheIdentIds))
	}
	var exd []string
	for k, v := range a.CacheExcerpts {
		if w, ok := b.CacheExcerpts[k]; ok && w != v {
			exd = append(exd, fmt.Sprintf("%s: %s -> %s", k[:7], truncateStr(v, 200), truncateStr(w, 200)))
		}
	}
	if len(exd) > 0 {
		sort.Strings(exd)
		out["cache-excerpts"] = strings.Join(exd, "; ")
	}
	return out
}

// c17RawOp is one stored operation decoded by the independent reader.
type c17RawOp struct {
	Kind    string
	Author  string
	Title   string   `json:"title"`
	Was     string   `json:"was"`
	Message string   `json:"message"`
	Files   []string `json:"files"`
	Target  string   `json:"target"`
	Status  int      `json:"status"`
	Added   []string `json:"added"`
	Removed []string `json:"removed"`
}

// rawOps decodes every stored operation of a bug: op id -> payload (+ author of its pack).
func (e *c17Env) rawOps(bugId string) (map[string]*c17RawOp, error) {
	h, ok, err := gitraw.ReadRef(e.rep.Repo, "refs/bugs/"+bugId)
	if err != nil {
		return nil, err
	}
	if !ok {
		return nil, fmt.Errorf("no ref for bug %s", bugId)
	}
	out := map[string]*c17RawOp{}
	for _, c := range h.Commits {
		for _, o := range c.Ops {
			op := &c17RawOp{Author: c.AuthorId}
			_ = json.Unmarshal(o.Raw, op)
			switch o.Type {
			case 1:
				op.Kind = "create"
			case 2:
				op.Kind = "title"
			case 3:
				op.Kind = "comment"
			case 4:
				op.Kind = map[int]string{1: "status:open", 2: "status:closed"}[op.Status]
				if op.Kind == "" {
					op.Kind = fmt.Sprintf("status:%d", op.Status)
				}
			case 5:
				op.Kind = "labels"
			case 6:
				op.Kind = "edit"
			default:
				op.Kind = fmt.Sprintf("type-%d", o.Type)
			}
			out[o.Id] = op
		}
	}
	return out, nil
}
