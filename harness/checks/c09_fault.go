package checks

import (
	"encoding/json"
	"fmt"
	"reflect"
	"strings"

	"github.com/MichaelMure/git-bug/cache"
	"github.com/MichaelMure/git-bug/entities/identity"
	"github.com/MichaelMure/git-bug/entity"
	"github.com/MichaelMure/git-bug/repository"

	"verif/harness/gitraw"
	"verif/harness/inject"
	"verif/harness/mon"
	"verif/harness/world"
)

// ---- C09 part 4: identity commits hit by storage faults, then retried ---------------
//
// An identity (new, or already stored with 1..2 versions) gets 1..3 pending versions
// (one per effective Mutate). Commit then runs on a repository decorator that lets the
// k-th storage call of the attempt fail (every index of the fault-free call list of that
// attempt; the list is learnt by running the same schedule without the last fault). The
// Commit is retried on the same object until it reports success; the retries can be hit
// again (fault schedules of depth 1..3). After every attempt the chain decoded by gitraw
// must still extend what was stored before; once Commit reports success the chain must
// be exactly: the old versions, then every pending version in order.

// IdFaultCase is one (backend, api, committed, pending) shape; the fault schedules are
// enumerated inside the case from the observed call lists.
type IdFaultCase struct {
	Name       string `json:"name"`
	Backend    string `json:"backend"`     // gogit | mock
	API        string `json:"api"`         // entity | cache
	Committed  int    `json:"committed"`   // versions already stored before the pending ones (0..2)
	Origin     string `json:"origin"`      // fresh | same | reread | resolve: where the object that gets the pending versions comes from
	Pending    int    `json:"pending"`     // pending versions (1..3)
	FaultDepth int    `json:"fault_depth"` // how many successive Commit attempts are hit (schedules of length 1..FaultDepth)
	Only       []int  `json:"only,omitempty"`
	Seed       int64  `json:"seed"`
	Idx        int    `json:"idx"`
}

// IdFaultObs is one executed fault schedule.
type IdFaultObs struct {
	Schedule   []int    `json:"schedule"`    // index of the failing storage call in attempt 1, 2, ...
	Faults     []string `json:"faults"`      // the same as names: StoreCommit#2 = second StoreCommit of that attempt
	Attempts   int      `json:"attempts"`    // Commit calls made
	Stuck      int      `json:"stuck"`       // times a failed Commit left the object without anything pending
	StoredLens []int    `json:"stored_lens"` // stored chain length after every attempt
	Expected   int      `json:"expected"`    // versions the stored chain must have in the end
	Findings   []string `json:"findings,omitempty"`
	Unfinished string   `json:"unfinished,omitempty"`
}

// IdFaultResult is what the child observed for one case.
type IdFaultResult struct {
	HarnessError string         `json:"harness_error"`
	CallList     []string       `json:"call_list"` // fault-free call list of the first attempt
	Obs          []IdFaultObs   `json:"obs"`
	MutKinds     map[string]int `json:"mut_kinds"`
}

// idFacts is the content of one identity version the monitor knows independently.
type idFacts struct {
	Name   string `json:"name"`
	Login  string `json:"login"`
	Email  string `json:"email"`
	Avatar string `json:"avatar"`
	Keys   int    `json:"keys"`
}

func decodeFacts(raw []byte) idFacts {
	var aux struct {
		Name   string            `json:"name"`
		Login  string            `json:"login"`
		Email  string            `json:"email"`
		Avatar string            `json:"avatar_url"`
		Keys   []json.RawMessage `json:"pub_keys"`
	}
	_ = json.Unmarshal(raw, &aux)
	return idFacts{aux.Name, aux.Login, aux.Email, aux.Avatar, len(aux.Keys)}
}

// storedChain is the independent view of refs/identities/<id>.
type storedChain struct {
	Exists  bool
	Err     string
	Ids     []string // sha256 of the version blobs
	Commits []string
	Facts   []idFacts
}

func readStoredChain(repo repository.RepoData, id string) storedChain {
	vs, ok, err := gitraw.ReadIdentity(repo, "refs/identities/"+id)
	s := storedChain{Exists: ok}
	if err != nil {
		s.Err = err.Error()
		return s
	}
	for _, v := range vs {
		s.Ids = append(s.Ids, v.Id)
		s.Commits = append(s.Commits, v.Commit)
		s.Facts = append(s.Facts, decodeFacts(v.Raw))
	}
	return s
}

// faultWorld is the repository of one case, shared by all its schedules (every schedule
// works on an identity of its own).
type faultWorld struct {
	c    IdFaultCase
	raw  repository.ClockedRepo // the undecorated repository: reads, mutations, set-up
	dec  *inject.Repo           // the decorator Commit runs on
	cc   *cache.RepoCache       // api=cache: built over dec
	pool []loadedKey
	seq  int
	res  *IdFaultResult
}

// faultMutation draws mutation number n of a schedule; the list is the same for every
// schedule of a case (it depends on the case only), values are unique per version.
func (fw *faultWorld) faultMutation(n int) idMutation {
	rng := mon.Rng(fw.c.Seed, "c09-fault-mut", fw.c.Idx*100+n)
	kinds := []string{"name", "login", "email", "avatar", "key-add", "key-remove"}
	m := idMutation{Kind: kinds[rng.Intn(len(kinds))], Value: fmt.Sprintf("v%d", n)}
	switch m.Kind {
	case "email":
		m.Value += "@example.org"
	case "avatar":
		m.Value = "https://example.org/avatar/" + m.Value + ".png"
	case "key-add":
		if len(fw.pool) == 0 {
			m.Kind = "name"
		} else if key, err := fw.pool[rng.Intn(len(fw.pool))].Public(); err != nil {
			m.Kind = "name"
		} else {
			m.Key = key
		}
	}
	return m
}

// applyToFacts is the monitor's own reading of a mutation.
func applyToFacts(m idMutation, f idFacts) idFacts {
	switch m.Kind {
	case "name":
		f.Name = m.Value
	case "login":
		f.Login = m.Value
	case "email":
		f.Email = m.Value
	case "avatar":
		f.Avatar = m.Value
	case "key-add":
		f.Keys++
	case "key-remove":
		if f.Keys > 0 {
			f.Keys--
		} else {
			f.Name = m.Value
		}
	}
	return f
}

// faultSubject is the identity of one schedule behind the API under test.
type faultSubject struct {
	fw *faultWorld
	i  *identity.Identity
	ic *cache.IdentityCache
}

func (s *faultSubject) ident() *identity.Identity {
	if s.ic != nil {
		return s.ic.Identity
	}
	return s.i
}

func (s *faultSubject) mutate(m idMutation) error {
	f := func(mu *identity.Mutator) { applyMutation(m, mu) }
	if s.ic != nil {
		return s.ic.Mutate(s.fw.raw, f)
	}
	return s.i.Mutate(s.fw.raw, f)
}

// commit runs Commit on the decorated repository.
func (s *faultSubject) commit() error {
	err, _ := guard(func() error {
		if s.ic != nil {
			return s.ic.Commit()
		}
		return s.i.Commit(s.fw.dec)
	})
	return err
}

func faultNames(log []string) []string {
	seen := map[string]int{}
	out := make([]string, len(log))
	for i, n := range log {
		seen[n]++
		out[i] = fmt.Sprintf("%s#%d", n, seen[n])
	}
	return out
}

func callOf(label string) string {
	if i := strings.IndexByte(label, '#'); i >= 0 {
		return label[:i]
	}
	return label
}

// runSchedule builds a fresh identity of the case's shape, gives it the pending versions
// and commits with attempt t failing at storage call schedule[t] (attempts beyond the
// schedule run fault-free). It returns the observation and the call list of every attempt.
func (fw *faultWorld) runSchedule(schedule []int) (IdFaultObs, [][]string) {
	obs := IdFaultObs{Schedule: append([]int{}, schedule...)}
	var logs [][]string
	// one finding per schedule: the first, checks are ordered from the most to the least specific
	find := func(key, what string) {
		if len(obs.Findings) == 0 {
			obs.Findings = append(obs.Findings, key+"|"+what)
		}
	}
	c := fw.c
	fw.seq++
	name := fmt.Sprintf("subject %d-%d", c.Idx, fw.seq)
	facts := idFacts{Name: name, Email: fmt.Sprintf("s%d-%d@example.com", c.Idx, fw.seq)}
	var expected []idFacts
	mutN := 0
	sub := &faultSubject{fw: fw}

	// --- set-up, fault-free: the stored part of the identity
	var err error
	if c.API == "cache" {
		sub.ic, err = fw.cc.Identities().New(facts.Name, facts.Email) // New commits the first version
	} else {
		sub.i, err = identity.NewIdentity(fw.raw, facts.Name, facts.Email)
		if err == nil && c.Committed > 0 {
			err = sub.i.Commit(fw.raw)
		}
	}
	if err != nil {
		obs.Unfinished = "set-up: " + err.Error()
		return obs, nil
	}
	expected = append(expected, facts)
	id := sub.ident().Id().String()
	for k := 1; k < c.Committed; k++ {
		mutN++
		m := fw.faultMutation(mutN)
		facts = applyToFacts(m, facts)
		expected = append(expected, facts)
		if err = sub.mutate(m); err == nil {
			if sub.ic != nil {
				err = sub.ic.Commit() // dec injects nothing now
			} else {
				err = sub.i.Commit(fw.raw)
			}
		}
		if err != nil {
			obs.Unfinished = "set-up mutation: " + err.Error()
			return obs, nil
		}
	}
	switch c.Origin {
	case "reread":
		if sub.i, err = identity.ReadLocal(fw.raw, entity.Id(id)); err != nil {
			obs.Unfinished = "set-up re-read: " + err.Error()
			return obs, nil
		}
	case "resolve":
		if sub.ic, err = fw.cc.Identities().Resolve(entity.Id(id)); err != nil {
			obs.Unfinished = "set-up resolve: " + err.Error()
			return obs, nil
		}
	}
	old := readStoredChain(fw.raw, id)
	if old.Err != "" || len(old.Ids) != c.Committed || (c.Committed > 0 && !reflect.DeepEqual(old.Facts, expected)) {
		obs.Unfinished = fmt.Sprintf("set-up: stored chain has %d versions (%s), wanted %d", len(old.Ids), old.Err, c.Committed)
		return obs, nil
	}

	// --- the pending versions: one per Mutate, no commit in between
	pendingFirst := c.Pending
	if c.Committed == 0 {
		pendingFirst-- // the uncommitted first version is the first pending one
	}
	for k := 0; k < pendingFirst; k++ {
		mutN++
		m := fw.faultMutation(mutN)
		facts = applyToFacts(m, facts)
		expected = append(expected, facts)
		if len(schedule) == 0 {
			fw.res.MutKinds[m.Kind]++
		}
		if err = sub.mutate(m); err != nil {
			obs.Unfinished = "pending mutation: " + err.Error()
			return obs, nil
		}
	}
	if got := sub.ident().Id().String(); got != id {
		find("commit-retry:id-changed-by-pending-versions", fmt.Sprintf("identity %s answers id %s after %d Mutate calls", short(id), short(got), pendingFirst))
	}

	// --- commit, with faults, until it reports success
	prev := old
	lastFault := "none"
	maxAttempts := len(schedule) + 4
	done := false
	for attempt := 0; attempt < maxAttempts && !done; attempt++ {
		if !sub.ident().NeedCommit() {
			// A failed Commit left nothing pending (all versions carry a commit hash although the
			// ref was not moved): Commit would refuse ("no pending version"). The statement says
			// nothing about that; the only way on is one more version.
			obs.Stuck++
			mutN++
			m := fw.faultMutation(mutN)
			facts = applyToFacts(m, facts)
			expected = append(expected, facts)
			if err = sub.mutate(m); err != nil {
				obs.Unfinished = "mutation after a failed commit: " + err.Error()
				return obs, logs
			}
		}
		start := fw.dec.Calls()
		injected := attempt < len(schedule)
		if injected {
			fw.dec.FailAt = start + schedule[attempt]
		} else {
			fw.dec.FailAt = -1
		}
		cerr := sub.commit()
		fw.dec.FailAt = -1
		log := append([]string{}, fw.dec.Log[start:]...)
		logs = append(logs, log)
		obs.Attempts++
		hit := injected && schedule[attempt] < len(log)
		if hit {
			lastFault = callOf(faultNames(log)[schedule[attempt]])
			obs.Faults = append(obs.Faults, faultNames(log)[schedule[attempt]])
		} else if injected {
			obs.Faults = append(obs.Faults, "not-reached")
		}
		if cerr != nil && strings.HasPrefix(cerr.Error(), "PANIC") {
			find("commit-retry:panic:after-failed-"+lastFault, fmt.Sprintf("Commit attempt %d of identity %s panicked: %v", attempt+1, short(id), cerr))
			return obs, logs
		}

		// after every attempt: append-only and the id
		now := readStoredChain(fw.raw, id)
		obs.StoredLens = append(obs.StoredLens, len(now.Ids))
		what := fmt.Sprintf("identity %s (%s/%s, %d stored + %d pending, faults %v) after Commit attempt %d (err=%v)", short(id), c.Backend, c.API, c.Committed, c.Pending, obs.Faults, attempt+1, cerr)
		if cerr == nil {
			// Commit reported success: the stored chain is the old one plus every pending version, in order
			obs.Expected = len(expected)
			switch {
			case now.Err != "":
			case len(now.Facts) < len(expected) && factsSubsequence(now.Facts, expected):
				find("commit-retry:version-missing-after-successful-commit:after-failed-"+lastFault, fmt.Sprintf("%s: Commit reported success, the stored chain has %d versions, the identity was given %d; missing: %s", what, len(now.Facts), len(expected), missingFacts(now.Facts, expected)))
			case !reflect.DeepEqual(now.Facts, expected):
				find("commit-retry:stored-chain-differs-after-successful-commit:after-failed-"+lastFault, fmt.Sprintf("%s: stored %s, expected %s", what, world.JSON(now.Facts), world.JSON(expected)))
			}
		}
		switch {
		case now.Err != "":
			find("commit-retry:stored-chain-undecodable:after-failed-"+lastFault, what+": "+now.Err)
		case prev.Exists && !now.Exists:
			find("commit-retry:stored-identity-vanished:after-failed-"+lastFault, what+": the ref is gone")
		case !isPrefix(prev.Ids, now.Ids) || !isPrefix(prev.Commits, now.Commits):
			find("commit-retry:stored-version-lost-or-rewritten:after-failed-"+lastFault, fmt.Sprintf("%s: the stored chain went from %d to %d versions and is not an extension", what, len(prev.Ids), len(now.Ids)))
		case now.Exists && now.Ids[0] != id:
			find("commit-retry:id-changed:after-failed-"+lastFault, fmt.Sprintf("%s: first stored version hashes to %s", what, short(now.Ids[0])))
		}
		if now.Err == "" {
			prev = now
		}
		if cerr != nil {
			if !injected || !hit {
				obs.Unfinished = fmt.Sprintf("Commit attempt %d failed without an injected fault: %v", attempt+1, cerr)
				return obs, logs
			}
			continue
		}
		done = true

		// the object in memory against a fresh read
		mem := sub.ident()
		if got := mem.Id().String(); got != id {
			find("commit-retry:id-changed-in-memory:after-failed-"+lastFault, fmt.Sprintf("%s: the committed object answers id %s", what, short(got)))
		}
		fresh, rerr := identity.ReadLocal(fw.raw, entity.Id(id))
		switch {
		case rerr != nil:
			find("commit-retry:unreadable-after-successful-commit:after-failed-"+lastFault, what+": ReadLocal: "+rerr.Error())
		case fresh.Id().String() != id:
			find("commit-retry:id-changed:after-failed-"+lastFault, fmt.Sprintf("%s: ReadLocal answers id %s", what, short(fresh.Id().String())))
		case world.JSON(world.RenderIdentity(fresh)) != world.JSON(world.RenderIdentity(mem)):
			find("commit-retry:memory-differs-from-stored:after-failed-"+lastFault, fmt.Sprintf("%s: in memory %s, fresh read %s", what, world.JSON(world.RenderIdentity(mem)), world.JSON(world.RenderIdentity(fresh))))
		}
		if sub.ic != nil {
			if rc, err := fw.cc.Identities().Resolve(entity.Id(id)); err != nil {
				find("commit-retry:cache-cannot-resolve:after-failed-"+lastFault, what+": "+err.Error())
			} else if rerr == nil && world.JSON(world.RenderIdentity(rc.Identity)) != world.JSON(world.RenderIdentity(fresh)) {
				find("commit-retry:cache-view-differs-from-stored:after-failed-"+lastFault, what+": the identity served by the cache differs from a fresh read")
			}
		}
	}
	if !done {
		obs.Unfinished = fmt.Sprintf("no successful Commit within %d attempts", maxAttempts)
		return obs, logs
	}

	// --- one more version on the same object, fault-free: the chain keeps growing at its end
	mutN++
	m := fw.faultMutation(mutN)
	facts = applyToFacts(m, facts)
	expected = append(expected, facts)
	if err = sub.mutate(m); err == nil {
		err = sub.commit()
	}
	after := readStoredChain(fw.raw, id)
	what := fmt.Sprintf("identity %s (%s/%s, %d stored + %d pending, faults %v) after one more Mutate+Commit (err=%v)", short(id), c.Backend, c.API, c.Committed, c.Pending, obs.Faults, err)
	switch {
	case err != nil:
		obs.Unfinished = "follow-up commit: " + err.Error()
	case after.Err != "":
		find("commit-retry:stored-chain-undecodable:after-failed-"+lastFault, what+": "+after.Err)
	case !isPrefix(prev.Ids, after.Ids) || !isPrefix(prev.Commits, after.Commits):
		find("commit-retry:stored-version-lost-or-rewritten:after-failed-"+lastFault, fmt.Sprintf("%s: the stored chain went from %d to %d versions and is not an extension", what, len(prev.Ids), len(after.Ids)))
	case len(after.Facts) < len(expected) && factsSubsequence(after.Facts, expected):
		find("commit-retry:version-missing-after-successful-commit:after-failed-"+lastFault, fmt.Sprintf("%s: the stored chain has %d versions, the identity was given %d; missing: %s", what, len(after.Facts), len(expected), missingFacts(after.Facts, expected)))
	case !reflect.DeepEqual(after.Facts, expected):
		find("commit-retry:stored-chain-differs-after-successful-commit:after-failed-"+lastFault, fmt.Sprintf("%s: stored %s, expected %s", what, world.JSON(after.Facts), world.JSON(expected)))
	}
	obs.StoredLens = append(obs.StoredLens, len(after.Ids))
	return obs, logs
}

// factsSubsequence: got is expected with some versions left out.
func factsSubsequence(got, expected []idFacts) bool {
	j := 0
	for _, e := range expected {
		if j < len(got) && got[j] == e {
			j++
		}
	}
	return j == len(got)
}

func missingFacts(got, expected []idFacts) string {
	var miss []string
	j := 0
	for k, e := range expected {
		if j < len(got) && got[j] == e {
			j++
			continue
		}
		miss = append(miss, fmt.Sprintf("version %d %s", k+1, world.JSON(e)))
	}
	return strings.Join(miss, ", ")
}

func runIdFault(c IdFaultCase) IdFaultResult {
	res := IdFaultResult{MutKinds: map[string]int{}}
	fw := &faultWorld{c: c, res: &res}
	fw.pool, _ = loadKeyPool()
	switch c.Backend {
	case "mock":
		fw.raw = repository.NewMockRepo()
	default:
		dir := world.ScratchDir("idfault-")
		defer removeAll(dir)
		rep, err := world.InitRepo(dir+"/r", false)
		if err != nil {
			res.HarnessError = err.Error()
			return res
		}
		fw.raw = rep.Repo
	}
	_ = fw.raw.Witness("bugs-create", 3)
	_ = fw.raw.Witness("bugs-edit", 7)
	fw.dec = inject.Wrap(fw.raw)
	if c.API == "cache" {
		cc, err := cache.NewRepoCacheNoEvents(fw.dec)
		if err != nil {
			_ = fw.raw.Close()
			res.HarnessError = "cache: " + err.Error()
			return res
		}
		fw.cc = cc
		defer cc.Close()
	} else {
		defer fw.raw.Close()
	}

	if len(c.Only) > 0 { // replay of one schedule
		obs, _ := fw.runSchedule(c.Only)
		res.Obs = append(res.Obs, obs)
		return res
	}
	// fault-free control, which also gives the call list of the first attempt
	obs, logs := fw.runSchedule(nil)
	res.Obs = append(res.Obs, obs)
	if obs.Unfinished != "" || len(logs) == 0 {
		res.HarnessError = "fault-free control did not finish: " + obs.Unfinished
		return res
	}
	res.CallList = faultNames(logs[0])
	// breadth first: all single faults, then every fault of the retry after each of them, ...
	type node struct {
		prefix []int
		log    []string
	}
	level := []node{{nil, logs[0]}}
	for depth := 1; depth <= c.FaultDepth && len(level) > 0; depth++ {
		var next []node
		for _, nd := range level {
			for k := range nd.log {
				sched := append(append([]int{}, nd.prefix...), k)
				obs, logs := fw.runSchedule(sched)
				res.Obs = append(res.Obs, obs)
				if obs.Unfinished == "" && len(logs) > len(sched) {
					next = append(next, node{sched, logs[len(sched)]})
				}
			}
		}
		level = next
	}
	return res
}

// c09FaultCases: every (backend, api, committed, origin, pending) shape once per round;
// rounds differ in the mutation kinds drawn.
func c09FaultCases(r *mon.Run) []IdFaultCase {
	var out []IdFaultCase
	rounds := r.Pick(1, 3)
	idx := 0
	for round := 0; round < rounds; round++ {
		for _, backend := range []string{"gogit", "mock"} {
			for committed := 0; committed <= 2; committed++ {
				origins := []string{"fresh"}
				if committed > 0 {
					origins = []string{"same", "reread", "cache-same", "cache-resolve"}
				}
				for _, origin := range origins {
					for pending := 1; pending <= 3; pending++ {
						idx++
						c := IdFaultCase{Backend: backend, API: "entity", Committed: committed, Origin: origin, Pending: pending, FaultDepth: 2, Seed: r.Seed, Idx: idx}
						if strings.HasPrefix(origin, "cache-") {
							c.API, c.Origin = "cache", strings.TrimPrefix(origin, "cache-")
						}
						if r.Tier == "thorough" && backend == "mock" && pending <= 2 {
							c.FaultDepth = 3
						}
						c.Name = fmt.Sprintf("fault-%d-%s-%s-c%d-%s-q%d", idx, backend, c.API, committed, c.Origin, pending)
						out = append(out, c)
					}
				}
			}
		}
	}
	return out
}
