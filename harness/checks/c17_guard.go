package checks

// C17: in-child no-progress watchdog. A case runs in its own goroutine; when nothing has moved for a while
// the watchdog takes a dump of all goroutines. Time only decides WHEN to look: the verdict "the API is stuck"
// is taken from the dump (a goroutine parked on a mutex inside git-bug code, nothing able to run, twice in a
// row); a case that is merely slow, or a dump that shows anything else, stays inconclusive.

import (
	"encoding/json"
	"fmt"
	"regexp"
	"runtime"
	"sort"
	"strings"
	"sync"
	"sync/atomic"
	"time"
)

const (
	c17FirstLook = 8 * time.Second  // no progress for that long: look at the goroutines
	c17LookEvery = 10 * time.Second // then again every …
	c17GiveUp    = 100 * time.Second
)

// c17Guard is the journal of the case in flight, shared between the case's goroutine and the watchdog.
type c17Guard struct {
	progress int64

	mu       sync.Mutex
	stage    string    // what is being done right now
	inflight string    // the HTTP request in flight, if any
	passed   []string  // stages completed so far
	culprit  string    // aftermath cases: the request under test, once it has been answered
	culpritM string    // its mutation (or "upload")
	culpritO string    // how it was answered: refused | accepted
	suspects []c17Case // the requests served by the cache since (and including) its last accepted mutation
	partial  c17Result
	env      *c17Env // the environment the case works on (to be given up when the case never returns)
}

// Stage journals what the case's goroutine is about to do (g may be nil: no watchdog).
func (g *c17Guard) Stage(format string, a ...any) {
	if g == nil {
		return
	}
	g.mu.Lock()
	if g.stage != "" {
		g.passed = append(g.passed, g.stage)
	}
	g.stage = fmt.Sprintf(format, a...)
	g.inflight = ""
	g.mu.Unlock()
	atomic.AddInt64(&g.progress, 1)
}

// Inflight journals the HTTP request that is being sent ("" = answered).
func (g *c17Guard) Inflight(req string) {
	if g == nil {
		return
	}
	g.mu.Lock()
	g.inflight = req
	g.mu.Unlock()
	atomic.AddInt64(&g.progress, 1)
}

// Publish stores a copy of the verdicts reached so far.
func (g *c17Guard) Publish(res *c17Result, suspects []c17Case) {
	if g == nil {
		return
	}
	var cp c17Result
	b, _ := json.Marshal(res)
	_ = json.Unmarshal(b, &cp)
	g.mu.Lock()
	g.partial = cp
	g.suspects = append([]c17Case{}, suspects...)
	g.mu.Unlock()
}

func (g *c17Guard) SetCulprit(sig, mutation, outcome string) {
	if g == nil {
		return
	}
	g.mu.Lock()
	g.culprit, g.culpritM, g.culpritO = sig, mutation, outcome
	g.mu.Unlock()
}

func (g *c17Guard) SetEnv(e *c17Env) {
	g.mu.Lock()
	g.env = e
	g.mu.Unlock()
}

// c17Hang is the watchdog's report.
type c17Hang struct {
	Deadlock string // functions of git-bug in which goroutines are parked on a mutex ("" = the dump shows no deadlock)
	Stage    string
	Inflight string
	Passed   []string
	Culprit  string
	CulpritM string
	CulpritO string
	Suspects []c17Case
	Env      *c17Env
	Excerpt  string
	Idle     time.Duration
	Partial  c17Result
}

func c17AllStacks() string {
	buf := make([]byte, 1<<20)
	for {
		n := runtime.Stack(buf, true)
		if n < len(buf) {
			return string(buf[:n])
		}
		buf = make([]byte, 2*len(buf))
	}
}

var c17GoroutineHead = regexp.MustCompile(`^goroutine \d+ \[([^\],]+)`)
var c17TypeParams = regexp.MustCompile(`\[[^\]]*\]`)

// c17ClassifyDump reads a dump of all goroutines. It answers the (sorted, distinct) git-bug functions in which
// goroutines are parked on a sync.Mutex / sync.RWMutex, provided that no goroutine of the process is able to make
// progress (running, runnable, in a system call; waiting for I/O or sleeping with git-bug or harness frames on its
// stack) — the goroutine taking the dump and the runtime's signal loop excepted. "" means: not a deadlock as far as the dump shows.
func c17ClassifyDump(dump string) (parkedIn string, excerpt string) {
	parked := map[string]bool{}
	var blocksKept []string
	for _, b := range strings.Split(dump, "\n\n") {
		lines := strings.Split(strings.TrimSpace(b), "\n")
		if len(lines) == 0 {
			continue
		}
		m := c17GoroutineHead.FindStringSubmatch(lines[0])
		if m == nil {
			continue
		}
		state := m[1]
		if strings.Contains(b, "checks.c17AllStacks") || strings.Contains(b, "os/signal.signal_recv") || strings.Contains(b, "os/signal.loop") {
			continue
		}
		ours := strings.Contains(b, "github.com/MichaelMure/git-bug/") || strings.Contains(b, "verif/harness/")
		switch {
		case state == "running", state == "runnable", strings.HasPrefix(state, "syscall"):
			return "", ""
		case (state == "IO wait" || state == "sleep") && ours:
			// (a background reader waiting for the network, like the keyring's D-Bus connection, is idle for good;
			// a goroutine of the request or of the harness waiting for I/O or a timer is not)
			return "", ""
		}
		onMutex := false
		for i, l := range lines[1:] {
			if i > 8 {
				break
			}
			t := strings.TrimSpace(l)
			if strings.HasPrefix(t, "sync.(*RWMutex).RLock(") || strings.HasPrefix(t, "sync.(*RWMutex).Lock(") || strings.HasPrefix(t, "sync.(*Mutex).Lock(") {
				onMutex = true
			}
		}
		if !onMutex {
			continue
		}
		for _, l := range lines[1:] {
			t := strings.TrimSpace(l)
			if strings.HasPrefix(t, "github.com/MichaelMure/git-bug/") {
				fn := strings.TrimPrefix(t, "github.com/MichaelMure/git-bug/")
				if j := strings.LastIndex(fn, "("); j > 0 {
					fn = fn[:j]
				}
				fn = c17TypeParams.ReplaceAllString(fn, "")
				if !parked[fn] && len(blocksKept) < 3 {
					if len(lines) > 16 {
						lines = lines[:16]
					}
					blocksKept = append(blocksKept, strings.Join(lines, "\n"))
				}
				parked[fn] = true
				break
			}
		}
	}
	if len(parked) == 0 {
		return "", ""
	}
	var fns []string
	for fn := range parked {
		fns = append(fns, fn)
	}
	sort.Strings(fns)
	return strings.Join(fns, " + "), strings.Join(blocksKept, "\n\n")
}

// c17Out is what a case's goroutine hands back: the verdicts and the environment to go on with.
type c17Out struct {
	res c17Result
	env *c17Env
}

// c17Guarded runs fn in its own goroutine under the no-progress watchdog. hang == nil: fn returned.
func c17Guarded(g *c17Guard, fn func() c17Out) (res c17Out, hang *c17Hang) {
	done := make(chan c17Out, 1)
	go func() { done <- fn() }()
	tick := time.NewTicker(250 * time.Millisecond)
	defer tick.Stop()
	last := atomic.LoadInt64(&g.progress)
	idleSince := time.Now()
	nextLook := c17FirstLook
	report := func(parkedIn, excerpt string) *c17Hang {
		g.mu.Lock()
		defer g.mu.Unlock()
		return &c17Hang{Deadlock: parkedIn, Stage: g.stage, Inflight: g.inflight, Passed: append([]string{}, g.passed...),
			Culprit: g.culprit, CulpritM: g.culpritM, CulpritO: g.culpritO, Suspects: g.suspects, Env: g.env,
			Excerpt: excerpt, Idle: time.Since(idleSince), Partial: g.partial}
	}
	for {
		select {
		case r := <-done:
			return r, nil
		case <-tick.C:
		}
		cur := atomic.LoadInt64(&g.progress)
		if cur != last {
			last, idleSince, nextLook = cur, time.Now(), c17FirstLook
			continue
		}
		idle := time.Since(idleSince)
		if idle < nextLook {
			continue
		}
		nextLook += c17LookEvery
		if parkedIn, _ := c17ClassifyDump(c17AllStacks()); parkedIn != "" {
			// look a second time: the same picture, and still nothing has moved
			select {
			case r := <-done:
				return r, nil
			case <-time.After(1500 * time.Millisecond):
			}
			again, excerpt := c17ClassifyDump(c17AllStacks())
			if again == parkedIn && atomic.LoadInt64(&g.progress) == last {
				return c17Out{}, report(parkedIn, excerpt)
			}
			continue
		}
		if idle >= c17GiveUp {
			dump := c17AllStacks()
			if len(dump) > 6000 {
				dump = dump[:6000]
			}
			return c17Out{}, report("", dump)
		}
	}
}
