package checks

// C19, second part: schedules with a SUSPENDED holder (job-control stop, tracer) and HAND-OVER
// schedules with three and more processes (openers on their way while the holder closes or is
// killed, openers frozen by the harness across the hand-over, chains), the executor steps they need
// and the little tracer (`vh child c19-ptrace <pid>`) that keeps a process in a ptrace stop.
//
// Nothing here decides anything: the steps only produce events for refmodel.CheckLockLog. Pauses
// ("steer") and SIGSTOP/SIGCONT of an opener only choose the interleaving; what the interleaving
// was is read back from the processes (/proc, output, lock file).

import (
	"bufio"
	"fmt"
	"io"
	"math/rand"
	"os"
	"os/exec"
	"runtime"
	"sort"
	"strconv"
	"strings"
	"sync"
	"syscall"
	"time"

	"verif/harness/refmodel"
)

func init() {
	registerChild("c19-ptrace", c19PtraceChild)
	registerChild("c19-hold", c19HoldChild)
}

// ---- schedules -----------------------------------------------------------------

type c19Gen struct {
	s   *LockSchedule
	rng *rand.Rand
}

func (g c19Gen) add(st ...LockStep) { g.s.Steps = append(g.s.Steps, st...) }

func (g c19Gen) run(label, class, guard string) {
	g.add(LockStep{Op: "observe", Tag: "before " + label}, LockStep{Op: "run", P: label, Cmd: class, Guard: guard}, LockStep{Op: "observe", Tag: "after " + label})
}

func (g c19Gen) sig() string { return pick(g.rng, "SIGINT", "SIGTERM", "SIGKILL") }

// c19SuspendedSchedule: the holder is alive but not running — stopped by job control (ctrl-z on a
// web UI started from a shell, SIGSTOP: every thread in state T) or held by a tracer (a debugger
// attached: every thread in state t) — while 1..2 others try to open the cache. They must be
// refused naming it and its lock must stay; then it is released and closes normally (or is killed
// while still suspended, leaving a stale lock).
func c19SuspendedSchedule(s *LockSchedule, rng *rand.Rand, via string) []string {
	g := c19Gen{s, rng}
	phase := map[string]string{"sigstop": "stopped-holder", "ptrace": "traced-holder"}[via]
	holder := pick(rng, "webui", "webui", "webui-ro")
	prebuilt := rng.Intn(2) == 0
	if prebuilt {
		g.run("P0", "bug", "")
	}
	g.add(LockStep{Op: "phase", Tag: phase},
		LockStep{Op: "start", P: "H", Cmd: holder, Wait: "ready"}, LockStep{Op: "observe", Tag: "holder ready"},
		LockStep{Op: "stop", P: "H", Via: via}, LockStep{Op: "observe", Tag: "holder suspended (" + via + ")"})
	shape := []string{holder, fmt.Sprintf("prebuilt=%v", prebuilt)}
	nC := 1 + rng.Intn(2)
	for c := 0; c < nC; c++ {
		class := pick(rng, "bug", "bug-new", "user", "webui-ro", "pull", "webui", "bug")
		g.run(fmt.Sprintf("C%d", c), class, "H")
		shape = append(shape, "c:"+class)
	}
	sig := g.sig()
	if sig == "SIGKILL" && rng.Intn(2) == 0 {
		// killed while suspended: dies at once, the lock stays behind
		// (a tracer is told first about the end of its tracee: it has to let go before the parent can reap)
		g.add(LockStep{Op: "signal", P: "H", Sig: sig}, LockStep{Op: "cont", P: "H"}, LockStep{Op: "reap", P: "H"}, LockStep{Op: "observe", Tag: "holder killed while suspended"})
		shape = append(shape, "killed-while-suspended")
	} else {
		g.add(LockStep{Op: "cont", P: "H"}, LockStep{Op: "observe", Tag: "holder released"})
		if rng.Intn(2) == 0 {
			class := pick(rng, "bug", "user", "bug-new")
			g.run("C9", class, "H")
			shape = append(shape, "after-release:"+class)
		}
		g.add(LockStep{Op: "signal", P: "H", Sig: sig}, LockStep{Op: "reap", P: "H"}, LockStep{Op: "observe", Tag: "holder gone"})
		shape = append(shape, sig)
	}
	g.run("A0", "bug", "")
	return shape
}

// c19HandoverSchedule: a holder and N >= 2 openers started close to each other (long-lived ones,
// so that two of them holding the cache at once can be seen); the holder closes or is killed while
// they are on their way (variant race), or one of them is frozen (SIGSTOP, as ctrl-z or a loaded
// machine would) across the hand-over to another opener and then released (freeze), or the openers
// are given the time to be turned away first and fresh ones race for the cache the holder lets go
// (chain), or the openers race for the stale lock of a killed holder (stale). Afterwards every
// opener that ends up ready is observed, closed and reaped in turn (drain) and a last command must
// find the cache free.
func c19HandoverSchedule(s *LockSchedule, rng *rand.Rand, variant string) []string {
	g := c19Gen{s, rng}
	prebuilt := rng.Intn(3) != 0
	if prebuilt {
		g.run("P0", "bug", "")
	}
	// the suffix of the finding keys says which situation the schedule produced: "handover" (nobody
	// held up by the harness), "stale-handover" (openers racing for the lock of a dead holder),
	// "handover-frozen-opener" (set by the stop step once an opener has really been frozen)
	phase := "handover"
	if variant == "stale" {
		phase = "stale-handover"
	}
	g.add(LockStep{Op: "phase", Tag: phase},
		LockStep{Op: "start", P: "H", Cmd: "webui", Wait: "ready"}, LockStep{Op: "observe", Tag: "holder ready"})
	shape := []string{variant, fmt.Sprintf("prebuilt=%v", prebuilt)}
	var all []string
	openers := func(prefix string, n int, classes ...[]string) {
		for k := 0; k < n; k++ {
			label := fmt.Sprintf("%s%d", prefix, k)
			class := pick(rng, classes[k]...)
			if k > 0 {
				if gap := pick(rng, "0", "15ms", "35ms"); gap != "0" {
					g.add(LockStep{Op: "steer", Dur: gap})
				}
			}
			g.add(LockStep{Op: "start", P: label, Cmd: class, Wait: "none"})
			all = append(all, label)
			shape = append(shape, strings.ToLower(prefix)+":"+class)
		}
	}
	long := []string{"webui", "webui", "webui-ro"}
	mixed := []string{"webui", "bug", "bug-new", "webui-ro", "user"}
	nW := 2 + rng.Intn(2)
	sig := g.sig()
	lead := pick(rng, "0", "25ms", "70ms", "160ms", "320ms")
	switch variant {
	case "race":
		openers("W", nW, long, long, mixed)
		g.add(LockStep{Op: "steer", Dur: lead, Ps: append([]string(nil), all...)}, LockStep{Op: "signal", P: "H", Sig: sig})
		if rng.Intn(2) == 0 {
			openers("L", 1, long)
		}
		g.add(LockStep{Op: "reap", P: "H"}, LockStep{Op: "observe", Tag: "holder gone"})
		shape = append(shape, "lead="+lead, sig)
	case "freeze":
		openers("W", nW, long, long, mixed)
		frozen := all[rng.Intn(len(all))]
		g.add(LockStep{Op: "steer", Dur: lead, Ps: []string{frozen}},
			LockStep{Op: "stop", P: frozen, Via: "sigstop", IfLive: true},
			LockStep{Op: "signal", P: "H", Sig: sig}, LockStep{Op: "reap", P: "H"}, LockStep{Op: "observe", Tag: "holder gone, " + frozen + " frozen"})
		openers("L", 1, long)
		var rest []string
		for _, l := range all {
			if l != frozen {
				rest = append(rest, l)
			}
		}
		g.add(LockStep{Op: "settle", Ps: rest}, LockStep{Op: "observe", Tag: "hand-over settled, " + frozen + " still frozen"},
			LockStep{Op: "cont", P: frozen})
		shape = append(shape, "lead="+lead, "frozen="+frozen, sig)
	case "chain":
		// the first openers get the time to be turned away; the holder then lets go and fresh openers
		// (and whoever of the first ones is still there) race for it
		openers("W", nW-1, mixed, long)
		g.add(LockStep{Op: "steer", Dur: "320ms", Ps: append([]string(nil), all...)}, LockStep{Op: "signal", P: "H", Sig: sig})
		openers("L", 2, long, long)
		g.add(LockStep{Op: "reap", P: "H"}, LockStep{Op: "observe", Tag: "holder gone"})
		shape = append(shape, sig)
	case "stale":
		// the holder is killed and reaped first: its lock is stale; the openers race to clean it
		g.add(LockStep{Op: "signal", P: "H", Sig: "SIGKILL"}, LockStep{Op: "reap", P: "H"}, LockStep{Op: "observe", Tag: "holder killed, lock stale"})
		openers("W", nW, long, long, mixed)
		shape = append(shape, "SIGKILL")
	}
	g.add(LockStep{Op: "drain", Ps: all, Sig: pick(rng, "SIGINT", "SIGINT", "SIGTERM", "SIGKILL")}, LockStep{Op: "observe", Tag: "drained"})
	g.run("A0", "bug", "")
	return shape
}

// c19HeldSchedule: one thread of an opener is held up (by a tracer, at the entry of a system call:
// the call has not been made) right after the opener has read the holder's pid from the lock file —
// before it asks the kernel whether that pid is alive (liveness), or, the holder having been killed,
// before it removes the stale lock file (cleanup). Meanwhile the cache changes hands: the holder
// closes or is killed and is reaped, another opener is started and waited for. Then the held thread
// is let go. Whatever the opener decides then, it must not take the lock of the new live holder.
func c19HeldSchedule(s *LockSchedule, rng *rand.Rand) []string {
	g := c19Gen{s, rng}
	mode := pick(rng, "liveness", "cleanup")
	if s.Mode != "" {
		mode = s.Mode
	}
	prebuilt := rng.Intn(3) != 0
	if prebuilt {
		g.run("P0", "bug", "")
	}
	y := pick(rng, "webui", "webui-ro", "webui")
	x := pick(rng, "webui", "webui-ro", "webui")
	sig := pick(rng, "SIGINT", "SIGTERM", "SIGINT", "SIGKILL") // (liveness: mostly a clean close, no crash involved at all)
	if mode == "cleanup" {
		sig = "SIGKILL"
	}
	g.add(LockStep{Op: "phase", Tag: "handover"},
		LockStep{Op: "start", P: "H", Cmd: "webui", Wait: "ready"}, LockStep{Op: "observe", Tag: "holder ready"})
	if mode == "cleanup" {
		g.add(LockStep{Op: "signal", P: "H", Sig: sig}, LockStep{Op: "reap", P: "H"}, LockStep{Op: "observe", Tag: "holder killed, lock stale"})
	}
	g.add(LockStep{Op: "start", P: "Y", Cmd: y, Wait: "none", Hold: mode}, LockStep{Op: "held", P: "Y"})
	if mode == "liveness" {
		g.add(LockStep{Op: "signal", P: "H", Sig: sig}, LockStep{Op: "reap", P: "H"})
	}
	g.add(LockStep{Op: "observe", Tag: "holder gone, Y held"},
		LockStep{Op: "start", P: "X", Cmd: x, Wait: "none"}, LockStep{Op: "settle", Ps: []string{"X"}},
		LockStep{Op: "observe", Tag: "X resolved, Y still held"},
		LockStep{Op: "release", P: "Y", Guard: "X"}, LockStep{Op: "observe", Tag: "Y let go"},
		LockStep{Op: "drain", Ps: []string{"Y", "X"}, Sig: pick(rng, "SIGINT", "SIGTERM", "SIGKILL")}, LockStep{Op: "observe", Tag: "drained"})
	g.run("A0", "bug", "")
	return []string{mode, fmt.Sprintf("prebuilt=%v", prebuilt), "y:" + y, "x:" + x, sig}
}

// ---- executor steps ------------------------------------------------------------

// c19Holder is a running `vh child c19-hold`.
type c19Holder struct {
	mode  string
	cmd   *exec.Cmd
	stdin io.WriteCloser
	mu    sync.Mutex
	lines []string
	eof   bool
}

func (h *c19Holder) line(prefix string) string {
	h.mu.Lock()
	defer h.mu.Unlock()
	for _, l := range h.lines {
		if strings.HasPrefix(l, prefix) {
			return l
		}
	}
	return ""
}

func (h *c19Holder) ended() bool {
	h.mu.Lock()
	defer h.mu.Unlock()
	return h.eof
}

func (h *c19Holder) kill() {
	if h == nil || h.cmd == nil {
		return
	}
	_ = h.stdin.Close()
	_ = h.cmd.Process.Kill() // the kernel detaches the tracees of a dead tracer and lets them run
	_ = h.cmd.Wait()
	h.cmd = nil
}

func startHolder(pid int, mode string, holderPid int) (*c19Holder, error) {
	cmd := exec.Command(os.Args[0], "child", "c19-hold", strconv.Itoa(pid), mode, strconv.Itoa(holderPid))
	cmd.Env = os.Environ()
	in, err := cmd.StdinPipe()
	if err != nil {
		return nil, err
	}
	outp, err := cmd.StdoutPipe()
	if err != nil {
		return nil, err
	}
	if err := cmd.Start(); err != nil {
		return nil, err
	}
	h := &c19Holder{mode: mode, cmd: cmd, stdin: in}
	go func() {
		sc := bufio.NewScanner(outp)
		for sc.Scan() {
			h.mu.Lock()
			h.lines = append(h.lines, strings.TrimSpace(sc.Text()))
			h.mu.Unlock()
		}
		h.mu.Lock()
		h.eof = true
		h.mu.Unlock()
	}()
	return h, nil
}

// procThreadStates returns the states of all threads of pid (sorted, e.g. "TTTTT") and whether
// every one of them is stopped (T: job-control stop, t: tracing stop).
func procThreadStates(pid int) (string, bool) {
	tasks, err := os.ReadDir(fmt.Sprintf("/proc/%d/task", pid))
	if err != nil || len(tasks) == 0 {
		return "", false
	}
	var states []string
	all := true
	for _, t := range tasks {
		data, err := os.ReadFile(fmt.Sprintf("/proc/%d/task/%s/stat", pid, t.Name()))
		if err != nil {
			return "", false
		}
		st := string(data)
		i := strings.LastIndexByte(st, ')')
		if i < 0 || i+2 >= len(st) {
			return "", false
		}
		c := st[i+2]
		states = append(states, string(c))
		if c != 'T' && c != 't' {
			all = false
		}
	}
	sort.Strings(states)
	return strings.Join(states, ""), all
}

// c19Tracer is a running `vh child c19-ptrace <pid>`.
type c19Tracer struct {
	cmd   *exec.Cmd
	stdin io.WriteCloser
	out   *bufio.Reader
}

func (t *c19Tracer) release() {
	if t == nil || t.cmd == nil {
		return
	}
	_ = t.stdin.Close()
	done := make(chan struct{})
	go func() { _ = t.cmd.Wait(); close(done) }()
	select {
	case <-done:
	case <-time.After(10 * time.Second):
		_ = t.cmd.Process.Kill() // the kernel detaches the tracees of a dead tracer
		<-done
	}
	t.cmd = nil
}

// attachTracer starts the tracer on pid and waits until it reports every thread attached.
func attachTracer(pid int) (*c19Tracer, error) {
	cmd := exec.Command(os.Args[0], "child", "c19-ptrace", strconv.Itoa(pid))
	cmd.Env = os.Environ()
	in, err := cmd.StdinPipe()
	if err != nil {
		return nil, err
	}
	outp, err := cmd.StdoutPipe()
	if err != nil {
		return nil, err
	}
	if err := cmd.Start(); err != nil {
		return nil, err
	}
	t := &c19Tracer{cmd: cmd, stdin: in, out: bufio.NewReader(outp)}
	type answer struct {
		line string
		err  error
	}
	ch := make(chan answer, 1)
	go func() {
		l, err := t.out.ReadString('\n')
		ch <- answer{strings.TrimSpace(l), err}
	}()
	select {
	case a := <-ch:
		if a.err != nil || !strings.HasPrefix(a.line, "attached") {
			t.release()
			return nil, fmt.Errorf("tracer: %q %v", a.line, a.err)
		}
	case <-time.After(c19Watchdog):
		_ = cmd.Process.Kill()
		t.release()
		return nil, fmt.Errorf("tracer: no answer")
	}
	return t, nil
}

// c19PtraceChild attaches to every thread of a process (PTRACE_ATTACH, then waits for the stop),
// prints "attached <n>", keeps the threads in their tracing stop until its stdin is closed, then
// detaches from all of them. A signal other than the SIGSTOP of the attach that shows up first is
// handed back to the thread, so that nothing is lost and no stop signal is left pending.
func c19PtraceChild(args []string) int {
	runtime.LockOSThread() // ptrace requests must come from the thread that attached
	if len(args) != 1 {
		return 2
	}
	pid, err := strconv.Atoi(args[0])
	if err != nil {
		return 2
	}
	attached := map[int]bool{}
	detach := func() {
		for tid := range attached {
			_ = syscall.PtraceDetach(tid)
		}
	}
	const wall = 0x40000000 // __WALL
	for round := 0; round < 100; round++ {
		tasks, err := os.ReadDir(fmt.Sprintf("/proc/%d/task", pid))
		if err != nil {
			fmt.Printf("error: %v\n", err)
			detach()
			return 1
		}
		progress := false
		for _, t := range tasks {
			tid, _ := strconv.Atoi(t.Name())
			if tid == 0 || attached[tid] {
				continue
			}
			if err := syscall.PtraceAttach(tid); err != nil {
				if err == syscall.ESRCH {
					continue // the thread ended meanwhile
				}
				fmt.Printf("error: ptrace attach to thread %d: %v\n", tid, err)
				detach()
				return 1
			}
			attached[tid] = true
			progress = true
			for {
				var ws syscall.WaitStatus
				_, err := syscall.Wait4(tid, &ws, wall, nil)
				if err == syscall.EINTR {
					continue
				}
				if err != nil || ws.Exited() || ws.Signaled() {
					delete(attached, tid)
					break
				}
				if ws.Stopped() && ws.StopSignal() == syscall.SIGSTOP {
					break
				}
				if ws.Stopped() {
					// another signal arrived first: deliver it and wait for our stop
					if err := syscall.PtraceCont(tid, int(ws.StopSignal())); err != nil {
						delete(attached, tid)
						break
					}
				}
			}
		}
		if !progress {
			break
		}
	}
	fmt.Printf("attached %d\n", len(attached))
	_, _ = io.Copy(io.Discard, os.Stdin)
	detach()
	fmt.Println("detached")
	return 0
}

// c19PtracePreflight: can a tracer be attached to a process here at all? A reason not to run the
// traced-holder schedules, never a verdict.
func c19PtracePreflight() string {
	c19PtraceOnce.Do(func() {
		target := exec.Command("/bin/sleep", "300")
		if err := target.Start(); err != nil {
			c19PtraceReason = "cannot start a probe process: " + err.Error()
			return
		}
		defer func() { _ = target.Process.Kill(); _ = target.Wait() }()
		t, err := attachTracer(target.Process.Pid)
		if err != nil {
			c19PtraceReason = "a tracer cannot be attached to a child process here: " + err.Error()
			return
		}
		states, all := procThreadStates(target.Process.Pid)
		t.release()
		if !all || !strings.Contains(states, "t") {
			c19PtraceReason = fmt.Sprintf("a traced probe process shows thread states %q, not a tracing stop", states)
		}
	})
	return c19PtraceReason
}

// watchOpeners waits until one of the openers is ready and alive (returned) or all of them are gone
// (nil). The lock file is watched as well: every change of its content to a pid is recorded as an
// observation, and two live long-lived openers that both have shown to be past the lock (ready, a
// file of the indexes open, or their pid seen in the lock file) end the schedule (ok = false, nothing inconclusive) — they may
// block each other for ever behind their index files; the verdict comes from the model.
func (e *c19Exec) watchOpeners(labels []string) (ready *c19Proc, ok bool) {
	var ps []*c19Proc
	for _, l := range labels {
		ps = append(ps, e.procs[l])
	}
	lastLock := e.lockContent()
	if v, err := strconv.Atoi(lastLock); err == nil {
		e.inLock[v] = true
	}
	for {
		changed := false
		ready = nil
		past := 0
		if !e.await("one of "+strings.Join(labels, ",")+" to be ready or all of them to exit", ps, func() bool {
			if c := e.lockContent(); c != lastLock {
				lastLock = c
				if v, err := strconv.Atoi(c); err == nil {
					e.inLock[v] = true
					changed = true
				}
			}
			past = 0
			for _, p := range e.procsInOrder() {
				if p.spec.long && !p.loggedExit && !p.signalled && (p.loggedReady || p.loggedIndex || e.inLock[p.pid]) {
					past++
				}
			}
			if changed || past >= 2 {
				return true
			}
			gone := true
			for _, p := range ps {
				if p.loggedReady && !p.loggedExit {
					ready = p
					return true
				}
				if !p.loggedExit {
					gone = false
				}
			}
			return gone
		}) {
			return nil, false
		}
		if changed {
			e.observe("lock file changed")
		}
		if past >= 2 {
			e.observe("two live long-lived openers are past the lock")
			return nil, false
		}
		if !changed {
			return ready, true
		}
	}
}

// stepExtra executes the steps of the suspended-holder and hand-over schedules. It returns false
// when the schedule has to end here.
func (e *c19Exec) stepExtra(st LockStep) bool {
	res := e.res
	switch st.Op {
	case "phase":
		e.log(refmodel.LockEvent{Kind: "phase", Class: st.Tag})
	case "hold-attach":
		// the process has just been started through a shell that stops itself before exec'ing git-bug:
		// once it is seen stopped the tracer attaches and lets it run
		p := e.procs[st.P]
		if !c19HoldSupported {
			res.NotReached = "held-opener schedule not exercised: the system-call tracer is only built for linux/amd64"
			return false
		}
		if !e.await(st.P+" to stop itself before exec", []*c19Proc{p}, func() bool {
			_, all := procThreadStates(p.pid)
			return p.loggedExit || all
		}) {
			return false
		}
		holderPid := 0
		if h := e.procs["H"]; h != nil {
			holderPid = h.pid
		}
		h, err := startHolder(p.pid, st.Hold, holderPid)
		if err != nil {
			res.NotReached = "held-opener schedule not exercised: " + err.Error()
			return false
		}
		e.holders[st.P] = h
		if !e.await("the tracer of "+st.P+" to attach", []*c19Proc{p}, func() bool {
			return h.line("tracing") != "" || h.line("error") != "" || h.ended()
		}) {
			return false
		}
		if h.line("tracing") == "" {
			res.NotReached = "held-opener schedule not exercised: the tracer could not attach: " + h.line("error")
			return false
		}
	case "held":
		p, h := e.procs[st.P], e.holders[st.P]
		if !e.await(st.P+" to be held or to resolve", []*c19Proc{p}, func() bool {
			return h.line("held") != "" || p.loggedExit || p.loggedReady || h.ended()
		}) {
			return false
		}
		if l := h.line("held"); l != "" && !p.loggedExit {
			states, _ := procThreadStates(p.pid)
			e.log(refmodel.LockEvent{Kind: "phase", Class: "handover-held-opener"})
			e.log(refmodel.LockEvent{Kind: "hold", Proc: p.id, Pid: p.pid, Class: h.mode,
				Tag: fmt.Sprintf("a thread is kept at the entry of %s (tracer: %q); thread states %s", strings.TrimPrefix(l, "held "), l, states)})
			res.Outcomes["held:"+st.P] = "held at " + strings.TrimPrefix(l, "held ")
		} else {
			res.Outcomes["held:"+st.P] = "resolved without making the call"
		}
	case "release":
		p, h := e.procs[st.P], e.holders[st.P]
		if h != nil && h.line("held") != "" && !p.loggedExit {
			e.log(refmodel.LockEvent{Kind: "release", Proc: p.id, Pid: p.pid})
		}
		if h != nil {
			_, _ = io.WriteString(h.stdin, "go\n")
		}
		if g := e.procs[st.Guard]; g != nil && g.loggedReady && !g.loggedExit {
			// until the released opener is gone or ready, or the lock file names somebody else than the
			// live holder (an observation of state; absent or empty is the instant in between: keep looking)
			return e.await(st.P+" to resolve or to touch the lock of "+st.Guard, []*c19Proc{p, g}, func() bool {
				c := e.lockContent()
				return p.loggedExit || p.loggedReady || g.loggedExit || (c != "" && c != strconv.Itoa(g.pid))
			})
		}
	case "steer":
		// let some time pass (or less, when the processes it is about are all gone): steering only
		d, _ := time.ParseDuration(st.Dur)
		var ps []*c19Proc
		for _, l := range st.Ps {
			ps = append(ps, e.procs[l])
		}
		until := time.Now().Add(d)
		e.await("steering pause", ps, func() bool {
			if !time.Now().Before(until) {
				return true
			}
			if len(ps) == 0 {
				return false
			}
			for _, p := range ps {
				if !p.loggedExit {
					return false
				}
			}
			return true
		})
		e.log(refmodel.LockEvent{Kind: "steer", Tag: st.Dur})
	case "stop":
		p := e.procs[st.P]
		e.await("sweep", nil, func() bool { return true })
		if p.loggedExit {
			if st.IfLive {
				res.Outcomes["frozen:"+st.P] = "had exited before it could be frozen"
				return true
			}
			res.Inconclusive = st.P + " exited before it could be suspended"
			return false
		}
		switch st.Via {
		case "ptrace":
			t, err := attachTracer(p.pid)
			if err != nil {
				res.NotReached = "traced-holder schedule not exercised: " + err.Error()
				return false
			}
			e.tracers[st.P] = t
		default:
			_ = p.cmd.Process.Signal(syscall.SIGSTOP)
		}
		p.stopped = true
		if !e.await(st.P+" to be suspended", []*c19Proc{p}, func() bool {
			_, all := procThreadStates(p.pid)
			return p.loggedExit || all
		}) {
			return false
		}
		if p.loggedExit {
			p.stopped = false
			if st.IfLive {
				res.Outcomes["frozen:"+st.P] = "had exited before it could be frozen"
				return true
			}
			res.Inconclusive = st.P + " exited before it could be suspended"
			return false
		}
		states, _ := procThreadStates(p.pid)
		e.log(refmodel.LockEvent{Kind: "stop", Proc: p.id, Pid: p.pid, Class: st.Via, Tag: "every thread seen stopped in /proc, states " + states})
		if st.IfLive {
			res.Outcomes["frozen:"+st.P] = "frozen"
			if p.loggedReady || p.loggedBuilding {
				res.Outcomes["frozen:"+st.P] = "frozen after it had the cache"
			} else {
				// from here on the schedule is about an opener held up across a hand-over
				e.log(refmodel.LockEvent{Kind: "phase", Class: "handover-frozen-opener"})
			}
		}
	case "cont":
		p := e.procs[st.P]
		if !p.stopped {
			return true
		}
		if !p.loggedExit {
			e.log(refmodel.LockEvent{Kind: "cont", Proc: p.id, Pid: p.pid})
		}
		p.stopped = false
		if t := e.tracers[st.P]; t != nil {
			t.release()
			delete(e.tracers, st.P)
		} else {
			_ = p.cmd.Process.Signal(syscall.SIGCONT)
		}
	case "settle":
		// until one of the openers is ready (and alive) or all of them are gone
		_, ok := e.watchOpeners(st.Ps)
		return ok
	case "drain":
		// every opener that ends up ready is observed, closed, reaped and the lock file observed again;
		// an opener blocked behind the files of another one gets its turn once that one is gone
		for {
			ready, ok := e.watchOpeners(st.Ps)
			if !ok {
				return false
			}
			if ready == nil {
				return true
			}
			e.observe(ready.label + " ready")
			e.signal(ready, st.Sig)
			if !e.await(ready.label+" to be reaped", nil, func() bool { return ready.loggedExit }) {
				return false
			}
			e.observe(ready.label + " gone")
		}
	default:
		panic("c19: unknown step " + st.Op)
	}
	return true
}
