package checks

// C17: executing one mutation case in the child and judging it.

import (
	"fmt"
	"regexp"
	"sort"
	"strings"

	"verif/harness/mon"
)

type c17Finding struct {
	Key  string `json:"key"`
	What string `json:"what"`
}

type c17Result struct {
	Sig          string              `json:"sig"`
	Nontrivial   bool                `json:"nontrivial"`
	Class        string              `json:"class"`
	Outcome      string              `json:"outcome"`
	Findings     []c17Finding        `json:"findings,omitempty"`
	Counts       map[string]int      `json:"counts,omitempty"`
	Seen         map[string][]string `json:"seen,omitempty"`
	Inconclusive string              `json:"inconclusive,omitempty"`
	Request      string              `json:"request,omitempty"`
	Response     string              `json:"response,omitempty"`
	Requests     int                 `json:"requests"`
	Hang         string              `json:"hang,omitempty"`   // deadlock | unclassified: the case never returned
	Replay       *c17Case            `json:"replay,omitempty"` // the case that reproduces a hang finding, when it is not the case itself
}

func (r *c17Result) find(key, what string) {
	r.Findings = append(r.Findings, c17Finding{key, what})
}
func (r *c17Result) count(k string, n int) {
	if r.Counts == nil {
		r.Counts = map[string]int{}
	}
	r.Counts[k] += n
}
func (r *c17Result) seen(set, member string) {
	if r.Seen == nil {
		r.Seen = map[string][]string{}
	}
	r.Seen[set] = append(r.Seen[set], member)
}

var hexRun = regexp.MustCompile(`[0-9a-f]{7,}`)

func normalizeMsg(s string) string {
	s = hexRun.ReplaceAllString(s, "<id>")
	for strings.Contains(s, "<id>\n<id>") {
		s = strings.ReplaceAll(s, "<id>\n<id>", "<id>")
	}
	if len(s) > 90 {
		s = s[:90] + "…"
	}
	return s
}

func stringSetEq(a, b []string) bool {
	return sameStrings(sortedCopy(a), sortedCopy(b))
}

func (e *c17Env) send(c c17Case, m *c17Mat) *GQLResponse {
	e.g.Inflight(fmt.Sprintf("[%s] %s variables=%s", who(c.Auth), m.Doc, truncateStr(mon.JSON(m.Vars), 300)))
	defer e.g.Inflight("")
	if c.Method == "GET" {
		return e.h.Get(c.Auth, m.getURL())
	}
	return e.h.Post(c.Auth, m.Doc, m.Vars)
}

// post sends a query document under the watchdog's journal.
func (e *c17Env) post(auth bool, doc string) *GQLResponse {
	e.g.Inflight(fmt.Sprintf("[%s] %s", who(auth), doc))
	defer e.g.Inflight("")
	return e.h.Post(auth, doc, nil)
}

// noteServed keeps the list of requests served since (and including) the last accepted mutation: when a later
// request never returns, one of them left the cache in that state.
func (e *c17Env) noteServed(c c17Case, accepted bool) {
	if accepted {
		e.suspects = nil
	}
	if len(e.suspects) < 60 {
		e.suspects = append(e.suspects, c)
	}
}

func who(auth bool) string {
	if auth {
		return "user"
	}
	return "anon"
}

// runMutation executes and judges one mutation case.
func (e *c17Env) runMutation(c c17Case, res *c17Result) {
	m, err := e.materialize(c)
	if err != nil {
		res.Inconclusive = err.Error()
		return
	}
	before := e.snap
	resp := e.send(c, m)
	e.g.Stage("snapshot after %s", c17CaseSig(c))
	after, err := e.snapshot()
	if err != nil {
		res.Inconclusive = "snapshot after the request failed: " + err.Error()
		return
	}
	e.snap = after
	e.noteServed(c, !(resp.HasErrors() || jget(resp.Data, c.Mutation) == nil))
	e.g.Publish(res, e.suspects)
	res.Class = m.Exp.Class
	res.Nontrivial = true
	res.Request = fmt.Sprintf("%s %s variables=%s", map[bool]string{true: "GET", false: "POST"}[c.Method == "GET"], m.Doc, truncateStr(mon.JSON(m.Vars), 600))
	res.Response = truncateStr(resp.Raw, 500)
	diff := c17Diff(before, after)
	payload := jget(resp.Data, c.Mutation)
	refused := resp.HasErrors() || payload == nil
	name := c.Mutation
	ctx := fmt.Sprintf("%s [%s, %s%s] request: %s", name, who(c.Auth), m.Exp.Class, map[bool]string{true: ": " + m.Exp.Why, false: ""}[m.Exp.Why != ""], res.Request)

	if resp.Panic != "" {
		res.find("handler-panic:"+name, "a panic escaped the handler stack (net/http would drop the connection): "+resp.Panic+" — "+ctx)
	}
	if resp.InternalError() {
		res.seen("recovered_panics(internal system error)", name+"/"+m.Exp.Class+"/"+m.Exp.Why)
	}
	aspects := func() string {
		var keys []string
		for k := range diff {
			keys = append(keys, k)
		}
		sort.Strings(keys)
		var parts []string
		for _, k := range keys {
			parts = append(parts, k+": "+diff[k])
		}
		return strings.Join(parts, " | ")
	}
	firstAspect := func() string {
		for _, k := range []string{"refs", "objects", "git-ops", "cache-ids", "cache-ops", "cache-excerpts"} {
			if _, ok := diff[k]; ok {
				return k
			}
		}
		return "?"
	}

	// ---- without a user: refused, nothing changes -----------------------------
	if !c.Auth {
		if !resp.HasErrors() {
			res.find("nouser-accepted:"+name, "response carries no errors: "+res.Response+" — "+ctx)
		} else {
			res.seen("nouser_refusal_messages", normalizeMsg(resp.Errors0()))
		}
		if payload != nil {
			res.find("nouser-payload:"+name, "a mutation payload was returned without a user: "+res.Response+" — "+ctx)
		}
		if len(diff) > 0 {
			res.find("nouser-changed:"+name+":"+firstAspect(), "the repository changed after a request without user: "+aspects()+" — "+ctx)
		}
		res.Outcome = map[bool]string{true: "refused", false: "accepted"}[refused]
		res.count(fmt.Sprintf("outcome/anon/%s/%s", m.Exp.Class, res.Outcome), 1)
		return
	}

	// ---- with a user ----------------------------------------------------------
	if refused {
		res.Outcome = "refused"
		res.count(fmt.Sprintf("outcome/user/%s/refused", m.Exp.Class), 1)
		res.seen("user_refusal_messages", normalizeMsg(resp.Errors0()))
		if len(diff) > 0 {
			res.find("user-refused-but-changed:"+name+":"+firstAspect(), "the mutation answered an error but the repository changed: "+aspects()+" — errors: "+resp.ErrorText()+" — "+ctx)
		}
		if strings.Contains(resp.ErrorText(), "Cannot query field") || strings.Contains(resp.ErrorText(), "Unknown type") {
			res.Inconclusive = "the monitor's selection no longer fits the served schema: " + resp.ErrorText()
			return
		}
		if m.Exp.Class == "valid" {
			cause := ""
			if len(m.Exp.Files) > 0 {
				// attribute: the same request without the file list
				c2 := c
				c2.Fields = map[string]string{}
				for k, v := range c.Fields {
					if strings.HasPrefix(v, "H_") {
						v = "OMIT"
					}
					c2.Fields[k] = v
				}
				if m2, err := e.materialize(c2); err == nil {
					r2 := e.send(c2, m2)
					res.Requests++
					if !r2.HasErrors() {
						cause = "files"
					}
					if s2, err := e.snapshot(); err == nil {
						e.snap = s2
					}
				}
			}
			switch {
			case resp.InternalError() && cause == "files":
				res.seen("mutations_failing_on_a_valid_hash_list", name)
				res.find("user-valid-internal-error:Hash-list-argument",
					fmt.Sprintf("a valid %s with files=%v (ids of blobs stored with StoreData) answers %q for an authenticated user; the same request without the file list succeeds — %s", name, m.Exp.Files, resp.ErrorText(), ctx))
			case resp.InternalError():
				res.find("user-valid-internal-error:"+name, "a valid mutation answers "+resp.ErrorText()+" — "+ctx)
			case cause == "files":
				res.find("user-valid-refused:"+name+":files", "a valid mutation with a list of stored file hashes is refused ("+resp.ErrorText()+"); without the list it succeeds — "+ctx)
			default:
				res.find("user-valid-refused:"+name, "a valid mutation is refused: "+resp.ErrorText()+" — "+ctx)
			}
		}
		return
	}

	res.Outcome = "accepted"
	res.count(fmt.Sprintf("outcome/user/%s/accepted", m.Exp.Class), 1)
	if m.Exp.Class == "unmodelled" {
		res.seen("unmodelled_mutations_accepted_with_user", name)
		return
	}
	if m.Exp.Class == "invalid" {
		res.find("user-invalid-accepted:"+name+":"+strings.ReplaceAll(m.Exp.Why, " ", "-"), "an invalid mutation ("+m.Exp.Why+") was accepted: "+res.Response+" — "+ctx)
		return
	}

	// exactly one bug ref moved (or appeared, for a new bug); nothing else
	var moved []string
	for ref, head := range after.Refs {
		if before.Refs[ref] != head {
			moved = append(moved, ref)
		}
	}
	for ref := range before.Refs {
		if _, ok := after.Refs[ref]; !ok {
			moved = append(moved, "-"+ref)
		}
	}
	sort.Strings(moved)
	if len(moved) != 1 || !strings.HasPrefix(moved[0], "refs/bugs/") {
		res.find("user-wrong-refs:"+name, fmt.Sprintf("an accepted mutation must move exactly one bug ref; moved: %v — %s", moved, ctx))
		return
	}
	bugId := strings.TrimPrefix(moved[0], "refs/bugs/")
	_, existed := before.Refs[moved[0]]
	isNew := sameStrings(m.Exp.Kinds, []string{"create"})
	if isNew == existed {
		res.find("user-wrong-bug:"+name, fmt.Sprintf("ref %s existed before=%v — %s", moved[0], existed, ctx))
		return
	}
	if !isNew && m.Exp.Target != "" && bugId != m.Exp.Target {
		res.find("user-wrong-bug:"+name, fmt.Sprintf("the request addressed bug %s, bug %s changed — %s", m.Exp.Target, bugId, ctx))
		return
	}
	for k := range before.Objects {
		if !after.Objects[k] {
			res.find("user-object-removed:"+name, "object file "+k+" disappeared — "+ctx)
			break
		}
	}
	oldOps, newAll := before.GitOps[bugId], after.GitOps[bugId]
	if len(newAll) < len(oldOps) || !sameStrings(newAll[:len(oldOps)], oldOps) {
		res.find("user-history-rewritten:"+name, fmt.Sprintf("the operations recorded before are not a prefix of the operations after: %v -> %v — %s", shortIds(oldOps), shortIds(newAll), ctx))
		return
	}
	newOps := newAll[len(oldOps):]
	raw, err := e.rawOps(bugId)
	if err != nil {
		res.Inconclusive = "cannot decode the stored operations: " + err.Error()
		return
	}
	var gotKinds []string
	var ops []*c17RawOp
	for _, id := range newOps {
		op := raw[id]
		if op == nil {
			op = &c17RawOp{Kind: "undecodable"}
		}
		ops = append(ops, op)
		gotKinds = append(gotKinds, op.Kind)
	}
	res.seen("op_kinds_recorded", name+" -> "+strings.Join(gotKinds, "+"))
	if !sameStrings(gotKinds, m.Exp.Kinds) {
		res.find("user-wrong-ops:"+name, fmt.Sprintf("expected exactly the new operation(s) %v, the git data shows %v — %s", m.Exp.Kinds, gotKinds, ctx))
		return
	}
	uid := e.user.Id().String()
	for i, op := range ops {
		if op.Author != uid {
			res.find("user-wrong-author:"+name, fmt.Sprintf("new operation %s (%s) is stored in a pack authored by %s, the authenticated user is %s — %s", newOps[i][:7], op.Kind, op.Author, uid, ctx))
		}
	}
	// other bugs untouched in the cache, target bug fresh in the cache
	for id, ex := range before.CacheExcerpts {
		if id != bugId && after.CacheExcerpts[id] != ex {
			res.find("user-other-entity-changed:"+name, "cache excerpt of "+id+" changed — "+ctx)
			break
		}
	}
	if !sameStrings(after.CacheOps[bugId], newAll) {
		res.find("user-cache-stale:"+name, fmt.Sprintf("the cache lists operations %v for the bug, the git data %v — %s", shortIds(after.CacheOps[bugId]), shortIds(newAll), ctx))
	}

	// the returned bug and operations
	if m.BugFld != "" {
		rb := jget(payload, m.BugFld)
		if jstr(rb, "id") != bugId {
			res.find("user-returned-bug:"+name+":id", fmt.Sprintf("returned bug id %q, changed bug %s — %s", jstr(rb, "id"), bugId, ctx))
		} else if got := jstrs(jlist(rb, "operations", "nodes"), "id"); !sameStrings(got, newAll) {
			res.find("user-returned-bug:"+name+":operations", fmt.Sprintf("returned bug lists operations %v, the git data %v — %s", shortIds(got), shortIds(newAll), ctx))
		}
	}
	if len(m.OpFlds) > 0 {
		var got []string
		for _, of := range m.OpFlds {
			got = append(got, jstr(payload, of, "id"))
			if a := jstr(payload, of, "author", "id"); a != uid {
				res.find("user-returned-op:"+name+":author", fmt.Sprintf("returned operation %s names author %q, the user is %s — %s", of, a, uid, ctx))
			}
		}
		if !stringSetEq(got, newOps) {
			res.find("user-returned-op:"+name+":id", fmt.Sprintf("returned operation ids %v, recorded %v — %s", shortIds(got), shortIds(newOps), ctx))
		}
	}
	if m.Exp.Class != "valid" {
		return
	}
	res.count("valid_mutations_fully_checked", 1)

	// payload of the recorded operations (inputs are clean: text cleanup is the identity)
	rb := jget(payload, m.BugFld)
	comments := jlist(rb, "comments", "nodes")
	labelsNow := jstrs(jlist(rb, "labels"), "name")
	bad := func(field, what string) {
		res.find("user-payload:"+name+":"+field, what+" — "+ctx)
	}
	badBug := func(aspect, what string) {
		res.find("user-returned-bug:"+name+":"+aspect, what+" — "+ctx)
	}
	for i, op := range ops {
		switch op.Kind {
		case "create":
			if op.Title != m.Exp.Title {
				bad("title", fmt.Sprintf("stored title %q, requested %q", truncateStr(op.Title, 80), truncateStr(m.Exp.Title, 80)))
			}
			if op.Message != m.Exp.Message {
				bad("message", fmt.Sprintf("stored message %q, requested %q", truncateStr(op.Message, 80), truncateStr(m.Exp.Message, 80)))
			}
			if !sameStrings(op.Files, m.Exp.Files) {
				bad("files", fmt.Sprintf("stored files %v, requested %v", op.Files, m.Exp.Files))
			}
			if jstr(rb, "title") != m.Exp.Title || jstr(rb, "status") != "OPEN" {
				badBug("title-status", fmt.Sprintf("returned bug has title %q status %q", truncateStr(jstr(rb, "title"), 80), jstr(rb, "status")))
			}
			if len(comments) != 1 || jstr(comments[0], "message") != m.Exp.Message || jstr(comments[0], "author", "id") != uid {
				badBug("comments", "returned bug does not show the first message by the user")
			}
		case "comment":
			if op.Message != m.Exp.Message {
				bad("message", fmt.Sprintf("stored message %q, requested %q", truncateStr(op.Message, 80), truncateStr(m.Exp.Message, 80)))
			}
			if !sameStrings(op.Files, m.Exp.Files) {
				bad("files", fmt.Sprintf("stored files %v, requested %v", op.Files, m.Exp.Files))
			}
			if len(comments) == 0 {
				badBug("comments", "returned bug has no comment")
			} else {
				last := comments[len(comments)-1]
				if jstr(last, "message") != m.Exp.Message || jstr(last, "author", "id") != uid || !sameStrings(jstrs(jlist(last, "files"), ""), m.Exp.Files) {
					badBug("comments", fmt.Sprintf("last comment of the returned bug: message %q author %q files %v", truncateStr(jstr(last, "message"), 80), jstr(last, "author", "id"), jlist(last, "files")))
				}
			}
		case "edit":
			if op.Message != m.Exp.Message {
				bad("message", fmt.Sprintf("stored message %q, requested %q", truncateStr(op.Message, 80), truncateStr(m.Exp.Message, 80)))
			}
			if op.Target != m.Exp.CommentOp {
				bad("target", fmt.Sprintf("stored target %s, the addressed comment was created by operation %s", op.Target, m.Exp.CommentOp))
			}
			if !sameStrings(op.Files, m.Exp.Files) {
				bad("files", fmt.Sprintf("stored files %v, requested %v", op.Files, m.Exp.Files))
			}
			found := false
			for _, cm := range comments {
				if jstr(cm, "id") == m.Exp.CommentCombined {
					found = true
					if jstr(cm, "message") != m.Exp.Message {
						badBug("comments", fmt.Sprintf("edited comment of the returned bug reads %q", truncateStr(jstr(cm, "message"), 80)))
					}
				}
			}
			if !found {
				badBug("comments", "the edited comment is missing from the returned bug")
			}
		case "title":
			if op.Title != m.Exp.Title {
				bad("title", fmt.Sprintf("stored title %q, requested %q", truncateStr(op.Title, 80), truncateStr(m.Exp.Title, 80)))
			}
			if op.Was != m.Exp.Was {
				bad("was", fmt.Sprintf("stored previous title %q, the title was %q", truncateStr(op.Was, 80), truncateStr(m.Exp.Was, 80)))
			}
			if jstr(rb, "title") != m.Exp.Title {
				badBug("title", fmt.Sprintf("returned bug has title %q", truncateStr(jstr(rb, "title"), 80)))
			}
		case "status:open", "status:closed":
			want := map[string]string{"status:open": "OPEN", "status:closed": "CLOSED"}[op.Kind]
			if i == len(ops)-1 && jstr(rb, "status") != want {
				badBug("status", fmt.Sprintf("returned bug has status %q, expected %s", jstr(rb, "status"), want))
			}
		case "labels":
			wantRemoved := m.Exp.Removed
			if !stringSetEq(op.Added, m.Exp.Added) {
				bad("added", fmt.Sprintf("stored added labels %v, requested %v", op.Added, m.Exp.Added))
			}
			if !stringSetEq(op.Removed, wantRemoved) {
				bad("removed", fmt.Sprintf("stored removed labels %v, requested %v", op.Removed, wantRemoved))
			}
			want := map[string]bool{}
			for _, l := range m.Exp.LabelsBefore {
				want[l] = true
			}
			for _, l := range m.Exp.Added {
				want[l] = true
			}
			for _, l := range wantRemoved {
				delete(want, l)
			}
			var wl []string
			for l := range want {
				wl = append(wl, l)
			}
			if !stringSetEq(wl, labelsNow) {
				badBug("labels", fmt.Sprintf("returned bug has labels %v, expected %v", sortedCopy(labelsNow), sortedCopy(wl)))
			}
		}
	}
	// the returned operation payloads
	for _, of := range m.OpFlds {
		ro := jget(payload, of)
		tn := jstr(ro, "__typename")
		if tn == "CreateOperation" || tn == "AddCommentOperation" || tn == "EditCommentOperation" {
			if jstr(ro, "message") != m.Exp.Message {
				res.find("user-returned-op:"+name+":message", fmt.Sprintf("returned operation carries message %q — %s", truncateStr(jstr(ro, "message"), 80), ctx))
			}
			storedWrong := false
			for _, f := range res.Findings {
				storedWrong = storedWrong || strings.HasSuffix(f.Key, ":files")
			}
			if fl, ok := jget(ro, "files").([]any); ok && !storedWrong && !sameStrings(jstrs(fl, ""), m.Exp.Files) {
				res.find("user-returned-op:"+name+":files", fmt.Sprintf("returned operation carries files %v, requested %v — %s", fl, m.Exp.Files, ctx))
			}
		}
	}
}

// Errors0 is the first error message ("" if none).
func (r *GQLResponse) Errors0() string {
	if len(r.Errors) > 0 {
		return r.Errors[0].Message
	}
	return r.ErrorText()
}
