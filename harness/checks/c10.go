package checks

import (
	"crypto/sha256"
	"encoding/hex"
	"encoding/json"
	"fmt"
	"math/rand"
	"os"
	"sort"
	"strings"
	"time"

	"github.com/MichaelMure/git-bug/cache"
	"github.com/MichaelMure/git-bug/entities/bug"
	"github.com/MichaelMure/git-bug/entities/common"
	"github.com/MichaelMure/git-bug/entities/identity"
	"github.com/MichaelMure/git-bug/entity"
	"github.com/MichaelMure/git-bug/entity/dag"
	"github.com/MichaelMure/git-bug/repository"

	"verif/harness/mon"
	"verif/harness/refmodel"
	"verif/harness/world"
)

// C10 — a bug's state is the documented interpretation of its operations.
//
// Every case is a sequence of symbols applied after a create. The operations
// are built with git-bug's own constructors / convenience functions; what was
// actually appended (payload as stored) is handed to the reference
// interpreter refmodel.BugState, and bug.Compile() / BugCache.Snapshot() are
// compared with it.

func init() {
	register("C10", runC10)
	registerChild("c10cache", func(args []string) int {
		return serveBatch(args, func(b c10CacheBatchCase) *obsRecord {
			rec := newObsRecord()
			c10RunCacheBatch(rec, b.Cases, false)
			return rec
		})
	})
}

// c10CacheBatchCase is the unit handed to a child process: the sequences that share one repository and one RepoCache.
type c10CacheBatchCase struct {
	Cases []c10Case `json:"cases"`
}

// the alphabet
var c10Alphabet = []string{
	"comment",       // add-comment (files on odd args, own metadata on some)
	"edit-create",   // edit-comment targeting the create op (with files)
	"edit-last",     // edit-comment targeting the most recent comment
	"edit-unknown",  // edit-comment with a target that is no operation of the bug
	"edit-noncomm",  // edit-comment targeting a title/status/label (or metadata/no-op/edit) operation
	"title",         // set-title (sometimes to the current title)
	"status",        // set-status (toggle; sometimes to the current status)
	"labels",        // bug.ChangeLabels (checked variant)
	"labels-forced", // bug.ForceChangeLabels: duplicates, removal of absent labels, add+remove of the same label
	"meta-create",   // set-metadata on the create op, colliding with its own key
	"meta-prev",     // set-metadata on the previous operation, colliding with earlier keys
	"meta-unknown",  // set-metadata on an unknown target
	"noop",          // no-op operation
}

var c10Short = map[string]string{
	"comment": "C", "edit-create": "Ec", "edit-last": "El", "edit-unknown": "Eu", "edit-noncomm": "En",
	"title": "T", "status": "S", "labels": "L", "labels-forced": "Lf", "meta-create": "Mc", "meta-prev": "Mp",
	"meta-unknown": "Mu", "noop": "N",
}

type c10Step struct {
	Sym    string `json:"sym"`
	Author int    `json:"author"`
	Arg    int    `json:"arg"`
}

type c10Case struct {
	Name  string    `json:"name"`
	Gen   string    `json:"gen"` // enum | random
	Steps []c10Step `json:"steps"`
	// Split: in the cache run the first Split steps are written with the entity API and
	// committed before the cache is opened; the rest goes through BugCache.
	Split int `json:"split"`
	// CommitEvery: in the cache run, commit after every n-th step (0 = only at the end).
	CommitEvery int `json:"commit_every"`
}

// label is the symbol string, abbreviated for long (random) cases.
func (c c10Case) label() string {
	if len(c.Steps) <= 8 {
		return c.symString()
	}
	head := c10Case{Steps: c.Steps[:8]}
	return fmt.Sprintf("%s...(%d symbols)", head.symString(), len(c.Steps))
}

func (c c10Case) symString() string {
	parts := make([]string, len(c.Steps))
	for i, s := range c.Steps {
		parts[i] = c10Short[s.Sym]
	}
	return strings.Join(parts, ".")
}

var c10LabelPool = []string{"bug", "ui", "Bug", "zeta", "émile", "a b"}

// c10Env is what a driver needs besides the bug.
type c10Env struct {
	authors []identity.Interface
	files   []repository.Hash
	now     func() int64
}

func c10Unknown(tag string, pos, arg int) entity.Id {
	h := sha256.Sum256([]byte(fmt.Sprintf("c10-unknown-%s-%d-%d", tag, pos, arg)))
	return entity.Id(hex.EncodeToString(h[:]))
}

// c10Plan turns a step into concrete parameters using the model state so far.
type c10Plan struct {
	kind    string
	message string
	files   []repository.Hash
	target  entity.Id
	title   string
	close   bool
	add     []string
	remove  []string
	meta    map[string]string // own metadata of the new op
	newMeta map[string]string
}

func c10MakePlan(st c10Step, pos int, env *c10Env, model *refmodel.BugState, ops []refmodel.BugOp) c10Plan {
	p := c10Plan{kind: st.Sym}
	arg := st.Arg
	file := func(k int) []repository.Hash {
		if len(env.files) == 0 {
			return nil
		}
		return []repository.Hash{env.files[k%len(env.files)]}
	}
	switch st.Sym {
	case "comment":
		p.message = fmt.Sprintf("comment p%d a%d", pos, arg)
		if arg%2 == 1 {
			p.files = file(arg)
		}
		if arg%3 == 0 {
			p.meta = map[string]string{"src": "own"}
		}
	case "edit-create":
		p.target = entity.Id(model.OpIds[0])
		p.message = fmt.Sprintf("create edited p%d a%d", pos, arg)
		if arg%3 != 0 {
			p.files = file(arg)
		}
	case "edit-last":
		p.target = entity.Id(model.Comments[len(model.Comments)-1].OpId)
		p.message = fmt.Sprintf("last edited p%d a%d", pos, arg)
		if arg%2 == 0 {
			p.files = file(arg + 1)
		}
	case "edit-unknown":
		p.target = c10Unknown("edit", pos, arg)
		p.message = "edit of nothing"
		p.files = file(arg)
	case "edit-noncomm":
		p.message = "edit of a non-comment"
		p.files = file(arg)
		p.target = ""
		for i := len(ops) - 1; i >= 0 && p.target == ""; i-- {
			switch ops[i].Kind {
			case "title", "status", "labels":
				p.target = entity.Id(ops[i].Id)
			}
		}
		for i := len(ops) - 1; i >= 0 && p.target == ""; i-- {
			switch ops[i].Kind {
			case "metadata", "noop", "edit":
				p.target = entity.Id(ops[i].Id)
			}
		}
		if p.target == "" {
			p.target = c10Unknown("noncomm", pos, arg)
		}
	case "title":
		p.title = fmt.Sprintf("title %d", arg%3)
		if arg%5 == 0 {
			p.title = model.Title // no change
		}
	case "status":
		closed := model.Status == "closed"
		p.close = !closed
		if arg%4 == 0 {
			p.close = closed // same status again
		}
	case "labels":
		p.add = []string{c10LabelPool[arg%len(c10LabelPool)]}
		if arg%2 == 1 && len(model.Labels) > 0 {
			p.remove = []string{model.Labels[(arg/2)%len(model.Labels)]}
		}
		if arg%7 == 0 {
			p.add = append(p.add, p.add[0]) // duplicate inside the request
		}
	case "labels-forced":
		x := c10LabelPool[arg%len(c10LabelPool)]
		y := c10LabelPool[(arg/3)%len(c10LabelPool)]
		z := c10LabelPool[(arg/7)%len(c10LabelPool)]
		p.add = []string{x, x, y}
		p.remove = []string{z, "never-there"}
		if arg%3 == 0 {
			p.remove = append(p.remove, y, y)
		}
		if arg%5 == 4 {
			p.add = nil
		}
	case "meta-create":
		p.target = entity.Id(model.OpIds[0])
		p.newMeta = map[string]string{"origin": fmt.Sprintf("override-%d", pos), fmt.Sprintf("k%d", arg%3): fmt.Sprintf("v%d", pos)}
	case "meta-prev":
		p.target = entity.Id(model.OpIds[len(model.OpIds)-1])
		p.newMeta = map[string]string{"m": fmt.Sprintf("v%d", pos), "src": "hijack", "origin": "hijack"}
		if arg%2 == 1 && len(model.OpIds) > 1 {
			p.target = entity.Id(model.OpIds[(arg/2)%len(model.OpIds)])
		}
	case "meta-unknown":
		p.target = c10Unknown("meta", pos, arg)
		p.newMeta = map[string]string{"lost": "x"}
	case "noop":
		if arg%2 == 0 {
			p.meta = map[string]string{"src": "noop"}
		}
	}
	return p
}

// c10ApplyEntity appends the planned operation through the entity API
// (bug.* convenience functions and constructors). Returns an error text when
// git-bug refused to build the operation.
func c10ApplyEntity(b bug.Interface, author identity.Interface, t int64, p c10Plan) error {
	var err error
	switch p.kind {
	case "comment":
		_, _, err = bug.AddComment(b, author, t, p.message, p.files, p.meta)
	case "edit-create":
		_, _, err = bug.EditCreateComment(b, author, t, p.message, p.files, nil)
	case "edit-last", "edit-unknown", "edit-noncomm":
		_, _, err = bug.EditComment(b, author, t, p.target, p.message, p.files, nil)
	case "title":
		_, err = bug.SetTitle(b, author, t, p.title, nil)
	case "status":
		if p.close {
			_, err = bug.Close(b, author, t, nil)
		} else {
			_, err = bug.Open(b, author, t, nil)
		}
	case "labels":
		_, _, err = bug.ChangeLabels(b, author, t, p.add, p.remove, nil)
	case "labels-forced":
		_, err = bug.ForceChangeLabels(b, author, t, p.add, p.remove, nil)
	case "meta-create", "meta-prev", "meta-unknown":
		_, err = bug.SetMetadata(b, author, t, p.target, p.newMeta)
	case "noop":
		op := dag.NewNoOpOp[*bug.Snapshot](bug.NoOpOp, author, t)
		for k, v := range p.meta {
			op.SetMetadata(k, v)
		}
		if err = op.Validate(); err == nil {
			b.Append(op)
		}
	default:
		err = fmt.Errorf("unknown symbol %q", p.kind)
	}
	return err
}

var errC10Unsupported = fmt.Errorf("not expressible through BugCache")

// c10ApplyCache appends the planned operation through the BugCache API.
func c10ApplyCache(bc *cache.BugCache, author identity.Interface, t int64, p c10Plan) error {
	var err error
	switch p.kind {
	case "comment":
		_, _, err = bc.AddCommentRaw(author, t, p.message, p.files, p.meta)
	case "edit-create":
		_, _, err = bc.EditCreateCommentRaw(author, t, p.message, nil)
	case "edit-last", "edit-unknown", "edit-noncomm":
		_, err = bc.EditCommentRaw(author, t, entity.CombineIds(bc.Id(), p.target), p.message, nil)
	case "title":
		_, err = bc.SetTitleRaw(author, t, p.title, nil)
	case "status":
		if p.close {
			_, err = bc.CloseRaw(author, t, nil)
		} else {
			_, err = bc.OpenRaw(author, t, nil)
		}
	case "labels":
		_, _, err = bc.ChangeLabelsRaw(author, t, p.add, p.remove, nil)
	case "labels-forced":
		_, err = bc.ForceChangeLabelsRaw(author, t, p.add, p.remove, nil)
	case "meta-create", "meta-prev", "meta-unknown":
		_, err = bc.SetMetadataRaw(author, t, p.target, p.newMeta)
	case "noop":
		err = errC10Unsupported
	default:
		err = fmt.Errorf("unknown symbol %q", p.kind)
	}
	return err
}

func c10Hashes(l []repository.Hash) []string {
	if len(l) == 0 {
		return nil
	}
	out := make([]string, len(l))
	for i, h := range l {
		out[i] = string(h)
	}
	return out
}

func c10Labels(l []bug.Label) []string {
	if len(l) == 0 {
		return nil
	}
	out := make([]string, len(l))
	for i, h := range l {
		out[i] = string(h)
	}
	return out
}

func c10CopyMeta(m map[string]string) map[string]string {
	out := map[string]string{}
	for k, v := range m {
		out[k] = v
	}
	return out
}

func c10AuthorId(i identity.Interface) string {
	if i == nil {
		return "<nil>"
	}
	return i.Id().String()
}

// c10OpData reads the stored payload of an operation (the input of the interpretation).
func c10OpData(op dag.Operation) (refmodel.BugOp, error) {
	d := refmodel.BugOp{Id: op.Id().String(), Author: c10AuthorId(op.Author())}
	switch o := op.(type) {
	case *bug.CreateOperation:
		d.Kind, d.Title, d.Message, d.Files, d.Meta = "create", o.Title, o.Message, c10Hashes(o.Files), c10CopyMeta(o.Metadata)
	case *bug.AddCommentOperation:
		d.Kind, d.Message, d.Files, d.Meta = "comment", o.Message, c10Hashes(o.Files), c10CopyMeta(o.Metadata)
	case *bug.EditCommentOperation:
		d.Kind, d.Target, d.Message, d.Files, d.Meta = "edit", o.Target.String(), o.Message, c10Hashes(o.Files), c10CopyMeta(o.Metadata)
	case *bug.SetTitleOperation:
		d.Kind, d.Title, d.Meta = "title", o.Title, c10CopyMeta(o.Metadata)
	case *bug.SetStatusOperation:
		d.Kind, d.Meta = "status", c10CopyMeta(o.Metadata)
		switch o.Status {
		case common.OpenStatus:
			d.Status = "open"
		case common.ClosedStatus:
			d.Status = "closed"
		default:
			return d, fmt.Errorf("status %v", o.Status)
		}
	case *bug.LabelChangeOperation:
		d.Kind, d.Added, d.Removed, d.Meta = "labels", c10Labels(o.Added), c10Labels(o.Removed), c10CopyMeta(o.Metadata)
	case *dag.SetMetadataOperation[*bug.Snapshot]:
		d.Kind, d.Target, d.NewMeta, d.Meta = "metadata", o.Target.String(), c10CopyMeta(o.NewMetadata), c10CopyMeta(o.Metadata)
	case *dag.NoOpOperation[*bug.Snapshot]:
		d.Kind, d.Meta = "noop", c10CopyMeta(o.Metadata)
	default:
		return d, fmt.Errorf("operation type %T", op)
	}
	return d, nil
}

// c10Observe converts a compiled snapshot into the neutral observation.
// getMetaBad reports an inconsistency between AllMetadata and GetMetadata.
func c10Observe(s *bug.Snapshot) (o refmodel.ObservedBug, getMetaBad string) {
	o.Title = s.Title
	switch s.Status {
	case common.OpenStatus:
		o.Status = "open"
	case common.ClosedStatus:
		o.Status = "closed"
	default:
		o.Status = fmt.Sprintf("status(%d)", int(s.Status))
	}
	o.Labels = c10Labels(s.Labels)
	o.Creator = c10AuthorId(s.Author)
	for _, a := range s.Actors {
		o.Actors = append(o.Actors, c10AuthorId(a))
	}
	for _, a := range s.Participants {
		o.Participants = append(o.Participants, c10AuthorId(a))
	}
	byCombined := map[entity.CombinedId]string{}
	o.OpMeta = map[string]map[string]string{}
	for _, op := range s.Operations {
		id := op.Id()
		o.OpIds = append(o.OpIds, id.String())
		byCombined[entity.CombineIds(s.Id(), id)] = id.String()
		all := op.AllMetadata()
		o.OpMeta[id.String()] = all
		for k, v := range all {
			if gv, ok := op.GetMetadata(k); !ok || gv != v {
				getMetaBad = fmt.Sprintf("operation %s: AllMetadata[%q]=%q but GetMetadata gives %q,%v", id, k, v, gv, ok)
			}
		}
	}
	for _, c := range s.Comments {
		o.Comments = append(o.Comments, refmodel.ObservedComment{OpId: c.TargetId().String(), Author: c10AuthorId(c.Author), Message: c.Message, Files: c10Hashes(c.Files)})
	}
	opOf := func(c entity.CombinedId) string {
		if id, ok := byCombined[c]; ok {
			return id
		}
		return "?" + string(c)
	}
	hist := func(c *bug.CommentTimelineItem) []string {
		var h []string
		for _, st := range c.History {
			h = append(h, st.Message)
		}
		return h
	}
	for _, it := range s.Timeline {
		switch t := it.(type) {
		case *bug.CreateTimelineItem:
			o.Timeline = append(o.Timeline, refmodel.ObservedTimeline{OpId: opOf(t.CombinedId()), Kind: "create", Author: c10AuthorId(t.Author), Message: t.Message, Files: c10Hashes(t.Files), History: hist(&t.CommentTimelineItem)})
		case *bug.AddCommentTimelineItem:
			o.Timeline = append(o.Timeline, refmodel.ObservedTimeline{OpId: opOf(t.CombinedId()), Kind: "comment", Author: c10AuthorId(t.Author), Message: t.Message, Files: c10Hashes(t.Files), History: hist(&t.CommentTimelineItem)})
		case *bug.SetTitleTimelineItem:
			o.Timeline = append(o.Timeline, refmodel.ObservedTimeline{OpId: opOf(t.CombinedId()), Kind: "title", Author: c10AuthorId(t.Author), Title: t.Title})
		case *bug.SetStatusTimelineItem:
			st := "open"
			if t.Status == common.ClosedStatus {
				st = "closed"
			} else if t.Status != common.OpenStatus {
				st = fmt.Sprintf("status(%d)", int(t.Status))
			}
			o.Timeline = append(o.Timeline, refmodel.ObservedTimeline{OpId: opOf(t.CombinedId()), Kind: "status", Author: c10AuthorId(t.Author), Status: st})
		case *bug.LabelChangeTimelineItem:
			o.Timeline = append(o.Timeline, refmodel.ObservedTimeline{OpId: opOf(t.CombinedId()), Kind: "labels", Author: c10AuthorId(t.Author), Added: c10Labels(t.Added), Removed: c10Labels(t.Removed)})
		default:
			o.Timeline = append(o.Timeline, refmodel.ObservedTimeline{OpId: opOf(it.CombinedId()), Kind: fmt.Sprintf("%T", it)})
		}
	}
	return o, getMetaBad
}

// c10Render is the full canonical rendering used for differential comparisons
// (compile twice, incremental vs from scratch).
func c10Render(s *bug.Snapshot) string {
	m := world.RenderSnapshot(s)
	meta := map[string]map[string]string{}
	for _, op := range s.Operations {
		meta[op.Id().String()] = op.AllMetadata()
	}
	m["opmeta"] = meta
	return world.JSON(m)
}

// c10Tracker follows one bug: the operations appended so far and the model.
type c10Tracker struct {
	r     obsSink
	c     c10Case
	ops   []refmodel.BugOp
	model *refmodel.BugState
	nOps  int // operations already absorbed
	bad   bool
}

func newC10Tracker(r obsSink, c c10Case) *c10Tracker {
	return &c10Tracker{r: r, c: c, model: refmodel.NewBugState()}
}

// absorb hands the operations appended since the last call to the model.
func (tk *c10Tracker) absorb(all []dag.Operation) int {
	n := 0
	for _, op := range all[tk.nOps:] {
		d, err := c10OpData(op)
		if err != nil {
			tk.r.Inconclusive("C10 harness: " + err.Error())
			tk.bad = true
			return n
		}
		if err := tk.model.Apply(d); err != nil {
			tk.r.Inconclusive("C10 harness: sequence outside the quantifier: " + err.Error())
			tk.bad = true
			return n
		}
		tk.ops = append(tk.ops, d)
		tk.r.Count("ops/"+d.Kind, 1)
		n++
	}
	tk.nOps = len(all)
	return n
}

func bugOpsAsDag(b *bug.Bug) []dag.Operation {
	ops := b.Operations()
	out := make([]dag.Operation, len(ops))
	for i, o := range ops {
		out[i] = o
	}
	return out
}

// check compares one snapshot with the model.
func (tk *c10Tracker) check(phase string, snap *bug.Snapshot, lastSym string) {
	if tk.bad {
		return
	}
	obs, getBad := c10Observe(snap)
	tk.r.Count("comparisons/"+phase, 1)
	if getBad != "" {
		tk.r.Violation(phase+"/getmetadata-inconsistent", getBad+" in "+tk.c.Name, tk.c)
	}
	for _, mm := range tk.model.Compare(obs) {
		tk.r.Violation(phase+"/"+mm.Component, fmt.Sprintf("%s after %q (last symbol %s) in case %s [%s]", mm.Detail, phase, lastSym, tk.c.Name, tk.c.label()), map[string]any{"case": tk.c, "ops": tk.ops})
	}
	// record latitude actually taken by the implementation
	present := map[string]bool{}
	for _, t := range obs.Timeline {
		present[t.OpId] = true
	}
	for _, t := range tk.model.Timeline {
		if t.Optional {
			if present[t.OpId] {
				tk.r.Seen("latitude", "ineffective "+t.Kind+" op has a timeline entry")
			} else {
				tk.r.Seen("latitude", "ineffective "+t.Kind+" op has no timeline entry")
			}
		}
	}
	for _, a := range tk.model.AnyAuthors {
		must := false
		for _, m := range tk.model.MustActors {
			must = must || m == a
		}
		if !must {
			listed := false
			for _, x := range obs.Actors {
				listed = listed || x == a
			}
			if listed {
				tk.r.Seen("latitude", "author of only ineffective/metadata/no-op operations listed as actor")
			} else {
				tk.r.Seen("latitude", "author of only ineffective/metadata/no-op operations not listed as actor")
			}
		}
	}
	if len(tk.model.Comments) > 0 && !tk.model.Comments[0].FilesKnown && len(tk.model.Comments[0].Files) > 0 {
		if len(obs.Comments) > 0 && len(obs.Comments[0].Files) == 0 {
			tk.r.Seen("latitude", "never-edited creation comment shows no files although the create op has some")
		} else {
			tk.r.Seen("latitude", "never-edited creation comment shows the create op's files")
		}
	}
}

func (tk *c10Tracker) features() (sig string) {
	kinds := map[string]bool{}
	for _, o := range tk.ops {
		kinds[o.Kind] = true
	}
	ks := make([]string, 0, len(kinds))
	for k := range kinds {
		ks = append(ks, k)
	}
	sort.Strings(ks)
	bucket := func(n int) string {
		switch {
		case n == 0:
			return "0"
		case n < 4:
			return "1-3"
		case n < 16:
			return "4-15"
		case n < 64:
			return "16-63"
		default:
			return "64+"
		}
	}
	return fmt.Sprintf("len%s/comments%s/labels%d/override%s/ineffEdits%s/kinds%d", bucket(len(tk.ops)), bucket(len(tk.model.Comments)), len(tk.model.Labels), bucket(tk.model.OverrideAttempts), bucket(tk.model.IneffectiveEdits), len(ks))
}

// ---- in-memory run ------------------------------------------------------------

type c10MemWorld struct {
	repo repository.ClockedRepo
	env  *c10Env
	t    int64
}

func newC10MemWorld() (*c10MemWorld, error) {
	repo := repository.NewMockRepo()
	mw := &c10MemWorld{repo: repo, t: 1_600_000_000}
	env := &c10Env{now: func() int64 { mw.t++; return mw.t }}
	for _, name := range []string{"Ann C10", "Bob C10"} {
		i, err := identity.NewIdentity(repo, name, strings.ReplaceAll(name, " ", ".")+"@example.com")
		if err != nil {
			return nil, err
		}
		if err := i.Commit(repo); err != nil {
			return nil, err
		}
		env.authors = append(env.authors, i)
	}
	for k := 0; k < 3; k++ {
		h, err := repo.StoreData([]byte(fmt.Sprintf("c10 file %d", k)))
		if err != nil {
			return nil, err
		}
		env.files = append(env.files, h)
	}
	mw.env = env
	return mw, nil
}

func c10CreateArgs(c c10Case, env *c10Env) (title, msg string, files []repository.Hash, meta map[string]string) {
	return "title 0", "creation message of " + c.Gen, []repository.Hash{env.files[0]}, map[string]string{"origin": "creation"}
}

// c10RunMem runs one case in memory: compile after every step, compile twice,
// then commit to the mock repository, read back and compile from scratch.
func c10RunMem(r obsSink, mw *c10MemWorld, c c10Case, verbose bool) {
	defer func() {
		// Compile / Apply / Commit / Read are synchronous here: a panic is an observation, not a harness failure
		if p := recover(); p != nil {
			r.Violation("panic/in-memory", fmt.Sprintf("panic while building / compiling / re-reading the bug of case %s [%s]: %v", c.Name, c.label(), p), c)
		}
	}()
	env := mw.env
	tk := newC10Tracker(r, c)
	title, msg, files, meta := c10CreateArgs(c, env)
	b, _, err := bug.Create(env.authors[0], env.now(), title, msg, files, meta)
	if err != nil {
		r.Inconclusive("C10 harness: create refused: " + err.Error())
		return
	}
	tk.absorb(bugOpsAsDag(b))
	tk.check("compile", b.Compile(), "create")
	for pos, st := range c.Steps {
		p := c10MakePlan(st, pos, env, tk.model, tk.ops)
		err := c10ApplyEntity(b, env.authors[st.Author%len(env.authors)], env.now(), p)
		if err != nil {
			r.Count("entity_refused/"+st.Sym, 1)
			r.Seen("entity_refusals", st.Sym+": "+err.Error())
		}
		tk.absorb(bugOpsAsDag(b))
		if tk.bad {
			return
		}
		if c.Gen == "enum" || pos%7 == 0 || pos == len(c.Steps)-1 {
			tk.check("compile", b.Compile(), st.Sym)
		}
	}
	s1 := b.Compile()
	s2 := b.Compile()
	r1, r2 := c10Render(s1), c10Render(s2)
	r.Count("comparisons/compile-twice", 1)
	if r1 != r2 {
		r.Violation("compile-twice/differs", fmt.Sprintf("two compilations of the same bug differ in case %s [%s]:\n first: %s\nsecond: %s", c.Name, c.label(), r1, r2), c)
	}
	tk.check("compile-again", s2, "-")

	// from git
	if err := b.Commit(mw.repo); err != nil {
		r.Inconclusive("C10: commit to the in-memory repository failed: " + err.Error())
		return
	}
	rb, err := world.ReadBug(mw.repo, b.Id())
	if err != nil {
		r.Violation("reread/unreadable", fmt.Sprintf("bug of case %s [%s] cannot be read back: %v", c.Name, c.label(), err), c)
		return
	}
	fresh := rb.Compile()
	tk.check("reread-compile", fresh, "-")
	if verbose {
		fmt.Printf("in-memory run of %s [%s]: %d operations\n model: %s\n compiled: %s\n", c.Name, c.label(), len(tk.ops), mon.JSON(tk.model), c10Render(fresh))
	}
	r.Count("override_attempts_seen", tk.model.OverrideAttempts)
	r.Count("ineffective_edits_seen", tk.model.IneffectiveEdits)
	r.Count("authors_with_only_ineffective_edits", len(tk.model.IneffectiveOnlyAuthors()))
	nontrivial := len(tk.ops) > 1
	if c.Gen == "enum" {
		r.Case("enum:"+c.symString(), nontrivial)
	} else {
		r.Case("random:"+tk.features(), nontrivial)
	}
}

// ---- cache run ----------------------------------------------------------------

type c10CacheBug struct {
	c  c10Case
	tk *c10Tracker
	id entity.Id
	bc *cache.BugCache
}

// c10RunCacheBatch drives a batch of cases through one real repository and one RepoCache.
func c10RunCacheBatch(r obsSink, cases []c10Case, verbose bool) {
	w, err := world.New(1)
	if err != nil {
		r.Inconclusive("C10: cannot create world: " + err.Error())
		return
	}
	defer w.Close()
	rep := w.Replicas[0]
	env := &c10Env{now: w.Now}
	for _, name := range []string{"Ann C10", "Bob C10"} {
		a, err := rep.NewAuthor(name)
		if err != nil {
			r.Inconclusive("C10: cannot create author: " + err.Error())
			return
		}
		env.authors = append(env.authors, a)
	}
	for k := 0; k < 3; k++ {
		h, err := rep.Repo.StoreData([]byte(fmt.Sprintf("c10 file %d", k)))
		if err != nil {
			r.Inconclusive("C10: cannot store file: " + err.Error())
			return
		}
		env.files = append(env.files, h)
	}

	bugs := make([]*c10CacheBug, len(cases))
	// phase A: prefixes through the entity API, committed before the cache exists
	for i, c := range cases {
		cb := &c10CacheBug{c: c, tk: newC10Tracker(r, c)}
		bugs[i] = cb
		if c.Split <= 0 {
			continue
		}
		title, msg, files, meta := c10CreateArgs(c, env)
		b, _, err := bug.Create(env.authors[0], env.now(), title, msg, files, meta)
		if err != nil {
			r.Inconclusive("C10 harness: create refused: " + err.Error())
			cb.tk.bad = true
			continue
		}
		cb.tk.absorb(bugOpsAsDag(b))
		for pos := 0; pos < c.Split && pos < len(c.Steps); pos++ {
			st := c.Steps[pos]
			p := c10MakePlan(st, pos, env, cb.tk.model, cb.tk.ops)
			if err := c10ApplyEntity(b, env.authors[st.Author%len(env.authors)], env.now(), p); err != nil {
				r.Count("entity_refused/"+st.Sym, 1)
			}
			cb.tk.absorb(bugOpsAsDag(b))
		}
		if err := b.Commit(rep.Repo); err != nil {
			r.Inconclusive("C10: commit of prefix failed: " + err.Error())
			cb.tk.bad = true
			continue
		}
		cb.id = b.Id()
	}

	// phase B: the cache
	rc, err := cache.NewRepoCacheNoEvents(rep.Repo)
	if err != nil {
		r.Inconclusive("C10: cannot open cache: " + err.Error())
		return
	}
	rep.Cache = rc
	for _, cb := range bugs {
		if cb.tk.bad {
			continue
		}
		c := cb.c
		if c.Split > 0 {
			bc, err := rc.Bugs().Resolve(cb.id)
			if err != nil {
				r.Violation("cache-load/unresolvable", fmt.Sprintf("bug of case %s [%s] written with the entity API is not resolvable through the cache: %v", c.Name, c.label(), err), c)
				cb.tk.bad = true
				continue
			}
			cb.bc = bc
			cb.tk.check("cache-load", bc.Snapshot(), "-")
		} else {
			title, msg, files, meta := c10CreateArgs(c, env)
			bc, _, err := rc.Bugs().NewRaw(env.authors[0], env.now(), title, msg, files, meta)
			if err != nil {
				r.Inconclusive("C10: NewRaw failed: " + err.Error())
				cb.tk.bad = true
				continue
			}
			cb.bc, cb.id = bc, bc.Id()
			cb.tk.absorb(bc.Snapshot().Operations)
			cb.tk.check("cache-incremental", bc.Snapshot(), "create")
		}
		start := c.Split
		if start < 0 {
			start = 0
		}
		for pos := start; pos < len(c.Steps); pos++ {
			st := c.Steps[pos]
			p := c10MakePlan(st, pos, env, cb.tk.model, cb.tk.ops)
			// take the snapshot before: a stale alias held by a caller must not matter
			err := c10ApplyCache(cb.bc, env.authors[st.Author%len(env.authors)], env.now(), p)
			switch {
			case err == errC10Unsupported:
				r.Count("cache_not_expressible/"+st.Sym, 1)
			case err != nil:
				r.Count("cache_refused/"+st.Sym, 1)
				r.Seen("cache_refusals", st.Sym+": "+c10ErrClass(err))
			}
			snap := cb.bc.Snapshot()
			cb.tk.absorb(snap.Operations)
			if cb.tk.bad {
				break
			}
			cb.tk.check("cache-incremental", snap, st.Sym)
			if c.CommitEvery > 0 && (pos+1)%c.CommitEvery == 0 && cb.bc.NeedCommit() {
				if err := cb.bc.Commit(); err != nil {
					r.Inconclusive("C10: BugCache.Commit failed: " + err.Error())
					cb.tk.bad = true
					break
				}
				r.Count("cache_commits", 1)
			}
		}
		if cb.tk.bad {
			continue
		}
		if cb.bc.NeedCommit() {
			if err := cb.bc.Commit(); err != nil {
				r.Inconclusive("C10: BugCache.Commit failed: " + err.Error())
				cb.tk.bad = true
				continue
			}
			r.Count("cache_commits", 1)
		}
		live := cb.bc.Snapshot()
		cb.tk.check("cache-after-commit", live, "-")
		// incremental state vs a compilation from scratch of the bug re-read from git
		rb, err := world.ReadBug(rep.Repo, cb.id)
		if err != nil {
			r.Violation("cache-vs-scratch/unreadable", fmt.Sprintf("bug of case %s [%s] cannot be re-read from git: %v", c.Name, c.label(), err), c)
			cb.tk.bad = true
			continue
		}
		fresh := rb.Compile()
		cb.tk.check("scratch-compile", fresh, "-")
		r.Count("comparisons/incremental-vs-scratch", 1)
		if a, b := c10Render(live), c10Render(fresh); a != b {
			r.Violation("cache-vs-scratch/"+c10DiffComponent(a, b), fmt.Sprintf("incrementally maintained snapshot differs from a compilation from scratch in case %s [%s]:\n incremental: %s\n from scratch: %s", c.Name, c.label(), a, b), map[string]any{"case": c, "ops": cb.tk.ops})
		}
		if verbose {
			fmt.Printf("cache run of %s [%s] split=%d: %d operations\n incremental: %s\n", c.Name, c.label(), c.Split, len(cb.tk.ops), c10Render(live))
		}
	}

	// phase C: close, reopen (loads the cache files), resolve again
	if err := rep.Reopen(bug.ClockLoader); err != nil {
		r.Inconclusive("C10: reopen failed: " + err.Error())
		return
	}
	rc2, err := cache.NewRepoCacheNoEvents(rep.Repo)
	if err != nil {
		r.Inconclusive("C10: cannot reopen cache: " + err.Error())
		return
	}
	rep.Cache = rc2
	r.Count("cache_reopens", 1)
	for _, cb := range bugs {
		if cb.tk.bad {
			continue
		}
		c := cb.c
		bc, err := rc2.Bugs().Resolve(cb.id)
		if err != nil {
			r.Violation("cache-reload/unresolvable", fmt.Sprintf("bug of case %s [%s] not resolvable after closing and reopening the cache: %v", c.Name, c.label(), err), c)
			continue
		}
		snap := bc.Snapshot()
		cb.tk.check("cache-reload", snap, "-")
		rb, err := world.ReadBug(rep.Repo, cb.id)
		if err != nil {
			r.Violation("cache-vs-scratch/unreadable", fmt.Sprintf("bug of case %s [%s] cannot be re-read from git: %v", c.Name, c.label(), err), c)
			continue
		}
		r.Count("comparisons/reload-vs-scratch", 1)
		if a, b := c10Render(snap), c10Render(rb.Compile()); a != b {
			r.Violation("cache-reload-vs-scratch/"+c10DiffComponent(a, b), fmt.Sprintf("snapshot after cache reload differs from a compilation from scratch in case %s [%s]:\n cache: %s\n from scratch: %s", c.Name, c.label(), a, b), map[string]any{"case": c, "ops": cb.tk.ops})
		}
		nontrivial := len(cb.tk.ops) > 1
		if c.Gen == "enum" {
			r.Case(fmt.Sprintf("cache-enum:%s@%d", c.symString(), c.Split), nontrivial)
		} else {
			r.Case(fmt.Sprintf("cache-random:%s/split%v", cb.tk.features(), c.Split > 0), nontrivial)
		}
	}
}

func c10ErrClass(err error) string {
	s := err.Error()
	if len(s) > 60 {
		s = s[:60]
	}
	return s
}

// c10DiffComponent names the first top-level field in which two renderings differ.
func c10DiffComponent(a, b string) string {
	var ma, mb map[string]json.RawMessage
	if json.Unmarshal([]byte(a), &ma) != nil || json.Unmarshal([]byte(b), &mb) != nil {
		return "rendering"
	}
	keys := make([]string, 0, len(ma))
	for k := range ma {
		keys = append(keys, k)
	}
	sort.Strings(keys)
	for _, k := range keys {
		if string(ma[k]) != string(mb[k]) {
			return k
		}
	}
	return "rendering"
}

// ---- case lists ----------------------------------------------------------------

func c10EnumCases(r *mon.Run) []c10Case {
	maxLen := r.Pick(3, 4)
	var out []c10Case
	var rec func(prefix []string)
	idx := 0
	rec = func(prefix []string) {
		rng := mon.Rng(r.Seed, "c10-enum", idx)
		idx++
		c := c10Case{Gen: "enum"}
		for _, s := range prefix {
			c.Steps = append(c.Steps, c10Step{Sym: s, Author: rng.Intn(2), Arg: rng.Intn(210)})
		}
		c.Name = fmt.Sprintf("enum-%d", idx)
		c.Split = 0
		if len(prefix) > 0 && rng.Intn(2) == 0 {
			c.Split = 1 + rng.Intn(len(prefix))
		}
		c.CommitEvery = rng.Intn(3)
		out = append(out, c)
		if len(prefix) == maxLen {
			return
		}
		for _, s := range c10Alphabet {
			rec(append(append([]string{}, prefix...), s))
		}
	}
	rec(nil)
	return out
}

func c10RandomCase(rng *rand.Rand, n int, name string) c10Case {
	c := c10Case{Gen: "random", Name: name}
	// weights: a few profiles so that long comment/edit chains, label churn and metadata churn all occur
	profile := rng.Intn(4)
	for i := 0; i < n; i++ {
		var sym string
		switch profile {
		case 1: // comment / edit heavy
			sym = []string{"comment", "edit-create", "edit-last", "edit-last", "edit-unknown", "edit-noncomm", "title", "comment"}[rng.Intn(8)]
		case 2: // labels heavy
			sym = []string{"labels", "labels-forced", "labels", "labels-forced", "status", "edit-noncomm", "comment"}[rng.Intn(7)]
		case 3: // metadata heavy
			sym = []string{"meta-create", "meta-prev", "meta-prev", "meta-unknown", "noop", "comment", "title", "edit-last"}[rng.Intn(8)]
		default:
			sym = c10Alphabet[rng.Intn(len(c10Alphabet))]
		}
		if rng.Intn(5) == 0 {
			sym = c10Alphabet[rng.Intn(len(c10Alphabet))]
		}
		c.Steps = append(c.Steps, c10Step{Sym: sym, Author: rng.Intn(2), Arg: rng.Intn(210)})
	}
	if rng.Intn(2) == 0 {
		c.Split = 1 + rng.Intn(n)
	}
	c.CommitEvery = []int{0, 1, 5, 17}[rng.Intn(4)]
	return c
}

func c10RandomCases(r *mon.Run) []c10Case {
	n := r.Pick(100, 3000)
	out := make([]c10Case, n)
	for i := range out {
		rng := mon.Rng(r.Seed, "c10-random", i)
		out[i] = c10RandomCase(rng, 20+rng.Intn(281), fmt.Sprintf("random-%d", i))
	}
	return out
}

func runC10(tier, replay string) int {
	r := mon.NewRun("C10", "exploration", tier)

	if replay != "" {
		var rep struct {
			Case json.RawMessage `json:"case"`
		}
		data, err := os.ReadFile(replay)
		if err == nil {
			err = json.Unmarshal(data, &rep)
		}
		var c c10Case
		if err == nil {
			// the case is either the bare case or {"case":…, "ops":…}
			var wrapped struct {
				Case *c10Case `json:"case"`
			}
			if json.Unmarshal(rep.Case, &wrapped) == nil && wrapped.Case != nil {
				c = *wrapped.Case
			} else {
				err = json.Unmarshal(rep.Case, &c)
			}
		}
		if err != nil {
			fmt.Println("cannot read replay:", err)
			return 2
		}
		mw, err := newC10MemWorld()
		if err != nil {
			fmt.Println(err)
			return 2
		}
		c10RunMem(r, mw, c, true)
		c10RunCacheBatch(r, []c10Case{c}, true)
		return r.Finish("replay of one case", 0, nil)
	}

	enum := c10EnumCases(r)
	random := c10RandomCases(r)
	all := append(append([]c10Case{}, enum...), random...)
	r.Extra("enumerated_sequences", len(enum))
	r.Extra("random_sequences", len(random))
	r.Extra("alphabet", c10Alphabet)
	r.Extra("exhaustive_scope", fmt.Sprintf("all sequences of length <= %d over the %d-symbol alphabet after the create (authors and parameters drawn per sequence from the seed)", r.Pick(3, 4), len(c10Alphabet)))
	minLen, maxLen := 1<<30, 0
	for _, c := range random {
		if len(c.Steps) < minLen {
			minLen = len(c.Steps)
		}
		if len(c.Steps) > maxLen {
			maxLen = len(c.Steps)
		}
	}
	r.Extra("random_length_range", []int{minLen, maxLen})

	// (1) in memory: chunks of cases, one mock repository per chunk
	const memChunk = 64
	nChunks := (len(all) + memChunk - 1) / memChunk
	parallel(nChunks, func(k int) int {
		mw, err := newC10MemWorld()
		if err != nil {
			r.Inconclusive("C10: cannot build in-memory world: " + err.Error())
			return 0
		}
		for i := k * memChunk; i < (k+1)*memChunk && i < len(all); i++ {
			c10RunMem(r, mw, all[i], false)
		}
		return 0
	})

	// (2) through the cache: batches sharing one repository + RepoCache. Random (long)
	// cases are spread over the batches so that the batches have similar cost.
	const cacheBatch = 24
	var batches [][]c10Case
	{
		var cur []c10Case
		for _, c := range enum {
			cur = append(cur, c)
			if len(cur) == cacheBatch {
				batches = append(batches, cur)
				cur = nil
			}
		}
		if len(cur) > 0 {
			batches = append(batches, cur)
		}
		for i, c := range random {
			if len(batches) == 0 {
				batches = append(batches, nil)
			}
			// long cases get small batches of their own
			if i%4 == 0 {
				batches = append(batches, nil)
			}
			batches[len(batches)-1] = append(batches[len(batches)-1], c)
		}
	}
	// longest batches first
	sort.SliceStable(batches, func(i, j int) bool { return c10BatchCost(batches[i]) > c10BatchCost(batches[j]) })
	r.Extra("cache_batches", len(batches))
	var batchCases []c10CacheBatchCase
	for _, b := range batches {
		if len(b) > 0 {
			batchCases = append(batchCases, c10CacheBatchCase{Cases: b})
		}
	}
	// The cache build (and MergeAll, ReadAll) run in goroutines started by git-bug: a crash there cannot be
	// recovered in-process, so every cache batch runs in a child process.
	outcomes := runBatches[c10CacheBatchCase, *obsRecord]("", "c10cache", batchCases, 2, 10*time.Minute, nil)
	for i, oc := range outcomes {
		first := batchCases[i].Cases[0]
		switch {
		case oc.Crashed:
			r.Count("cache_batches_crashed", 1)
			r.Violation("crash:"+oc.Site, fmt.Sprintf("the process died while a batch of %d valid operation sequences (first: %s [%s]) was driven through RepoCache/BugCache:\n%s", len(batchCases[i].Cases), first.Name, first.label(), oc.Excerpt), batchCases[i])
		case oc.TimedOut || oc.Result == nil || *oc.Result == nil:
			r.Inconclusive(fmt.Sprintf("cache batch starting with %s did not finish: %s", first.Name, oc.Site))
		default:
			(*oc.Result).replayInto(r)
		}
	}

	r.Sample(enum[len(enum)/2])
	r.Sample(map[string]any{"name": random[0].Name, "length": len(random[0].Steps), "split": random[0].Split, "first_steps": random[0].Steps[:8]})

	return r.Finish("every sequence of length <= 3 (thorough 4) over a 13-symbol alphabet after the create, plus seeded random sequences of 20..300 symbols, each run (1) in memory with bug.Compile() after every step, compiled twice, committed to the in-memory backend, re-read and compiled from scratch, and (2) on a real repository: a prefix written with the entity API, the rest appended through BugCache with BugCache.Snapshot() compared after every operation, after commit (also against a from-scratch compilation of the bug re-read from git) and after closing and reopening the cache; a case is non-trivial when at least one operation follows the create; distinct = distinct symbol sequence (enumeration, per run mode and split point) or distinct feature vector (random: length/comment/override/ineffective-edit buckets, label count, kinds)",
		r.Pick(1500, 10000), []string{
			"the operations handed to the reference interpreter are the payloads git-bug stored (ChangeLabels' own de-duplication is part of building the operation, not of interpreting it)",
			"not constrained (statement silent): files of a never-edited creation comment; whether authors of ineffective, metadata or no-op operations are actors; whether a state-changing kind of operation that changes nothing has a timeline entry; the author recorded in history steps",
			"no-op operations and edits with files / unknown targets cannot be expressed through BugCache: they reach the cache only through the entity-API prefix that the cache loads from git",
		})
}

func c10BatchCost(b []c10Case) int {
	n := 0
	for _, c := range b {
		n += len(c.Steps) + 2
	}
	return n
}
