package checks

import (
	"crypto/sha256"
	"encoding/hex"
	"encoding/json"
	"fmt"
	"math/rand"
	"os"
	"sort"
	"strings"
	"time"

	"github.com/MichaelMure/git-bug/cache"
	"github.com/MichaelMure/git-bug/entities/bug"
	"github.com/MichaelMure/git-bug/entities/common"
	"github.com/MichaelMure/git-bug/entities/identity"
	"github.com/MichaelMure/git-bug/entity"
	"github.com/MichaelMure/git-bug/entity/dag"
	"github.com/MichaelMure/git-bug/repository"

	"verif/harness/mon"
	"verif/harness/refmodel"
	"verif/harness/world"
)

// C10 — a bug's state is the documented interpretation of its operations.
//
// Every case is a sequence of symbols applied after a create. The operations
// are built with git-bug's own constructors / convenience functions; what was
// actually appended (payload as stored) is handed to the reference
// interpreter refmodel.BugState, and bug.Compile() / BugCache.Snapshot() are
// compared with it.

func init() {
	register("C10", runC10)
	registerChild("c10cache", func(args []string) int {
		return serveBatch(args, func(b c10CacheBatchCase) *obsRecord {
			rec := newObsRecord()
			c10RunCacheBatch(rec, b.Cases, false)
			return rec
		})
	})
}

// c10CacheBatchCase is the unit handed to a child process: the sequences that share one repository and one RepoCache.
type c10CacheBatchCase struct {
	Cases []c10Case `json:"cases"`
}

// the alphabet
var c10Alphabet = []string{
	"comment",       // add-comment (files on odd args, own metadata on some)
	"edit-create",   // edit-comment targeting the create op (with files)
	"edit-last",     // edit-comment targeting the most recent comment
	"edit-unknown",  // edit-comment with a target that is no operation of the bug
	"edit-noncomm",  // edit-comment targeting a title/status/label (or metadata/no-op/edit) operation
	"title",         // set-title (sometimes to the current title; entity API: sometimes as another clone wrote it, `was` not the title in force)
	"status",        // set-status (toggle; sometimes to the current status)
	"labels",        // bug.ChangeLabels (checked variant)
	"labels-forced", // bug.ForceChangeLabels: duplicates, removal of absent labels, add+remove of the same label
	"meta-create",   // set-metadata on the create op, colliding with its own key
	"meta-prev",     // set-metadata on the previous operation, colliding with earlier keys
	"meta-unknown",  // set-metadata on an unknown target
	"noop",          // no-op operation
}

var c10Short = map[string]string{
	"comment": "C", "edit-create": "Ec", "edit-last": "El", "edit-unknown": "Eu", "edit-noncomm": "En",
	"title": "T", "status": "S", "labels": "L", "labels-forced": "Lf", "meta-create": "Mc", "meta-prev": "Mp",
	"meta-unknown": "Mu", "noop": "N",
}

type c10Step struct {
	Sym    string `json:"sym"`
	Author int    `json:"author"`
	Arg    int    `json:"arg"`
}

type c10Case struct {
	Name string `json:"name"`
	Gen  string `json:"gen"` // enum | random
	// Authors is the number of identities the case uses (1..4; 0 = 2, cases recorded before the field
	// existed); Creator and every Step.Author are indices into them (taken modulo Authors).
	Authors int       `json:"authors,omitempty"`
	Creator int       `json:"creator,omitempty"`
	Steps   []c10Step `json:"steps"`
	// Split: in the cache run the first Split steps are written with the entity API and
	// committed before the cache is opened; the rest goes through BugCache.
	Split int `json:"split"`
	// CommitEvery: in the cache run, commit after every n-th step (0 = only at the end).
	CommitEvery int `json:"commit_every"`
}

// label is the symbol string, abbreviated for long (random) cases.
func (c c10Case) label() string {
	if len(c.Steps) <= 8 {
		return c.symString()
	}
	head := c10Case{Steps: c.Steps[:8]}
	return fmt.Sprintf("%s...(%d symbols)", head.symString(), len(c.Steps))
}

// nAuthors is the number of identities of the case.
func (c c10Case) nAuthors() int {
	switch {
	case c.Authors <= 0:
		return 2
	case c.Authors > c10MaxAuthors:
		return c10MaxAuthors
	}
	return c.Authors
}

// author maps an author index of the case to an identity of the environment.
func (c c10Case) author(env *c10Env, idx int) identity.Interface {
	n := c.nAuthors()
	if n > len(env.authors) {
		n = len(env.authors)
	}
	if idx < 0 {
		idx = -idx
	}
	return env.authors[idx%n]
}

// authorString is the author assignment of the case: creator, then one digit per step.
func (c c10Case) authorString() string {
	n := c.nAuthors()
	var sb strings.Builder
	fmt.Fprintf(&sb, "%d", c.Creator%n)
	if len(c.Steps) > 0 {
		sb.WriteByte('|')
	}
	for _, s := range c.Steps {
		fmt.Fprintf(&sb, "%d", s.Author%n)
	}
	return sb.String()
}

const c10MaxAuthors = 4

var c10AuthorNames = []string{"Ann C10", "Bob C10", "Cy C10", "Dee C10"}

func (c c10Case) symString() string {
	parts := make([]string, len(c.Steps))
	for i, s := range c.Steps {
		parts[i] = c10Short[s.Sym]
	}
	return strings.Join(parts, ".")
}

var c10LabelPool = []string{"bug", "ui", "Bug", "zeta", "émile", "a b"}

// c10Env is what a driver needs besides the bug.
type c10Env struct {
	authors []identity.Interface
	files   []repository.Hash
	now     func() int64
}

func c10Unknown(tag string, pos, arg int) entity.Id {
	h := sha256.Sum256([]byte(fmt.Sprintf("c10-unknown-%s-%d-%d", tag, pos, arg)))
	return entity.Id(hex.EncodeToString(h[:]))
}

// c10Plan turns a step into concrete parameters using the model state so far.
type c10Plan struct {
	kind    string
	message string
	files   []repository.Hash
	target  entity.Id
	title   string
	was     string // title: non-empty = the operation is built as another clone would have written it, against this (stale) title
	close   bool
	add     []string
	remove  []string
	meta    map[string]string // own metadata of the new op
	newMeta map[string]string
}

func c10MakePlan(st c10Step, pos int, env *c10Env, model *refmodel.BugState, ops []refmodel.BugOp) c10Plan {
	p := c10Plan{kind: st.Sym}
	arg := st.Arg
	file := func(k int) []repository.Hash {
		if len(env.files) == 0 {
			return nil
		}
		return []repository.Hash{env.files[k%len(env.files)]}
	}
	switch st.Sym {
	case "comment":
		p.message = fmt.Sprintf("comment p%d a%d", pos, arg)
		if arg%2 == 1 {
			p.files = file(arg)
		}
		if arg%3 == 0 {
			p.meta = map[string]string{"src": "own"}
		}
	case "edit-create":
		p.target = entity.Id(model.OpIds[0])
		p.message = fmt.Sprintf("create edited p%d a%d", pos, arg)
		if arg%3 != 0 {
			p.files = file(arg)
		}
	case "edit-last":
		p.target = entity.Id(model.Comments[len(model.Comments)-1].OpId)
		p.message = fmt.Sprintf("last edited p%d a%d", pos, arg)
		if arg%2 == 0 {
			p.files = file(arg + 1)
		}
	case "edit-unknown":
		p.target = c10Unknown("edit", pos, arg)
		p.message = "edit of nothing"
		p.files = file(arg)
	case "edit-noncomm":
		p.message = "edit of a non-comment"
		p.files = file(arg)
		p.target = ""
		for i := len(ops) - 1; i >= 0 && p.target == ""; i-- {
			switch ops[i].Kind {
			case "title", "status", "labels":
				p.target = entity.Id(ops[i].Id)
			}
		}
		for i := len(ops) - 1; i >= 0 && p.target == ""; i-- {
			switch ops[i].Kind {
			case "metadata", "noop", "edit":
				p.target = entity.Id(ops[i].Id)
			}
		}
		if p.target == "" {
			p.target = c10Unknown("noncomm", pos, arg)
		}
	case "title":
		p.title = fmt.Sprintf("title %d", arg%3)
		if arg%5 == 0 {
			p.title = model.Title // no change
		}
		if arg%4 == 1 {
			// a retitle written concurrently in another clone and merged in: the title it replaced is not the one in force
			p.was = fmt.Sprintf("title seen elsewhere %d", arg%3)
		}
	case "status":
		closed := model.Status == "closed"
		p.close = !closed
		if arg%4 == 0 {
			p.close = closed // same status again
		}
	case "labels":
		p.add = []string{c10LabelPool[arg%len(c10LabelPool)]}
		if arg%2 == 1 && len(model.Labels) > 0 {
			p.remove = []string{model.Labels[(arg/2)%len(model.Labels)]}
		}
		if arg%7 == 0 {
			p.add = append(p.add, p.add[0]) // duplicate inside the request
		}
	case "labels-forced":
		x := c10LabelPool[arg%len(c10LabelPool)]
		y := c10LabelPool[(arg/3)%len(c10LabelPool)]
		z := c10LabelPool[(arg/7)%len(c10LabelPool)]
		p.add = []string{x, x, y}
		p.remove = []string{z, "never-there"}
		if arg%3 == 0 {
			p.remove = append(p.remove, y, y)
		}
		if arg%5 == 4 {
			p.add = nil
		}
	case "meta-create":
		p.target = entity.Id(model.OpIds[0])
		p.newMeta = map[string]string{"origin": fmt.Sprintf("override-%d", pos), fmt.Sprintf("k%d", arg%3): fmt.Sprintf("v%d", pos)}
	case "meta-prev":
		p.target = entity.Id(model.OpIds[len(model.OpIds)-1])
		p.newMeta = map[string]string{"m": fmt.Sprintf("v%d", pos), "src": "hijack", "origin": "hijack"}
		if arg%2 == 1 && len(model.OpIds) > 1 {
			p.target = entity.Id(model.OpIds[(arg/2)%len(model.OpIds)])
		}
	case "meta-unknown":
		p.target = c10Unknown("meta", pos, arg)
		p.newMeta = map[string]string{"lost": "x"}
	case "noop":
		if arg%2 == 0 {
			p.meta = map[string]string{"src": "noop"}
		}
	}
	return p
}

// c10ApplyEntity appends the planned operation through the entity API
// (bug.* convenience functions and constructors). Returns an error text when
// git-bug refused to build the operation.
func c10ApplyEntity(b bug.Interface, author identity.Interface, t int64, p c10Plan) error {
	var err error
	switch p.kind {
	case "comment":
		_, _, err = bug.AddComment(b, author, t, p.message, p.files, p.meta)
	case "edit-create":
		_, _, err = bug.EditCreateComment(b, author, t, p.message, p.files, nil)
	case "edit-last", "edit-unknown", "edit-noncomm":
		_, _, err = bug.EditComment(b, author, t, p.target, p.message, p.files, nil)
	case "title":
		if p.was != "" {
			op := bug.NewSetTitleOp(author, t, p.title, p.was)
			if err = op.Validate(); err == nil {
				b.Append(op)
			}
		} else {
			_, err = bug.SetTitle(b, author, t, p.title, nil)
		}
	case "status":
		if p.close {
			_, err = bug.Close(b, author, t, nil)
		} else {
			_, err = bug.Open(b, author, t, nil)
		}
	case "labels":
		_, _, err = bug.ChangeLabels(b, author, t, p.add, p.remove, nil)
	case "labels-forced":
		_, err = bug.ForceChangeLabels(b, author, t, p.add, p.remove, nil)
	case "meta-create", "meta-prev", "meta-unknown":
		_, err = bug.SetMetadata(b, author, t, p.target, p.newMeta)
	case "noop":
		op := dag.NewNoOpOp[*bug.Snapshot](bug.NoOpOp, author, t)
		for k, v := range p.meta {
			op.SetMetadata(k, v)
		}
		if err = op.Validate(); err == nil {
			b.Append(op)
		}
	default:
		err = fmt.Errorf("unknown symbol %q", p.kind)
	}
	return err
}

var errC10Unsupported = fmt.Errorf("not expressible through BugCache")

// c10ApplyCache appends the planned operation through the BugCache API.
func c10ApplyCache(bc *cache.BugCache, author identity.Interface, t int64, p c10Plan) error {
	var err error
	switch p.kind {
	case "comment":
		_, _, err = bc.AddCommentRaw(author, t, p.message, p.files, p.meta)
	case "edit-create":
		_, _, err = bc.EditCreateCommentRaw(author, t, p.message, nil)
	case "edit-last", "edit-unknown", "edit-noncomm":
		_, err = bc.EditCommentRaw(author, t, entity.CombineIds(bc.Id(), p.target), p.message, nil)
	case "title":
		_, err = bc.SetTitleRaw(author, t, p.title, nil)
	case "status":
		if p.close {
			_, err = bc.CloseRaw(author, t, nil)
		} else {
			_, err = bc.OpenRaw(author, t, nil)
		}
	case "labels":
		_, _, err = bc.ChangeLabelsRaw(author, t, p.add, p.remove, nil)
	case "labels-forced":
		_, err = bc.ForceChangeLabelsRaw(author, t, p.add, p.remove, nil)
	case "meta-create", "meta-prev", "meta-unknown":
		_, err = bc.SetMetadataRaw(author, t, p.target, p.newMeta)
	case "noop":
		err = errC10Unsupported
	default:
		err = fmt.Errorf("unknown symbol %q", p.kind)
	}
	return err
}

func c10Hashes(l []repository.Hash) []string {
	if len(l) == 0 {
		return nil
	}
	out := make([]string, len(l))
	for i, h := range l {
		out[i] = string(h)
	}
	return out
}

func c10Labels(l []bug.Label) []string {
	if len(l) == 0 {
		return nil
	}
	out := make([]string, len(l))
	for i, h := range l {
		out[i] = string(h)
	}
	return out
}

func c10CopyMeta(m map[string]string) map[string]string {
	out := map[string]string{}
	for k, v := range m {
		out[k] = v
	}
	return out
}

func c10AuthorId(i identity.Interface) string {
	if i == nil {
		return "<nil>"
	}
	return i.Id().String()
}

// c10OpData reads the stored payload of an operation (the input of the interpretation).
func c10OpData(op dag.Operation) (refmodel.BugOp, error) {
	d := refmodel.BugOp{Id: op.Id().String(), Author: c10AuthorId(op.Author())}
	switch o := op.(type) {
	case *bug.CreateOperation:
		d.Kind, d.Title, d.Message, d.Files, d.Meta = "create", o.Title, o.Message, c10Hashes(o.Files), c10CopyMeta(o.Metadata)
	case *bug.AddCommentOperation:
		d.Kind, d.Message, d.Files, d.Meta = "comment", o.Message, c10Hashes(o.Files), c10CopyMeta(o.Metadata)
	case *bug.EditCommentOperation:
		d.Kind, d.Target, d.Message, d.Files, d.Meta = "edit", o.Target.String(), o.Message, c10Hashes(o.Files), c10CopyMeta(o.Metadata)
	case *bug.SetTitleOperation:
		d.Kind, d.Title, d.Meta = "title", o.Title, c10CopyMeta(o.Metadata)
	case *bug.SetStatusOperation:
		d.Kind, d.Meta = "status", c10CopyMeta(o.Metadata)
		switch o.Status {
		case common.OpenStatus:
			d.Status = "open"
		case common.ClosedStatus:
			d.Status = "closed"
		default:
			return d, fmt.Errorf("status %v", o.Status)
		}
	case *bug.LabelChangeOperation:
		d.Kind, d.Added, d.Removed, d.Meta = "labels", c10Labels(o.Added), c10Labels(o.Removed), c10CopyMeta(o.Metadata)
	case *dag.SetMetadataOperation[*bug.Snapshot]:
		d.Kind, d.Target, d.NewMeta, d.Meta = "metadata", o.Target.String(), c10CopyMeta(o.NewMetadata), c10CopyMeta(o.Metadata)
	case *dag.NoOpOperation[*bug.Snapshot]:
		d.Kind, d.Meta = "noop", c10CopyMeta(o.Metadata)
	default:
		return d, fmt.Errorf("operation type %T", op)
	}
	return d, nil
}

// c10Observe converts a compiled snapshot into the neutral observation.
// getMetaBad reports an inconsistency between AllMetadata and GetMetadata.
func c10Observe(s *bug.Snapshot) (o refmodel.ObservedBug, getMetaBad string) {
	o.Title = s.Title
	switch s.Status {
	case common.OpenStatus:
		o.Status = "open"
	case common.ClosedStatus:
		o.Status = "closed"
	default:
		o.Status = fmt.Sprintf("status(%d)", int(s.Status))
	}
	o.Labels = c10Labels(s.Labels)
	o.Creator = c10AuthorId(s.Author)
	for _, a := range s.Actors {
		o.Actors = append(o.Actors, c10AuthorId(a))
	}
	for _, a := range s.Participants {
		o.Participants = append(o.Participants, c10AuthorId(a))
	}
	byCombined := map[entity.CombinedId]string{}
	o.OpMeta = map[string]map[string]string{}
	for _, op := range s.Operations {
		id := op.Id()
		o.OpIds = append(o.OpIds, id.String())
		byCombined[entity.CombineIds(s.Id(), id)] = id.String()
		all := op.AllMetadata()
		o.OpMeta[id.String()] = all
		for k, v := range all {
			if gv, ok := op.GetMetadata(k); !ok || gv != v {
				getMetaBad = fmt.Sprintf("operation %s: AllMetadata[%q]=%q but GetMetadata gives %q,%v", id, k, v, gv, ok)
			}
		}
	}
	for _, c := range s.Comments {
		o.Comments = append(o.Comments, refmodel.ObservedComment{OpId: c.TargetId().String(), Author: c10AuthorId(c.Author), Message: c.Message, Files: c10Hashes(c.Files)})
	}
	opOf := func(c entity.CombinedId) string {
		if id, ok := byCombined[c]; ok {
			return id
		}
		return "?" + string(c)
	}
	hist := func(c *bug.CommentTimelineItem) []string {
		var h []string
		for _, st := range c.History {
			h = append(h, st.Message)
		}
		return h
	}
	for _, it := range s.Timeline {
		switch t := it.(type) {
		case *bug.CreateTimelineItem:
			o.Timeline = append(o.Timeline, refmodel.ObservedTimeline{OpId: opOf(t.CombinedId()), Kind: "create", Author: c10AuthorId(t.Author), Message: t.Message, Files: c10Hashes(t.Files), History: hist(&t.CommentTimelineItem)})
		case *bug.AddCommentTimelineItem:
			o.Timeline = append(o.Timeline, refmodel.ObservedTimeline{OpId: opOf(t.CombinedId()), Kind: "comment", Author: c10AuthorId(t.Author), Message: t.Message, Files: c10Hashes(t.Files), History: hist(&t.CommentTimelineItem)})
		case *bug.SetTitleTimelineItem:
			o.Timeline = append(o.Timeline, refmodel.ObservedTimeline{OpId: opOf(t.CombinedId()), Kind: "title", Author: c10AuthorId(t.Author), Title: t.Title})
		case *bug.SetStatusTimelineItem:
			st := "open"
			if t.Status == common.ClosedStatus {
				st = "closed"
			} else if t.Status != common.OpenStatus {
				st = fmt.Sprintf("status(%d)", int(t.Status))
			}
			o.Timeline = append(o.Timeline, refmodel.ObservedTimeline{OpId: opOf(t.CombinedId()), Kind: "status", Author: c10AuthorId(t.Author), Status: st})
		case *bug.LabelChangeTimelineItem:
			o.Timeline = append(o.Timeline, refmodel.ObservedTimeline{OpId: opOf(t.CombinedId()), Kind: "labels", Author: c10AuthorId(t.Author), Added: c10Labels(t.Added), Removed: c10Labels(t.Removed)})
		default:
			o.Timeline = append(o.Timeline, refmodel.ObservedTimeline{OpId: opOf(it.CombinedId()), Kind: fmt.Sprintf("%T", it)})
		}
	}
	return o, getMetaBad
}

// c10Render is the full canonical rendering used for differential comparisons
// (compile twice, incremental vs from scratch).
func c10Render(s *bug.Snapshot) string {
	m := world.RenderSnapshot(s)
	meta := map[string]map[string]string{}
	for _, op := range s.Operations {
		meta[op.Id().String()] = op.AllMetadata()
	}
	m["opmeta"] = meta
	return world.JSON(m)
}

// c10Tracker follows one bug: the operations appended so far and the model.
type c10Tracker struct {
	r     obsSink
	c     c10Case
	ops   []refmodel.BugOp
	model *refmodel.BugState
	nOps  int // operations already absorbed
	bad   bool
	// replay, when set, is reported as the replayable case instead of c (fault cases).
	replay any
	// quiet: do not count the absorbed operations (a second tracker over operations already counted).
	quiet bool
	// mismatches counts the disagreements check has reported so far.
	mismatches int
}

func newC10Tracker(r obsSink, c c10Case) *c10Tracker {
	return &c10Tracker{r: r, c: c, model: refmodel.NewBugState()}
}

// absorb hands the operations appended since the last call to the model.
func (tk *c10Tracker) absorb(all []dag.Operation) int {
	n := 0
	for _, op := range all[tk.nOps:] {
		d, err := c10OpData(op)
		if err != nil {
			tk.r.Inconclusive("C10 harness: " + err.Error())
			tk.bad = true
			return n
		}
		if err := tk.model.Apply(d); err != nil {
			tk.r.Inconclusive("C10 harness: sequence outside the quantifier: " + err.Error())
			tk.bad = true
			return n
		}
		tk.ops = append(tk.ops, d)
		if !tk.quiet {
			tk.r.Count("ops/"+d.Kind, 1)
		}
		n++
	}
	tk.nOps = len(all)
	return n
}

func bugOpsAsDag(b *bug.Bug) []dag.Operation {
	ops := b.Operations()
	out := make([]dag.Operation, len(ops))
	for i, o := range ops {
		out[i] = o
	}
	return out
}

// check compares one snapshot with the model.
func (tk *c10Tracker) check(phase string, snap *bug.Snapshot, lastSym string) {
	tk.checkCtx(phase, snap, lastSym, "")
}

// checkCtx is check with a description of the circumstances added to the witness.
func (tk *c10Tracker) checkCtx(phase string, snap *bug.Snapshot, lastSym, ctx string) {
	if tk.bad {
		return
	}
	obs, getBad := c10Observe(snap)
	tk.r.Count("comparisons/"+phase, 1)
	if getBad != "" {
		tk.r.Violation(phase+"/getmetadata-inconsistent", getBad+" in "+tk.c.Name, tk.c)
	}
	if ctx != "" {
		ctx = " (" + ctx + ")"
	}
	var rep any = map[string]any{"case": tk.c, "ops": tk.ops}
	if tk.replay != nil {
		rep = tk.replay
	}
	for _, mm := range tk.model.Compare(obs) {
		tk.mismatches++
		tk.r.Violation(phase+"/"+mm.Component, fmt.Sprintf("%s after %q (last symbol %s) in case %s [%s]%s", mm.Detail, phase, lastSym, tk.c.Name, tk.c.label(), ctx), rep)
	}
	// record latitude actually taken by the implementation
	present := map[string]bool{}
	for _, t := range obs.Timeline {
		present[t.OpId] = true
	}
	for _, t := range tk.model.Timeline {
		if t.Optional {
			if present[t.OpId] {
				tk.r.Seen("latitude", "ineffective "+t.Kind+" op has a timeline entry")
			} else {
				tk.r.Seen("latitude", "ineffective "+t.Kind+" op has no timeline entry")
			}
		}
	}
	for _, a := range tk.model.AnyAuthors {
		must := false
		for _, m := range tk.model.MustActors {
			must = must || m == a
		}
		if !must {
			listed := false
			for _, x := range obs.Actors {
				listed = listed || x == a
			}
			if listed {
				tk.r.Seen("latitude", "author of only ineffective/metadata/no-op operations listed as actor")
			} else {
				tk.r.Seen("latitude", "author of only ineffective/metadata/no-op operations not listed as actor")
			}
		}
	}
	if len(tk.model.Comments) > 0 && !tk.model.Comments[0].FilesKnown && len(tk.model.Comments[0].Files) > 0 {
		if len(obs.Comments) > 0 && len(obs.Comments[0].Files) == 0 {
			tk.r.Seen("latitude", "never-edited creation comment shows no files although the create op has some")
		} else {
			tk.r.Seen("latitude", "never-edited creation comment shows the create op's files")
		}
	}
}

// c10CountAuthorShape records how many authors a finished case had and whether the order in which
// the authors first acted differs from the order in which they first commented (the n-th author
// that must be an actor is not the n-th author that must be a participant).
func c10CountAuthorShape(r obsSink, prefix string, m *refmodel.BugState) {
	r.Count(fmt.Sprintf("%s/authors=%d", prefix, len(m.AnyAuthors)), 1)
	r.Count(fmt.Sprintf("%s/must-actors=%d/must-participants=%d", prefix, len(m.MustActors), len(m.MustParticipants)), 1)
	for i := range m.MustParticipants {
		if i < len(m.MustActors) && m.MustActors[i] != m.MustParticipants[i] {
			r.Count(prefix+"/order-of-first-action-differs-from-order-of-first-comment", 1)
			break
		}
	}
}

func (tk *c10Tracker) features() (sig string) {
	kinds := map[string]bool{}
	for _, o := range tk.ops {
		kinds[o.Kind] = true
	}
	ks := make([]string, 0, len(kinds))
	for k := range kinds {
		ks = append(ks, k)
	}
	sort.Strings(ks)
	bucket := func(n int) string {
		switch {
		case n == 0:
			return "0"
		case n < 4:
			return "1-3"
		case n < 16:
			return "4-15"
		case n < 64:
			return "16-63"
		default:
			return "64+"
		}
	}
	return fmt.Sprintf("len%s/comments%s/labels%d/override%s/ineffEdits%s/kinds%d/authors%d", bucket(len(tk.ops)), bucket(len(tk.model.Comments)), len(tk.model.Labels), bucket(tk.model.OverrideAttempts), bucket(tk.model.IneffectiveEdits), len(ks), len(tk.model.AnyAuthors))
}

// ---- in-memory run ------------------------------------------------------------

type c10MemWorld struct {
	repo repository.ClockedRepo
	env  *c10Env
	t    int64
}

func newC10MemWorld() (*c10MemWorld, error) {
	repo := repository.NewMockRepo()
	mw := &c10MemWorld{repo: repo, t: 1_600_000_000}
	env := &c10Env{now: func() int64 { mw.t++; return mw.t }}
	for _, name := range c10AuthorNames {
		i, err := identity.NewIdentity(repo, name, strings.ReplaceAll(name, " ", ".")+"@example.com")
		if err != nil {
			return nil, err
		}
		if err := i.Commit(repo); err != nil {
			return nil, err
		}
		env.authors = append(env.authors, i)
	}
	for k := 0; k < 3; k++ {
		h, err := repo.StoreData([]byte(fmt.Sprintf("c10 file %d", k)))
		if err != nil {
			return nil, err
		}
		env.files = append(env.files, h)
	}
	mw.env = env
	return mw, nil
}

func c10CreateArgs(c c10Case, env *c10Env) (title, msg string, files []repository.Hash, meta map[string]string) {
	return "title 0", "creation message of " + c.Gen, []repository.Hash{env.files[0]}, map[string]string{"origin": "creation"}
}

// c10RunMem runs one case in memory: compile after every step, compile twice,
// then commit to the mock repository, read back and compile from scratch.
func c10RunMem(r obsSink, mw *c10MemWorld, c c10Case, verbose bool) {
	defer func() {
		// Compile / Apply / Commit / Read are synchronous here: a panic is an observation, not a harness failure
		if p := recover(); p != nil {
			r.Violation("panic/in-memory", fmt.Sprintf("panic while building / compiling / re-reading the bug of case %s [%s]: %v", c.Name, c.label(), p), c)
		}
	}()
	env := mw.env
	tk := newC10Tracker(r, c)
	title, msg, files, meta := c10CreateArgs(c, env)
	b, _, err := bug.Create(c.author(env, c.Creator), env.now(), title, msg, files, meta)
	if err != nil {
		r.Inconclusive("C10 harness: create refused: " + err.Error())
		return
	}
	tk.absorb(bugOpsAsDag(b))
	tk.check("compile", b.Compile(), "create")
	for pos, st := range c.Steps {
		p := c10MakePlan(st, pos, env, tk.model, tk.ops)
		err := c10ApplyEntity(b, c.author(env, st.Author), env.now(), p)
		if err != nil {
			r.Count("entity_refused/"+st.Sym, 1)
			r.Seen("entity_refusals", st.Sym+": "+err.Error())
		}
		tk.absorb(bugOpsAsDag(b))
		if tk.bad {
			return
		}
		if c.Gen == "enum" || pos%7 == 0 || pos == len(c.Steps)-1 {
			tk.check("compile", b.Compile(), st.Sym)
		}
	}
	s1 := b.Compile()
	s2 := b.Compile()
	r1, r2 := c10Render(s1), c10Render(s2)
	r.Count("comparisons/compile-twice", 1)
	if r1 != r2 {
		r.Violation("compile-twice/differs", fmt.Sprintf("two compilations of the same bug differ in case %s [%s]:\n first: %s\nsecond: %s", c.Name, c.label(), r1, r2), c)
	}
	tk.check("compile-again", s2, "-")

	// from git
	if err := b.Commit(mw.repo); err != nil {
		r.Inconclusive("C10: commit to the in-memory repository failed: " + err.Error())
		return
	}
	rb, err := world.ReadBug(mw.repo, b.Id())
	if err != nil {
		r.Violation("reread/unreadable", fmt.Sprintf("bug of case %s [%s] cannot be read back: %v", c.Name, c.label(), err), c)
		return
	}
	fresh := rb.Compile()
	tk.check("reread-compile", fresh, "-")
	if verbose {
		fmt.Printf("in-memory run of %s [%s]: %d operations\n model: %s\n compiled: %s\n", c.Name, c.label(), len(tk.ops), mon.JSON(tk.model), c10Render(fresh))
	}
	r.Count("override_attempts_seen", tk.model.OverrideAttempts)
	r.Count("ineffective_edits_seen", tk.model.IneffectiveEdits)
	r.Count("authors_with_only_ineffective_edits", len(tk.model.IneffectiveOnlyAuthors()))
	c10CountAuthorShape(r, "mem_cases", tk.model)
	nontrivial := len(tk.ops) > 1
	if c.Gen == "enum" {
		r.Case("enum:"+c.symString()+"/"+c.authorString(), nontrivial)
	} else {
		r.Case("random:"+tk.features(), nontrivial)
	}
}

// ---- cache run ----------------------------------------------------------------

type c10CacheBug struct {
	c  c10Case
	tk *c10Tracker
	id entity.Id
	bc *cache.BugCache
}

// c10RunCacheBatch drives a batch of cases through one real repository and one RepoCache.
func c10RunCacheBatch(r obsSink, cases []c10Case, verbose bool) {
	w, err := world.New(1)
	if err != nil {
		r.Inconclusive("C10: cannot create world: " + err.Error())
		return
	}
	defer w.Close()
	rep := w.Replicas[0]
	env := &c10Env{now: w.Now}
	for _, name := range c10AuthorNames {
		a, err := rep.NewAuthor(name)
		if err != nil {
			r.Inconclusive("C10: cannot create author: " + err.Error())
			return
		}
		env.authors = append(env.authors, a)
	}
	for k := 0; k < 3; k++ {
		h, err := rep.Repo.StoreData([]byte(fmt.Sprintf("c10 file %d", k)))
		if err != nil {
			r.Inconclusive("C10: cannot store file: " + err.Error())
			return
		}
		env.files = append(env.files, h)
	}

	bugs := make([]*c10CacheBug, len(cases))
	// phase A: prefixes through the entity API, committed before the cache exists
	for i, c := range cases {
		cb := &c10CacheBug{c: c, tk: newC10Tracker(r, c)}
		bugs[i] = cb
		if c.Split <= 0 {
			continue
		}
		title, msg, files, meta := c10CreateArgs(c, env)
		b, _, err := bug.Create(c.author(env, c.Creator), env.now(), title, msg, files, meta)
		if err != nil {
			r.Inconclusive("C10 harness: create refused: " + err.Error())
			cb.tk.bad = true
			continue
		}
		cb.tk.absorb(bugOpsAsDag(b))
		for pos := 0; pos < c.Split && pos < len(c.Steps); pos++ {
			st := c.Steps[pos]
			p := c10MakePlan(st, pos, env, cb.tk.model, cb.tk.ops)
			if err := c10ApplyEntity(b, c.author(env, st.Author), env.now(), p); err != nil {
				r.Count("entity_refused/"+st.Sym, 1)
			}
			cb.tk.absorb(bugOpsAsDag(b))
		}
		if err := b.Commit(rep.Repo); err != nil {
			r.Inconclusive("C10: commit of prefix failed: " + err.Error())
			cb.tk.bad = true
			continue
		}
		cb.id = b.Id()
	}

	// phase B: the cache
	rc, err := cache.NewRepoCacheNoEvents(rep.Repo)
	if err != nil {
		r.Inconclusive("C10: cannot open cache: " + err.Error())
		return
	}
	rep.Cache = rc
	for _, cb := range bugs {
		if cb.tk.bad {
			continue
		}
		c := cb.c
		if c.Split > 0 {
			bc, err := rc.Bugs().Resolve(cb.id)
			if err != nil {
				r.Violation("cache-load/unresolvable", fmt.Sprintf("bug of case %s [%s] written with the entity API is not resolvable through the cache: %v", c.Name, c.label(), err), c)
				cb.tk.bad = true
				continue
			}
			cb.bc = bc
			cb.tk.check("cache-load", bc.Snapshot(), "-")
		} else {
			title, msg, files, meta := c10CreateArgs(c, env)
			bc, _, err := rc.Bugs().NewRaw(c.author(env, c.Creator), env.now(), title, msg, files, meta)
			if err != nil {
				r.Inconclusive("C10: NewRaw failed: " + err.Error())
				cb.tk.bad = true
				continue
			}
			cb.bc, cb.id = bc, bc.Id()
			cb.tk.absorb(bc.Snapshot().Operations)
			cb.tk.check("cache-incremental", bc.Snapshot(), "create")
		}
		start := c.Split
		if start < 0 {
			start = 0
		}
		for pos := start; pos < len(c.Steps); pos++ {
			st := c.Steps[pos]
			p := c10MakePlan(st, pos, env, cb.tk.model, cb.tk.ops)
			// take the snapshot before: a stale alias held by a caller must not matter
			err := c10ApplyCache(cb.bc, c.author(env, st.Author), env.now(), p)
			switch {
			case err == errC10Unsupported:
				r.Count("cache_not_expressible/"+st.Sym, 1)
			case err != nil:
				r.Count("cache_refused/"+st.Sym, 1)
				r.Seen("cache_refusals", st.Sym+": "+c10ErrClass(err))
			}
			snap := cb.bc.Snapshot()
			cb.tk.absorb(snap.Operations)
			if cb.tk.bad {
				break
			}
			cb.tk.check("cache-incremental", snap, st.Sym)
			if c.CommitEvery > 0 && (pos+1)%c.CommitEvery == 0 && cb.bc.NeedCommit() {
				if err := cb.bc.Commit(); err != nil {
					r.Inconclusive("C10: BugCache.Commit failed: " + err.Error())
					cb.tk.bad = true
					break
				}
				r.Count("cache_commits", 1)
			}
		}
		if cb.tk.bad {
			continue
		}
		if cb.bc.NeedCommit() {
			if err := cb.bc.Commit(); err != nil {
				r.Inconclusive("C10: BugCache.Commit failed: " + err.Error())
				cb.tk.bad = true
				continue
			}
			r.Count("cache_commits", 1)
		}
		live := cb.bc.Snapshot()
		cb.tk.check("cache-after-commit", live, "-")
		// incremental state vs a compilation from scratch of the bug re-read from git
		rb, err := world.ReadBug(rep.Repo, cb.id)
		if err != nil {
			r.Violation("cache-vs-scratch/unreadable", fmt.Sprintf("bug of case %s [%s] cannot be re-read from git: %v", c.Name, c.label(), err), c)
			cb.tk.bad = true
			continue
		}
		fresh := rb.Compile()
		cb.tk.check("scratch-compile", fresh, "-")
		r.Count("comparisons/incremental-vs-scratch", 1)
		if a, b := c10Render(live), c10Render(fresh); a != b {
			r.Violation("cache-vs-scratch/"+c10DiffComponent(a, b), fmt.Sprintf("incrementally maintained snapshot differs from a compilation from scratch in case %s [%s]:\n incremental: %s\n from scratch: %s", c.Name, c.label(), a, b), map[string]any{"case": c, "ops": cb.tk.ops})
		}
		if verbose {
			fmt.Printf("cache run of %s [%s] split=%d: %d operations\n incremental: %s\n", c.Name, c.label(), c.Split, len(cb.tk.ops), c10Render(live))
		}
	}

	// phase C: close, reopen (loads the cache files), resolve again
	if err := rep.Reopen(bug.ClockLoader); err != nil {
		r.Inconclusive("C10: reopen failed: " + err.Error())
		return
	}
	rc2, err := cache.NewRepoCacheNoEvents(rep.Repo)
	if err != nil {
		r.Inconclusive("C10: cannot reopen cache: " + err.Error())
		return
	}
	rep.Cache = rc2
	r.Count("cache_reopens", 1)
	for _, cb := range bugs {
		if cb.tk.bad {
			continue
		}
		c := cb.c
		bc, err := rc2.Bugs().Resolve(cb.id)
		if err != nil {
			r.Violation("cache-reload/unresolvable", fmt.Sprintf("bug of case %s [%s] not resolvable after closing and reopening the cache: %v", c.Name, c.label(), err), c)
			continue
		}
		snap := bc.Snapshot()
		cb.tk.check("cache-reload", snap, "-")
		rb, err := world.ReadBug(rep.Repo, cb.id)
		if err != nil {
			r.Violation("cache-vs-scratch/unreadable", fmt.Sprintf("bug of case %s [%s] cannot be re-read from git: %v", c.Name, c.label(), err), c)
			continue
		}
		r.Count("comparisons/reload-vs-scratch", 1)
		if a, b := c10Render(snap), c10Render(rb.Compile()); a != b {
			r.Violation("cache-reload-vs-scratch/"+c10DiffComponent(a, b), fmt.Sprintf("snapshot after cache reload differs from a compilation from scratch in case %s [%s]:\n cache: %s\n from scratch: %s", c.Name, c.label(), a, b), map[string]any{"case": c, "ops": cb.tk.ops})
		}
		c10CountAuthorShape(r, "cache_cases", cb.tk.model)
		nontrivial := len(cb.tk.ops) > 1
		if c.Gen == "enum" {
			r.Case(fmt.Sprintf("cache-enum:%s/%s@%d", c.symString(), c.authorString(), c.Split), nontrivial)
		} else {
			r.Case(fmt.Sprintf("cache-random:%s/split%v", cb.tk.features(), c.Split > 0), nontrivial)
		}
	}
}

func c10ErrClass(err error) string {
	s := err.Error()
	if len(s) > 60 {
		s = s[:60]
	}
	return s
}

// c10DiffComponent names the first top-level field in which two renderings differ.
func c10DiffComponent(a, b string) string {
	var ma, mb map[string]json.RawMessage
	if json.Unmarshal([]byte(a), &ma) != nil || json.Unmarshal([]byte(b), &mb) != nil {
		return "rendering"
	}
	keys := make([]string, 0, len(ma))
	for k := range ma {
		keys = append(keys, k)
	}
	sort.Strings(keys)
	for _, k := range keys {
		if string(ma[k]) != string(mb[k]) {
			return k
		}
	}
	return "rendering"
}

// ---- case lists ----------------------------------------------------------------

// c10AuthorPatterns lists the author assignments of a create followed by n operations, up to
// renaming of the authors: the creator is author 0 and every later operation is by an author
// already seen or by the next fresh one (restricted growth strings), with at most c10MaxAuthors
// authors. n=1: 2, n=2: 5, n=3: 15, n=4: 51 patterns.
func c10AuthorPatterns(n int) [][]int {
	var out [][]int
	var rec func(cur []int, used int)
	rec = func(cur []int, used int) {
		if len(cur) == n {
			out = append(out, append([]int{}, cur...))
			return
		}
		for a := 0; a <= used && a < c10MaxAuthors; a++ {
			nu := used
			if a == used {
				nu++
			}
			rec(append(cur, a), nu)
		}
	}
	rec(nil, 1)
	return out
}

// c10NamedAuthorPatterns are the assignments used where the full list is too long (thorough,
// length 4): one author, two alternating, the creator then two others alternating, three
// round-robin, every operation by a fresh author (as far as the four identities go), a newcomer
// at the very end.
func c10NamedAuthorPatterns(n int) [][]int {
	gen := func(f func(i int) int) []int {
		p := make([]int, n)
		for i := range p {
			p[i] = f(i)
		}
		return p
	}
	cand := [][]int{
		gen(func(i int) int { return 0 }),
		gen(func(i int) int { return (i + 1) % 2 }),
		gen(func(i int) int { return 1 + i%2 }),
		gen(func(i int) int { return (i + 1) % 3 }),
		gen(func(i int) int { return (i + 1) % c10MaxAuthors }),
		gen(func(i int) int {
			if i == n-1 {
				return 1
			}
			return 0
		}),
	}
	var out [][]int
	seen := map[string]bool{}
	for _, p := range cand {
		k := fmt.Sprint(p)
		if !seen[k] {
			seen[k] = true
			out = append(out, p)
		}
	}
	return out
}

func c10CountAuthors(p []int) int {
	n := 1
	for _, a := range p {
		if a+1 > n {
			n = a + 1
		}
	}
	return n
}

// c10EnumCases returns the enumerated cases: mem is the list run in memory (every symbol
// sequence with every author assignment, see c10AuthorPatterns; in the thorough tier the
// sequences of length 4 get the named assignments plus two drawn from the seed), cch is the
// list driven through the cache (every symbol sequence once, with an assignment drawn from the
// full list).
func c10EnumCases(r *mon.Run) (mem, cch []c10Case) {
	maxLen := r.Pick(3, 4)
	const fullUpTo = 3
	patterns := map[int][][]int{}
	for n := 0; n <= maxLen; n++ {
		patterns[n] = c10AuthorPatterns(n)
	}
	var rec func(prefix []string)
	idx := 0
	rec = func(prefix []string) {
		rng := mon.Rng(r.Seed, "c10-enum", idx)
		idx++
		n := len(prefix)
		mk := func(rng *rand.Rand, pat []int, name string) c10Case {
			c := c10Case{Gen: "enum", Name: name, Authors: c10CountAuthors(pat)}
			for i, s := range prefix {
				c.Steps = append(c.Steps, c10Step{Sym: s, Author: pat[i], Arg: rng.Intn(210)})
			}
			return c
		}
		// cache list
		all := patterns[n]
		c := mk(rng, all[rng.Intn(len(all))], fmt.Sprintf("enum-%d", idx))
		if n > 0 && rng.Intn(2) == 0 {
			c.Split = 1 + rng.Intn(n)
		}
		c.CommitEvery = rng.Intn(3)
		cch = append(cch, c)
		// in-memory list
		pats := all
		if n > fullUpTo {
			pats = c10NamedAuthorPatterns(n)
			for k := 0; k < 2; k++ {
				pats = append(pats, all[rng.Intn(len(all))])
			}
		}
		for k, pat := range pats {
			mem = append(mem, mk(mon.Rng(r.Seed, "c10-enum-mem", idx*64+k), pat, fmt.Sprintf("enum-%d-a%d", idx, k)))
		}
		if n == maxLen {
			return
		}
		for _, s := range c10Alphabet {
			rec(append(append([]string{}, prefix...), s))
		}
	}
	rec(nil)
	return mem, cch
}

func c10RandomCase(rng *rand.Rand, n int, name string) c10Case {
	c := c10Case{Gen: "random", Name: name, Authors: 1 + rng.Intn(c10MaxAuthors)}
	c.Creator = rng.Intn(c.Authors)
	// weights: a few profiles so that long comment/edit chains, label churn and metadata churn all occur
	profile := rng.Intn(4)
	for i := 0; i < n; i++ {
		var sym string
		switch profile {
		case 1: // comment / edit heavy
			sym = []string{"comment", "edit-create", "edit-last", "edit-last", "edit-unknown", "edit-noncomm", "title", "comment"}[rng.Intn(8)]
		case 2: // labels heavy
			sym = []string{"labels", "labels-forced", "labels", "labels-forced", "status", "edit-noncomm", "comment"}[rng.Intn(7)]
		case 3: // metadata heavy
			sym = []string{"meta-create", "meta-prev", "meta-prev", "meta-unknown", "noop", "comment", "title", "edit-last"}[rng.Intn(8)]
		default:
			sym = c10Alphabet[rng.Intn(len(c10Alphabet))]
		}
		if rng.Intn(5) == 0 {
			sym = c10Alphabet[rng.Intn(len(c10Alphabet))]
		}
		c.Steps = append(c.Steps, c10Step{Sym: sym, Author: rng.Intn(c.Authors), Arg: rng.Intn(210)})
	}
	if rng.Intn(2) == 0 {
		c.Split = 1 + rng.Intn(n)
	}
	c.CommitEvery = []int{0, 1, 5, 17}[rng.Intn(4)]
	return c
}

func c10RandomCases(r *mon.Run) []c10Case {
	n := r.Pick(100, 3000)
	out := make([]c10Case, n)
	for i := range out {
		rng := mon.Rng(r.Seed, "c10-random", i)
		out[i] = c10RandomCase(rng, 20+rng.Intn(281), fmt.Sprintf("random-%d", i))
	}
	return out
}

func runC10(tier, replay string) int {
	r := mon.NewRun("C10", "exploration", tier)

	if replay != "" {
		var rep struct {
			Case json.RawMessage `json:"case"`
		}
		data, err := os.ReadFile(replay)
		if err == nil {
			err = json.Unmarshal(data, &rep)
		}
		var c c10Case
		if err == nil {
			var fc c10FaultCase
			if json.Unmarshal(rep.Case, &fc) == nil && fc.Fault {
				c10RunFaultCase(r, fc, true)
				return r.Finish("replay of one fault case", 0, nil)
			}
			// the case is either the bare case or {"case":…, "ops":…}
			var wrapped struct {
				Case *c10Case `json:"case"`
			}
			if json.Unmarshal(rep.Case, &wrapped) == nil && wrapped.Case != nil {
				c = *wrapped.Case
			} else {
				err = json.Unmarshal(rep.Case, &c)
			}
		}
		if err != nil {
			fmt.Println("cannot read replay:", err)
			return 2
		}
		mw, err := newC10MemWorld()
		if err != nil {
			fmt.Println(err)
			return 2
		}
		c10RunMem(r, mw, c, true)
		c10RunCacheBatch(r, []c10Case{c}, true)
		return r.Finish("replay of one case", 0, nil)
	}

	enumMem, enum := c10EnumCases(r)
	random := c10RandomCases(r)
	all := append(append([]c10Case{}, enumMem...), random...)
	r.Extra("enumerated_sequences", len(enum))
	r.Extra("enumerated_sequences_with_author_assignment", len(enumMem))
	r.Extra("random_sequences", len(random))
	r.Extra("alphabet", c10Alphabet)
	r.Extra("author_assignments_per_length", map[string]int{"1": len(c10AuthorPatterns(1)), "2": len(c10AuthorPatterns(2)), "3": len(c10AuthorPatterns(3)), "4": len(c10AuthorPatterns(4))})
	r.Extra("exhaustive_scope", fmt.Sprintf("in memory: all sequences of length <= %d over the %d-symbol alphabet after the create, each with every assignment of up to %d authors to the create and the operations up to renaming of the authors (sequences of length 4, thorough tier: 6 named assignments + 2 drawn from the seed); through the cache: every sequence once with an assignment drawn from the seed; parameters drawn per case from the seed", r.Pick(3, 4), len(c10Alphabet), c10MaxAuthors))
	minLen, maxLen := 1<<30, 0
	for _, c := range random {
		if len(c.Steps) < minLen {
			minLen = len(c.Steps)
		}
		if len(c.Steps) > maxLen {
			maxLen = len(c.Steps)
		}
	}
	r.Extra("random_length_range", []int{minLen, maxLen})

	// (1) in memory: chunks of cases, one mock repository per chunk
	const memChunk = 64
	nChunks := (len(all) + memChunk - 1) / memChunk
	parallel(nChunks, func(k int) int {
		mw, err := newC10MemWorld()
		if err != nil {
			r.Inconclusive("C10: cannot build in-memory world: " + err.Error())
			return 0
		}
		for i := k * memChunk; i < (k+1)*memChunk && i < len(all); i++ {
			c10RunMem(r, mw, all[i], false)
		}
		return 0
	})

	// (2) through the cache: batches sharing one repository + RepoCache. Random (long)
	// cases are spread over the batches so that the batches have similar cost.
	const cacheBatch = 24
	var batches [][]c10Case
	{
		var cur []c10Case
		for _, c := range enum {
			cur = append(cur, c)
			if len(cur) == cacheBatch {
				batches = append(batches, cur)
				cur = nil
			}
		}
		if len(cur) > 0 {
			batches = append(batches, cur)
		}
		for i, c := range random {
			if len(batches) == 0 {
				batches = append(batches, nil)
			}
			// long cases get small batches of their own
			if i%4 == 0 {
				batches = append(batches, nil)
			}
			batches[len(batches)-1] = append(batches[len(batches)-1], c)
		}
	}
	// longest batches first
	sort.SliceStable(batches, func(i, j int) bool { return c10BatchCost(batches[i]) > c10BatchCost(batches[j]) })
	r.Extra("cache_batches", len(batches))
	var batchCases []c10CacheBatchCase
	for _, b := range batches {
		if len(b) > 0 {
			batchCases = append(batchCases, c10CacheBatchCase{Cases: b})
		}
	}
	// The cache build (and MergeAll, ReadAll) run in goroutines started by git-bug: a crash there cannot be
	// recovered in-process, so every cache batch runs in a child process.
	outcomes := runBatches[c10CacheBatchCase, *obsRecord]("", "c10cache", batchCases, 2, 10*time.Minute, nil)
	for i, oc := range outcomes {
		first := batchCases[i].Cases[0]
		switch {
		case oc.Crashed:
			r.Count("cache_batches_crashed", 1)
			r.Violation("crash:"+oc.Site, fmt.Sprintf("the process died while a batch of %d valid operation sequences (first: %s [%s]) was driven through RepoCache/BugCache:\n%s", len(batchCases[i].Cases), first.Name, first.label(), oc.Excerpt), batchCases[i])
		case oc.TimedOut || oc.Result == nil || *oc.Result == nil:
			r.Inconclusive(fmt.Sprintf("cache batch starting with %s did not finish: %s", first.Name, oc.Site))
		default:
			(*oc.Result).replayInto(r)
		}
	}

	// (3) failed and partial commits: one child process per staging pattern
	faults := c10FaultCases(r)
	r.Extra("fault_staging_patterns", len(faults))
	foutcomes := runBatches[c10FaultCase, *obsRecord]("", "c10fault", faults, 2, 5*time.Minute, nil)
	for i, oc := range foutcomes {
		switch {
		case oc.Crashed:
			r.Count("fault_cases_crashed", 1)
			r.Violation("crash:"+oc.Site, fmt.Sprintf("the process died while fault case %s (%s) was driven through BugCache:\n%s", faults[i].Name, faults[i].shape(), oc.Excerpt), faults[i])
		case oc.TimedOut || oc.Result == nil || *oc.Result == nil:
			r.Inconclusive(fmt.Sprintf("fault case %s did not finish: %s", faults[i].Name, oc.Site))
		default:
			(*oc.Result).replayInto(r)
		}
	}
	r.Sample(faults[len(faults)/2])

	r.Sample(enum[len(enum)/2])
	r.Sample(map[string]any{"name": random[0].Name, "length": len(random[0].Steps), "split": random[0].Split, "first_steps": random[0].Steps[:8]})

	r.Extra("added_in_seeding_round_6", "a quarter of the title steps of the entity API build the set-title operation with a `was` that is not the title in force (as written concurrently in another clone)")
	return r.Finish("every sequence of length <= 3 (thorough 4) over a 13-symbol alphabet after the create, in memory with every assignment of up to 4 authors to the create and the operations (up to renaming; length 4: 8 assignments), plus seeded random sequences of 20..300 symbols by 1..4 authors, each run (1) in memory with bug.Compile() after every step, compiled twice, committed to the in-memory backend, re-read and compiled from scratch, and (2) on a real repository (every enumerated sequence once, author assignment drawn from the seed): a prefix written with the entity API, the rest appended through BugCache with BugCache.Snapshot() compared after every operation, after commit (also against a from-scratch compilation of the bug re-read from git) and after closing and reopening the cache; (3) failed and partial commits: operations of 1..3 authors staged in one BugCache (4 fixed stagings through both Commit and CommitAsNeeded, every assignment of 3 authors to 1..3 (thorough 4) staged operations, longer ones drawn from the seed), the commit repeated on a fresh bug once per mutating storage call of its fault-free run with that call returning an error (clock increment, blobs, trees, commit of every run of same-author operations, ref update), BugCache.Snapshot() compared right after the failed commit, after the retry (when NeedCommit) and after one more committed operation with a compilation from scratch of the entity the BugCache holds, with the reference interpretation of the operations that entity holds, and (after the commit that returned nil) with a compilation of the bug re-read from git; actors and participants are compared as duplicate-free sets with the model (must/any-author rules); a case is non-trivial when at least one operation follows the create (fault case: the commit returned an error); distinct = distinct symbol sequence + author assignment (enumeration, per run mode and split point), distinct feature vector (random: length/comment/override/ineffective-edit buckets, label count, kinds, authors) or distinct staging + fault position (fault cases)",
		r.Pick(20000, 150000), []string{
			"the operations handed to the reference interpreter are the payloads git-bug stored (ChangeLabels' own de-duplication is part of building the operation, not of interpreting it)",
			"not constrained (statement silent): files of a never-edited creation comment; whether authors of ineffective, metadata or no-op operations are actors; whether a state-changing kind of operation that changes nothing has a timeline entry; the author recorded in history steps; the order of actors and participants",
			"no-op operations and edits with files / unknown targets cannot be expressed through BugCache: they reach the cache only through the entity-API prefix that the cache loads from git",
			"failed commits: what a failed commit does to the staged operations (kept, dropped, half written) is recorded (fault/head-behaviour) but not judged - C10 is about the compiled state of whatever operations the bug holds; the bug re-read from git is compared only after a commit that returned nil; the entity inside the BugCache is reached by reflection (unexported fields CachedEntityBase.entity, withSnapshot.Interface) - if that fails the fault cases are inconclusive; commits refused by validation are not generated (the BugCache API validates every operation before staging it)",
		})
}

func c10BatchCost(b []c10Case) int {
	n := 0
	for _, c := range b {
		n += len(c.Steps) + 2
	}
	return n
}
