package checks

// C05, failed writes followed by a retry.
//
// One storage call of a Commit fails (one-shot switch of the decorator c05Repo: the (skip+1)-th StoreData /
// StoreTree / StoreCommit|StoreSignedCommit / UpdateRef issued while the switch is armed returns an error), the
// in-memory bug is kept, the repository goes on writing / reading / merging other bugs of the same namespace
// (and may be closed and re-opened), then Commit is called again on the kept object. Nothing new is demanded
// from that retry: the packs it writes are "wrote"/"commit" events like all others and the offline checker
// requires what the property states for every written commit (edit time strictly above everything written,
// read, merged or rebuilt before, and above the ancestors). Events written by a retry carry a tag so that the
// violation key names the class.

import (
	"errors"
	"fmt"
	"math/rand"

	"github.com/MichaelMure/git-bug/entities/bug"
	"github.com/MichaelMure/git-bug/repository"

	"verif/harness/mon"
)

// C05Fault selects the storage call of a Commit that fails.
type C05Fault struct {
	Call string `json:"call"`           // data|tree|commit|ref
	Skip int    `json:"skip,omitempty"` // calls of that kind that still succeed first (a commit of several packs fails part-way)
}

var errC05Injected = errors.New("c05 injected storage fault")

const c05RetryCtx = "retry-after-failed-write"

// arm switches the one-shot fault on; disarm switches it off and tells whether it fired.
func (d *c05Repo) arm(f C05Fault) {
	d.mu.Lock()
	d.faultCall, d.faultSkip, d.faultFired = f.Call, f.Skip, false
	d.mu.Unlock()
}

func (d *c05Repo) disarm() bool {
	d.mu.Lock()
	defer d.mu.Unlock()
	fired := d.faultFired
	d.faultCall, d.faultSkip, d.faultFired = "", 0, false
	return fired
}

func (d *c05Repo) setCtx(ctx string) {
	d.mu.Lock()
	d.ctx = ctx
	d.mu.Unlock()
}

// fault is called at the top of the intercepted storage calls.
func (d *c05Repo) fault(call string) error {
	d.mu.Lock()
	defer d.mu.Unlock()
	if d.faultCall != call || d.faultFired {
		return nil
	}
	if d.faultSkip > 0 {
		d.faultSkip--
		return nil
	}
	d.faultFired = true
	return fmt.Errorf("%w: %s", errC05Injected, call)
}

func (d *c05Repo) StoreData(data []byte) (repository.Hash, error) {
	if err := d.fault("data"); err != nil {
		return "", err
	}
	return d.TestedRepo.StoreData(data)
}

func (d *c05Repo) UpdateRef(ref string, hash repository.Hash) error {
	if err := d.fault("ref"); err != nil {
		return err
	}
	return d.TestedRepo.UpdateRef(ref, hash)
}

// failCommit: create or edit a bug, let one storage call of its Commit fail, keep the in-memory object.
func (e *c05Env) failCommit(si int, s C05Step) bool {
	if e.pending != nil || s.Fault == nil {
		return false
	}
	var b *bug.Bug
	if s.New {
		nb, _, err := bug.Create(e.authors[si%len(e.authors)], e.tick(), fmt.Sprintf("bug %d", si), "message", nil, nil)
		if err == nil {
			err = e.appendOps(nb, s.N)
		}
		if err != nil {
			e.res.HarnessError = "failcommit: " + err.Error()
			return false
		}
		b = nb
	} else {
		id, ok := e.localBug(s.Bug)
		if !ok {
			return false
		}
		b = e.readBack(id, "earlier-steps")
		if b == nil {
			return false
		}
		if err := e.appendOps(b, s.N+1); err != nil {
			e.res.HarnessError = "failcommit: " + err.Error()
			return false
		}
	}
	e.dec.arm(*s.Fault)
	err := b.Commit(e.repo())
	fired := e.dec.disarm()
	switch {
	case err == nil:
		// the commit had fewer calls of that kind than the fault skips: an ordinary create / edit
		e.res.Counts["fault_not_reached"]++
		if s.New {
			e.bugs = append(e.bugs, b.Id())
		}
		e.readBack(b.Id(), "edit")
		return false
	case !fired || !errors.Is(err, errC05Injected):
		e.find("commit-fails:"+errClass(err), err.Error())
		return false
	}
	e.pending, e.pendingId, e.pendingNew, e.pendingFault = b, b.Id(), s.New, s.Fault.Call
	e.log.add(c05Event{Kind: "fault", NS: "bugs", Ctx: s.Fault.Call})
	e.res.Counts["commits_failed_by_injected_fault"]++
	e.res.Counts["commits_failed_at_"+s.Fault.Call]++
	if s.Fault.Skip > 0 {
		e.res.Counts["commits_failed_part_way_after_a_written_pack"]++
	}
	return true
}

// retryCommit commits the kept object again.
func (e *c05Env) retryCommit() bool {
	if e.pending == nil {
		return false
	}
	b, id := e.pending, e.pendingId
	newBug, call := e.pendingNew, e.pendingFault
	e.pending, e.pendingId, e.pendingNew, e.pendingFault = nil, "", false, ""
	if !b.NeedCommit() {
		// every pack was written, only the ref update failed: nothing is staged any more and Commit refuses to run; the
		// author goes on with the same object, the next pack sits on top of the packs written by the failed attempt
		e.res.Counts["retries_with_nothing_staged"]++
		if err := e.appendOps(b, 1); err != nil {
			e.res.HarnessError = "retry: " + err.Error()
			return false
		}
	}
	e.dec.setCtx(c05RetryCtx)
	err := b.Commit(e.repo())
	e.dec.setCtx("")
	if err != nil {
		e.find("retry-commit-fails:"+errClass(err), fmt.Sprintf("the commit of bug %s failed on an injected %s fault, committing the same in-memory object again fails: %v", id.Human(), call, err))
		return false
	}
	if newBug {
		e.bugs = append(e.bugs, id)
	}
	e.res.Counts["retries_after_injected_failure"]++
	e.res.Counts["retries_after_failed_"+call]++
	e.readBack(id, "retry")
	return true
}

// ---- cases --------------------------------------------------------------------------------------

var c05FaultCalls = []string{"data", "tree", "commit", "commit", "ref"}

// c05GenRetryCase: ordinary steps interleaved with blocks {failcommit, 1..4 other steps, retry}. No clock file is
// deleted inside a block (see runC05Case), re-opens are allowed.
func c05GenRetryCase(rng *rand.Rand, idx int, backend string, steps int) C05Case {
	c := C05Case{Name: fmt.Sprintf("retry-%s-%d", backend, idx), Backend: backend}
	c.Steps = append(c.Steps, C05Step{Op: "create", N: rng.Intn(3)}, C05Step{Op: "create", N: rng.Intn(2)})
	if rng.Intn(2) == 0 {
		c.Steps = append(c.Steps, C05Step{Op: "push"})
	}
	outside := []string{"create", "edit", "edit", "read", "readall", "push", "pull", "merge", "reopen", "wipe", "witness"}
	between := []string{"create", "create", "edit", "edit", "edit", "read", "readall", "push", "fetch", "merge", "pull", "pull", "inc", "witness", "reopen"}
	step := func(op string) (C05Step, bool) {
		s := C05Step{Op: op, Bug: rng.Intn(16)}
		switch op {
		case "inc":
			s.Clock = c05Clocks[rng.Intn(len(c05Clocks))]
		case "witness":
			s.Clock = c05Clocks[rng.Intn(len(c05Clocks))]
			s.Delta = rng.Intn(60) - 20
		case "create", "edit":
			s.N = rng.Intn(3)
		case "fetch", "pull":
			s.Peer = &C05Peer{New: rng.Intn(2), Jump: []int{0, 1, 7, 60}[rng.Intn(4)]}
			for k := rng.Intn(3); k > 0; k-- {
				s.Peer.Edits = append(s.Peer.Edits, rng.Intn(16))
			}
		case "reopen", "wipe":
			if backend == "mock" {
				return s, false
			}
			if op == "wipe" {
				s.Wipe = []string{"all", "edit", "create"}[rng.Intn(3)]
			}
		}
		return s, true
	}
	for len(c.Steps) < steps {
		if rng.Intn(3) != 0 {
			if s, ok := step(outside[rng.Intn(len(outside))]); ok {
				c.Steps = append(c.Steps, s)
			}
			continue
		}
		f := C05Step{Op: "failcommit", Bug: rng.Intn(16), N: rng.Intn(3), New: rng.Intn(4) == 0}
		f.Fault = &C05Fault{Call: c05FaultCalls[rng.Intn(len(c05FaultCalls))]}
		if f.Fault.Call != "ref" && rng.Intn(3) == 0 {
			f.Fault.Skip = rng.Intn(f.N + 1) // an edit of N+1 operations by alternating authors is N+1 packs
			if f.Fault.Call == "data" {
				f.Fault.Skip *= 2 // two blobs per pack
			}
		}
		c.Steps = append(c.Steps, f)
		for k := 1 + rng.Intn(4); k > 0; {
			if s, ok := step(between[rng.Intn(len(between))]); ok {
				c.Steps = append(c.Steps, s)
				k--
			}
		}
		c.Steps = append(c.Steps, C05Step{Op: "retry"})
	}
	return c
}

func c05RetryCases(r *mon.Run) []C05Case {
	var out []C05Case
	// targeted: every fault site, on both backends, with writes / reads / a merge between the failure and the retry
	for _, be := range []string{"gogit", "mock"} {
		for _, call := range []string{"data", "tree", "commit", "ref"} {
			out = append(out, C05Case{Name: "targeted-retry-after-failed-" + call + "-" + be, Backend: be, Steps: []C05Step{
				{Op: "create", N: 1}, {Op: "create"}, {Op: "push"},
				{Op: "failcommit", Bug: 0, N: 0, Fault: &C05Fault{Call: call}},
				{Op: "create"}, {Op: "edit", Bug: 1, N: 1}, {Op: "read", Bug: 1},
				{Op: "retry"}, {Op: "readall"},
				// a new bug whose first commit fails; the repository merges newer bugs meanwhile
				{Op: "failcommit", New: true, N: 1, Fault: &C05Fault{Call: call}},
				{Op: "pull", Peer: &C05Peer{New: 1, Edits: []int{1}, Jump: 7}},
				{Op: "retry"}, {Op: "edit", Bug: 0}, {Op: "readall"},
			}})
		}
		// a commit of three packs fails at the second / third pack: the first packs are written, the rest is retried
		for skip := 1; skip <= 2; skip++ {
			out = append(out, C05Case{Name: fmt.Sprintf("targeted-retry-after-failed-pack-%d-%s", skip+1, be), Backend: be, Steps: []C05Step{
				{Op: "create", N: 1}, {Op: "create"}, {Op: "push"},
				{Op: "failcommit", Bug: 0, N: 2, Fault: &C05Fault{Call: "commit", Skip: skip}},
				{Op: "edit", Bug: 1, N: 2}, {Op: "pull", Peer: &C05Peer{New: 1, Jump: 1}}, {Op: "readall"},
				{Op: "retry"}, {Op: "read", Bug: 0}, {Op: "edit", Bug: 0},
			}})
		}
	}
	// the repository is closed and re-opened between the failure and the retry (the clock comes back from its file)
	out = append(out, C05Case{Name: "targeted-retry-after-reopen", Backend: "gogit", Steps: []C05Step{
		{Op: "create", N: 1}, {Op: "create"},
		{Op: "failcommit", Bug: 0, N: 1, Fault: &C05Fault{Call: "commit"}},
		{Op: "edit", Bug: 1, N: 1}, {Op: "reopen"}, {Op: "create"}, {Op: "reopen"},
		{Op: "retry"}, {Op: "readall"}, {Op: "wipe", Wipe: "all"}, {Op: "edit", Bug: 0}, {Op: "edit", Bug: 1},
	}})
	n := r.Pick(20, 800)
	for i := 0; i < n; i++ {
		backend := "gogit"
		if i%3 == 2 {
			backend = "mock"
		}
		out = append(out, c05GenRetryCase(mon.Rng(r.Seed, "c05-retry", i), i, backend, 26))
	}
	return out
}
