package checks

// C20 part (c): end-to-end page walks through the GraphQL handler on a repository
// fed from two replicas. Every page is its own HTTP request. Oracle: a walk
// (forwards with first/after, backwards with last/before) yields every element
// exactly once in list order, where the list is what an unpaginated request of
// the same field returns; for allBugs / allIdentities the set of ids must also be
// the cache's AllIds.

import (
	"fmt"
	"github.com/MichaelMure/git-bug/cache"
	"github.com/MichaelMure/git-bug/query"
	"reflect"
	"sort"
	"strconv"
	"strings"
	"sync"

	"github.com/MichaelMure/git-bug/entities/bug"
	"github.com/MichaelMure/git-bug/entity"

	"verif/harness/mon"
	"verif/harness/world"
)

// e2eField describes one paginated field and how to reach it.
type e2eField struct {
	Key     string // "allBugs", "bug.comments" (violation key component)
	Schema  string // "Repository.allBugs": owner type + field in the served schema
	Field   string
	BugId   string // non-empty: reached through repository.bug(prefix)
	NodeKey string // field identifying a node: id | name
	Extra   string // further arguments of the field, e.g. `query: "status:open"`
}

func (f e2eField) document(args string) string {
	if f.Extra != "" {
		if args != "" {
			args = f.Extra + ", " + args
		} else {
			args = f.Extra
		}
	}
	if args != "" {
		args = "(" + args + ")"
	}
	con := fmt.Sprintf(`%s%s { totalCount pageInfo { hasNextPage hasPreviousPage startCursor endCursor } edges { cursor node { %s } } nodes { %s } }`,
		f.Field, args, f.NodeKey, f.NodeKey)
	if f.BugId != "" {
		return fmt.Sprintf(`query { repository { bug(prefix: %q) { %s } } }`, f.BugId, con)
	}
	return fmt.Sprintf(`query { repository { %s } }`, con)
}

func (f e2eField) path() []string {
	if f.BugId != "" {
		return []string{"repository", "bug", f.Field}
	}
	return []string{"repository", f.Field}
}

type e2ePage struct {
	Nodes, EdgeNodes, Cursors []string
	HasNext, HasPrev          bool
	Start, End                string
	Total                     int
}

// e2eFetch sends one request and decodes the connection.
func e2eFetch(h *GQLHarness, f e2eField, args string) (*e2ePage, string) {
	resp := h.Post(false, f.document(args), nil)
	if resp.HasErrors() {
		return nil, "request failed: " + resp.ErrorText()
	}
	con := jget(resp.Data, f.path()...)
	if con == nil {
		return nil, "no connection object in the response: " + truncateStr(resp.Raw, 300)
	}
	p := &e2ePage{}
	p.Nodes = jstrs(jlist(con, "nodes"), f.NodeKey)
	for _, e := range jlist(con, "edges") {
		p.Cursors = append(p.Cursors, jstr(e, "cursor"))
		p.EdgeNodes = append(p.EdgeNodes, jstr(e, "node", f.NodeKey))
	}
	p.HasNext, _ = jbool(con, "pageInfo", "hasNextPage")
	p.HasPrev, _ = jbool(con, "pageInfo", "hasPreviousPage")
	p.Start = jstr(con, "pageInfo", "startCursor")
	p.End = jstr(con, "pageInfo", "endCursor")
	p.Total, _ = jint(con, "totalCount")
	return p, ""
}

func truncateStr(s string, n int) string {
	if len(s) <= n {
		return s
	}
	return s[:n] + "…"
}

func shortIds(l []string) []string {
	out := make([]string, len(l))
	for i, s := range l {
		if len(s) > 7 {
			s = s[:7]
		}
		out[i] = s
	}
	return out
}

func sameStrings(a, b []string) bool {
	if len(a) != len(b) {
		return false
	}
	for i := range a {
		if a[i] != b[i] {
			return false
		}
	}
	return true
}

func sortedCopy(l []string) []string {
	out := append([]string{}, l...)
	sort.Strings(out)
	return out
}

// e2eWalk pages through the field. Returns the concatenated walk, the number of pages,
// a per-page defect ("aspect|description") if one was seen, and a fatal message.
func e2eWalk(h *GQLHarness, f e2eField, size int, forward bool, refLen int) (got []string, pages int, pageDefect string, fatal string) {
	cursor := ""
	for step := 0; step <= 2*refLen+4; step++ {
		var args string
		if forward {
			args = "first: " + strconv.Itoa(size)
			if cursor != "" {
				args += fmt.Sprintf(", after: %q", cursor)
			}
		} else {
			args = "last: " + strconv.Itoa(size)
			if cursor != "" {
				args += fmt.Sprintf(", before: %q", cursor)
			}
		}
		p, msg := e2eFetch(h, f, args)
		if msg != "" {
			return got, pages, pageDefect, fmt.Sprintf("page %d (%s): %s", step, args, msg)
		}
		pages++
		if pageDefect == "" {
			switch {
			case !sameStrings(p.Nodes, p.EdgeNodes):
				pageDefect = fmt.Sprintf("nodes-vs-edges|page (%s): nodes %v but edge nodes %v", args, shortIds(p.Nodes), shortIds(p.EdgeNodes))
			case len(p.Nodes) > size:
				pageDefect = fmt.Sprintf("window|page (%s) returned %d elements", args, len(p.Nodes))
			case p.Total != refLen:
				pageDefect = fmt.Sprintf("totalCount|page (%s): totalCount %d, the unpaginated list has %d elements", args, p.Total, refLen)
			case len(p.Cursors) > 0 && (p.Start != p.Cursors[0] || p.End != p.Cursors[len(p.Cursors)-1]):
				pageDefect = fmt.Sprintf("cursors|page (%s): start/end cursor %q/%q, first/last edge %q/%q", args, p.Start, p.End, p.Cursors[0], p.Cursors[len(p.Cursors)-1])
			}
		}
		if forward {
			got = append(got, p.Nodes...)
		} else {
			got = append(append([]string{}, p.Nodes...), got...)
		}
		more, next := p.HasNext, p.End
		if !forward {
			more, next = p.HasPrev, p.Start
		}
		if !more {
			return got, pages, pageDefect, ""
		}
		if len(p.Nodes) == 0 {
			return got, pages, pageDefect, fmt.Sprintf("page %d (%s): flag says more but the page is empty", step, args)
		}
		cursor = next
	}
	return got, pages, pageDefect, fmt.Sprintf("walk did not terminate within %d pages", 2*refLen+5)
}

// describeWalkDiff says what is wrong with a walk relative to the reference list.
func describeWalkDiff(got, ref []string) string {
	count := map[string]int{}
	for _, g := range got {
		count[g]++
	}
	var dup, missing, foreign []string
	inRef := map[string]bool{}
	for _, x := range ref {
		inRef[x] = true
		if count[x] == 0 {
			missing = append(missing, x)
		}
	}
	for x, n := range count {
		if n > 1 {
			dup = append(dup, x)
		}
		if !inRef[x] {
			foreign = append(foreign, x)
		}
	}
	sort.Strings(dup)
	sort.Strings(foreign)
	var parts []string
	if len(dup) > 0 {
		parts = append(parts, fmt.Sprintf("visited more than once: %v", shortIds(dup)))
	}
	if len(missing) > 0 {
		parts = append(parts, fmt.Sprintf("never visited: %v", shortIds(missing)))
	}
	if len(foreign) > 0 {
		parts = append(parts, fmt.Sprintf("not in the list: %v", shortIds(foreign)))
	}
	if len(parts) == 0 {
		parts = append(parts, "every element once, but in another order")
	}
	return strings.Join(parts, "; ")
}

// c20BuildWorld builds two replicas that exchanged everything; r0 is the one served.
func c20BuildWorld(r *mon.Run) (w *world.World, big entity.Id, small entity.Id, err error) {
	w, err = world.New(2)
	if err != nil {
		return nil, "", "", err
	}
	fail := func(e error) (*world.World, entity.Id, entity.Id, error) {
		w.Close()
		return nil, "", "", e
	}
	r0, r1 := w.Replicas[0], w.Replicas[1]
	nAuthors := r.Pick(3, 5)
	for i := 0; i < nAuthors; i++ {
		if _, err := r0.NewAuthor(fmt.Sprintf("r0-author-%d", i)); err != nil {
			return fail(err)
		}
		if _, err := r1.NewAuthor(fmt.Sprintf("r1-author-%d", i)); err != nil {
			return fail(err)
		}
	}
	// the same person set up an identity on several machines: identities with exactly the same name, email and login
	for i := 0; i < 3; i++ {
		if _, err := r0.NewAuthor("Same Person"); err != nil {
			return fail(err)
		}
		if _, err := r1.NewAuthor("Same Person"); err != nil {
			return fail(err)
		}
	}
	rng := mon.Rng(r.Seed, "c20-e2e", 0)
	// Pairs of bugs created concurrently on the two replicas: the k-th bug of either replica carries
	// create-Lamport time k, and the first pairs also share the unix timestamp (two users filing a
	// bug during the same second).
	tiePairs := r.Pick(3, 4)
	for k := 0; k < tiePairs; k++ {
		unix := w.Now()
		for ri, rep := range []*world.Replica{r0, r1} {
			b, _, err := bug.Create(rep.Authors[k%nAuthors], unix, fmt.Sprintf("tie %d on r%d", k, ri), "same second", nil, nil)
			if err != nil {
				return fail(err)
			}
			if err := b.Commit(rep.Repo); err != nil {
				return fail(err)
			}
		}
	}
	nBugs := r.Pick(4, 9)
	var r0Bugs, r1Bugs []entity.Id
	for k := 0; k < nBugs; k++ {
		b0, err := w.NewBug(r0, k, fmt.Sprintf("r0 bug %d", k), "first message")
		if err != nil {
			return fail(err)
		}
		r0Bugs = append(r0Bugs, b0.Id())
		b1, err := w.NewBug(r1, k, fmt.Sprintf("r1 bug %d", k), "first message")
		if err != nil {
			return fail(err)
		}
		r1Bugs = append(r1Bugs, b1.Id())
	}
	labels := []string{"alpha", "beta", "gamma", "delta", "epsilon", "zeta", "eta", "theta", "iota"}
	// r0 works on its bugs
	big = r0Bugs[0]
	small = r0Bugs[len(r0Bugs)-1]
	nComments := r.Pick(7, 15)
	var specs []world.OpSpec
	for i := 0; i < nComments; i++ {
		specs = append(specs, world.OpSpec{Kind: "comment", Text: fmt.Sprintf("r0 comment %d", i), Author: i})
		if i%3 == 1 {
			specs = append(specs, world.OpSpec{Kind: "labels", Add: []string{labels[(i/3)%len(labels)]}, Author: i + 1})
		}
		if i%4 == 2 {
			specs = append(specs, world.OpSpec{Kind: "title", Text: fmt.Sprintf("big bug, title %d", i), Author: i})
		}
		// several commits
		if i%3 == 2 {
			if err := w.Edit(r0, big, specs); err != nil {
				return fail(err)
			}
			specs = nil
		}
	}
	specs = append(specs, world.OpSpec{Kind: "close"}, world.OpSpec{Kind: "edit", Text: "edited last comment"})
	if err := w.Edit(r0, big, specs); err != nil {
		return fail(err)
	}
	for k, id := range r0Bugs[1 : len(r0Bugs)-1] {
		specs := []world.OpSpec{
			{Kind: "labels", Add: []string{labels[(k+3)%len(labels)], labels[(k+5)%len(labels)]}, Author: k},
			{Kind: "comment", Text: "a comment", Author: k + 1},
		}
		if k == 0 {
			// a bug that went through a bridge export: it carries set-metadata operations
			specs = append(specs, world.OpSpec{Kind: "meta", Text: "exported"}, world.OpSpec{Kind: "comment", Text: "after the export", Author: k})
			c20BridgedBug = id
		}
		if err := w.Edit(r0, id, specs); err != nil {
			return fail(err)
		}
	}
	for k, id := range r1Bugs {
		if rng.Intn(2) == 0 {
			if err := w.Edit(r1, id, []world.OpSpec{{Kind: "labels", Add: []string{labels[(k+6)%len(labels)]}, Author: k}}); err != nil {
				return fail(err)
			}
		}
	}
	// exchange: r0 -> origin -> r1 (works on the big bug with its own authors) -> origin -> r0
	if err := r0.Push("origin"); err != nil {
		return fail(err)
	}
	if ml := r1.Pull("origin"); ml.Err != nil {
		return fail(ml.Err)
	}
	specs = nil
	for i := 0; i < nAuthors; i++ {
		specs = append(specs, world.OpSpec{Kind: "comment", Text: fmt.Sprintf("r1 comment %d", i), Author: i})
	}
	specs = append(specs, world.OpSpec{Kind: "open", Author: 1}, world.OpSpec{Kind: "labels", Add: []string{"from-r1"}, Remove: []string{"alpha"}, Author: 2})
	if err := w.Edit(r1, big, specs); err != nil {
		return fail(err)
	}
	// concurrent edit of the same bug on r0 (forces a merge commit)
	if err := w.Edit(r0, big, []world.OpSpec{{Kind: "comment", Text: "concurrent r0 comment", Author: 1}}); err != nil {
		return fail(err)
	}
	if err := r1.Push("origin"); err != nil {
		return fail(err)
	}
	ml := r0.Pull("origin")
	if ml.Err != nil {
		return fail(ml.Err)
	}
	for _, res := range append(append([]entity.MergeResult{}, ml.Identities...), ml.Bugs...) {
		if res.Err != nil {
			return fail(fmt.Errorf("merge of %s: %w", res.Id, res.Err))
		}
	}
	return w, big, small, nil
}

// c20BridgedBug is the bug of the served world that carries a set-metadata operation.
var c20BridgedBug entity.Id

// c20EndToEnd walks the paginated GraphQL fields of a served repository.
var c20EndToEnd = func(r *mon.Run) {
	defer func() {
		if p := recover(); p != nil {
			r.Violation("e2e-crash", fmt.Sprintf("panic during the end-to-end walks: %v", p), nil)
		}
	}()
	w, big, small, err := c20BuildWorld(r)
	if err != nil {
		r.Inconclusive("e2e: cannot build the two-replica world: " + err.Error())
		return
	}
	defer w.Close()
	r0 := w.Replicas[0]
	h, err := NewGQLHarness(r0, r0.Authors[0].Id())
	if err != nil {
		r.Inconclusive("e2e: cannot serve the repository: " + err.Error())
		return
	}
	defer h.Close()

	fields := []e2eField{
		{Key: "allBugs", Schema: "Repository.allBugs", Field: "allBugs", NodeKey: "id"},
		{Key: "allIdentities", Schema: "Repository.allIdentities", Field: "allIdentities", NodeKey: "id"},
		{Key: "validLabels", Schema: "Repository.validLabels", Field: "validLabels", NodeKey: "name"},
	}
	for _, bf := range []string{"comments", "timeline", "operations", "actors", "participants"} {
		fields = append(fields, e2eField{Key: "bug." + bf, Schema: "Bug." + bf, Field: bf, BugId: big.String(), NodeKey: "id"})
	}
	// a second, short bug: lists of length 1..2
	for _, bf := range []string{"comments", "timeline", "operations"} {
		fields = append(fields, e2eField{Key: "bug." + bf, Schema: "Bug." + bf, Field: bf, BugId: small.String(), NodeKey: "id"})
	}

	// a bug with an operation kind that changes no visible state (set-metadata, as the bridge exporters write)
	if c20BridgedBug != "" {
		for _, bf := range []string{"operations", "timeline", "comments"} {
			fields = append(fields, e2eField{Key: "bug." + bf + "[bug-with-set-metadata-operation]", Schema: "Bug." + bf, Field: bf, BugId: c20BridgedBug.String(), NodeKey: "id"})
		}
	}

	// which paginated fields does the served schema have? (newly added ones are listed as not walked)
	modelled := map[string]bool{}
	for _, f := range fields {
		modelled[f.Schema] = true
	}
	if schema, err := h.Introspect(false); err != nil {
		r.Inconclusive("e2e: " + err.Error())
	} else {
		served := map[string]bool{}
		for _, pf := range schema.PaginatedFields() {
			name := pf.Owner + "." + pf.Field.Name
			served[name] = true
			r.Seen("e2e_paginated_fields_in_schema", name)
			if !modelled[name] {
				r.Seen("e2e_unwalked_paginated_fields", name)
			}
		}
		var kept []e2eField
		for _, f := range fields {
			if served[f.Schema] {
				kept = append(kept, f)
			} else {
				r.Seen("e2e_fields_absent_from_schema", f.Schema)
			}
		}
		fields = kept
	}

	// Lamport ties among the served bugs (evidence that the two-replica feed did its job)
	{
		byKey := map[string]int{}
		byLamport := map[uint64]int{}
		for _, id := range h.RC.Bugs().AllIds() {
			ex, err := h.RC.Bugs().ResolveExcerpt(id)
			if err != nil {
				continue
			}
			byLamport[uint64(ex.CreateLamportTime)]++
			byKey[fmt.Sprintf("%d/%d", ex.CreateLamportTime, ex.CreateUnixTime)]++
		}
		for _, n := range byLamport {
			if n > 1 {
				r.Count("e2e_bugs_sharing_create_lamport", n)
			}
		}
		for _, n := range byKey {
			if n > 1 {
				r.Count("e2e_bugs_sharing_lamport_and_unix", n)
			}
		}
	}

	type e2eStable struct {
		f   e2eField
		ref []string
	}
	var stable []e2eStable
	repeats := r.Pick(3, 3)
	for _, f := range fields {
		ref0, msg := e2eFetch(h, f, "")
		if msg != "" {
			r.Violation("e2e-listing:"+f.Key, "unpaginated request: "+msg, map[string]any{"field": f.Key, "document": f.document("")})
			continue
		}
		n := len(ref0.Nodes)
		r.Seen("e2e_fields", f.Key)
		r.Seen("e2e_list_lengths", fmt.Sprintf("%s=%d", f.Key, n))
		// "every element exactly once": a list of identified nodes never shows the same node twice
		{
			seen := map[string]bool{}
			for _, id := range ref0.Nodes {
				if seen[id] && id != "" {
					r.Violation("e2e-listing:"+f.Key+":element-listed-twice", fmt.Sprintf("the unpaginated %s lists %s twice (%d entries)", f.Key, truncateStr(id, 12), n), map[string]any{"field": f.Key, "bug": f.BugId})
					break
				}
				seen[id] = true
			}
		}
		// the operations of a bug against the stored bug (read from git, not through the served cache)
		if f.Field == "operations" && f.BugId != "" {
			if fresh, err := world.ReadBug(r0.Repo, entity.Id(f.BugId)); err == nil {
				var want []string
				for _, op := range fresh.Operations() {
					switch op.(type) {
					case *bug.CreateOperation, *bug.SetTitleOperation, *bug.AddCommentOperation, *bug.EditCommentOperation, *bug.SetStatusOperation, *bug.LabelChangeOperation:
						want = append(want, op.Id().String())
					}
				}
				r.Count("e2e_operation_lists_compared_with_git", 1)
				if !sameStrings(ref0.Nodes, want) {
					r.Violation("e2e-listing:"+f.Key+":differs-from-stored-operations", fmt.Sprintf("the unpaginated %s returns %v, the stored bug holds the renderable operations %v", f.Key, shortIds(ref0.Nodes), shortIds(want)), map[string]any{"field": f.Key, "bug": f.BugId})
				}
			}
		}
		if !sameStrings(ref0.Nodes, ref0.EdgeNodes) || ref0.Total != n {
			r.Violation("e2e-page:"+f.Key+":unpaginated", fmt.Sprintf("unpaginated request: %d nodes, %d edges, totalCount %d", n, len(ref0.EdgeNodes), ref0.Total), map[string]any{"field": f.Key})
		}
		// set of ids against the cache
		if f.Key == "allBugs" || f.Key == "allIdentities" {
			var ids []entity.Id
			if f.Key == "allBugs" {
				ids = h.RC.Bugs().AllIds()
			} else {
				ids = h.RC.Identities().AllIds()
			}
			want := make([]string, len(ids))
			for i, id := range ids {
				want[i] = id.String()
			}
			if !reflect.DeepEqual(sortedCopy(want), sortedCopy(ref0.Nodes)) {
				r.Violation("e2e-set:"+f.Key, fmt.Sprintf("unpaginated %s returns %v, the cache lists %v", f.Key, shortIds(sortedCopy(ref0.Nodes)), shortIds(sortedCopy(want))), map[string]any{"field": f.Key})
			}
			r.Count("e2e_set_checks", 1)
		}
		// page sizes
		sizeSet := map[int]bool{}
		if r.Thorough() {
			for k := 1; k <= n+1; k++ {
				sizeSet[k] = true
			}
		} else {
			for _, k := range []int{1, 2, 3, n - 1, n, n + 1} {
				if k >= 1 {
					sizeSet[k] = true
				}
			}
		}
		var sizes []int
		for k := range sizeSet {
			sizes = append(sizes, k)
		}
		sort.Ints(sizes)
		// Is there a list order at all? Ask for the unpaginated list several times.
		listings := 1
		probes := r.Pick(8, 16)
		fieldUnstable := false
		observed := [][]string{ref0.Nodes}
		for i := 0; i < probes; i++ {
			p, msg := e2eFetch(h, f, "")
			listings++
			if msg != "" {
				continue
			}
			if d := firstDupString(p.Nodes); d != "" {
				r.Violation("e2e-listing:"+f.Key+":element-listed-twice", fmt.Sprintf("a repeated unpaginated request for %s lists %s twice (%d entries, the first request listed %d)", f.Key, truncateStr(d, 12), len(p.Nodes), n), map[string]any{"field": f.Key, "bug": f.BugId})
				break
			}
			if !sameStrings(p.Nodes, ref0.Nodes) {
				fieldUnstable = true
				observed = append(observed, p.Nodes)
			}
		}
		unstable := 0
		for rep := 0; rep < repeats; rep++ {
			for _, size := range sizes {
				for _, forward := range []bool{true, false} {
					dir := "backward"
					if forward {
						dir = "forward"
					}
					before, msg := e2eFetch(h, f, "")
					if msg != "" {
						r.Violation("e2e-listing:"+f.Key, "unpaginated request: "+msg, map[string]any{"field": f.Key})
						continue
					}
					got, pages, pageDefect, fatal := e2eWalk(h, f, size, forward, len(before.Nodes))
					after, _ := e2eFetch(h, f, "")
					listings += 2
					changed := !sameStrings(before.Nodes, ref0.Nodes) || (after != nil && !sameStrings(before.Nodes, after.Nodes))
					if changed {
						unstable++
						fieldUnstable = true
						observed = append(observed, before.Nodes)
						if after != nil {
							observed = append(observed, after.Nodes)
						}
					}
					r.Case(fmt.Sprintf("e2e/%s/%s/n=%d/k=%d", f.Key, dir, n, size), n > size)
					r.Count("e2e_walks", 1)
					r.Count("e2e_pages", pages)
					r.Seen("e2e_page_sizes", strconv.Itoa(size))
					firstArg := "last: "
					if forward {
						firstArg = "first: "
					}
					rc := map[string]any{"field": f.Key, "bug": f.BugId, "page_size": size, "direction": dir, "document_first_page": f.document(firstArg + strconv.Itoa(size))}
					if fatal != "" {
						r.Violation("e2e-walk:"+f.Key+":"+dir, fmt.Sprintf("%s, page size %d, %s: %s", f.Key, size, dir, fatal), rc)
						continue
					}
					if pageDefect != "" {
						parts := strings.SplitN(pageDefect, "|", 2)
						// totalCount / window defects are only meaningful on a list that did not change under the walk
						if !fieldUnstable || parts[0] == "nodes-vs-edges" || parts[0] == "cursors" {
							r.Violation("e2e-page:"+f.Key+":"+parts[0], fmt.Sprintf("%s, page size %d, %s: %s", f.Key, size, dir, parts[1]), rc)
						}
					}
					if !fieldUnstable {
						// a list order exists: the walk must reproduce it exactly
						if !sameStrings(got, before.Nodes) {
							r.Violation("e2e-walk:"+f.Key+":"+dir,
								fmt.Sprintf("%s (%d elements), page size %d, %s walk of %d separate requests: %s\n   list: %v\n   walk: %v",
									f.Key, len(before.Nodes), size, dir, pages, describeWalkDiff(got, before.Nodes), shortIds(before.Nodes), shortIds(got)), rc)
						}
						continue
					}
					// The unpaginated listing changes between identical requests, so there is no list order to
					// compare with; what remains of the statement is "every element exactly once".
					if !sameStrings(sortedCopy(got), sortedCopy(before.Nodes)) {
						key := "e2e-walk:" + f.Key + ":" + dir + ":unstable-order"
						note := "the unpaginated listing itself changes order between identical requests, so pages computed by separate requests do not fit together"
						if f.Key == "allBugs" && e2eOnlyTiesMove(h, observed) {
							key += "-among-equal-sort-keys"
							note = "bugs with equal (create Lamport time, create unix time) change their relative order between identical requests, so pages computed by separate requests do not fit together"
						}
						r.Violation(key,
							fmt.Sprintf("%s (%d elements), page size %d, %s walk of %d separate requests: %s [%s]\n   list: %v\n   walk: %v",
								f.Key, len(before.Nodes), size, dir, pages, describeWalkDiff(got, before.Nodes), note, shortIds(before.Nodes), shortIds(got)), rc)
					}
				}
			}
		}
		if !fieldUnstable && n >= 2 {
			stable = append(stable, e2eStable{f, ref0.Nodes})
		}
		if fieldUnstable {
			r.Seen("e2e_fields_without_stable_order", f.Key)
			r.Count("e2e_distinct_orders_seen/"+f.Key, e2eDistinctOrders(observed))
		}
		if unstable > 0 {
			r.Count("e2e_unstable_listing_observations/"+f.Key, unstable)
		}
		r.Count("e2e_unpaginated_listings", listings)
	}
	// One request that asks for the same list several times under aliases (what a client showing the head and the tail of a
	// list does): every alias must answer as the same arguments do in a request of their own.
	for _, st := range stable {
		f := st.f
		if f.BugId == "" {
			continue
		}
		n := len(st.ref)
		argSets := []string{"", "first: 2", "last: 2", fmt.Sprintf("first: %d", n), "last: 1"}
		var parts []string
		for k, args := range argSets {
			a := args
			if a != "" {
				a = "(" + a + ")"
			}
			parts = append(parts, fmt.Sprintf(`a%d: %s%s { totalCount nodes { %s } edges { node { %s } } }`, k, f.Field, a, f.NodeKey, f.NodeKey))
		}
		for round := 0; round < 2; round++ {
			resp := h.Post(false, fmt.Sprintf(`query { repository { bug(prefix: %q) { %s } } }`, f.BugId, strings.Join(parts, " ")), nil)
			r.Count("e2e_aliased_requests", 1)
			if resp.HasErrors() {
				r.Violation("e2e-aliases:"+f.Key+":request-failed", "a request listing "+f.Key+" under five aliases failed: "+resp.ErrorText(), map[string]any{"field": f.Key})
				break
			}
			bad := ""
			for k, args := range argSets {
				con := jget(resp.Data, "repository", "bug", fmt.Sprintf("a%d", k))
				got := jstrs(jlist(con, "nodes"), f.NodeKey)
				total, _ := jint(con, "totalCount")
				want := st.ref
				switch {
				case strings.HasPrefix(args, "first: "):
					k, _ := strconv.Atoi(strings.TrimPrefix(args, "first: "))
					if k < len(want) {
						want = want[:k]
					}
				case strings.HasPrefix(args, "last: "):
					k, _ := strconv.Atoi(strings.TrimPrefix(args, "last: "))
					if k < len(want) {
						want = want[len(want)-k:]
					}
				}
				if !sameStrings(got, want) || total != n {
					bad = fmt.Sprintf("alias a%d (%s) of round %d: nodes %v totalCount %d, the same arguments alone give %v of %d", k, args, round, shortIds(got), total, shortIds(want), n)
					break
				}
			}
			if bad != "" {
				r.Violation("e2e-aliases:"+f.Key, f.Key+": "+bad, map[string]any{"field": f.Key, "bug": f.BugId})
				break
			}
		}
		r.Case("e2e/aliases/"+f.Key, true)
	}

	// Several clients page through the lists at the same time (the web UI sends sibling requests concurrently, and
	// one server answers many users): every walk must still reproduce the list, whatever the others are doing.
	{
		type job struct {
			st      e2eStable
			size    int
			forward bool
		}
		var jobs []job
		for _, st := range stable {
			for _, size := range []int{1, 2, 3} {
				for _, fw := range []bool{true, false} {
					jobs = append(jobs, job{st, size, fw})
				}
			}
		}
		var mu sync.Mutex
		reported := map[string]bool{}
		for round := 0; round < r.Pick(3, 12); round++ {
			var wg sync.WaitGroup
			sem := make(chan struct{}, 8)
			for _, j := range jobs {
				wg.Add(1)
				sem <- struct{}{}
				go func(j job) {
					defer wg.Done()
					defer func() { <-sem }()
					got, pages, pageDefect, fatal := e2eWalk(h, j.st.f, j.size, j.forward, len(j.st.ref))
					dir := "backward"
					if j.forward {
						dir = "forward"
					}
					r.Count("e2e_concurrent_walks", 1)
					r.Count("e2e_concurrent_pages", pages)
					what := ""
					switch {
					case fatal != "":
						what = fatal
					case !sameStrings(got, j.st.ref):
						what = describeWalkDiff(got, j.st.ref)
					case strings.HasPrefix(pageDefect, "cursors|") || strings.HasPrefix(pageDefect, "nodes-vs-edges|"):
						what = strings.SplitN(pageDefect, "|", 2)[1]
					}
					if what == "" {
						return
					}
					key := "e2e-concurrent-walk:" + j.st.f.Key + ":" + dir
					mu.Lock()
					first := !reported[key]
					reported[key] = true
					mu.Unlock()
					if first {
						r.Violation(key, fmt.Sprintf("%s (%d elements), page size %d, %s walk while 7 other walks were running: %s (the same walk alone reproduces the list)", j.st.f.Key, len(j.st.ref), j.size, dir, what),
							map[string]any{"field": j.st.f.Key, "page_size": j.size, "direction": dir, "concurrent": true})
					}
				}(j)
			}
			wg.Wait()
		}
		r.Case(fmt.Sprintf("e2e/concurrent-walks/fields=%d", len(stable)), len(stable) > 0)
	}
	// A server that lives on: the same query is listed and walked, then a bug is changed through the served cache so that
	// the answer changes while the number of bugs does not (an open bug is closed), and the query is listed and walked
	// again by further requests. Reference: what the served cache answers to the same query at that moment.
	func() {
		const qs = "status:open"
		f := e2eField{Key: "allBugs[" + qs + "]", Schema: "Repository.allBugs", Field: "allBugs", NodeKey: "id", Extra: fmt.Sprintf("query: %q", qs)}
		q, err := query.Parse(qs)
		if err != nil {
			r.Inconclusive("e2e: " + err.Error())
			return
		}
		truth := func() []string {
			ids, err := h.RC.Bugs().Query(q)
			if err != nil {
				return nil
			}
			out := make([]string, len(ids))
			for i, id := range ids {
				out[i] = id.String()
			}
			return out
		}
		look := func(stage string) bool {
			ref := truth()
			list, msg := e2eFetch(h, f, "")
			if msg != "" {
				r.Violation("e2e-listing:"+f.Key, stage+": "+msg, map[string]any{"field": f.Key, "stage": stage})
				return false
			}
			ok := true
			if !sameStrings(list.Nodes, ref) || list.Total != len(ref) {
				ok = false
				r.Violation("e2e-query-list-vs-cache:"+stage, fmt.Sprintf("%s, %s: the unpaginated request lists %d bugs (totalCount %d), the served cache answers the same query with %d: %s", f.Key, stage, len(list.Nodes), list.Total, len(ref), describeWalkDiff(list.Nodes, ref)),
					map[string]any{"field": f.Key, "stage": stage})
			}
			for _, size := range []int{2, 5} {
				got, pages, _, fatal := e2eWalk(h, f, size, true, len(list.Nodes))
				r.Count("e2e_query_walks", 1)
				r.Count("e2e_query_walk_pages", pages)
				if fatal != "" || !sameStrings(got, ref) {
					ok = false
					what := fatal
					if what == "" {
						what = describeWalkDiff(got, ref)
					}
					r.Violation("e2e-query-walk-vs-cache:"+stage, fmt.Sprintf("%s, %s, page size %d: %s", f.Key, stage, size, what), map[string]any{"field": f.Key, "stage": stage, "page_size": size})
				}
			}
			return ok
		}
		if !look("before-the-change") {
			return
		}
		open := truth()
		if len(open) < 2 {
			r.Inconclusive("e2e: fewer than two open bugs are served")
			return
		}
		bc, err := h.RC.Bugs().Resolve(entity.Id(open[len(open)/2]))
		if err == nil {
			var author *cache.IdentityCache
			if author, err = h.RC.Identities().Resolve(r0.Authors[0].Id()); err == nil {
				_, err = bc.CloseRaw(author, 1700000000, nil)
			}
		}
		if err == nil {
			err = bc.Commit()
		}
		if err != nil {
			r.Inconclusive("e2e: cannot close a served bug: " + err.Error())
			return
		}
		look("after-an-open-bug-was-closed")
		r.Case("e2e/query-walk-around-a-change", true)
	}()
	r.Count("e2e_http_requests", int(h.Requests))
}

func firstDupString(l []string) string {
	seen := map[string]bool{}
	for _, x := range l {
		if x != "" && seen[x] {
			return x
		}
		seen[x] = true
	}
	return ""
}

func e2eDistinctOrders(observed [][]string) int {
	set := map[string]bool{}
	for _, o := range observed {
		set[strings.Join(o, ",")] = true
	}
	return len(set)
}

// e2eOnlyTiesMove says whether all observed listings of allBugs agree once every bug is replaced by its
// sort key (create Lamport time, create unix time), i.e. only bugs with equal keys trade places.
func e2eOnlyTiesMove(h *GQLHarness, observed [][]string) bool {
	keyOf := func(id string) string {
		ex, err := h.RC.Bugs().ResolveExcerpt(entity.Id(id))
		if err != nil {
			return "?" + id
		}
		return fmt.Sprintf("%d/%d", ex.CreateLamportTime, ex.CreateUnixTime)
	}
	var first []string
	for i, o := range observed {
		keys := make([]string, len(o))
		for j, id := range o {
			keys[j] = keyOf(id)
		}
		if i == 0 {
			first = keys
		} else if !sameStrings(first, keys) {
			return false
		}
	}
	return true
}
