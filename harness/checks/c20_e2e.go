package checks

import "verif/harness/mon"

// c20EndToEnd walks the paginated GraphQL fields of a served repository. Filled in once the
// GraphQL harness (shared with C17) exists.
var c20EndToEnd = func(r *mon.Run) {}
