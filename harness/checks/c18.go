package checks

import (
	"encoding/json"
	"fmt"
	"math/rand"
	"os"
	"path/filepath"
	"reflect"
	"regexp"
	"runtime"
	"sort"
	"strings"
	"sync"
	"sync/atomic"
	"syscall"
	"time"

	"github.com/anishathalye/porcupine"

	"github.com/MichaelMure/git-bug/cache"
	"github.com/MichaelMure/git-bug/entities/bug"
	"github.com/MichaelMure/git-bug/entity"
	"github.com/MichaelMure/git-bug/query"

	"verif/harness/gitraw"
	"verif/harness/mon"
	"verif/harness/world"
)

// ConcConfig describes one concurrent workload (run in a child process).
type ConcConfig struct {
	Name       string `json:"name"`
	Dir        string `json:"dir"`
	Workers    int    `json:"workers"`
	Calls      int    `json:"calls"` // per worker
	GoMaxProcs int    `json:"gomaxprocs"`
	CacheSize  int    `json:"cache_size"`
	Shared     int    `json:"shared_bugs"`
	Private    bool   `json:"private_bugs"`
	Unloaded   bool   `json:"unloaded"`             // close and reopen the cache before the workers start
	CommitAll  bool   `json:"commit_all,omitempty"` // every edit is committed by its own call (nothing left for the final commit pass, which rewrites the cache file)
	Seed       int64  `json:"seed"`
	Mix        string `json:"mix"` // edits | mixed | readheavy
	Yield      int    `json:"hook_yield_permille"`
	Delays     string `json:"hook_delays"`
	Race       bool   `json:"race_build"`
	Bursts     int    `json:"bursts"` // synchronised all-worker bursts on one bug followed by a quiescent excerpt check
}

// ConcEvent is one client-boundary record.
type ConcEvent struct {
	W      int      `json:"w"`
	Op     string   `json:"op"`
	Bug    string   `json:"bug,omitempty"`
	Marker string   `json:"marker,omitempty"`
	Call   int64    `json:"call"`
	Ret    int64    `json:"ret"`
	Ok     bool     `json:"ok"`
	Acked  bool     `json:"acked,omitempty"` // append succeeded and the following commit returned nil
	Err    string   `json:"err,omitempty"`
	Read   []string `json:"read,omitempty"`
}

// ConcOutput is what the child reports.
type ConcOutput struct {
	Events  []ConcEvent    `json:"events"`
	Bugs    []string       `json:"bugs"`
	Hooks   map[string]int `json:"hooks"`
	Harness string         `json:"harness,omitempty"`
}

var markerRe = regexp.MustCompile(`mk[0-9]+w[0-9]+x`)

func concChild(args []string) int {
	var cfg ConcConfig
	if len(args) < 1 || json.Unmarshal([]byte(args[0]), &cfg) != nil {
		fmt.Fprintln(os.Stderr, "conc: bad config")
		return 3
	}
	if cfg.GoMaxProcs > 0 {
		runtime.GOMAXPROCS(cfg.GoMaxProcs)
	}
	out := ConcOutput{Hooks: map[string]int{}}
	emit := func() int {
		b, _ := json.Marshal(out)
		_ = os.WriteFile(filepath.Join(cfg.Dir, "conc-output.json"), b, 0o644)
		fmt.Println("@@DONE")
		return 0
	}
	rep, err := world.InitRepo(filepath.Join(cfg.Dir, "repo"), false)
	if err != nil {
		out.Harness = err.Error()
		return emit()
	}
	c, err := cache.NewRepoCacheNoEvents(rep.Repo)
	if err != nil {
		out.Harness = err.Error()
		return emit()
	}
	u, err := c.Identities().New("Conc User", "conc@example.com")
	if err == nil {
		err = c.SetUserIdentity(u)
	}
	if err != nil {
		out.Harness = err.Error()
		return emit()
	}
	var shared []entity.Id
	for i := 0; i < cfg.Shared; i++ {
		b, _, err := c.Bugs().New(fmt.Sprintf("shared bug %d", i), "shared")
		if err != nil {
			out.Harness = err.Error()
			return emit()
		}
		shared = append(shared, b.Id())
	}
	private := make([]entity.Id, cfg.Workers)
	if cfg.Private {
		for w := 0; w < cfg.Workers; w++ {
			b, _, err := c.Bugs().New(fmt.Sprintf("private bug of worker %d", w), "private")
			if err != nil {
				out.Harness = err.Error()
				return emit()
			}
			private[w] = b.Id()
		}
	}
	if cfg.Unloaded {
		if err := c.Close(); err != nil {
			out.Harness = "close: " + err.Error()
			return emit()
		}
		nrep, err := world.OpenRepo(rep.Dir, rep.KR)
		if err != nil {
			out.Harness = "reopen: " + err.Error()
			return emit()
		}
		rep = nrep
		c, err = cache.NewRepoCacheNoEvents(rep.Repo)
		if err != nil {
			out.Harness = "reopen cache: " + err.Error()
			return emit()
		}
	}
	c.VerifSetCacheSize(cfg.CacheSize)
	for _, id := range shared {
		out.Bugs = append(out.Bugs, id.String())
	}

	var clock int64
	now := func() int64 { return atomic.AddInt64(&clock, 1) }
	var mu sync.Mutex
	record := func(e ConcEvent) {
		mu.Lock()
		out.Events = append(out.Events, e)
		mu.Unlock()
	}
	var markerN int64
	newMarker := func(w int) string { return fmt.Sprintf("mk%dw%dx", atomic.AddInt64(&markerN, 1), w) }

	commentMarkers := func(b *cache.BugCache) []string {
		var ms []string
		for _, cm := range b.Snapshot().Comments {
			if m := markerRe.FindString(cm.Message); m != "" {
				ms = append(ms, m)
			}
		}
		return ms
	}

	// progress watchdog: when no call has returned for a long while, ask the runtime for a goroutine dump
	// (SIGQUIT to ourselves). Time only decides when to look; the parent decides from the dump whether every
	// worker is parked on a lock.
	var lastProgress int64
	stopWatch := make(chan struct{})
	go func() {
		seen, idle := int64(-1), 0
		for {
			select {
			case <-stopWatch:
				return
			case <-time.After(time.Second):
			}
			cur := atomic.LoadInt64(&clock) + atomic.LoadInt64(&lastProgress)
			if cur == seen {
				idle++
			} else {
				seen, idle = cur, 0
			}
			if idle >= 20 {
				fmt.Println("@@NO-PROGRESS for 20 s, requesting a goroutine dump")
				_ = syscall.Kill(os.Getpid(), syscall.SIGQUIT)
				return
			}
		}
	}()
	defer close(stopWatch)

	var wg sync.WaitGroup
	start := make(chan struct{})
	for w := 0; w < cfg.Workers; w++ {
		wg.Add(1)
		go func(w int) {
			defer wg.Done()
			rng := rand.New(rand.NewSource(cfg.Seed*1000 + int64(w)))
			<-start
			for n := 0; n < cfg.Calls; n++ {
				// pick a target
				var id entity.Id
				if len(shared) > 0 && (!cfg.Private || rng.Intn(3) > 0) {
					id = shared[rng.Intn(len(shared))]
				} else if cfg.Private {
					id = private[w]
				}
				x := rng.Intn(100)
				editShare, readShare := 70, 25
				switch cfg.Mix {
				case "edits":
					editShare, readShare = 92, 6
				case "readheavy":
					editShare, readShare = 35, 60
				}
				switch {
				case x < editShare && id != "":
					kind := []string{"comment", "comment", "comment", "title", "label", "status"}[rng.Intn(6)]
					m := newMarker(w)
					ev := ConcEvent{W: w, Op: kind, Bug: id.String(), Marker: m, Call: now()}
					b, err := c.Bugs().Resolve(id)
					if err == nil {
						switch kind {
						case "comment":
							_, _, err = b.AddComment("comment " + m)
						case "title":
							_, err = b.SetTitle("title " + m)
						case "label":
							_, _, err = b.ChangeLabels([]string{m}, nil)
						case "status":
							if rng.Intn(2) == 0 {
								_, err = b.Close()
							} else {
								_, err = b.Open()
							}
							ev.Marker = ""
						}
					}
					ev.Ret = now()
					ev.Ok = err == nil
					if err != nil {
						ev.Err = errClass(err)
						record(ev)
						continue
					}
					// commit (sometimes left to a later call)
					if rng.Intn(5) > 0 || cfg.CommitAll {
						cev := ConcEvent{W: w, Op: "commit", Bug: id.String(), Call: now()}
						var cerr error
						if rng.Intn(2) == 0 {
							cerr = b.CommitAsNeeded()
						} else {
							cerr = b.Commit()
							if cerr != nil && strings.Contains(cerr.Error(), "no pending operation") {
								cerr = nil // somebody else committed our operation with theirs
							}
						}
						cev.Ret = now()
						cev.Ok = cerr == nil
						if cerr != nil {
							cev.Err = errClass(cerr)
						}
						ev.Acked = cerr == nil
						record(ev)
						record(cev)
					} else {
						record(ev)
					}
				case x < editShare+readShare && id != "":
					ev := ConcEvent{W: w, Bug: id.String(), Call: now()}
					var err error
					switch rng.Intn(10) {
					case 9:
						// a full-text query whose terms match the bugs other workers are creating at this moment
						ev.Op = "query-search"
						var q *query.Query
						if q, err = query.Parse([]string{"new", "created concurrently", "new status:open", "comment"}[rng.Intn(4)]); err == nil {
							_, err = c.Bugs().Query(q)
						}
					case 6:
						ev.Op = "resolve-excerpt-prefix"
						_, err = c.Bugs().ResolveExcerptPrefix(id.String()[:10])
					case 7:
						ev.Op = "resolve-comment"
						// the combined id of the creation comment interleaves the bug id and the comment id
						var b *cache.BugCache
						if b, err = c.Bugs().Resolve(id); err == nil {
							if cs := b.Snapshot().Comments; len(cs) > 0 {
								_, _, err = c.Bugs().ResolveComment(cs[0].CombinedId().String()[:20])
							}
						}
					case 8:
						ev.Op = "identity-lookups"
						for _, iid := range c.Identities().AllIds() {
							if _, err = c.Identities().ResolveExcerptPrefix(iid.String()[:10]); err != nil {
								break
							}
							if _, err = c.Identities().ResolvePrefix(iid.String()[:10]); err != nil {
								break
							}
						}
					case 0, 1:
						ev.Op = "snapshot"
						var b *cache.BugCache
						if b, err = c.Bugs().Resolve(id); err == nil {
							ev.Read = commentMarkers(b)
						}
					case 2:
						ev.Op = "resolve-prefix"
						_, err = c.Bugs().ResolvePrefix(id.String()[:10])
					case 3:
						ev.Op = "query"
						var q *query.Query
						if q, err = query.Parse("status:open sort:edit"); err == nil {
							_, err = c.Bugs().Query(q)
						}
					case 4:
						ev.Op = "query-nil"
						_, err = c.Bugs().Query(nil)
					case 5:
						ev.Op = "valid-labels"
						_ = c.Bugs().ValidLabels()
						_ = c.Bugs().AllIds()
					}
					ev.Ret = now()
					ev.Ok = err == nil
					if err != nil {
						ev.Err = errClass(err)
					}
					record(ev)
				default:
					m := newMarker(w)
					ev := ConcEvent{W: w, Op: "new", Marker: m, Call: now()}
					b, _, err := c.Bugs().New("new "+m, "created concurrently")
					ev.Ret = now()
					ev.Ok = err == nil
					ev.Acked = err == nil
					if err != nil {
						ev.Err = errClass(err)
					} else {
						ev.Bug = b.Id().String()
					}
					record(ev)
				}
			}
		}(w)
	}
	close(start)
	wg.Wait()

	// bursts: all workers edit and commit the same bug at the same instant, then everybody stops: at that
	// quiescent point the excerpt the cache serves must describe the bug's current state (the notifications of
	// the burst race with each other; the last one stored must not be an older one)
	if len(shared) > 0 && cfg.CacheSize >= 100 {
		for round := 0; round < cfg.Bursts; round++ {
			id := shared[round%len(shared)]
			var bw sync.WaitGroup
			gate := make(chan struct{})
			for w := 0; w < cfg.Workers; w++ {
				bw.Add(1)
				go func(w int) {
					defer bw.Done()
					<-gate
					m := newMarker(w)
					ev := ConcEvent{W: w, Op: "comment", Bug: id.String(), Marker: m, Call: now()}
					b, err := c.Bugs().Resolve(id)
					if err == nil {
						_, _, err = b.AddComment("comment " + m)
					}
					ev.Ret = now()
					ev.Ok = err == nil
					if err != nil {
						ev.Err = errClass(err)
						record(ev)
						return
					}
					cerr := b.CommitAsNeeded()
					ev.Acked = cerr == nil
					record(ev)
				}(w)
			}
			close(gate)
			bw.Wait()
			b, err := c.Bugs().Resolve(id)
			ex, err2 := c.Bugs().ResolveExcerpt(id)
			if err != nil || err2 != nil {
				record(ConcEvent{W: -1, Op: "quiescent-check", Bug: id.String(), Err: fmt.Sprintf("resolve: %v %v", err, err2)})
				continue
			}
			snap := b.Snapshot()
			if ex.LenComments != len(snap.Comments) || ex.Status != snap.Status || ex.Title != snap.Title || ex.EditLamportTime != b.EditLamportTime() {
				record(ConcEvent{W: -1, Op: "quiescent-check", Bug: id.String(),
					Err: fmt.Sprintf("after burst %d the excerpt says %d comments / edit time %d, the bug has %d comments / edit time %d", round, ex.LenComments, ex.EditLamportTime, len(snap.Comments), b.EditLamportTime())})
			} else {
				record(ConcEvent{W: -1, Op: "quiescent-check", Bug: id.String(), Ok: true})
			}
		}
	}
	// bursts on DIFFERENT bugs (edits of one bug are serialised by the bug's own lock): every worker edits and
	// commits its private bug at the same instant, then everybody stops. The notifications overlap, each rewrites the
	// cache file; the file left behind is what the next process loads: the cache is closed and opened again from it
	// and every excerpt must describe its bug as stored (a newer write overtaken by an older one shows here). The
	// last round is left to the parent's comparison with a rebuilt cache.
	if cfg.CommitAll && cfg.Private && cfg.CacheSize >= 100 {
		rounds := 6
		for round := 0; round < rounds; round++ {
			var bw sync.WaitGroup
			gate := make(chan struct{})
			cc := c
			for w := 0; w < cfg.Workers; w++ {
				bw.Add(1)
				go func(w int) {
					defer bw.Done()
					<-gate
					for k := 0; k < 2; k++ {
						m := newMarker(w)
						ev := ConcEvent{W: w, Op: "comment", Bug: private[w].String(), Marker: m, Call: now()}
						b, err := cc.Bugs().Resolve(private[w])
						if err == nil {
							_, _, err = b.AddComment("comment " + m)
						}
						ev.Ret = now()
						ev.Ok = err == nil
						if err != nil {
							ev.Err = errClass(err)
							record(ev)
							return
						}
						cerr := b.CommitAsNeeded()
						ev.Acked = cerr == nil
						record(ev)
					}
				}(w)
			}
			close(gate)
			bw.Wait()
			if round == rounds-1 {
				break
			}
			if err := c.Close(); err != nil {
				record(ConcEvent{W: -1, Op: "close", Err: errClass(err)})
				return emit()
			}
			nc, err := cache.NewRepoCacheNoEvents(rep.Repo)
			if err != nil {
				record(ConcEvent{W: -1, Op: "close", Err: "reopen: " + errClass(err)})
				return emit()
			}
			c = nc
			for _, id := range c.Bugs().AllIds() {
				ex, err := c.Bugs().ResolveExcerpt(id)
				if err != nil {
					continue
				}
				fresh, err := world.ReadBug(rep.Repo, id)
				if err != nil {
					continue
				}
				snap := fresh.Compile()
				if ex.LenComments != len(snap.Comments) || uint64(ex.EditLamportTime) != uint64(fresh.EditLamportTime()) {
					record(ConcEvent{W: -1, Op: "quiescent-check", Bug: id.String(),
						Err: fmt.Sprintf("cache file left behind by burst %d: after closing and re-opening the cache the excerpt of %s says %d comments / edit time %d, the stored bug has %d comments / edit time %d", round, id.Human(), ex.LenComments, ex.EditLamportTime, len(snap.Comments), fresh.EditLamportTime())})
				} else {
					record(ConcEvent{W: -1, Op: "quiescent-check", Bug: id.String(), Ok: true})
				}
			}
		}
	}
	// commit whatever was left staged, then a final read through the cache
	for _, id := range c.Bugs().AllIds() {
		b, err := c.Bugs().Resolve(id)
		if err != nil {
			record(ConcEvent{W: -1, Op: "final-resolve", Bug: id.String(), Err: errClass(err)})
			continue
		}
		if !b.NeedCommit() {
			continue // nothing staged: do not touch the bug, a cache notification would refresh (and so hide) a stale excerpt
		}
		ev := ConcEvent{W: -1, Op: "final-commit", Bug: id.String(), Call: now()}
		err = b.Commit()
		ev.Ret = now()
		ev.Ok = err == nil
		if err != nil {
			ev.Err = errClass(err)
		}
		record(ev)
	}
	if err := c.Close(); err != nil {
		record(ConcEvent{W: -1, Op: "close", Err: errClass(err)})
	}
	return emit()
}

// ---- offline checkers (parent) ------------------------------------------------------------

type concVerdict struct {
	key, what string
}

type concStats struct {
	acked, stored, events int
	quiescent             int
	fingerprint           string
	porcupine             string
	linearizableBugs      int
	errors                map[string]int
}

func checkConc(cfg ConcConfig, out ConcOutput) ([]concVerdict, concStats) {
	var vs []concVerdict
	st := concStats{errors: map[string]int{}}
	fail := func(k, w string) { vs = append(vs, concVerdict{k, w}) }
	st.events = len(out.Events)
	rep, err := world.OpenRepo(filepath.Join(cfg.Dir, "repo"), nil)
	if err != nil {
		fail("repo-does-not-open-after-run", err.Error())
		return vs, st
	}
	defer rep.Repo.Close()

	// what is stored: marker -> (bug, count); per bug ordered comment markers
	stored := map[string]int{}
	storedIn := map[string]string{}
	order := map[string][]string{}
	ids, _ := rep.BugIds()
	for _, id := range ids {
		h, ok, err := gitraw.ReadRef(rep.Repo, "refs/bugs/"+id.String())
		if !ok || err != nil {
			fail("bug-unreadable-raw", fmt.Sprintf("bug %s: %v", id.Human(), err))
			continue
		}
		for _, cm := range h.Commits {
			if len(cm.Parents) > 1 {
				fail("history-not-a-chain", fmt.Sprintf("bug %s has a merge commit although nothing was pulled", id.Human()))
			}
			for _, o := range cm.Ops {
				// a set-title operation also records the previous title ("was"): not a second submission
				var fields map[string]json.RawMessage
				_ = json.Unmarshal(o.Raw, &fields)
				delete(fields, "was")
				scan, _ := json.Marshal(fields)
				for _, m := range markerRe.FindAllString(string(scan), -1) {
					stored[m]++
					storedIn[m] = id.String()
					st.stored++
				}
			}
		}
		// a chain: exactly one commit without child
		children := map[string]int{}
		for _, cm := range h.Commits {
			for _, p := range cm.Parents {
				children[p]++
			}
		}
		for p, n := range children {
			if n > 1 {
				fail("history-forks", fmt.Sprintf("bug %s: commit %s has %d children: the stored history is not a single chain", id.Human(), short(p), n))
			}
		}
		b, err := world.ReadBug(rep.Repo, id)
		if err != nil {
			fail("bug-unreadable-after-run:"+errKey(err.Error()), fmt.Sprintf("bug %s: %v", id.Human(), err))
			continue
		}
		if err := safeValidate(b); err != nil {
			fail("bug-invalid-after-run:"+errKey(err.Error()), fmt.Sprintf("bug %s: %v", id.Human(), err))
		}
		for _, cm := range b.Compile().Comments {
			if m := markerRe.FindString(cm.Message); m != "" {
				order[id.String()] = append(order[id.String()], m)
			}
		}
	}
	submitted := map[string]ConcEvent{}
	for _, e := range out.Events {
		if e.Err != "" {
			st.errors[e.Op+": "+e.Err]++
		}
		if e.Marker != "" {
			submitted[e.Marker] = e
		}
	}
	for m, e := range submitted {
		n := stored[m]
		want := 1
		if e.Op == "title" || e.Op == "comment" || e.Op == "new" {
			want = 1
		}
		if e.Acked {
			st.acked++
			if n == 0 {
				fail("acknowledged-operation-lost:"+e.Op, fmt.Sprintf("%s %s on bug %s by worker %d was acknowledged (append and commit returned nil) but is not stored", e.Op, m, short(e.Bug), e.W))
			}
		}
		if n > want {
			fail("operation-stored-twice:"+e.Op, fmt.Sprintf("%s %s is stored %d times", e.Op, m, n))
		}
		if n > 0 && e.Bug != "" && e.Op != "new" && storedIn[m] != e.Bug {
			fail("operation-stored-in-wrong-bug", fmt.Sprintf("%s %s submitted to bug %s is stored in bug %s", e.Op, m, short(e.Bug), short(storedIn[m])))
		}
	}
	for m := range stored {
		if _, ok := submitted[m]; !ok {
			fail("phantom-operation", "stored marker "+m+" was never submitted")
		}
	}
	for _, e := range out.Events {
		if e.Op == "quiescent-check" {
			if e.Ok {
				st.quiescent++
			} else {
				fail("excerpt-stale-at-quiescent-point", e.Err)
			}
			continue
		}
		if e.Op == "final-resolve" || (e.Op == "final-commit" && !e.Ok) || e.Op == "close" {
			fail("final-"+e.Op+"-fails:"+e.Err, fmt.Sprintf("after the workers were done: %s on %s: %s", e.Op, short(e.Bug), e.Err))
		}
	}

	// the persisted clocks must dominate everything stored (concurrent increments write the clock file from
	// several goroutines)
	var maxEdit, maxCreate uint64
	for _, id := range ids {
		if h, ok, err := gitraw.ReadRef(rep.Repo, "refs/bugs/"+id.String()); ok && err == nil {
			if m := h.MaxEdit(); m > maxEdit {
				maxEdit = m
			}
			if m := h.MaxCreate(); m > maxCreate {
				maxCreate = m
			}
		}
	}
	for name, want := range map[string]uint64{"bugs-edit": maxEdit, "bugs-create": maxCreate} {
		data, err := os.ReadFile(filepath.Join(cfg.Dir, "repo", ".git", "git-bug", "clocks", name))
		if err != nil {
			continue
		}
		var v uint64
		fmt.Sscanf(strings.TrimSpace(string(data)), "%d", &v)
		if v < want {
			fail("clock-file-below-stored-time:"+name, fmt.Sprintf("after the run the clock file %s holds %d but a stored commit carries %d", name, v, want))
		}
	}

	// porcupine: per bug, append-only list of comment markers
	st.porcupine, st.linearizableBugs = concLinearizable(out, order, storedIn, fail)

	// interleaving fingerprint: per-bug committed marker order
	var fp []string
	for _, id := range world.SortedKeys(order) {
		fp = append(fp, strings.Join(order[id], ","))
	}
	st.fingerprint = mon.Hash(fp...)

	// C11 comparator after join: a cache opened now vs a rebuilt one
	c, err := cache.NewRepoCacheNoEvents(rep.Repo)
	if err != nil {
		fail("cache-reopen-fails:"+errKey(err.Error()), err.Error())
		return vs, st
	}
	live, lerr := takeView(c, nil)
	_ = c.Close()
	rebuilt, rerr := rebuiltView(rep.Dir, nil)
	if lerr != nil || rerr != nil {
		fail("cache-view-fails", fmt.Sprintf("live: %v rebuilt: %v", lerr, rerr))
	} else if k, w := diffCacheViews(live, rebuilt); k != "" {
		fail("cache-disagrees-with-rebuild:"+k, w)
	}
	return vs, st
}

type linIn struct {
	Bug    string
	Append bool
	Marker string
}

func concLinearizable(out ConcOutput, order map[string][]string, storedIn map[string]string, fail func(k, w string)) (string, int) {
	type lop struct {
		w         int
		app       bool
		marker    string
		read      []string
		call, ret int64
	}
	var end int64
	for _, e := range out.Events {
		if e.Ret > end {
			end = e.Ret
		}
	}
	end += 10
	perBug := map[string][]lop{}
	for _, e := range out.Events {
		switch e.Op {
		case "comment":
			ret := e.Ret
			if !e.Ok {
				// an errored call stays open until the end of the history: it took effect iff its marker is stored
				if storedIn[e.Marker] == "" {
					continue
				}
				ret = end
			}
			perBug[e.Bug] = append(perBug[e.Bug], lop{w: e.W, app: true, marker: e.Marker, call: e.Call, ret: ret})
		case "snapshot":
			if e.Ok {
				perBug[e.Bug] = append(perBug[e.Bug], lop{w: e.W, read: e.Read, call: e.Call, ret: e.Ret})
			}
		}
	}
	verdict := "ok"
	checked := 0
	var pops []porcupine.Operation
	for _, b := range world.SortedKeys(perBug) {
		ops := perBug[b]
		final := order[b]
		pos := map[string]int{}
		for i, m := range final {
			pos[m] = i
		}
		// Exact decision for this model (append-only list of unique values, reads return the whole list, the final
		// stored order is known): the only candidate linearization puts the appends in final order and every read
		// right after the append that completes the prefix it returned; reads of the same slot ordered by call time.
		// The history is linearizable iff that sequence respects real time.
		type slot struct {
			k   int // number of appends before this op in the candidate order
			app bool
			op  lop
		}
		var seq []slot
		bad := ""
		for _, o := range ops {
			if o.app {
				p, ok := pos[o.marker]
				if !ok {
					continue // never stored: reported by the exactly-once checker when acknowledged
				}
				seq = append(seq, slot{k: p, app: true, op: o})
				continue
			}
			if len(o.read) > len(final) || strings.Join(o.read, ",") != strings.Join(final[:len(o.read)], ",") {
				bad = fmt.Sprintf("a snapshot read by worker %d returned %v which is not a prefix of the stored order %v", o.w, o.read, final)
				break
			}
			seq = append(seq, slot{k: len(o.read), op: o})
		}
		if bad == "" {
			sort.SliceStable(seq, func(i, j int) bool {
				a, c := seq[i], seq[j]
				// an append with index p sits at position p; a read of k elements sits after append k-1 and before append k
				ka, kc := a.k*2, c.k*2
				if a.app {
					ka++ // append p -> odd slot 2p+1; read of k -> even slot 2k (after append k-1 = slot 2k-1)
				}
				if c.app {
					kc++
				}
				if ka != kc {
					return ka < kc
				}
				return a.op.call < c.op.call
			})
			for i := 0; i < len(seq) && bad == ""; i++ {
				for j := i + 1; j < len(seq); j++ {
					if seq[j].op.ret < seq[i].op.call {
						bad = fmt.Sprintf("bug %s: %s must come before %s in any linearization consistent with the stored order, but the second returned (t=%d) before the first was invoked (t=%d)", short(b), describeLop(seq[i].app, seq[i].op.marker, seq[i].k), describeLop(seq[j].app, seq[j].op.marker, seq[j].k), seq[j].op.ret, seq[i].op.call)
						break
					}
				}
			}
		}
		if bad != "" {
			verdict = "illegal"
			fail("history-not-linearizable", bad)
			continue
		}
		checked++
		// cross-check small histories with porcupine
		if len(ops) <= 40 {
			for _, o := range ops {
				if o.app {
					if _, ok := pos[o.marker]; !ok {
						continue
					}
					pops = append(pops, porcupine.Operation{ClientId: o.w, Input: linIn{Bug: b, Append: true, Marker: o.marker}, Call: o.call, Output: "", Return: o.ret})
				} else {
					pops = append(pops, porcupine.Operation{ClientId: o.w, Input: linIn{Bug: b}, Call: o.call, Output: strings.Join(o.read, ","), Return: o.ret})
				}
			}
			pops = append(pops, porcupine.Operation{ClientId: 99, Input: linIn{Bug: b}, Call: end + 1, Output: strings.Join(final, ","), Return: end + 2})
		}
	}
	if len(pops) > 0 && verdict == "ok" {
		model := porcupine.Model{
			Partition: func(history []porcupine.Operation) [][]porcupine.Operation {
				m := map[string][]porcupine.Operation{}
				for _, o := range history {
					b := o.Input.(linIn).Bug
					m[b] = append(m[b], o)
				}
				var parts [][]porcupine.Operation
				for _, k := range world.SortedKeys(m) {
					parts = append(parts, m[k])
				}
				return parts
			},
			Init: func() interface{} { return "" },
			Step: func(state, input, output interface{}) (bool, interface{}) {
				in := input.(linIn)
				st := state.(string)
				if in.Append {
					if st == "" {
						return true, in.Marker
					}
					return true, st + "," + in.Marker
				}
				return output.(string) == st, st
			},
			Equal: func(a, b interface{}) bool { return a.(string) == b.(string) },
		}
		switch res, _ := porcupine.CheckOperationsVerbose(model, pops, 30*time.Second); res {
		case porcupine.Illegal:
			// the two deciders disagree: do not trust either
			return "disagreement-direct-ok-porcupine-illegal", checked
		case porcupine.Ok:
			verdict = "ok+porcupine"
		}
	}
	return verdict, checked
}

func describeLop(app bool, marker string, k int) string {
	if app {
		return "append " + marker
	}
	return fmt.Sprintf("a read of %d comments", k)
}

// ---- race log classification -------------------------------------------------------------------

var raceFrame = regexp.MustCompile(`^\s+(github\.com/MichaelMure/git-bug/\S+)\(`)

// raceSignatures reduces the race detector's log files to sorted pairs of innermost git-bug functions.
func raceSignatures(logPrefix string) map[string]int {
	sigs := map[string]int{}
	files, _ := filepath.Glob(logPrefix + "*")
	for _, f := range files {
		data, err := os.ReadFile(f)
		if err != nil {
			continue
		}
		for _, block := range strings.Split(string(data), "==================") {
			if !strings.Contains(block, "WARNING: DATA RACE") {
				continue
			}
			var accesses []string
			cur := ""
			inAccess := false
			for _, l := range strings.Split(block, "\n") {
				t := strings.TrimSpace(l)
				if strings.HasPrefix(t, "Read at") || strings.HasPrefix(t, "Write at") || strings.HasPrefix(t, "Previous read at") || strings.HasPrefix(t, "Previous write at") {
					kind := "read"
					if strings.Contains(strings.ToLower(t), "write") {
						kind = "write"
					}
					cur, inAccess = kind, true
					continue
				}
				if strings.HasPrefix(t, "Goroutine ") || t == "" {
					if inAccess && cur != "" && !strings.Contains(cur, "@") {
						accesses = append(accesses, cur+"@(no git-bug frame)")
					}
					inAccess, cur = false, ""
					continue
				}
				if inAccess && !strings.Contains(cur, "@") {
					if m := raceFrame.FindStringSubmatch(l); m != nil {
						fn := strings.TrimPrefix(m[1], "github.com/MichaelMure/git-bug/")
						fn = regexp.MustCompile(`\[[^\]]*\]`).ReplaceAllString(fn, "")
						fn = regexp.MustCompile(`\.func\d+(\.\d+)*$`).ReplaceAllString(fn, "")
						cur = cur + "@" + fn
						accesses = append(accesses, cur)
					}
				}
			}
			for i := range accesses {
				accesses[i] = raceFamily(accesses[i])
			}
			if len(accesses) >= 2 {
				pair := []string{accesses[0], accesses[1]}
				sort.Strings(pair)
				if strings.HasPrefix(pair[0], "read@") && pair[1] == "write@<operation Apply on the shared snapshot>" {
					sigs["read@<any reader of a handed-out snapshot> <-> "+pair[1]+" || reader="+strings.TrimPrefix(pair[0], "read@")]++
				} else {
					sigs[pair[0]+" <-> "+pair[1]]++
				}
			} else if len(accesses) == 1 {
				sigs[accesses[0]+" <-> (outside git-bug)"]++
			} else {
				sigs["(no git-bug frame in either access)"]++
			}
		}
	}
	return sigs
}

var (
	applyWrite   = regexp.MustCompile(`^write@(entities/bug\.\(\*\w+\)\.(Apply|AppendOperation|addActor|addParticipant|Append)|entities/bug\.New\w+|entity/dag\.NewOpBase|entity/dag\.\(\*(SetMetadataOperation|NoOpOperation|OpBase)\)\.\w+)$`)
	entityGetter = regexp.MustCompile(`^read@entity/dag\.\(\*Entity\)\.(FirstOp|Id|LastOp|Operations|EditLamportTime|CreateLamportTime)$`)
	entityWriter = regexp.MustCompile(`^write@entity/dag\.\(\*Entity\)\.(Commit|Append)$`)
)

// raceFamily maps an access to its family where a whole family has one root cause:
// the compiled snapshot handed out by the cache is shared and mutated in place by later Apply calls.
func raceFamily(access string) string {
	switch {
	case applyWrite.MatchString(access):
		return "write@<operation Apply on the shared snapshot>"
	case entityGetter.MatchString(access):
		return "read@<unlocked getter of the cached entity>"
	case entityWriter.MatchString(access):
		return "write@<Entity.Commit/Append>"
	}
	return access
}

func init() {
	registerChild("conc", concChild)
	register("C18", runC18)
}

func c18Configs(r *mon.Run) []ConcConfig {
	var out []ConcConfig
	workers := []int{2, 4, 8, 16}
	procs := []int{1, 2, 4, 16}
	mixes := []string{"edits", "mixed", "readheavy"}
	n := r.Pick(12, 200)
	nRace := r.Pick(4, 60)
	for i := 0; i < n+nRace; i++ {
		rng := mon.Rng(r.Seed, "c18", i)
		cfg := ConcConfig{
			Workers: workers[rng.Intn(4)], GoMaxProcs: procs[rng.Intn(4)], Calls: 30 + rng.Intn(r.Pick(40, 170)),
			CacheSize: 1000, Shared: 1 + rng.Intn(3), Private: rng.Intn(2) == 0, Unloaded: rng.Intn(2) == 0,
			Seed: rng.Int63n(1 << 40), Mix: mixes[rng.Intn(3)], Race: i >= n,
		}
		if rng.Intn(3) == 0 {
			cfg.Yield = 300
		}
		if rng.Intn(4) == 0 {
			cfg.Delays = "cache.resolve.miss=2ms,cache.commit.unlocked=1ms"
		}
		// a few configurations force eviction
		if i%6 == 5 {
			cfg.CacheSize = 1 + rng.Intn(3)
		}
		cfg.Bursts = r.Pick(12, 60)
		if cfg.Race {
			cfg.Calls = 20 + rng.Intn(30)
			cfg.Bursts = 10
		}
		cfg.Name = fmt.Sprintf("w%d-p%d-c%d-s%d-%s-size%d-unl%v-y%d-race%v", cfg.Workers, cfg.GoMaxProcs, cfg.Calls, cfg.Shared, cfg.Mix, cfg.CacheSize, cfg.Unloaded, cfg.Yield, cfg.Race)
		out = append(out, cfg)
	}
	// the situation of the design-time probe: many workers, one unloaded shared bug
	out = append(out, ConcConfig{Name: "probe-unloaded-shared", Workers: 8, GoMaxProcs: 8, Calls: 12, CacheSize: 1000, Shared: 1, Unloaded: true, Seed: r.Seed, Mix: "edits", Delays: "cache.resolve.miss=5ms"})
	// (edits of one bug are serialised by the bug's own lock: the writers that overlap are those of different bugs; no
	// burst phase, which would rewrite the file afterwards)
	// writers of the cache file leaving the point between encoding and writing in another order than they reached it:
	// the file left behind (what the next process loads) must still describe the last state
	for k := 0; k < r.Pick(8, 30); k++ {
		out = append(out, ConcConfig{Name: fmt.Sprintf("probe-cache-file-write-order-%d", k), Workers: 4 + 2*(k%2), GoMaxProcs: 4, Calls: 6 + k%5, CacheSize: 1000, Shared: 2 + k%2, Private: true, Seed: r.Seed + int64(k), Mix: "edits", CommitAll: true, Delays: "cache.write.encoded=40ms/2"})
	}
	return out
}

func runC18(tier, replay string) int {
	r := mon.NewRun("C18", "exploration", tier)
	cfgs := c18Configs(r)
	if replay != "" {
		var rep struct {
			Case ConcConfig `json:"case"`
		}
		data, err := os.ReadFile(replay)
		if err == nil {
			err = json.Unmarshal(data, &rep)
		}
		if err != nil {
			fmt.Println("cannot read replay:", err)
			return 2
		}
		cfgs = []ConcConfig{rep.Case}
	}
	type outcome struct {
		verdicts []concVerdict
		stats    concStats
		incon    string
		races    map[string]int
		deadlock string
		crash    string
		excerpt  string
	}
	// the children use several cores themselves: limit the number run side by side
	sem := make(chan struct{}, 4)
	outs := parallel(len(cfgs), func(i int) outcome {
		sem <- struct{}{}
		defer func() { <-sem }()
		cfg := cfgs[i]
		cfg.Dir = world.ScratchDir("c18-")
		defer os.RemoveAll(cfg.Dir)
		b, _ := json.Marshal(cfg)
		bin := ""
		env := []string{fmt.Sprintf("VERIF_HOOK_YIELD=%d", cfg.Yield), "VERIF_HOOK_DELAYS=" + cfg.Delays}
		logPrefix := filepath.Join(cfg.Dir, "race.log")
		if cfg.Race {
			bin = filepath.Join(os.Getenv("VERIF_BIN"), "vh-race")
			env = append(env, "GORACE=halt_on_error=0 log_path="+logPrefix)
		}
		cr := mon.RunChild(bin, []string{"child", "conc", string(b)}, env, nil, 240*time.Second)
		o := outcome{}
		if cfg.Race {
			o.races = raceSignatures(logPrefix)
		}
		if cr.TimedOut || strings.Contains(cr.Out, "@@NO-PROGRESS") {
			o.deadlock = classifyWorkers(cr.Out)
			o.excerpt = dumpExcerpt(cr.Out)
			if o.deadlock == "" {
				o.incon = "watchdog fired, dump not classifiable as a deadlock"
			}
			return o
		}
		if cr.Died() || !strings.Contains(cr.Out, "@@DONE") {
			o.crash = mon.PanicSite(cr.Out)
			o.excerpt = mon.CrashExcerpt(cr.Out)
			return o
		}
		var out ConcOutput
		data, err := os.ReadFile(filepath.Join(cfg.Dir, "conc-output.json"))
		if err == nil {
			err = json.Unmarshal(data, &out)
		}
		if err != nil || out.Harness != "" {
			o.incon = fmt.Sprintf("harness: %v %s", err, out.Harness)
			return o
		}
		o.verdicts, o.stats = checkConc(cfg, out)
		return o
	})
	totalRaceReports := 0
	for i, o := range outs {
		cfg := cfgs[i]
		for sig, n := range o.races {
			totalRaceReports += n
			r.Seen("race_signatures", sig)
			if i := strings.Index(sig, " || reader="); i > 0 {
				sig = sig[:i] // one family, one root cause: the reader is kept in the evidence only
			}
			r.Violation("race:"+sig, fmt.Sprintf("the race detector reported %d time(s): %s [config %s]", n, sig, cfg.Name), cfg)
		}
		switch {
		case o.deadlock != "":
			r.Case("deadlock", false)
			if cfg.CacheSize < 100 && strings.HasPrefix(o.deadlock, "deadlock:cache.(*") {
				// with eviction an evicted entity is locked for ever on purpose: whoever still holds it blocks,
				// whatever method it calls
				o.deadlock = "deadlock:use-of-an-evicted-entity"
			}
			r.Violation(o.deadlock+sizeClass(cfg), fmt.Sprintf("workload %s never returns; goroutine dump (excerpt):\n%s", cfg.Name, o.excerpt), cfg)
			continue
		case o.crash != "":
			r.Case("crash", false)
			r.Violation("crash:"+siteFn(o.crash), fmt.Sprintf("process died during workload %s:\n%s", cfg.Name, o.excerpt), cfg)
			continue
		case o.incon != "":
			r.Case("inconclusive", false)
			r.Inconclusive(cfg.Name + ": " + o.incon)
			continue
		}
		r.Case(fmt.Sprintf("w%d/p%d/%s/size%d/unloaded=%v/fp=%s", cfg.Workers, cfg.GoMaxProcs, cfg.Mix, cfg.CacheSize, cfg.Unloaded, o.stats.fingerprint), o.stats.acked > 0)
		r.Seen("interleaving_fingerprints", o.stats.fingerprint)
		r.Count("acknowledged_operations", o.stats.acked)
		r.Count("stored_markers", o.stats.stored)
		r.Count("client_events", o.stats.events)
		r.Count("quiescent_excerpt_checks_after_bursts", o.stats.quiescent)
		r.Count("porcupine/"+o.stats.porcupine, 1)
		r.Count("bug_histories_checked_linearizable", o.stats.linearizableBugs)
		for e, n := range o.stats.errors {
			r.Seen("call_errors", e)
			r.Count("call_errors_total", n)
		}
		if strings.HasPrefix(o.stats.porcupine, "disagreement") {
			r.Inconclusive(cfg.Name + ": the direct linearizability decider and porcupine disagree")
		}
		for _, v := range o.verdicts {
			key := v.key
			if cfg.CacheSize < 100 {
				// consequences of evicting entities that are still in use: the operation kind does not matter
				for _, fam := range []string{"acknowledged-operation-lost", "cache-disagrees-with-rebuild", "history-not-linearizable", "history-forks"} {
					if strings.HasPrefix(key, fam) {
						key = fam
					}
				}
			}
			r.Violation(key+sizeClass(cfg), v.what+" [config "+cfg.Name+"]", cfg)
		}
		if i < 3 {
			r.Sample(map[string]any{"config": cfg, "acked": o.stats.acked, "stored": o.stats.stored, "events": o.stats.events, "porcupine": o.stats.porcupine})
		}
	}
	r.Count("race_reports", totalRaceReports)
	r.Extra("added_in_seeding_round_6", "read mix includes full-text queries whose terms match the bugs other workers are creating (query-search)")
	return r.Finish("generated mixes of cache calls by 2..16 goroutines on shared and private bugs, varying GOMAXPROCS, cache size, loaded/unloaded start, yield/delay injection at hook points; per run: exactly-once / no-phantom / single-chain check on the stored history read by an independent reader, porcupine linearizability of per-bug append/read histories, cache vs rebuild, crash and deadlock classification, race-detector reports on the race build; non-trivial = at least one acknowledged operation; distinct = (workers, procs, mix, cache size, start state, committed-order fingerprint)",
		8, []string{"acknowledged = the append returned an operation and the following Commit/CommitAsNeeded returned nil (a Commit that finds nothing pending because another worker already committed counts as success)", "errored calls stay open in the history: counted as effective iff their unique marker is stored", "a watchdog firing is a deadlock only if the goroutine dump shows every unfinished worker parked on a lock"})
}

func sizeClass(cfg ConcConfig) string {
	if cfg.CacheSize < 100 {
		return ":small-cache"
	}
	return ""
}

// classifyWorkers inspects a goroutine dump: deadlock iff at least one goroutine is parked on a
// mutex in git-bug cache code and no goroutine is runnable/running inside git-bug code.
func classifyWorkers(dump string) string {
	parked := ""
	for _, b := range strings.Split(dump, "\n\n") {
		lines := strings.Split(b, "\n")
		if len(lines) == 0 || !strings.HasPrefix(lines[0], "goroutine ") {
			continue
		}
		head := lines[0]
		inGitBug := ""
		for _, l := range lines[1:] {
			t := strings.TrimSpace(l)
			if strings.HasPrefix(t, "github.com/MichaelMure/git-bug/") {
				fn := strings.TrimPrefix(t, "github.com/MichaelMure/git-bug/")
				if j := strings.LastIndex(fn, "("); j > 0 {
					fn = fn[:j]
				}
				fn = regexp.MustCompile(`\[[^\]]*\]`).ReplaceAllString(fn, "")
				inGitBug = fn
				break
			}
		}
		if inGitBug == "" {
			continue
		}
		if strings.Contains(head, "[running]") || strings.Contains(head, "[runnable]") || strings.Contains(head, "[syscall") || strings.Contains(head, "[IO wait") {
			return "" // progress is still possible
		}
		if strings.Contains(head, "sync.Mutex.Lock") || strings.Contains(head, "sync.RWMutex") || strings.Contains(head, "semacquire") {
			if parked == "" {
				parked = inGitBug
			}
		}
	}
	if parked != "" {
		return "deadlock:" + parked
	}
	return ""
}

func dumpExcerpt(dump string) string {
	var keep []string
	for _, b := range strings.Split(dump, "\n\n") {
		if strings.Contains(b, "git-bug/cache") && (strings.Contains(b, "sync.Mutex.Lock") || strings.Contains(b, "RWMutex")) {
			lines := strings.Split(b, "\n")
			if len(lines) > 14 {
				lines = lines[:14]
			}
			keep = append(keep, strings.Join(lines, "\n"))
			if len(keep) >= 3 {
				break
			}
		}
	}
	return strings.Join(keep, "\n\n")
}

var _ = reflect.DeepEqual
var _ = bug.Read
