package checks

import (
	"bytes"
	"encoding/json"
	"fmt"
	"io"
	"os"
	"path/filepath"
	"time"

	"github.com/ProtonMail/go-crypto/openpgp"
	"github.com/ProtonMail/go-crypto/openpgp/armor"
	"github.com/ProtonMail/go-crypto/openpgp/packet"

	"github.com/MichaelMure/git-bug/entities/identity"
	"github.com/MichaelMure/git-bug/repository"
)

// Key pool shared by C08 and C09: identity.GenerateKey() is slow, so one run generates a
// few keys once (in parallel) and hands them to the child processes through a file.
// Nothing in git-bug exports a way to serialise a private key (storePrivate is
// unexported and has no caller), so the pool keeps, per key, the public part in the JSON
// form identity.Key marshals to and the private part armored exactly like
// identity.Key.storePrivate would (that is the format loadPrivate expects in the keyring).

const keyPoolEnv = "VERIF_KEYPOOL"

// PoolKey is one serialised key pair.
type PoolKey struct {
	PubJSON     json.RawMessage `json:"pub"`  // JSON string holding the armored public key
	PrivArmored string          `json:"priv"` // armored private key packet
	KeyId       string          `json:"key_id"`
}

// makeKeyPool generates n keys and writes them to a file; returns the file path.
func makeKeyPool(n int) (string, error) {
	keys := parallel(n, func(i int) PoolKey {
		k := identity.GenerateKey()
		pub, err := json.Marshal(k)
		if err != nil {
			panic(err)
		}
		var buf bytes.Buffer
		w, err := armor.Encode(&buf, openpgp.PrivateKeyType, nil)
		if err != nil {
			panic(err)
		}
		if err := k.Private().Serialize(w); err != nil {
			panic(err)
		}
		if err := w.Close(); err != nil {
			panic(err)
		}
		return PoolKey{PubJSON: pub, PrivArmored: buf.String(), KeyId: k.Public().KeyIdString()}
	})
	base := os.Getenv("VERIF_SCRATCH")
	if base == "" {
		base = os.TempDir()
	}
	f, err := os.CreateTemp(base, "keypool-*.json")
	if err != nil {
		return "", err
	}
	defer f.Close()
	data, _ := json.Marshal(keys)
	if _, err := f.Write(data); err != nil {
		return "", err
	}
	return filepath.Clean(f.Name()), nil
}

// loadedKey is a pool key usable in a child.
type loadedKey struct {
	Pool PoolKey
	priv *packet.PrivateKey
}

var poolCache []loadedKey

// loadKeyPool reads the pool named by the environment (child side).
func loadKeyPool() ([]loadedKey, error) {
	if poolCache != nil {
		return poolCache, nil
	}
	path := os.Getenv(keyPoolEnv)
	if path == "" {
		return nil, fmt.Errorf("%s not set", keyPoolEnv)
	}
	data, err := os.ReadFile(path)
	if err != nil {
		return nil, err
	}
	var pks []PoolKey
	if err := json.Unmarshal(data, &pks); err != nil {
		return nil, err
	}
	for _, pk := range pks {
		lk := loadedKey{Pool: pk}
		block, err := armor.Decode(bytes.NewReader([]byte(pk.PrivArmored)))
		if err == io.EOF {
			return nil, fmt.Errorf("no armored data in pool key")
		}
		if err != nil {
			return nil, err
		}
		p, err := packet.Read(block.Body)
		if err != nil {
			return nil, err
		}
		priv, ok := p.(*packet.PrivateKey)
		if !ok {
			return nil, fmt.Errorf("pool key is not a private key packet")
		}
		// same normalisation as identity.Key.loadPrivate / UnmarshalJSON
		priv.CreationTime = time.Time{}
		lk.priv = priv
		poolCache = append(poolCache, lk)
	}
	return poolCache, nil
}

// Public returns a fresh *identity.Key holding only the public part, the way a reader
// of the identity would see it.
func (k loadedKey) Public() (*identity.Key, error) {
	var key identity.Key
	if err := json.Unmarshal(k.Pool.PubJSON, &key); err != nil {
		return nil, err
	}
	return &key, nil
}

// Signer builds the openpgp entity used to sign a commit, the same way
// identity.Key.PGPEntity does.
func (k loadedKey) Signer() (*openpgp.Entity, error) {
	pub := k.priv.PublicKey
	e := &openpgp.Entity{
		PrimaryKey: &pub,
		PrivateKey: k.priv,
		Identities: map[string]*openpgp.Identity{},
	}
	if err := e.AddUserId("name", "", "", nil); err != nil {
		return nil, err
	}
	return e, nil
}

// PutPrivate stores the private key in a keyring under the name loadPrivate looks for.
func (k loadedKey) PutPrivate(kr repository.Keyring) error {
	return kr.Set(repository.Item{Key: k.Pool.KeyId, Data: []byte(k.Pool.PrivArmored)})
}

func init() {
	// `vh child mkpool N` writes a pool file and prints its path (for manual replays)
	registerChild("mkpool", func(args []string) int {
		n := 6
		if len(args) > 0 {
			fmt.Sscanf(args[0], "%d", &n)
		}
		p, err := makeKeyPool(n)
		if err != nil {
			fmt.Fprintln(os.Stderr, err)
			return 3
		}
		fmt.Println(p)
		return 0
	})
}
