package checks

// C04 — committed data reads back identically; ids are content-derived and stable.
//
// Recorder at the API boundary: for every operation the editing API accepts, the
// monitor records the inputs it passed, the operation's Id() before the commit and
// its json.Marshal. After every commit / reload, and at the end through every read
// path (bug.Read, bug.ReadAll, cache Resolve+Snapshot, a second replica after
// push+pull, the same replica after `git gc --prune=now`, the in-memory backend),
// the entity that comes back is compared with the record; gitraw recomputes every
// id from the stored bytes.

import (
	"bytes"
	"encoding/json"
	"fmt"
	"math/rand"
	"os"
	"os/exec"
	"reflect"
	"runtime/debug"
	"sort"
	"strings"
	"time"

	"github.com/ProtonMail/go-crypto/openpgp"
	"github.com/ProtonMail/go-crypto/openpgp/armor"

	"github.com/MichaelMure/git-bug/cache"
	"github.com/MichaelMure/git-bug/entities/bug"
	"github.com/MichaelMure/git-bug/entities/identity"
	"github.com/MichaelMure/git-bug/entity"
	"github.com/MichaelMure/git-bug/entity/dag"
	"github.com/MichaelMure/git-bug/repository"

	"verif/harness/gitraw"
	"verif/harness/mon"
	"verif/harness/world"
)

// ---- case description ----------------------------------------------------------

// c04Text describes a text value; the value itself is a pure function of the descriptor
// (so that 200 kB messages do not have to be carried around in case files and replays).
type c04Text struct {
	Class   string `json:"c"`
	N       int    `json:"n,omitempty"` // target size in bytes for class "long"
	Salt    int64  `json:"s,omitempty"`
	OneLine bool   `json:"one_line,omitempty"` // titles, labels, metadata keys
}

type c04KV struct {
	K c04Text `json:"k"`
	V c04Text `json:"v"`
}

type c04Op struct {
	Kind    string    `json:"kind"` // create|comment|edit|editcreate|title|close|open|labels|forcelabels|setmeta|noop
	Author  int       `json:"author"`
	Text    c04Text   `json:"text"`
	Add     []c04Text `json:"add,omitempty"`
	Remove  []c04Text `json:"remove,omitempty"`
	Files   []c04Text `json:"files,omitempty"`    // contents of attached files
	Meta    []c04KV   `json:"meta,omitempty"`     // the operation's own metadata
	NewMeta []c04KV   `json:"new_meta,omitempty"` // payload of a set-metadata operation
	Target  int       `json:"target,omitempty"`   // edit: index among accepted comment-bearing ops; setmeta: among accepted ops
	Commit  bool      `json:"commit,omitempty"`   // commit after this operation
	Reload  bool      `json:"reload,omitempty"`   // after that commit continue on a freshly read entity
}

// c04Ident describes the fields of an author identity.
type c04Ident struct {
	Name  c04Text `json:"name"`
	Email c04Text `json:"email"`
	Login c04Text `json:"login"`
	Meta  []c04KV `json:"meta,omitempty"`
}

// C04Case is one entity written through the editing API.
type C04Case struct {
	Name    string     `json:"name"`
	Mode    string     `json:"mode"` // plain | keyed-keyring | keyed-inmem | keyed-noprivate | diag-invalid-utf8
	Authors int        `json:"authors"`
	Ops     []c04Op    `json:"ops"`              // Ops[0] is the create
	Idents  []c04Ident `json:"idents,omitempty"` // adversarial identity fields, one per author (missing = plain)
	Merge   bool       `json:"merge,omitempty"`
	Mock    bool       `json:"mock,omitempty"`
	GC      bool       `json:"gc,omitempty"`
}

// C04Result is what the child observed.
type C04Result struct {
	Findings     []string       `json:"findings"` // "key|what"
	Counts       map[string]int `json:"counts"`
	Seen         []string       `json:"seen"` // "set|member"
	Kinds        []string       `json:"kinds"`
	Classes      []string       `json:"classes"`
	Commits      int            `json:"commits"`
	Packs        int            `json:"packs"`
	Ops          int            `json:"ops"`
	HasFiles     bool           `json:"has_files"`
	MaxMeta      int            `json:"max_meta"`
	HarnessError string         `json:"harness_error"`
	Aborted      string         `json:"aborted,omitempty"` // the case stopped early (after a finding)
}

// ---- text classes -----------------------------------------------------------------

var c04Frag = map[string][]string{
	"ascii":     {"hello", "the quick brown fox", "fix: crash on start", "a", "Z9", "issue #12 (regression)", "x=y+1;"},
	"combining": {"\u00e9", "e\u0301", "a\u0308\u0323", "n\u0303o\u0302", "Z\u0351\u036b\u0343\u036a\u0302a\u030f\u0346l\u0360g\u0336o\u035c", "\uac01", "\u1100\u1161\u11a8", "a\u0300\u0301\u0302\u0303\u0304", "\u212b\u00c5A\u030a"},
	"rtl":       {"\u05e9\u05dc\u05d5\u05dd \u05e2\u05d5\u05dc\u05dd", "\u0645\u0631\u062d\u0628\u0627 \u0628\u0627\u0644\u0639\u0627\u0644\u0645", "abc\u202edef\u202c", "\u200fx\u200e", "\u061c\u0627", "1\u2067two\u2069 3"},
	"emoji":     {"\U0001F600", "\U0001F469\u200d\U0001F469\u200d\U0001F467\u200d\U0001F466", "\U0001F3F3\ufe0f\u200d\U0001F308", "\U0001F44D\U0001F3FD", "\U0001F1EB\U0001F1F7", "\u2764\ufe0f", "\u263a\ufe0e", "\U0001FAE0"},
	"nbsp":      {"a\u00a0b", "\u00a0lead", "trail\u00a0", "x\u2007y\u202fz", "w\u200bz", "\u3000wide\u3000", "\u2003em\u2002en", "\ufeffbom", "\u2060wj"},
	"ws":        {"   lead", "trail   ", "in  ner   spaces", " both ", "a b", "  x  y  "},
	"blank":     {" ", "   ", "\u00a0", "\u2003\u3000 "},
	"json":      {`{"a":"b"}`, `\u0041`, `"quoted"`, `\`, `\\n`, `</script><!--`, `&amp;<b>&`, "\u2028", "x\u2029y", `null`, `[1,2]`, `'; DROP TABLE--`, `%s%d%!`, "a/b\\c"},
	"edge":      {"\ufffd", "\uffff", "\U0010FFFF", "\u00ad", "\ue000", "\ufdd0", "\U0001D11E", "\u0378", "\u07ff\u0800", "\uffee\U00010000"},
	"trn":       {"line1\nline2", "tab\there", "cr\rhere", "crlf\r\nnext", "\n\nlead newlines", "trailing newline\n", "\t\tindent\n\t\tmore\r\n", "mixed \t \r \n end", "\r\n\r\n"},
	"ctrl":      {"nul\x00byte", "esc\x1b[31m", "bell\x07", "\u0085nel", "del\x7f"},
}

// classes whose values are valid in one-line fields and in messages
var c04OneLineClasses = []string{"ascii", "combining", "rtl", "emoji", "nbsp", "ws", "json", "edge"}

// classes for multi-line fields (messages, metadata values)
var c04MessageClasses = []string{"ascii", "combining", "rtl", "emoji", "nbsp", "ws", "json", "edge", "trn", "trn", "blank", "empty", "mixed", "mixed"}

func c04Expand(t c04Text) string {
	rng := rand.New(rand.NewSource(t.Salt*7919 + int64(len(t.Class))))
	pick := func(class string) string {
		l := c04Frag[class]
		return l[rng.Intn(len(l))]
	}
	switch t.Class {
	case "empty":
		return ""
	case "mixed":
		classes := c04MessageClasses[:9] // no blank/empty/mixed
		if t.OneLine {
			classes = c04OneLineClasses
		}
		var sb strings.Builder
		n := 2 + rng.Intn(4)
		for i := 0; i < n; i++ {
			sb.WriteString(pick(classes[rng.Intn(len(classes))]))
			if rng.Intn(2) == 0 {
				sb.WriteString(" ")
			}
		}
		return sb.String()
	case "long":
		var sb strings.Builder
		sb.Grow(t.N + 64)
		classes := c04MessageClasses[:9]
		for i := 0; sb.Len() < t.N; i++ {
			fmt.Fprintf(&sb, "[%06d]", i)
			sb.WriteString(pick(classes[rng.Intn(len(classes))]))
			if i%7 == 0 {
				sb.WriteString("\n")
			}
		}
		return sb.String()
	case "nl-title":
		return "first line\nsecond line"
	case "invalid-utf8":
		return "a\xffb\xc3(\xed\xa0\x80"
	default:
		if _, ok := c04Frag[t.Class]; !ok {
			return "unknown-class-" + t.Class
		}
		n := 1 + rng.Intn(3)
		parts := make([]string, n)
		for i := range parts {
			parts[i] = pick(t.Class)
		}
		sep := ""
		if t.Class == "ascii" || t.Class == "rtl" {
			sep = " "
		}
		s := strings.Join(parts, sep)
		if t.Class == "ws" && rng.Intn(2) == 0 {
			s = "  " + s + " "
		}
		return s
	}
}

// ---- generator ----------------------------------------------------------------------

func c04GenText(rng *rand.Rand, oneLine bool, longOK bool) c04Text {
	t := c04Text{Salt: rng.Int63n(1 << 40), OneLine: oneLine}
	if oneLine {
		switch p := rng.Intn(100); {
		case p < 3:
			t.Class = "nl-title" // expected to be refused by the API
		case p < 6:
			t.Class = "blank" // expected to be refused (empty title / label)
		case p < 8:
			t.Class = "empty" // expected to be refused
		case p < 10:
			t.Class = "ctrl" // expected to be refused
		case p < 25:
			t.Class = "mixed"
		default:
			t.Class = c04OneLineClasses[rng.Intn(len(c04OneLineClasses))]
		}
		return t
	}
	switch p := rng.Intn(100); {
	case p < 5 && longOK:
		t.Class = "long"
		t.N = 200_000 + rng.Intn(5000)
	case p < 8:
		t.Class = "ctrl" // expected to be refused
	default:
		t.Class = c04MessageClasses[rng.Intn(len(c04MessageClasses))]
	}
	return t
}

func c04GenMeta(rng *rand.Rand, opMeta bool) []c04KV {
	var n int
	switch p := rng.Intn(10); {
	case p < 5:
		n = 0
	case p < 8:
		n = 1 + rng.Intn(4)
	default:
		n = 20 + rng.Intn(21) // up to 40 keys
	}
	var out []c04KV
	for i := 0; i < n; i++ {
		k := c04Text{Salt: rng.Int63n(1 << 40), OneLine: true}
		switch p := rng.Intn(20); {
		case p == 0:
			k.Class = "empty" // the empty key is accepted by the API
		case p < 4:
			k.Class = "mixed"
		default:
			k.Class = c04OneLineClasses[rng.Intn(len(c04OneLineClasses))]
		}
		v := c04GenText(rng, false, false)
		if opMeta && rng.Intn(15) == 0 {
			// an operation's own metadata is not validated by the API: control characters are accepted
			v.Class = "ctrl"
		}
		out = append(out, c04KV{K: k, V: v})
	}
	return out
}

func c04GenFiles(rng *rand.Rand) []c04Text {
	if rng.Intn(3) != 0 {
		return nil
	}
	n := 1 + rng.Intn(3)
	var out []c04Text
	for i := 0; i < n; i++ {
		f := c04GenText(rng, false, false)
		switch rng.Intn(6) {
		case 0:
			f.Class = "empty" // the empty blob
		case 1:
			f.Class, f.N = "long", 20_000+rng.Intn(30_000)
		}
		out = append(out, f)
	}
	if rng.Intn(4) == 0 {
		out = append(out, out[0]) // the same blob twice in one operation
	}
	return out
}

func c04GenLabels(rng *rand.Rand, n int) []c04Text {
	var out []c04Text
	for i := 0; i < n; i++ {
		t := c04GenText(rng, true, false)
		if rng.Intn(3) == 0 {
			// a small alphabet so that removals and duplicates actually hit
			t = c04Text{Class: "ascii", Salt: int64(rng.Intn(4)), OneLine: true}
		}
		out = append(out, t)
	}
	return out
}

var c04Kinds = []string{"comment", "comment", "edit", "editcreate", "title", "close", "open", "labels", "labels", "forcelabels", "setmeta", "noop"}

func c04GenCase(rng *rand.Rand, idx int) C04Case {
	c := C04Case{Name: fmt.Sprintf("e%d", idx), Mode: "plain", Authors: 1 + rng.Intn(3)}
	switch idx % 25 {
	case 7:
		c.Mode = "keyed-keyring"
	case 8:
		c.Mode = "keyed-inmem"
	case 9:
		c.Mode = "keyed-noprivate"
	}
	for a := 0; a < c.Authors; a++ {
		idn := c04Ident{Name: c04GenText(rng, true, false), Email: c04GenText(rng, true, false), Login: c04GenText(rng, true, false)}
		for _, kv := range c04GenMeta(rng, true) {
			if len(idn.Meta) < 6 {
				idn.Meta = append(idn.Meta, kv)
			}
		}
		c.Idents = append(c.Idents, idn)
	}
	c.Mock = idx%2 == 0
	c.Merge = idx%3 == 0
	c.GC = idx%2 == 1 || idx%10 == 0
	create := c04Op{Kind: "create", Text: c04GenText(rng, true, false), Files: c04GenFiles(rng), Meta: c04GenMeta(rng, true)}
	// the message of the create op travels in Add[0] (Text is the title)
	create.Add = []c04Text{c04GenText(rng, false, true)}
	if rng.Intn(10) < 7 {
		// mostly an acceptable title, otherwise the whole case would be skipped too often
		create.Text.Class = c04OneLineClasses[rng.Intn(len(c04OneLineClasses))]
	}
	create.Commit = rng.Intn(3) == 0
	c.Ops = append(c.Ops, create)
	n := 2 + rng.Intn(9)
	for i := 0; i < n; i++ {
		op := c04Op{Kind: c04Kinds[rng.Intn(len(c04Kinds))], Author: rng.Intn(c.Authors), Target: rng.Intn(8)}
		if c.Mode == "keyed-noprivate" || c.Mode == "keyed-keyring" || c.Mode == "keyed-inmem" {
			// the keyed author is author 0: make sure it writes
			if i%2 == 0 {
				op.Author = 0
			}
		}
		switch op.Kind {
		case "comment", "edit", "editcreate":
			op.Text = c04GenText(rng, false, true)
			op.Files = c04GenFiles(rng)
		case "title":
			op.Text = c04GenText(rng, true, false)
		case "labels", "forcelabels":
			op.Add = c04GenLabels(rng, rng.Intn(4))
			op.Remove = c04GenLabels(rng, rng.Intn(3))
		case "setmeta":
			op.NewMeta = c04GenMeta(rng, false)
			if len(op.NewMeta) == 0 && rng.Intn(2) == 0 {
				op.NewMeta = []c04KV{{K: c04Text{Class: "ascii", Salt: 1, OneLine: true}, V: c04GenText(rng, false, false)}}
			}
		}
		if op.Kind != "setmeta" {
			op.Meta = c04GenMeta(rng, true)
		}
		op.Commit = rng.Intn(100) < 35
		op.Reload = op.Commit && rng.Intn(3) == 0
		c.Ops = append(c.Ops, op)
	}
	c.Ops[len(c.Ops)-1].Commit = true
	return c
}

func c04Cases(r *mon.Run) []C04Case {
	n := r.Pick(150, 5000)
	var out []C04Case
	// minimal keyed-author cases first, so that the reported witness of a signing defect is the smallest one
	for _, mode := range []string{"keyed-inmem", "keyed-keyring", "keyed-noprivate"} {
		out = append(out, C04Case{Name: "minimal-" + mode, Mode: mode, Authors: 1, Ops: []c04Op{
			{Kind: "create", Text: c04Text{Class: "ascii", Salt: 1, OneLine: true}, Add: []c04Text{{Class: "ascii", Salt: 2}}, Commit: true},
			{Kind: "comment", Text: c04Text{Class: "ascii", Salt: 3}, Commit: true},
		}})
	}
	for i := 0; i < n; i++ {
		out = append(out, c04GenCase(mon.Rng(r.Seed, "c04", i), i))
	}
	// fixed targeted cases: every kind once with three authors strictly interleaved (one pack per op)
	{
		c := C04Case{Name: "targeted-interleaved", Mode: "plain", Authors: 3, Mock: true, Merge: true, GC: true}
		tx := func(class string, one bool) c04Text { return c04Text{Class: class, Salt: 42, OneLine: one} }
		c.Ops = []c04Op{
			{Kind: "create", Text: tx("combining", true), Add: []c04Text{tx("trn", false)}, Files: []c04Text{tx("emoji", false), tx("empty", false)}},
			{Kind: "comment", Author: 1, Text: tx("rtl", false), Files: []c04Text{tx("trn", false)}},
			{Kind: "edit", Author: 2, Text: tx("emoji", false), Target: 1, Files: []c04Text{tx("nbsp", false)}},
			{Kind: "editcreate", Author: 0, Text: tx("empty", false)},
			{Kind: "title", Author: 1, Text: tx("nbsp", true)},
			{Kind: "close", Author: 2},
			{Kind: "open", Author: 0, Commit: true, Reload: true},
			{Kind: "labels", Author: 1, Add: []c04Text{tx("emoji", true), tx("ws", true)}},
			{Kind: "forcelabels", Author: 2, Add: []c04Text{tx("rtl", true)}, Remove: []c04Text{tx("json", true)}},
			{Kind: "setmeta", Author: 0, Target: 0, NewMeta: []c04KV{{K: tx("edge", true), V: tx("trn", false)}, {K: tx("empty", true), V: tx("empty", false)}}},
			{Kind: "noop", Author: 1, Meta: []c04KV{{K: tx("json", true), V: tx("ctrl", false)}}, Commit: true},
		}
		out = append(out, c)
		// the same with a 200 kB create message and a 200 kB comment, single author, one commit per op
		c2 := C04Case{Name: "targeted-long", Mode: "plain", Authors: 1, Mock: true, GC: true}
		c2.Ops = []c04Op{
			{Kind: "create", Text: tx("ascii", true), Add: []c04Text{{Class: "long", N: 200_000, Salt: 5}}, Commit: true},
			{Kind: "comment", Text: c04Text{Class: "long", N: 204_800, Salt: 6}, Commit: true},
			{Kind: "title", Text: tx("edge", true), Commit: true},
		}
		out = append(out, c2)
		out = append(out, C04Case{Name: "diag-invalid-utf8", Mode: "diag-invalid-utf8", Authors: 1, Ops: []c04Op{
			{Kind: "create", Text: tx("ascii", true), Add: []c04Text{{Class: "invalid-utf8"}}, Commit: true},
		}})
	}
	return out
}

// ---- recorder ---------------------------------------------------------------------------

type c04Rec struct {
	Spec    c04Op
	Kind    string
	Op      dag.Operation
	Id      string // Id() before the commit
	Author  string
	Type    int
	JSON    string            // json.Marshal(op) before the commit
	Input   map[string]any    // generic view of what was passed to the API (string / []string / map[string]string)
	Blobs   map[string][]byte // hash -> content of the attached files
	Classes []string
}

type c04Exec struct {
	c       C04Case
	res     *C04Result
	backend string // gogit | mock
	now     int64
	aborted bool
	commits int
	idents  []c04IdentRec
}

type c04IdentInput struct {
	Name, Email, Login string
	Meta               map[string]string
	IdBefore           string
}

type c04IdentRec struct {
	In     c04IdentInput
	Id     string
	Render string // canonical rendering on the writing side
}

// checkIdentities reads the recorded author identities back on a repository.
func (x *c04Exec) checkIdentities(path string, repo repository.ClockedRepo) {
	for _, rec := range x.idents {
		x.count("identities_compared/"+path, 1)
		if rec.Id != rec.In.IdBefore {
			x.find("identity-id-changed-by-commit", fmt.Sprintf("identity id %s after commit, %s before", rec.Id, rec.In.IdBefore))
		}
		got, err := identity.ReadLocal(repo, entity.Id(rec.Id))
		if err != nil {
			x.find("identity-unreadable:path="+path+":"+c04ErrClass(err), fmt.Sprintf("%s: identity %s: %v", path, rec.Id[:10], err))
			continue
		}
		if err := got.Validate(); err != nil {
			x.find("validate-fails-on-reader:identity:path="+path+":"+c04ErrClass(err), err.Error())
		}
		if r := world.JSON(world.RenderIdentity(got)); r != rec.Render {
			x.find("identity-differs:path="+path, fmt.Sprintf("%s: identity read back differs: %s", path, c04FirstDiff(rec.Render, r)))
		}
		if got.Name() != rec.In.Name || got.Email() != rec.In.Email || got.Login() != rec.In.Login {
			x.find("identity-fields-differ-from-input:path="+path, fmt.Sprintf("%s: name/email/login %q/%q/%q, the API accepted %q/%q/%q", path, got.Name(), got.Email(), got.Login(), rec.In.Name, rec.In.Email, rec.In.Login))
		}
		for k, v := range rec.In.Meta {
			if g, ok := got.ImmutableMetadata()[k]; !ok || g != v {
				x.find("identity-metadata-differs-from-input:path="+path, fmt.Sprintf("%s: metadata key %q: %s", path, k, c04FirstDiff(v, g)))
				break
			}
		}
		versions, ok, err := gitraw.ReadIdentity(repo, "refs/identities/"+rec.Id)
		if !ok || err != nil || len(versions) == 0 {
			x.find("identity-ref-not-named-after-id:path="+path, fmt.Sprintf("%s: refs/identities/%s: ok=%v err=%v", path, rec.Id, ok, err))
			continue
		}
		if versions[0].Id != rec.Id {
			x.find("identity-id-not-hash-of-first-stored-version:path="+path, fmt.Sprintf("%s: sha256 of the first version blob is %s, the id is %s", path, versions[0].Id, rec.Id))
		}
		last := versions[len(versions)-1]
		if last.Name != rec.In.Name || last.Email != rec.In.Email || last.Login != rec.In.Login {
			x.find("identity-stored-differs-from-input:path="+path, fmt.Sprintf("%s: stored name/email/login %q/%q/%q, the API accepted %q/%q/%q", path, last.Name, last.Email, last.Login, rec.In.Name, rec.In.Email, rec.In.Login))
		}
	}
}

func (x *c04Exec) count(k string, n int) { x.res.Counts[k] += n }
func (x *c04Exec) seen(set, m string)    { x.res.Seen = append(x.res.Seen, set+"|"+m) }
func (x *c04Exec) find(key, what string) {
	x.res.Findings = append(x.res.Findings, key+"|"+what+" [mode "+x.c.Mode+", backend "+x.backend+"]")
}
func (x *c04Exec) tick() int64 { x.now++; return x.now }

func c04Short(s string) string {
	if len(s) > 160 {
		return fmt.Sprintf("%q…(%d bytes)", s[:160], len(s))
	}
	return fmt.Sprintf("%q", s)
}

// firstDiff describes where two strings start to differ.
func c04FirstDiff(a, b string) string {
	n := len(a)
	if len(b) < n {
		n = len(b)
	}
	i := 0
	for i < n && a[i] == b[i] {
		i++
	}
	lo := i - 20
	if lo < 0 {
		lo = 0
	}
	ha, hb := i+30, i+30
	if ha > len(a) {
		ha = len(a)
	}
	if hb > len(b) {
		hb = len(b)
	}
	return fmt.Sprintf("first difference at byte %d (lengths %d vs %d): want %q got %q", i, len(a), len(b), a[lo:ha], b[lo:hb])
}

func c04ExpandAll(l []c04Text) []string {
	out := make([]string, len(l))
	for i, t := range l {
		out[i] = c04Expand(t)
	}
	return out
}

func c04MetaMap(l []c04KV) map[string]string {
	if len(l) == 0 {
		return nil
	}
	m := map[string]string{}
	for _, kv := range l {
		m[c04Expand(kv.K)] = c04Expand(kv.V)
	}
	return m
}

func c04ClassesOf(op c04Op) []string {
	set := map[string]bool{}
	add := func(t c04Text) {
		if t.Class != "" {
			set[t.Class] = true
		}
	}
	add(op.Text)
	for _, t := range op.Add {
		add(t)
	}
	for _, t := range op.Remove {
		add(t)
	}
	for _, kv := range op.Meta {
		add(kv.K)
		add(kv.V)
	}
	for _, kv := range op.NewMeta {
		add(kv.K)
		add(kv.V)
	}
	return world.SortedKeys(set)
}

func c04ErrClass(err error) string {
	if m := err.Error(); strings.HasPrefix(m, "PANIC @ ") {
		if i := strings.Index(m, ": "); i > 0 {
			return m[:i]
		}
	}
	s := errClass(err)
	if i := strings.Index(s, ": openpgp"); i > 0 {
		s = s[:i]
	}
	return s
}

// apply passes one operation to the editing API. It returns the record (nil when the API refused the value).
func (x *c04Exec) apply(repo repository.ClockedRepo, b *bug.Bug, authors []identity.Interface, spec c04Op, recs []*c04Rec) (*bug.Bug, *c04Rec, error) {
	author := authors[spec.Author%len(authors)]
	blobs := map[string][]byte{}
	var files []repository.Hash
	for _, f := range spec.Files {
		content := []byte(c04Expand(f))
		h, err := repo.StoreData(content)
		if err != nil {
			return b, nil, fmt.Errorf("StoreData: %w", err)
		}
		files = append(files, h)
		blobs[string(h)] = content
	}
	meta := c04MetaMap(spec.Meta)
	text := c04Expand(spec.Text)
	t := x.tick()
	var op dag.Operation
	var err error
	input := map[string]any{}
	fileStrs := func() []string {
		out := make([]string, len(files))
		for i, h := range files {
			out[i] = string(h)
		}
		return out
	}
	// accepted comment-bearing operations so far, and all accepted operations
	var commentIds, allIds []entity.Id
	for _, r := range recs {
		allIds = append(allIds, entity.Id(r.Id))
		if r.Kind == "create" || r.Kind == "comment" {
			commentIds = append(commentIds, entity.Id(r.Id))
		}
	}
	switch spec.Kind {
	case "create":
		msg := c04Expand(spec.Add[0])
		var nb *bug.Bug
		var cop *bug.CreateOperation
		nb, cop, err = bug.Create(author, t, text, msg, files, meta)
		if err == nil {
			b, op = nb, cop
		}
		input["title"], input["message"], input["files"] = text, msg, fileStrs()
	case "comment":
		var cop *bug.AddCommentOperation
		_, cop, err = bug.AddComment(b, author, t, text, files, meta)
		if err == nil {
			op = cop
		}
		input["message"], input["files"] = text, fileStrs()
	case "edit":
		target := commentIds[spec.Target%len(commentIds)]
		var eop *bug.EditCommentOperation
		_, eop, err = bug.EditComment(b, author, t, target, text, files, meta)
		if err == nil {
			op = eop
		}
		input["message"], input["files"], input["target"] = text, fileStrs(), target.String()
	case "editcreate":
		var eop *bug.EditCommentOperation
		_, eop, err = bug.EditCreateComment(b, author, t, text, files, meta)
		if err == nil {
			op = eop
		}
		input["message"], input["files"], input["target"] = text, fileStrs(), recs[0].Id
	case "title":
		var top *bug.SetTitleOperation
		top, err = bug.SetTitle(b, author, t, text, meta)
		if err == nil {
			op = top
		}
		input["title"] = text
	case "close":
		var sop *bug.SetStatusOperation
		sop, err = bug.Close(b, author, t, meta)
		if err == nil {
			op = sop
		}
	case "open":
		var sop *bug.SetStatusOperation
		sop, err = bug.Open(b, author, t, meta)
		if err == nil {
			op = sop
		}
	case "labels":
		var lop *bug.LabelChangeOperation
		_, lop, err = bug.ChangeLabels(b, author, t, c04ExpandAll(spec.Add), c04ExpandAll(spec.Remove), meta)
		if err == nil {
			op = lop
			// ChangeLabels filters its input against the current state: what it kept is the accepted value
			input["added"], input["removed"] = c04LabelStrs(lop.Added), c04LabelStrs(lop.Removed)
		}
	case "forcelabels":
		var lop *bug.LabelChangeOperation
		lop, err = bug.ForceChangeLabels(b, author, t, c04ExpandAll(spec.Add), c04ExpandAll(spec.Remove), meta)
		if err == nil {
			op = lop
		}
		input["added"], input["removed"] = c04ExpandAll(spec.Add), c04ExpandAll(spec.Remove)
	case "setmeta":
		target := allIds[spec.Target%len(allIds)]
		nm := c04MetaMap(spec.NewMeta)
		var mop *dag.SetMetadataOperation[*bug.Snapshot]
		mop, err = bug.SetMetadata(b, author, t, target, nm)
		if err == nil {
			op = mop
		}
		input["target"] = target.String()
		if nm != nil {
			input["new_metadata"] = nm
		}
	case "noop":
		nop := dag.NewNoOpOp[*bug.Snapshot](bug.NoOpOp, author, t)
		for k, v := range meta {
			nop.SetMetadata(k, v)
		}
		if err = nop.Validate(); err == nil {
			b.Append(nop)
			op = nop
		}
	default:
		return b, nil, fmt.Errorf("unknown kind %q", spec.Kind)
	}
	if err != nil {
		return b, nil, err
	}
	if meta != nil && spec.Kind != "setmeta" {
		input["metadata"] = meta
	}
	raw, merr := json.Marshal(op)
	if merr != nil {
		return b, nil, fmt.Errorf("json.Marshal(op): %w", merr)
	}
	rec := &c04Rec{Spec: spec, Kind: spec.Kind, Op: op, Id: op.Id().String(), Author: author.Id().String(), Type: int(op.Type()),
		JSON: string(raw), Input: input, Blobs: blobs, Classes: c04ClassesOf(spec)}
	return b, rec, nil
}

func c04LabelStrs(l []bug.Label) []string {
	out := make([]string, len(l))
	for i, v := range l {
		out[i] = string(v)
	}
	return out
}

// checkStored compares the generic decoding of the stored raw element with what was passed to the API.
func (x *c04Exec) checkStored(path string, rec *c04Rec, raw json.RawMessage) {
	var m map[string]any
	if err := json.Unmarshal(raw, &m); err != nil {
		x.find("stored-op-not-json:kind="+rec.Kind, "stored operation is not a JSON object: "+err.Error())
		return
	}
	classes := strings.Join(rec.Classes, ",")
	for field, want := range rec.Input {
		got := m[field]
		ok := true
		detail := ""
		switch w := want.(type) {
		case string:
			g, isStr := got.(string)
			ok = isStr && g == w
			if !ok {
				detail = c04FirstDiff(w, fmt.Sprint(got))
			}
		case []string:
			gl, _ := got.([]any)
			ok = len(gl) == len(w)
			for i := 0; ok && i < len(w); i++ {
				g, isStr := gl[i].(string)
				ok = isStr && g == w[i]
			}
			if !ok {
				detail = fmt.Sprintf("want %q got %v", w, got)
			}
		case map[string]string:
			gm, _ := got.(map[string]any)
			ok = len(gm) == len(w)
			for k, v := range w {
				g, isStr := gm[k].(string)
				if !isStr || g != v {
					ok = false
					detail = fmt.Sprintf("key %q: ", k) + c04FirstDiff(v, fmt.Sprint(gm[k]))
					break
				}
			}
			if !ok && detail == "" {
				detail = fmt.Sprintf("want %d keys got %d", len(w), len(gm))
			}
		}
		x.count("stored_fields_compared_with_input", 1)
		if !ok {
			x.find(fmt.Sprintf("stored-differs-from-input:kind=%s:field=%s", rec.Kind, field),
				fmt.Sprintf("%s: operation %s (%s, text classes %s): stored %q differs from the value the API accepted: %s", path, rec.Id[:10], rec.Kind, classes, field, detail))
		}
	}
}

// c04ReadBug is bug.Read with a panic turned into an error that names the panicking git-bug function.
func c04ReadBug(repo repository.ClockedRepo, id entity.Id) (b *bug.Bug, err error) {
	defer func() {
		if p := recover(); p != nil {
			site := "?"
			for _, l := range strings.Split(string(debug.Stack()), "\n") {
				if strings.HasPrefix(l, "github.com/MichaelMure/git-bug/") && !strings.Contains(l, "c04ReadBug") {
					site = strings.TrimPrefix(l, "github.com/MichaelMure/git-bug/")
					if i := strings.LastIndex(site, "("); i > 0 {
						site = site[:i]
					}
					break
				}
			}
			b, err = nil, fmt.Errorf("PANIC @ %s: %v", site, p)
		}
	}()
	return bug.Read(repo, id)
}

// c04Expect is what every reader must give back.
type c04Expect struct {
	EntityId string
	Recs     []*c04Rec // committed operations, in order
	Create   uint64
	Edit     uint64
	Snapshot string // canonical rendering of the writer's compiled snapshot ("" = not compared)
	Packs    int
}

// compareEntity compares an entity obtained through one read path with the record.
func (x *c04Exec) compareEntity(path string, rb *bug.Bug, want *c04Expect, ordered bool) bool {
	x.count("readpath/"+path, 1)
	okAll := true
	bad := func(key, what string) {
		okAll = false
		x.find(key, path+": "+what)
	}
	if got := rb.Id().String(); got != want.EntityId {
		bad("entity-id-changed:path="+path, fmt.Sprintf("entity id %s, was %s before the first commit", got, want.EntityId))
	}
	if err := rb.Validate(); err != nil {
		bad("validate-fails-on-reader:path="+path+":"+c04ErrClass(err), "Validate() fails on data the writing side accepted: "+err.Error())
	}
	ops := rb.Operations()
	if ordered {
		if len(ops) != len(want.Recs) {
			bad("op-count-differs:path="+path, fmt.Sprintf("%d operations read, %d committed", len(ops), len(want.Recs)))
		}
	}
	// index of read operations by id for the unordered (merged) comparison
	byId := map[string]int{}
	for i, o := range ops {
		byId[o.Id().String()] = i
	}
	last := -1
	for i, rec := range want.Recs {
		var o dag.Operation
		if ordered {
			if i >= len(ops) {
				break
			}
			o = ops[i]
			if o.Id().String() != rec.Id {
				bad("op-id-differs:path="+path+":kind="+rec.Kind, fmt.Sprintf("operation %d (%s): id %s, Id() before commit was %s", i, rec.Kind, o.Id(), rec.Id))
				continue
			}
		} else {
			j, ok := byId[rec.Id]
			if !ok {
				bad("op-missing-after-merge:kind="+rec.Kind, fmt.Sprintf("operation %d (%s) %s is absent from the merged entity", i, rec.Kind, rec.Id))
				continue
			}
			if j < last {
				bad("op-order-changed-after-merge", fmt.Sprintf("operation %d (%s) moved before an earlier operation of the same writer", i, rec.Kind))
			}
			last = j
			o = ops[j]
		}
		x.count("ops_compared", 1)
		if int(o.Type()) != rec.Type {
			bad("op-type-differs:path="+path+":kind="+rec.Kind, fmt.Sprintf("operation %d: type %d, was %d", i, o.Type(), rec.Type))
		}
		if o.Author() == nil || o.Author().Id().String() != rec.Author {
			bad("op-author-differs:path="+path+":kind="+rec.Kind, fmt.Sprintf("operation %d (%s): author differs", i, rec.Kind))
		}
		raw, err := json.Marshal(o)
		if err != nil || string(raw) != rec.JSON {
			bad("op-payload-differs:path="+path+":kind="+rec.Kind+":classes="+strings.Join(rec.Classes, ","),
				fmt.Sprintf("operation %d (%s): payload read back differs from the payload committed: %s", i, rec.Kind, c04FirstDiff(rec.JSON, string(raw))))
		}
		if !reflect.DeepEqual(c04Typed(o), c04Typed(rec.Op)) {
			bad("op-fields-differ:path="+path+":kind="+rec.Kind, fmt.Sprintf("operation %d (%s): typed fields differ: %v vs %v", i, rec.Kind, c04Short(mon.JSON(c04Typed(o))), c04Short(mon.JSON(c04Typed(rec.Op)))))
		}
	}
	if ordered {
		if uint64(rb.CreateLamportTime()) != want.Create {
			bad("create-time-differs:path="+path, fmt.Sprintf("create Lamport time %d, writer had %d", rb.CreateLamportTime(), want.Create))
		}
		if uint64(rb.EditLamportTime()) != want.Edit {
			bad("edit-time-differs:path="+path, fmt.Sprintf("edit Lamport time %d, writer had %d", rb.EditLamportTime(), want.Edit))
		}
		if want.Snapshot != "" {
			got := world.JSON(world.RenderSnapshot(rb.Compile()))
			x.count("snapshots_compared", 1)
			if got != want.Snapshot {
				bad("snapshot-differs:path="+path, "compiled snapshot differs from the writer's: "+c04FirstDiff(want.Snapshot, got))
			}
		}
	}
	return okAll
}

// c04Typed extracts the typed payload fields of an operation (independent of json.Marshal).
func c04Typed(o dag.Operation) map[string]any {
	hs := func(l []repository.Hash) []string {
		out := []string{}
		for _, h := range l {
			out = append(out, string(h))
		}
		return out
	}
	meta := map[string]string{}
	m := map[string]any{"unix": o.Time().Unix(), "type": int(o.Type())}
	switch t := o.(type) {
	case *bug.CreateOperation:
		m["title"], m["message"], m["files"] = t.Title, t.Message, hs(t.Files)
		meta = t.Metadata
	case *bug.AddCommentOperation:
		m["message"], m["files"] = t.Message, hs(t.Files)
		meta = t.Metadata
	case *bug.EditCommentOperation:
		m["target"], m["message"], m["files"] = t.Target.String(), t.Message, hs(t.Files)
		meta = t.Metadata
	case *bug.SetTitleOperation:
		m["title"], m["was"] = t.Title, t.Was
		meta = t.Metadata
	case *bug.SetStatusOperation:
		m["status"] = int(t.Status)
		meta = t.Metadata
	case *bug.LabelChangeOperation:
		m["added"], m["removed"] = c04LabelStrs(t.Added), c04LabelStrs(t.Removed)
		meta = t.Metadata
	case *dag.SetMetadataOperation[*bug.Snapshot]:
		nm := map[string]string{}
		for k, v := range t.NewMetadata {
			nm[k] = v
		}
		m["target"], m["new_metadata"] = t.Target.String(), nm
		meta = t.Metadata
	case *dag.NoOpOperation[*bug.Snapshot]:
		meta = t.Metadata
	default:
		m["unknown"] = fmt.Sprintf("%T", o)
	}
	mm := map[string]string{}
	for k, v := range meta {
		mm[k] = v
	}
	m["metadata"] = mm
	return m
}

// checkRaw recomputes ids from the stored bytes (gitraw) and compares the stored form with the record.
func (x *c04Exec) checkRaw(path string, repo repository.ClockedRepo, want *c04Expect, linear bool) {
	h, ok, err := gitraw.ReadRef(repo, "refs/bugs/"+want.EntityId)
	if !ok || err != nil {
		x.find("ref-not-named-after-entity-id:path="+path, fmt.Sprintf("%s: refs/bugs/%s cannot be decoded: ok=%v err=%v", path, want.EntityId, ok, err))
		return
	}
	x.count("gitraw_histories", 1)
	if got := h.EntityId(); got != want.EntityId {
		x.find("entity-id-not-hash-of-first-stored-op:path="+path, fmt.Sprintf("%s: sha256 of the first stored operation is %s, entity id is %s", path, got, want.EntityId))
	}
	if !linear {
		// merged history: every recorded op must be stored under its id
		ids := h.OpIds()
		for _, rec := range want.Recs {
			if !ids[rec.Id] {
				x.find("op-id-not-hash-of-stored-form:merged:kind="+rec.Kind, fmt.Sprintf("%s: no stored element hashes to %s", path, rec.Id))
			}
		}
		return
	}
	// first-parent chain, oldest first
	var chain []*gitraw.Commit
	cur := h.Commits[h.Head]
	for cur != nil {
		chain = append([]*gitraw.Commit{cur}, chain...)
		if len(cur.Parents) == 0 {
			break
		}
		cur = h.Commits[cur.Parents[0]]
	}
	if len(chain) != want.Packs {
		x.find("pack-count-differs:path="+path, fmt.Sprintf("%s: %d commits stored, expected %d (one per run of same-author operations per commit)", path, len(chain), want.Packs))
	}
	var prevEdit uint64
	i := 0
	for ci, c := range chain {
		if c.DecodeErr != "" {
			x.find("stored-pack-undecodable:path="+path, path+": "+c.DecodeErr)
			return
		}
		if c.EditTime <= prevEdit {
			x.find("stored-edit-times-not-increasing:path="+path, fmt.Sprintf("%s: commit %d has edit time %d after %d", path, ci, c.EditTime, prevEdit))
		}
		prevEdit = c.EditTime
		if ci == 0 && c.CreateTime != want.Create {
			x.find("stored-create-time-differs:path="+path, fmt.Sprintf("%s: root commit create time %d, entity reports %d", path, c.CreateTime, want.Create))
		}
		extra := map[string]bool{}
		for _, e := range c.Extra {
			extra[string(e.Hash)] = true
		}
		for _, o := range c.Ops {
			if i >= len(want.Recs) {
				x.find("stored-op-count-differs:path="+path, path+": more operations stored than committed")
				return
			}
			rec := want.Recs[i]
			i++
			x.count("stored_ops_rehashed", 1)
			if o.Id != rec.Id {
				x.find("op-id-not-hash-of-stored-form:path="+path+":kind="+rec.Kind+":classes="+strings.Join(rec.Classes, ","),
					fmt.Sprintf("%s: operation %d (%s): sha256 of the stored element is %s, Id() was %s; %s", path, i-1, rec.Kind, o.Id, rec.Id, c04FirstDiff(rec.JSON, string(o.Raw))))
				continue
			}
			if c.AuthorId != rec.Author {
				x.find("stored-pack-author-differs:path="+path, fmt.Sprintf("%s: operation %d stored in a pack of author %s, was authored by %s", path, i-1, c.AuthorId, rec.Author))
			}
			x.checkStored(path, rec, o.Raw)
			for hsh := range rec.Blobs {
				if !extra[hsh] {
					// how the blob is kept alive is the implementation's business (the property only asks that it
					// travels and survives): diagnostic counter, the verdict comes from reading it on the replica
					x.count("diag_file_not_in_extra_tree", 1)
				} else {
					x.count("files_referenced_from_extra_tree", 1)
				}
			}
		}
	}
	if i != len(want.Recs) {
		x.find("stored-op-count-differs:path="+path, fmt.Sprintf("%s: %d operations stored, %d committed", path, i, len(want.Recs)))
	}
	if prevEdit != want.Edit {
		x.find("stored-edit-time-differs:path="+path, fmt.Sprintf("%s: last stored edit time %d, entity reports %d", path, prevEdit, want.Edit))
	}
}

// checkBlobs reads every attached file back.
func (x *c04Exec) checkBlobs(path string, repo repository.ClockedRepo, recs []*c04Rec) {
	for _, rec := range recs {
		for hsh, content := range rec.Blobs {
			x.count("blobs_read/"+path, 1)
			got, err := repo.ReadData(repository.Hash(hsh))
			if err != nil {
				x.find("file-blob-unreadable:path="+path+":kind="+rec.Kind, fmt.Sprintf("%s: blob %s attached to a %s operation: %v", path, hsh, rec.Kind, err))
				continue
			}
			if !bytes.Equal(got, content) {
				x.find("file-blob-differs:path="+path+":kind="+rec.Kind, fmt.Sprintf("%s: blob %s: %s", path, hsh, c04FirstDiff(string(content), string(got))))
			}
		}
	}
}

// writeAndCheck drives the editing API on one repository and checks after every commit.
func (x *c04Exec) writeAndCheck(repo repository.ClockedRepo, authors []identity.Interface) (*c04Expect, *bug.Bug) {
	var b *bug.Bug
	var staged, committed []*c04Rec
	want := &c04Expect{}
	packs := 0
	for i, spec := range x.c.Ops {
		if i > 0 && b == nil {
			break
		}
		all := append(append([]*c04Rec{}, committed...), staged...)
		nb, rec, err := x.apply(repo, b, authors, spec, all)
		if err != nil {
			if strings.HasPrefix(err.Error(), "StoreData") || strings.HasPrefix(err.Error(), "unknown kind") || strings.HasPrefix(err.Error(), "json.Marshal") {
				x.res.HarnessError = err.Error()
				return nil, nil
			}
			// the API refused the value: fine, skip it
			x.count("api_refused", 1)
			x.seen("api_refusals", spec.Kind+": "+c04ErrClass(err))
			if i == 0 {
				x.res.Aborted = "create refused: " + err.Error()
				return nil, nil
			}
		} else {
			b = nb
			staged = append(staged, rec)
			if i == 0 {
				want.EntityId = rec.Id
				if b.Id().String() != rec.Id {
					x.find("entity-id-not-first-op-id", fmt.Sprintf("entity id %s != id of the create operation %s", b.Id(), rec.Id))
				}
			}
		}
		if !spec.Commit || len(staged) == 0 {
			continue
		}
		// commit the staging area
		runs := 0
		prev := ""
		for _, r := range staged {
			if r.Author != prev {
				runs++
				prev = r.Author
			}
		}
		if err := b.Commit(repo); err != nil {
			x.count("commit_refused", 1)
			x.seen("commit_refusals", c04ErrClass(err))
			x.res.Aborted = "commit refused: " + err.Error()
			break
		}
		x.commits++
		packs += runs
		if runs > 1 {
			x.count("commits_with_several_packs", 1)
		}
		committed = append(committed, staged...)
		staged = nil
		if b.Id().String() != want.EntityId {
			x.find("entity-id-changed:path=writer-after-commit", fmt.Sprintf("entity id %s after commit, %s before", b.Id(), want.EntityId))
		}
		for _, r := range committed {
			if r.Op.Id().String() != r.Id {
				x.find("op-id-changed-by-commit:kind="+r.Kind, fmt.Sprintf("Id() %s after commit, %s before", r.Op.Id(), r.Id))
			}
		}
		want.Recs, want.Packs = committed, packs
		want.Create, want.Edit = uint64(b.CreateLamportTime()), uint64(b.EditLamportTime())
		want.Snapshot = world.JSON(world.RenderSnapshot(b.Compile()))
		rb, err := c04ReadBug(repo, entity.Id(want.EntityId))
		if err != nil {
			x.find("committed-but-unreadable:mode="+x.c.Mode+":"+c04ErrClass(err),
				fmt.Sprintf("the editing API accepted and committed %d operations (commit %d), then bug.Read on the same repository fails: %v", len(committed), x.commits, err))
			x.res.Aborted = "unreadable after commit"
			x.aborted = true
			break
		}
		x.compareEntity("read", rb, want, true)
		x.checkRaw("read", repo, want, true)
		if spec.Reload {
			// continue on the freshly read entity (append to a reloaded entity)
			b = rb
			x.count("reloads", 1)
			// the records now describe rb's operation objects
			for k, o := range rb.Operations() {
				if k < len(committed) {
					committed[k].Op = o
				}
			}
		}
	}
	if len(committed) == 0 {
		return nil, nil
	}
	want.Recs, want.Packs = committed, packs
	return want, b
}

// storePrivateKey puts the armored private key into the keyring the way git-bug expects to find it.
func c04StorePrivate(kr repository.Keyring, k *identity.Key) error {
	var buf bytes.Buffer
	w, err := armor.Encode(&buf, openpgp.PrivateKeyType, nil)
	if err != nil {
		return err
	}
	if err := k.Private().Serialize(w); err != nil {
		return err
	}
	if err := w.Close(); err != nil {
		return err
	}
	return kr.Set(repository.Item{Key: k.Public().KeyIdString(), Data: buf.Bytes()})
}

// makeAuthors creates the authors of a case on a repository. Author 0 carries the signing key in keyed modes.
func (x *c04Exec) makeAuthors(repo repository.ClockedRepo, kr repository.Keyring) ([]identity.Interface, error) {
	var out []identity.Interface
	for i := 0; i < x.c.Authors; i++ {
		name := fmt.Sprintf("author%d", i)
		keyed := i == 0 && strings.HasPrefix(x.c.Mode, "keyed-")
		var keys []*identity.Key
		if keyed {
			keys = []*identity.Key{identity.GenerateKey()}
		}
		var id *identity.Identity
		if i < len(x.c.Idents) && !keyed {
			// adversarial identity fields; when the API refuses them, fall back to plain ones
			d := x.c.Idents[i]
			in := c04IdentInput{Name: c04Expand(d.Name), Email: c04Expand(d.Email), Login: c04Expand(d.Login), Meta: c04MetaMap(d.Meta)}
			cand, err := identity.NewIdentityFull(repo, in.Name, in.Email, in.Login, "", nil)
			if err == nil {
				for k, v := range in.Meta {
					cand.SetMetadata(k, v)
				}
				in.IdBefore = cand.Id().String()
				c04TickClocks(repo, i)
				err = cand.Commit(repo)
			}
			if err == nil {
				id = cand
				x.idents = append(x.idents, c04IdentRec{In: in, Id: cand.Id().String(), Render: world.JSON(world.RenderIdentity(cand))})
			} else {
				x.count("api_refused_identity", 1)
				x.seen("api_refusals", "identity: "+c04ErrClass(err))
			}
		}
		if id == nil {
			var err error
			id, err = identity.NewIdentityFull(repo, name, name+"@example.com", "", "", keys)
			if err != nil {
				return nil, err
			}
			before := id.Id()
			// metadata added once the id has been handed out must not change it either
			id.SetMetadata("verif-late", fmt.Sprintf("set after Id() %d", i))
			c04TickClocks(repo, i)
			if err := id.Commit(repo); err != nil {
				return nil, err
			}
			x.count("identity_ids_compared_across_commit", 1)
			if id.Id() != before {
				x.find("identity-id-changed-by-commit", fmt.Sprintf("identity id %s after commit, %s before (metadata was set and the repository clocks moved in between)", id.Id(), before))
			}
			if re, rerr := identity.ReadLocal(repo, before); rerr != nil {
				x.find("identity-not-stored-under-its-id:"+c04ErrClass(rerr), fmt.Sprintf("identity %s handed out before the commit cannot be read under that id afterwards: %v", before.Human(), rerr))
			} else if v, ok := re.ImmutableMetadata()["verif-late"]; !ok && re.MutableMetadata()["verif-late"] == "" {
				x.find("identity-late-metadata-lost", fmt.Sprintf("identity %s: metadata set between Id() and Commit is not stored (%q)", before.Human(), v))
			}
			// the same key set again on the committed identity: the object in memory must keep describing what is stored
			id.SetMetadata("verif-late", "a second value")
			if err := id.Commit(repo); err != nil {
				return nil, err
			}
			x.count("identity_in_memory_vs_stored_comparisons", 1)
			if re, rerr := identity.ReadLocal(repo, before); rerr == nil {
				if mem, disk := world.JSON(world.RenderIdentity(id)), world.JSON(world.RenderIdentity(re)); mem != disk {
					x.find("identity-in-memory-differs-from-stored", fmt.Sprintf("identity %s after a second SetMetadata+Commit: the committed object and a fresh read differ: %s", before.Human(), c04FirstDiff(mem, disk)))
				}
			}
		}
		if keyed {
			switch x.c.Mode {
			case "keyed-inmem":
				// the identity object keeps the private key in memory
			case "keyed-keyring":
				if err := c04StorePrivate(kr, keys[0]); err != nil {
					return nil, fmt.Errorf("store private key: %w", err)
				}
				fallthrough
			case "keyed-noprivate":
				// a freshly loaded identity only has the public part, like every process after the one
				// that generated the key
				re, err := identity.ReadLocal(repo, id.Id())
				if err != nil {
					return nil, fmt.Errorf("reload keyed identity: %w", err)
				}
				id = re
			}
		}
		out = append(out, id)
	}
	return out, nil
}

// c04TickClocks moves the repository's logical clocks, as other users' edits and pulls do
// between the moment an identity is created (and its id is handed out) and its commit.
func c04TickClocks(repo repository.ClockedRepo, n int) {
	for _, name := range []string{"bugs-create", "bugs-edit", "verif-other"} {
		if c, err := repo.GetOrCreateClock(name); err == nil {
			for k := 0; k <= n; k++ {
				_, _ = c.Increment()
			}
		}
	}
}

func c04Keyring(repo repository.ClockedRepo) repository.Keyring { return repo.Keyring() }

// runC04Case executes one case in the child.
func runC04Case(c C04Case) C04Result {
	res := C04Result{Counts: map[string]int{}}
	kinds := map[string]bool{}
	classes := map[string]bool{}

	w, err := world.New(2)
	if err != nil {
		res.HarnessError = err.Error()
		return res
	}
	defer w.Close()
	r0, r1 := w.Replicas[0], w.Replicas[1]

	// the git author/committer of the commits git-bug writes comes from the host configuration: whatever a user has
	// there, what is committed (and signed, for authors with keys) must read back
	hostNames := []string{"", "Jane Doe", "Jane Doe <>", "> Jane Doe", " <j> Doe ", "Jäne  Döe\t", "<>"}
	if hn := hostNames[(len(c.Name)+len(c.Ops))%len(hostNames)]; hn != "" {
		for _, rep := range w.Replicas {
			for _, key := range []string{"author.name", "committer.name"} {
				if err := rep.Repo.LocalConfig().StoreString(key, hn); err != nil {
					res.HarnessError = "host config: " + err.Error()
					return res
				}
			}
		}
		res.Counts["host_author_name_variants/"+hn]++
	}

	x := &c04Exec{c: c, res: &res, backend: "gogit", now: 1_700_000_000}
	authors, err := x.makeAuthors(r0.Repo, r0.KR)
	if err != nil {
		res.HarnessError = "authors: " + err.Error()
		return res
	}
	for _, a := range authors {
		r0.Authors = append(r0.Authors, a.(*identity.Identity))
	}
	want, b := x.writeAndCheck(r0.Repo, authors)
	if want != nil {
		for _, rec := range want.Recs {
			kinds[c04KindName(rec.Type)] = true
			for _, cl := range rec.Classes {
				classes[cl] = true
			}
			if len(rec.Blobs) > 0 {
				res.HasFiles = true
			}
			if n := len(rec.Spec.Meta) + len(rec.Spec.NewMeta); n > res.MaxMeta {
				res.MaxMeta = n
			}
			if rec.Spec.Text.Class == "long" || (len(rec.Spec.Add) > 0 && rec.Spec.Add[0].Class == "long") {
				res.Counts["long_messages"]++
			}
		}
		res.Ops, res.Packs = len(want.Recs), want.Packs
	}
	res.Commits = x.commits
	res.Kinds, res.Classes = world.SortedKeys(kinds), world.SortedKeys(classes)

	if c.Mode == "diag-invalid-utf8" {
		// diagnostic only (strings that are not valid UTF-8 are not "unicode"): what does the API do with them?
		res.Findings = nil
		if want == nil {
			res.Seen = append(res.Seen, "diagnostics|invalid UTF-8 in a message: refused by the API")
		} else if rb, err := c04ReadBug(r0.Repo, entity.Id(want.EntityId)); err == nil {
			got := rb.FirstOp().(*bug.CreateOperation).Message
			if got == c04Expand(c.Ops[0].Add[0]) {
				res.Seen = append(res.Seen, "diagnostics|invalid UTF-8 in a message: accepted and preserved")
			} else {
				res.Seen = append(res.Seen, "diagnostics|invalid UTF-8 in a message: accepted, stored with U+FFFD replacements (not counted: not a valid unicode value)")
			}
		}
		return res
	}
	if want == nil || x.aborted || res.HarnessError != "" {
		if c.Mode == "keyed-noprivate" && strings.HasPrefix(res.Aborted, "commit refused") {
			res.Seen = append(res.Seen, "keyed_outcomes|keyed-noprivate: commit refused")
		}
		return res
	}
	if strings.HasPrefix(c.Mode, "keyed-") {
		res.Seen = append(res.Seen, "keyed_outcomes|"+c.Mode+": committed and readable")
		// in the with-private modes the keyed author's commits must actually be signed, otherwise the
		// scenario did not exercise what it claims
		if h, ok, _ := gitraw.ReadRef(r0.Repo, "refs/bugs/"+want.EntityId); ok {
			for _, cm := range h.Commits {
				if cm.AuthorId == authors[0].Id().String() {
					if cm.Signed {
						res.Counts["signed_commits"]++
					} else {
						res.Counts["unsigned_commits_of_keyed_author"]++
					}
				}
			}
		}
	}
	id := entity.Id(want.EntityId)

	// ---- bug.ReadAll
	found := false
	for se := range bug.ReadAll(r0.Repo) {
		if se.Err != nil {
			x.find("readall-fails:"+c04ErrClass(se.Err), "bug.ReadAll fails on committed data: "+se.Err.Error())
			break
		}
		if se.Entity.Id() == id {
			found = true
			x.compareEntity("readall", se.Entity, want, true)
		}
	}
	if !found {
		x.find("readall-misses-entity", "bug.ReadAll does not return the committed entity")
	}

	// ---- cache: Resolve + Snapshot
	x.checkCache("cache", r0.Repo, want)

	// ---- blobs and author identities locally
	x.checkBlobs("local", r0.Repo, want.Recs)
	x.checkIdentities("local", r0.Repo)

	// ---- second replica after push + pull
	if err := r0.Push("origin"); err != nil {
		res.HarnessError = "push: " + err.Error()
		return res
	}
	ml := r1.Pull("origin")
	if ml.Err != nil {
		res.HarnessError = "pull: " + ml.Err.Error()
		return res
	}
	for _, m := range ml.Bugs {
		if m.Status != entity.MergeStatusNew || m.Err != nil {
			x.find("pull-does-not-accept-committed-data:"+statusName(m.Status)+":"+errKey(m.Reason+fmt.Sprint(m.Err)), fmt.Sprintf("second replica: merge status %s reason %q err %v", statusName(m.Status), m.Reason, m.Err))
		}
	}
	rb1, err := c04ReadBug(r1.Repo, id)
	if err != nil {
		x.find("unreadable-on-second-replica:"+c04ErrClass(err), "bug.Read on the replica that pulled: "+err.Error())
		return res
	}
	x.compareEntity("replica", rb1, want, true)
	x.checkRaw("replica", r1.Repo, want, true)
	x.checkBlobs("replica", r1.Repo, want.Recs)
	x.checkIdentities("replica", r1.Repo)
	for se := range bug.ReadAll(r1.Repo) {
		if se.Err != nil {
			x.find("readall-fails-on-replica:"+c04ErrClass(se.Err), se.Err.Error())
			break
		}
		if se.Entity.Id() == id {
			x.compareEntity("replica-readall", se.Entity, want, true)
		}
	}
	x.checkCache("replica-cache", r1.Repo, want)

	// ---- concurrent edit on both sides, then merge: ids and payloads must survive
	groups := [][]*c04Rec{want.Recs}
	if c.Merge {
		if mine, peers := x.mergeEpilogue(w, r0, r1, b, authors, want); mine != nil {
			groups = [][]*c04Rec{append(append([]*c04Rec{}, want.Recs...), mine), {peers}}
		}
		if res.HarnessError != "" {
			return res
		}
	}

	// ---- git gc --prune=now in the second replica
	if c.GC {
		before, err := c04ReadBug(r1.Repo, id)
		if err != nil {
			x.find("unreadable-on-second-replica:"+c04ErrClass(err), err.Error())
			return res
		}
		beforeJSON := world.JSON(world.RenderOps(before))
		_ = r1.Repo.Close()
		cmd := exec.Command("git", "gc", "--prune=now", "--quiet")
		cmd.Dir = r1.Dir
		cmd.Env = append(os.Environ(), "GIT_TERMINAL_PROMPT=0")
		if out, err := cmd.CombinedOutput(); err != nil {
			res.HarnessError = fmt.Sprintf("git gc: %v: %s", err, out)
			return res
		}
		nr, err := world.OpenRepo(r1.Dir, r1.KR, bug.ClockLoader)
		if err != nil {
			x.find("repository-unopenable-after-gc:"+c04ErrClass(err), err.Error())
			return res
		}
		r1.Repo, r1.Tested = nr.Repo, nr.Tested
		x.count("gc_runs", 1)
		after, err := c04ReadBug(r1.Repo, id)
		if err != nil {
			x.find("unreadable-after-gc:"+c04ErrClass(err), "bug.Read after git gc --prune=now: "+err.Error())
			return res
		}
		if got := world.JSON(world.RenderOps(after)); got != beforeJSON {
			x.find("readback-differs-after-gc", c04FirstDiff(beforeJSON, got))
		}
		// operations of the two concurrent writers have no prescribed relative order: one group per writer
		for _, group := range groups {
			x.compareEntity("replica-gc", after, &c04Expect{EntityId: want.EntityId, Recs: group}, false)
			x.checkBlobs("replica-gc", r1.Repo, group)
		}
	}

	// ---- the in-memory backend (local only): the same sequence written and read there
	if c.Mock && c.Mode != "keyed-noprivate" {
		mock := repository.NewMockRepo()
		mx := &c04Exec{c: c, res: &res, backend: "mock", now: 1_700_000_000}
		mauthors, err := mx.makeAuthors(mock, mock.Keyring())
		if err != nil {
			res.HarnessError = "mock authors: " + err.Error()
			return res
		}
		mwant, _ := mx.writeAndCheck(mock, mauthors)
		if mwant != nil && !mx.aborted {
			mid := entity.Id(mwant.EntityId)
			for se := range bug.ReadAll(mock) {
				if se.Err != nil {
					mx.find("readall-fails:"+c04ErrClass(se.Err), se.Err.Error())
					break
				}
				if se.Entity.Id() == mid {
					mx.compareEntity("mock-readall", se.Entity, mwant, true)
				}
			}
			mx.checkBlobs("mock", mock, mwant.Recs)
			mx.checkIdentities("mock", mock)
			res.Counts["mock_entities"]++
		}
	}
	return res
}

func c04KindName(t int) string {
	switch dag.OperationType(t) {
	case bug.CreateOp:
		return "create"
	case bug.SetTitleOp:
		return "title"
	case bug.AddCommentOp:
		return "comment"
	case bug.SetStatusOp:
		return "status"
	case bug.LabelChangeOp:
		return "labels"
	case bug.EditCommentOp:
		return "edit"
	case bug.NoOpOp:
		return "noop"
	case bug.SetMetadataOp:
		return "setmeta"
	}
	return fmt.Sprint(t)
}

// checkCache reads the entity through cache.RepoCache (Resolve + Snapshot).
func (x *c04Exec) checkCache(path string, repo repository.ClockedRepo, want *c04Expect) {
	rc, err := cache.NewRepoCacheNoEvents(repo)
	if err != nil {
		x.find("cache-build-fails:"+c04ErrClass(err), path+": building the cache over committed data fails: "+err.Error())
		return
	}
	defer rc.Close()
	bc, err := rc.Bugs().Resolve(entity.Id(want.EntityId))
	if err != nil {
		x.find("cache-resolve-fails:"+c04ErrClass(err), path+": "+err.Error())
		return
	}
	x.count("readpath/"+path, 1)
	if bc.Id().String() != want.EntityId {
		x.find("entity-id-changed:path="+path, fmt.Sprintf("%s: id %s", path, bc.Id()))
	}
	if err := bc.Validate(); err != nil {
		x.find("validate-fails-on-reader:path="+path+":"+c04ErrClass(err), err.Error())
	}
	if uint64(bc.CreateLamportTime()) != want.Create || uint64(bc.EditLamportTime()) != want.Edit {
		x.find("lamport-times-differ:path="+path, fmt.Sprintf("%s: create/edit %d/%d, writer had %d/%d", path, bc.CreateLamportTime(), bc.EditLamportTime(), want.Create, want.Edit))
	}
	snap := bc.Snapshot()
	if got := world.JSON(world.RenderSnapshot(snap)); want.Snapshot != "" && got != want.Snapshot {
		x.find("snapshot-differs:path="+path, path+": "+c04FirstDiff(want.Snapshot, got))
	}
	if len(snap.Operations) != len(want.Recs) {
		x.find("op-count-differs:path="+path, fmt.Sprintf("%s: %d operations in the snapshot, %d committed", path, len(snap.Operations), len(want.Recs)))
		return
	}
	for i, o := range snap.Operations {
		rec := want.Recs[i]
		raw, _ := json.Marshal(o)
		if o.Id().String() != rec.Id || string(raw) != rec.JSON || o.Author().Id().String() != rec.Author {
			x.find("op-payload-differs:path="+path+":kind="+rec.Kind+":classes="+strings.Join(rec.Classes, ","), fmt.Sprintf("%s: operation %d (%s): %s", path, i, rec.Kind, c04FirstDiff(rec.JSON, string(raw))))
		}
	}
}

// mergeEpilogue edits the entity concurrently on both replicas and merges; returns the additional records.
func (x *c04Exec) mergeEpilogue(w *world.World, r0, r1 *world.Replica, b *bug.Bug, authors []identity.Interface, want *c04Expect) (mine, peers *c04Rec) {
	id := entity.Id(want.EntityId)
	peer, err := r1.NewAuthor("peer")
	if err != nil {
		x.res.HarnessError = "peer author: " + err.Error()
		return nil, nil
	}
	b1, err := c04ReadBug(r1.Repo, id)
	if err != nil {
		return nil, nil
	}
	x1 := &c04Exec{c: x.c, res: x.res, backend: "gogit", now: x.now + 1000}
	_, rec1, err := x1.apply(r1.Repo, b1, []identity.Interface{peer}, c04Op{Kind: "comment", Text: c04Text{Class: "mixed", Salt: int64(len(want.Recs))}, Files: []c04Text{{Class: "emoji", Salt: 3}}}, want.Recs)
	if err != nil {
		x.res.HarnessError = "epilogue comment: " + err.Error()
		return nil, nil
	}
	if err := b1.Commit(r1.Repo); err != nil {
		x.res.HarnessError = "epilogue commit r1: " + err.Error()
		return nil, nil
	}
	// the writer continues on its side: use a non-keyed author when there is one (so that this part does not
	// depend on the signing scenario), else author 0
	wa := authors[len(authors)-1]
	b0, err := c04ReadBug(r0.Repo, id)
	if err != nil {
		x.res.HarnessError = "epilogue read r0: " + err.Error()
		return nil, nil
	}
	_, rec0, err := x.apply(r0.Repo, b0, []identity.Interface{wa}, c04Op{Kind: "comment", Text: c04Text{Class: "trn", Salt: 9}}, want.Recs)
	if err != nil {
		x.res.HarnessError = "epilogue comment r0: " + err.Error()
		return nil, nil
	}
	if err := b0.Commit(r0.Repo); err != nil {
		x.res.HarnessError = "epilogue commit r0: " + err.Error()
		return nil, nil
	}
	if err := r0.Push("origin"); err != nil {
		x.res.HarnessError = "epilogue push: " + err.Error()
		return nil, nil
	}
	ml := r1.Pull("origin")
	if ml.Err != nil {
		x.res.HarnessError = "epilogue pull: " + ml.Err.Error()
		return nil, nil
	}
	merged := false
	for _, m := range ml.Bugs {
		if m.Id == id && m.Status == entity.MergeStatusUpdated {
			merged = true
		}
	}
	if !merged {
		// C02's business; here it only means the merged state cannot be observed
		x.count("epilogue_merge_not_performed", 1)
		return nil, nil
	}
	x.count("merges", 1)
	rb, err := c04ReadBug(r1.Repo, id)
	if err != nil {
		x.find("unreadable-after-merge:"+c04ErrClass(err), "bug.Read after merging concurrent edits: "+err.Error())
		return nil, nil
	}
	exp := &c04Expect{EntityId: want.EntityId, Recs: append(append([]*c04Rec{}, want.Recs...), rec0)}
	x.compareEntity("merged", rb, exp, false)
	x.compareEntity("merged", rb, &c04Expect{EntityId: want.EntityId, Recs: []*c04Rec{rec1}}, false)
	x.checkRaw("merged", r1.Repo, exp, false)
	if n := len(rb.Operations()); n != len(want.Recs)+2 {
		x.find("op-count-differs:path=merged", fmt.Sprintf("%d operations after the merge, expected %d", n, len(want.Recs)+2))
	}
	// and back on the writer (fast-forward)
	if err := r1.Push("origin"); err != nil {
		x.res.HarnessError = "epilogue push r1: " + err.Error()
		return rec0, rec1
	}
	if ml := r0.Pull("origin"); ml.Err != nil {
		x.res.HarnessError = "epilogue pull r0: " + ml.Err.Error()
		return rec0, rec1
	}
	rb0, err := c04ReadBug(r0.Repo, id)
	if err != nil {
		x.find("unreadable-after-merge:"+c04ErrClass(err), "bug.Read on the writer after pulling the merge: "+err.Error())
		return rec0, rec1
	}
	x.compareEntity("merged-back", rb0, exp, false)
	if !reflect.DeepEqual(world.OpIds(rb0), world.OpIds(rb)) {
		x.count("merged_order_differs_between_replicas(C01)", 1)
	}
	return rec0, rec1
}

// ---- parent ---------------------------------------------------------------------------------

func init() {
	registerChild("c04", func(args []string) int { return serveBatch(args, runC04Case) })
	register("C04", runC04)
}

func runC04(tier, replay string) int {
	r := mon.NewRun("C04", "exploration", tier)
	var cases []C04Case
	if replay != "" {
		var rep struct {
			Case C04Case `json:"case"`
		}
		data, err := os.ReadFile(replay)
		if err == nil {
			err = json.Unmarshal(data, &rep)
		}
		if err != nil {
			fmt.Println("cannot read replay:", err)
			return 2
		}
		cases = []C04Case{rep.Case}
	} else {
		cases = c04Cases(r)
	}
	outs := runBatches[C04Case, C04Result]("", "c04", cases, r.Pick(5, 20), 60*time.Second, nil)
	kindsAll := map[string]bool{}
	for i, oc := range outs {
		c := cases[i]
		if oc.Crashed {
			r.Case("crash", false)
			r.Violation("crash:"+oc.Site, "process died while writing/reading entity "+c.Name+" (mode "+c.Mode+"):\n"+oc.Excerpt, c)
			continue
		}
		if oc.TimedOut || oc.Result == nil {
			r.Case("timeout", false)
			r.Inconclusive("case " + c.Name + " did not finish: " + oc.Site)
			continue
		}
		res := oc.Result
		if res.HarnessError != "" {
			r.Case("harness-error", false)
			r.Inconclusive("case " + c.Name + ": " + res.HarnessError)
			continue
		}
		for k, v := range res.Counts {
			r.Count(k, v)
		}
		for _, s := range res.Seen {
			p := strings.SplitN(s, "|", 2)
			r.Seen(p[0], p[1])
		}
		if c.Mode == "diag-invalid-utf8" {
			continue
		}
		nontrivial := len(res.Kinds) >= 3 && res.Commits >= 2
		classes := res.Classes
		sig := fmt.Sprintf("mode=%s kinds=%s packs=%d authors=%d files=%v classes=%s", c.Mode, strings.Join(res.Kinds, "+"), res.Packs, c.Authors, res.HasFiles, strings.Join(classes, "+"))
		r.Case(sig, nontrivial)
		r.Count("entities_committed", b2i(res.Ops > 0))
		r.Count("ops_recorded", res.Ops)
		r.Count("commits", res.Commits)
		r.Count("packs", res.Packs)
		if res.MaxMeta >= 20 {
			r.Count("ops_with_20_to_40_metadata_keys", 1)
		}
		for _, k := range res.Kinds {
			kindsAll[k] = true
			r.Seen("op_kinds", k)
		}
		for _, cl := range res.Classes {
			r.Seen("text_classes", cl)
		}
		if res.Aborted != "" {
			r.Seen("early_stops", strings.SplitN(res.Aborted, ":", 2)[0])
		}
		if replay != "" {
			fmt.Printf("replay %s: %s\n", c.Name, mon.JSON(res))
		}
		for _, f := range res.Findings {
			p := strings.SplitN(f, "|", 2)
			r.Violation(p[0], p[1]+" [case "+c.Name+"]", c)
		}
		if i < 2 || strings.HasPrefix(c.Name, "targeted") {
			r.Sample(map[string]any{"case": c.Name, "mode": c.Mode, "shape": sig, "ops": res.Ops, "commits": res.Commits, "packs": res.Packs})
		}
	}
	kl := world.SortedKeys(kindsAll)
	sort.Strings(kl)
	r.Extra("all_8_kinds_seen", len(kl) == 8)
	min := 25
	if replay != "" {
		min = 0
	}
	return r.Finish("seeded generator over all 8 operation kinds with adversarial valid values (unicode classes, whitespace, \\t\\r\\n, 200 kB messages, empty fields, 0..40 metadata keys, file lists, 1..3 interleaved authors, random commit chunking, reload-and-continue), each entity written through bug.Create/AddComment/…/Commit and read back through bug.Read after every commit, then bug.ReadAll, cache Resolve+Snapshot, a second replica after push+pull (Read, ReadAll, cache, blobs), after a concurrent edit + merge, after git gc --prune=now there, and on the in-memory backend; gitraw recomputes entity/op ids from the stored bytes and compares stored fields with the API inputs; non-trivial = >=3 operation kinds and >=2 commits; distinct = distinct (mode, kinds, #packs, #authors, has-files, text classes)",
		min, []string{
			"valid value = whatever the editing API (bug.Create/AddComment/… then Commit) accepts without error; refused values are skipped and counted",
			"strings that are not valid UTF-8 are outside 'unicode preserved' and only recorded as a diagnostic",
			"the keyed-author scenarios place the private key in the repository keyring the way identity.Key.loadPrivate expects it",
		})
}

func b2i(b bool) int {
	if b {
		return 1
	}
	return 0
}
