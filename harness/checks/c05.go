package checks

// C05 — logical clocks only move forward and dominate everything seen.
//
// A decorator around repository.ClockedRepo (c05Repo) records what git-bug does with the
// clocks and which Lamport times it writes into commits (and can make one storage call fail: c05_retry.go); the workload driver adds
// API-boundary events (an entity was read / merged successfully, the repository was
// re-opened, clock files were deleted). An offline checker (c05CheckLog) then replays the
// event log against the invariants of the property.

import (
	"encoding/json"
	"fmt"
	"math/rand"
	"os"
	"os/exec"
	"path/filepath"
	"regexp"
	"sort"
	"strconv"
	"strings"
	"sync"
	"time"

	"github.com/ProtonMail/go-crypto/openpgp"

	"github.com/MichaelMure/git-bug/entities/bug"
	"github.com/MichaelMure/git-bug/entities/identity"
	"github.com/MichaelMure/git-bug/entity"
	"github.com/MichaelMure/git-bug/repository"
	"github.com/MichaelMure/git-bug/util/lamport"

	"verif/harness/gitraw"
	"verif/harness/mon"
	"verif/harness/world"
)

// ---- event log -------------------------------------------------------------------------

type c05Event struct {
	Step   int               `json:"step"`
	Kind   string            `json:"k"` // wrote|commit|seen|inc|wit|reading|reopen|deleted
	NS     string            `json:"ns,omitempty"`
	T      uint64            `json:"t,omitempty"`      // wrote/commit: edit time; inc: returned value; wit: witnessed value
	Anc    uint64            `json:"anc,omitempty"`    // commit: largest edit time among the ancestors of the written commit
	Origin string            `json:"origin,omitempty"` // seen: read|readall|merged ; reading: mem|file
	Times  []uint64          `json:"times,omitempty"`  // seen: edit times of the entity's commits
	Clock  string            `json:"clock,omitempty"`  // inc|wit
	Values map[string]uint64 `json:"values,omitempty"` // reading
	Gone   []string          `json:"gone,omitempty"`   // deleted: names of the deleted clock files
	Stored []uint64          `json:"stored,omitempty"` // deleted: max (edit, create) over the stored entities at that moment
	Refs   int               `json:"refs,omitempty"`   // deleted: number of stored entities (bug refs) at that moment
	Ctx    string            `json:"ctx,omitempty"`    // wrote/commit: written while retrying a commit whose first attempt failed; fault: the failed call
}

type c05Log struct {
	mu     sync.Mutex
	step   int
	events []c05Event
}

func (l *c05Log) add(e c05Event) {
	l.mu.Lock()
	e.Step = l.step
	l.events = append(l.events, e)
	l.mu.Unlock()
}

// c05Repo is the decorator: it embeds the real repository and intercepts tree/commit writes and clock calls.
type c05Repo struct {
	repository.TestedRepo
	log    *c05Log
	mu     sync.Mutex
	trees  map[repository.Hash]uint64 // tree hash -> edit time found in its entry names
	ancMax map[string]uint64          // commit hash -> max edit time over the commit and its ancestors
	// one-shot fault (c05_retry.go): the (faultSkip+1)-th call of kind faultCall fails, then the switch is off again
	faultCall  string // data|tree|commit|ref ; "" = off
	faultSkip  int
	faultFired bool
	ctx        string // tag put on the wrote/commit events (a retry after a failed write)
}

var _ repository.ClockedRepo = &c05Repo{}

func newC05Repo(inner repository.TestedRepo, log *c05Log) *c05Repo {
	return &c05Repo{TestedRepo: inner, log: log, trees: map[repository.Hash]uint64{}, ancMax: map[string]uint64{}}
}

func (d *c05Repo) StoreTree(entries []repository.TreeEntry) (repository.Hash, error) {
	if err := d.fault("tree"); err != nil {
		return "", err
	}
	h, err := d.TestedRepo.StoreTree(entries)
	if err != nil {
		return h, err
	}
	for _, e := range entries {
		if strings.HasPrefix(e.Name, "edit-clock-") {
			if v, perr := strconv.ParseUint(strings.TrimPrefix(e.Name, "edit-clock-"), 10, 64); perr == nil {
				// only bugs are written in these workloads. The time counts as written once the commit holding the
				// tree is stored (committed): a tree whose commit could not be written is not a written commit.
				d.mu.Lock()
				d.trees[h] = v
				d.mu.Unlock()
			}
		}
	}
	return h, nil
}

// maxOver returns the largest edit time stored in the commit and its ancestors (read through the
// storage primitives of the real repository).
func (d *c05Repo) maxOver(hash string) uint64 {
	d.mu.Lock()
	if v, ok := d.ancMax[hash]; ok {
		d.mu.Unlock()
		return v
	}
	d.mu.Unlock()
	c, err := gitraw.ReadCommit(d.TestedRepo, hash)
	if err != nil {
		return 0
	}
	m := c.EditTime
	for _, p := range c.Parents {
		if v := d.maxOver(p); v > m {
			m = v
		}
	}
	d.mu.Lock()
	d.ancMax[hash] = m
	d.mu.Unlock()
	return m
}

func (d *c05Repo) committed(tree repository.Hash, parents []repository.Hash) {
	d.mu.Lock()
	t, ok := d.trees[tree]
	d.mu.Unlock()
	if !ok {
		return
	}
	var anc uint64
	for _, p := range parents {
		if v := d.maxOver(string(p)); v > anc {
			anc = v
		}
	}
	d.mu.Lock()
	ctx := d.ctx
	d.mu.Unlock()
	d.log.add(c05Event{Kind: "wrote", NS: "bugs", T: t, Ctx: ctx})
	d.log.add(c05Event{Kind: "commit", NS: "bugs", T: t, Anc: anc, Origin: fmt.Sprintf("parents=%d", len(parents)), Ctx: ctx})
}

func (d *c05Repo) StoreCommit(tree repository.Hash, parents ...repository.Hash) (repository.Hash, error) {
	if err := d.fault("commit"); err != nil {
		return "", err
	}
	h, err := d.TestedRepo.StoreCommit(tree, parents...)
	if err == nil {
		d.committed(tree, parents)
	}
	return h, err
}

func (d *c05Repo) StoreSignedCommit(tree repository.Hash, key *openpgp.Entity, parents ...repository.Hash) (repository.Hash, error) {
	if err := d.fault("commit"); err != nil {
		return "", err
	}
	h, err := d.TestedRepo.StoreSignedCommit(tree, key, parents...)
	if err == nil {
		d.committed(tree, parents)
	}
	return h, err
}

func (d *c05Repo) Increment(name string) (lamport.Time, error) {
	v, err := d.TestedRepo.Increment(name)
	if err == nil {
		d.log.add(c05Event{Kind: "inc", Clock: name, T: uint64(v)})
	}
	return v, err
}

func (d *c05Repo) Witness(name string, t lamport.Time) error {
	err := d.TestedRepo.Witness(name, t)
	if err == nil {
		d.log.add(c05Event{Kind: "wit", Clock: name, T: uint64(t)})
	}
	return err
}

// ---- offline checker ---------------------------------------------------------------------------

type c05Finding struct {
	Key  string
	What string
	At   int // index of the event
}

func c05ClockClass(name string) string {
	switch name {
	case "bugs-edit", "bugs-create":
		return name
	}
	return "other"
}

// c05CheckLog replays the event log against the invariants.
func c05CheckLog(events []c05Event, backend string) []c05Finding {
	var out []c05Finding
	bad := func(i int, key, what string) {
		out = append(out, c05Finding{Key: key + ":backend=" + backend, What: fmt.Sprintf("event %d (step %d): %s", i, events[i].Step, what), At: i})
	}
	origins := []string{"written", "read", "readall", "merged", "rebuilt"}
	maxBy := map[string]uint64{} // running max of the edit times of namespace "bugs", by how they became known
	floor := map[string]map[string]uint64{"mem": {}, "file": {}}
	pendingRebuild := map[string]map[string]bool{"mem": {}, "file": {}}
	reopenedSince := map[string]bool{} // per source: a re-open happened since the last reading
	rebuildRefs := 0                   // number of stored entities at the last deletion of clock files
	for i, e := range events {
		switch e.Kind {
		case "wrote":
			for _, o := range origins {
				if m, ok := maxBy[o]; ok && e.T <= m {
					key, how := "edit-time-not-above-"+o, ""
					if e.Ctx != "" {
						key += ":" + e.Ctx
						how = " (" + e.Ctx + ": the first attempt to commit these operations failed on an injected storage error, the same in-memory entity was committed again later)"
					}
					bad(i, key, fmt.Sprintf("a commit was written with edit time %d although this repository had already %s an edit time of %d in the same namespace%s", e.T, c05Verb(o), m, how))
					break
				}
			}
			if e.T > maxBy["written"] {
				maxBy["written"] = e.T
			}
		case "commit":
			if e.T <= e.Anc {
				key := "edit-time-not-above-ancestors"
				if e.Ctx != "" {
					key += ":" + e.Ctx
				}
				bad(i, key, fmt.Sprintf("a commit with edit time %d was written on top of ancestors with edit time up to %d (%s)", e.T, e.Anc, e.Origin))
			}
		case "seen":
			for _, t := range e.Times {
				if t > maxBy[e.Origin] {
					maxBy[e.Origin] = t
				}
			}
		case "inc":
			if f, ok := floor["mem"][e.Clock]; ok && e.T <= f {
				bad(i, "increment-not-above-clock:"+c05ClockClass(e.Clock), fmt.Sprintf("Increment(%s) returned %d, the clock had already been observed at %d", e.Clock, e.T, f))
			}
			if e.T > floor["mem"][e.Clock] {
				floor["mem"][e.Clock] = e.T
			}
		case "wit":
			if e.T > floor["mem"][e.Clock] {
				floor["mem"][e.Clock] = e.T
			}
		case "reopen":
			reopenedSince["mem"], reopenedSince["file"] = true, true
		case "deleted":
			rebuildRefs = e.Refs
			for _, name := range e.Gone {
				delete(floor["mem"], name)
				delete(floor["file"], name)
				switch name {
				case "bugs-edit":
					floor["mem"][name], floor["file"][name] = e.Stored[0], e.Stored[0]
					// the running max restarts from what is stored
					maxBy = map[string]uint64{"rebuilt": e.Stored[0]}
					pendingRebuild["mem"][name], pendingRebuild["file"][name] = true, true
				case "bugs-create":
					floor["mem"][name], floor["file"][name] = e.Stored[1], e.Stored[1]
					pendingRebuild["mem"][name], pendingRebuild["file"][name] = true, true
				}
			}
		case "reading":
			src := e.Origin
			for name, f := range floor[src] {
				v, present := e.Values[name]
				if f == 0 {
					continue
				}
				if !present || v < f {
					switch {
					case pendingRebuild[src][name]:
						key, many := "rebuilt-clock-below-stored-max:"+name+":"+src, ""
						if rebuildRefs >= 8 {
							// the rebuild went over many entities (c05_many.go): a class of its own (loaders that split, batch or sample the refs)
							key += ":many-entities"
							many = fmt.Sprintf(" (%d entities stored)", rebuildRefs)
						}
						bad(i, key, fmt.Sprintf("after deleting the clock files and re-opening with the clock loaders, clock %s reads %d (present=%v) but the stored entities reach %d%s", name, v, present, f, many))
					case reopenedSince[src]:
						bad(i, "clock-decreased:"+src+":"+c05ClockClass(name)+":across-reopen", fmt.Sprintf("clock %s reads %d (present=%v) after a re-open, it was at least %d before", name, v, present, f))
					default:
						bad(i, "clock-decreased:"+src+":"+c05ClockClass(name), fmt.Sprintf("clock %s reads %d (present=%v), an earlier observation (reading, increment or witness) was %d", name, v, present, f))
					}
					// one report per decrease: continue from the observed value
					floor[src][name] = v
				}
			}
			for name, v := range e.Values {
				if v > floor[src][name] {
					floor[src][name] = v
				}
			}
			pendingRebuild[src] = map[string]bool{}
			reopenedSince[src] = false
		}
	}
	return out
}

func c05Verb(origin string) string {
	switch origin {
	case "written":
		return "written"
	case "read":
		return "read (bug.Read)"
	case "readall":
		return "read (bug.ReadAll)"
	case "merged":
		return "fetched and merged"
	case "rebuilt":
		return "rebuilt its clocks from entities holding"
	}
	return origin
}

// ---- workload --------------------------------------------------------------------------------

type C05Peer struct {
	New   int   `json:"new,omitempty"`   // bugs the second replica creates
	Edits []int `json:"edits,omitempty"` // bugs (indexes) the second replica edits
	Jump  int   `json:"jump,omitempty"`  // the second replica's edit clock is pushed forward by that much first
	// Hold: the second replica does not publish this time; its next turn starts with a pull that merges what the
	// repository under test published meanwhile (merge commits made elsewhere reach the repository under test)
	Hold bool `json:"hold,omitempty"`
}

type C05Step struct {
	Op    string   `json:"op"` // inc|witness|create|edit|read|readall|push|fetch|merge|pull|reopen|wipe|failcommit|retry|bulk|createat|editat
	Clock string   `json:"clock,omitempty"`
	Delta int      `json:"delta,omitempty"` // witness: value = current reading + delta (may be negative)
	Bug   int      `json:"bug,omitempty"`
	N     int      `json:"n,omitempty"` // create/edit: number of further operations, authors alternate (several packs)
	Peer  *C05Peer `json:"peer,omitempty"`
	Wipe  string   `json:"wipe,omitempty"` // all|edit|create|other
	// failcommit (c05_retry.go): one storage call of the commit fails; New: a new bug instead of an edit of Bug
	Fault *C05Fault `json:"fault,omitempty"`
	New   bool      `json:"new,omitempty"`
	// createat|editat (c05_many.go): position in the repository's listing of the bug refs: first|last|rank (rank = Bug mod count)
	Pos string `json:"pos,omitempty"`
}

type C05Case struct {
	Name    string    `json:"name"`
	Backend string    `json:"backend"` // gogit|mock
	Steps   []C05Step `json:"steps"`
}

type C05Result struct {
	Findings     []string       `json:"findings"` // "key|what"
	Counts       map[string]int `json:"counts"`
	Shape        string         `json:"shape"`
	Nontrivial   bool           `json:"nontrivial"`
	HarnessError string         `json:"harness_error"`
	Skipped      []string       `json:"skipped"`
	LogTail      []c05Event     `json:"log_tail,omitempty"`
	RebuildSizes []int          `json:"rebuild_sizes,omitempty"` // numbers of stored bugs (>= 8) when clock files were deleted
}

var c05Clocks = []string{"bugs-edit", "bugs-edit", "bugs-create", "verif-x"}

func c05GenCase(rng *rand.Rand, idx int, backend string, steps int) C05Case {
	c := C05Case{Name: fmt.Sprintf("%s-%d", backend, idx), Backend: backend}
	ops := []string{"inc", "witness", "create", "create", "edit", "edit", "edit", "read", "readall", "push", "fetch", "merge", "pull", "pull", "reopen", "wipe"}
	c.Steps = append(c.Steps, C05Step{Op: "create", N: rng.Intn(3)})
	for len(c.Steps) < steps {
		s := C05Step{Op: ops[rng.Intn(len(ops))], Bug: rng.Intn(16)}
		switch s.Op {
		case "inc":
			s.Clock = c05Clocks[rng.Intn(len(c05Clocks))]
		case "witness":
			s.Clock = c05Clocks[rng.Intn(len(c05Clocks))]
			s.Delta = rng.Intn(120) - 40
		case "create", "edit":
			s.N = rng.Intn(4)
		case "fetch", "pull":
			s.Peer = &C05Peer{New: rng.Intn(3), Jump: []int{0, 0, 1, 7, 60}[rng.Intn(5)]}
			for k := rng.Intn(3); k > 0; k-- {
				s.Peer.Edits = append(s.Peer.Edits, rng.Intn(16))
			}
			s.Peer.Hold = backend == "gogit" && rng.Intn(4) == 0
		case "reopen", "wipe":
			if backend == "mock" {
				continue // the in-memory implementation cannot be re-opened
			}
			s.Wipe = []string{"all", "all", "edit", "create", "other"}[rng.Intn(5)]
			if s.Op == "reopen" {
				s.Wipe = ""
			}
		}
		c.Steps = append(c.Steps, s)
	}
	return c
}

func c05Cases(r *mon.Run) []C05Case {
	n := r.Pick(80, 3000)
	steps := 30
	var out []C05Case
	for i := 0; i < n; i++ {
		backend := "gogit"
		if i%4 == 3 {
			backend = "mock"
		}
		out = append(out, c05GenCase(mon.Rng(r.Seed, "c05", i), i, backend, steps))
	}
	// targeted: see a far-ahead remote, lose the clocks, write
	out = append(out, C05Case{Name: "targeted-merge-wipe-write", Backend: "gogit", Steps: []C05Step{
		{Op: "create", N: 2}, {Op: "push"},
		{Op: "pull", Peer: &C05Peer{New: 2, Edits: []int{0}, Jump: 60}},
		{Op: "edit", Bug: 0, N: 2}, {Op: "wipe", Wipe: "all"}, {Op: "create", N: 1}, {Op: "edit", Bug: 1, N: 1},
		{Op: "reopen"}, {Op: "inc", Clock: "bugs-edit"}, {Op: "wipe", Wipe: "edit"}, {Op: "edit", Bug: 2, N: 3}, {Op: "readall"},
		{Op: "fetch", Peer: &C05Peer{Edits: []int{0, 1}, Jump: 7}}, {Op: "edit", Bug: 0, N: 1}, {Op: "merge"}, {Op: "edit", Bug: 0, N: 1},
		{Op: "wipe", Wipe: "create"}, {Op: "create"}, {Op: "wipe", Wipe: "all"}, {Op: "read", Bug: 0}, {Op: "create"},
	}})
	// a merge commit made by the second replica (whose clock is ahead) reaches the repository under test, which then edits
	out = append(out, C05Case{Name: "targeted-foreign-merge-commit-then-write", Backend: "gogit", Steps: []C05Step{
		{Op: "create", N: 1}, {Op: "push"},
		{Op: "fetch", Peer: &C05Peer{Edits: []int{0}, Jump: 7, Hold: true}},
		{Op: "edit", Bug: 0, N: 1}, {Op: "push"},
		{Op: "pull", Peer: &C05Peer{}},
		{Op: "edit", Bug: 0, N: 1}, {Op: "read", Bug: 0},
		{Op: "fetch", Peer: &C05Peer{Edits: []int{0}, Jump: 60, Hold: true}},
		{Op: "edit", Bug: 0, N: 2}, {Op: "push"},
		{Op: "pull", Peer: &C05Peer{}}, {Op: "reopen"},
		{Op: "edit", Bug: 0, N: 1}, {Op: "readall"},
	}})
	// the clock is shared by all bugs: after seeing a far-ahead entity, an ordinary edit of an older bug must still read back
	for _, be := range []string{"gogit", "mock"} {
		out = append(out, C05Case{Name: "targeted-witness-far-ahead-then-edit-old-bug-" + be, Backend: be, Steps: []C05Step{
			{Op: "create", N: 1}, {Op: "witness", Clock: "bugs-edit", Delta: 2_000_000}, {Op: "create", N: 1}, {Op: "read", Bug: 1},
			{Op: "edit", Bug: 0, N: 1}, {Op: "read", Bug: 0}, {Op: "readall"},
		}})
	}
	out = append(out, C05Case{Name: "targeted-merge-far-ahead-bug-then-edit-old-bug", Backend: "gogit", Steps: []C05Step{
		{Op: "create", N: 1}, {Op: "push"},
		{Op: "pull", Peer: &C05Peer{New: 1, Jump: 3_000_000}},
		{Op: "edit", Bug: 0, N: 1}, {Op: "read", Bug: 0},
	}})
	out = append(out, C05Case{Name: "targeted-mock-merge-write", Backend: "mock", Steps: []C05Step{
		{Op: "create", N: 2}, {Op: "push"},
		{Op: "pull", Peer: &C05Peer{New: 2, Edits: []int{0}, Jump: 60}},
		{Op: "create", N: 1}, {Op: "edit", Bug: 0, N: 2}, {Op: "witness", Clock: "bugs-edit", Delta: -30}, {Op: "edit", Bug: 1, N: 1},
		{Op: "fetch", Peer: &C05Peer{Edits: []int{0, 1}, Jump: 7}}, {Op: "edit", Bug: 0, N: 1}, {Op: "merge"}, {Op: "edit", Bug: 0, N: 1}, {Op: "readall"}, {Op: "create"},
	}})
	out = append(out, c05RetryCases(r)...)
	out = append(out, c05ManyCases(r)...)
	return out
}

// c05Env is one pair (repository under test, second replica).
type c05Env struct {
	backend string
	w       *world.World
	a, b    *world.Replica // gogit
	ma, mb  repository.TestedRepo
	dec     *c05Repo
	log     *c05Log
	authors []*identity.Identity // of the repository under test
	peer    *identity.Identity
	bugs    []entity.Id
	now     int64
	res     *C05Result
	peerPub map[string]bool // mock: identities already copied
	onPeer  map[entity.Id]bool
	// bigJump: the edit clock of the repository under test was legitimately moved more than the read-time hop
	// limit (1 000 000) ahead, by a witness or by merging an entity created on a replica that is that far ahead
	bigJump bool
	// a commit failed on an injected storage error: the in-memory entity is kept and committed again by a later "retry" step
	pending      *bug.Bug
	pendingId    entity.Id
	pendingNew   bool
	pendingFault string
}

func (e *c05Env) tick() int64 { e.now++; return e.now }

func (e *c05Env) repo() repository.ClockedRepo { return e.dec }

func (e *c05Env) peerRepo() repository.ClockedRepo {
	if e.backend == "mock" {
		return e.mb
	}
	return e.b.Repo
}

func (e *c05Env) find(key, what string) {
	e.res.Findings = append(e.res.Findings, key+":backend="+e.backend+"|"+what)
}

// reading records the current clock values (memory and files).
func (e *c05Env) reading() {
	clocks, err := e.dec.AllClocks()
	if err != nil {
		e.find("allclocks-fails:"+errClass(err), "AllClocks: "+err.Error())
		return
	}
	mem := map[string]uint64{}
	for name, c := range clocks {
		mem[name] = uint64(c.Time())
	}
	e.log.add(c05Event{Kind: "reading", Origin: "mem", Values: mem})
	e.res.Counts["clock_readings"] += len(mem)
	if e.backend == "gogit" {
		files := map[string]uint64{}
		dir := filepath.Join(e.a.Dir, ".git", "git-bug", "clocks")
		entries, _ := os.ReadDir(dir)
		for _, f := range entries {
			data, err := os.ReadFile(filepath.Join(dir, f.Name()))
			if err != nil {
				continue
			}
			v, perr := strconv.ParseUint(strings.TrimSpace(string(data)), 10, 64)
			if perr != nil {
				e.find("clock-file-not-decimal", fmt.Sprintf("clock file %s holds %q", f.Name(), data))
				continue
			}
			files[f.Name()] = v
		}
		e.log.add(c05Event{Kind: "reading", Origin: "file", Values: files})
		e.res.Counts["clock_file_readings"] += len(files)
	}
}

// editTimesOf returns the edit times of all commits of a local bug (git truth).
func c05EditTimes(repo repository.RepoData, ref string) []uint64 {
	h, ok, err := gitraw.ReadRef(repo, ref)
	if !ok || err != nil {
		return nil
	}
	var out []uint64
	for _, c := range h.Commits {
		out = append(out, c.EditTime)
	}
	sort.Slice(out, func(i, j int) bool { return out[i] < out[j] })
	return out
}

func (e *c05Env) seen(origin string, id entity.Id) {
	times := c05EditTimes(e.dec.TestedRepo, "refs/bugs/"+id.String())
	e.log.add(c05Event{Kind: "seen", NS: "bugs", Origin: origin, Times: times})
	e.res.Counts["seen_"+origin]++
}

func (e *c05Env) localBug(idx int) (entity.Id, bool) {
	if len(e.bugs) == 0 {
		return "", false
	}
	// pick the first locally present bug at or after idx
	for k := 0; k < len(e.bugs); k++ {
		id := e.bugs[(idx+k)%len(e.bugs)]
		if e.pending != nil && id == e.pendingId {
			continue // the kept in-memory object is the only writer of that bug until its commit was retried
		}
		if ok, _ := e.dec.RefExist("refs/bugs/" + id.String()); ok {
			return id, true
		}
	}
	return "", false
}

// readBack checks the "can always read back what it writes" clause and returns the entity.
func (e *c05Env) readBack(id entity.Id, after string) *bug.Bug {
	b, err := world.ReadBug(e.repo(), id)
	if err != nil {
		if e.bigJump && strings.Contains(err.Error(), "jumping too far") {
			e.find("written-commit-unreadable:edit-clock-more-than-1000000-above-parent", fmt.Sprintf("bug %s cannot be read after %s by the repository that wrote it: its clock had moved more than 1 000 000 ahead (witness / merge of an entity with a far-ahead clock), the new commit sits that far above its parent and the reader refuses such a hop: %v", id.Human(), after, err))
			return nil
		}
		e.find("unreadable-after-"+after+":"+errClass(err), fmt.Sprintf("bug %s cannot be read after %s: %v", id.Human(), after, err))
		return nil
	}
	e.seen("read", id)
	return b
}

func (e *c05Env) appendOps(b *bug.Bug, n int) error {
	for i := 0; i < n; i++ {
		a := e.authors[i%len(e.authors)]
		if _, _, err := bug.AddComment(b, a, e.tick(), fmt.Sprintf("comment %d", e.now), nil, nil); err != nil {
			return err
		}
	}
	return nil
}

func (e *c05Env) skip(why string) { e.res.Skipped = append(e.res.Skipped, why) }

// peerActs lets the second replica create and edit, then publishes its state.
func (e *c05Env) peerActs(p *C05Peer) error {
	pr := e.peerRepo()
	if e.backend == "gogit" {
		// the second replica first takes what was published
		if ml := e.b.Pull("origin"); ml.Err != nil {
			return fmt.Errorf("peer pull: %w", ml.Err)
		}
		ids, _ := e.b.BugIds()
		for _, id := range ids {
			e.onPeer[id] = true
		}
	}
	if p.Jump > 0 {
		cur := uint64(0)
		if clocks, err := pr.AllClocks(); err == nil {
			if c, ok := clocks["bugs-edit"]; ok {
				cur = uint64(c.Time())
			}
		}
		if err := pr.Witness("bugs-edit", lamport.Time(cur+uint64(p.Jump))); err != nil {
			return err
		}
	}
	for i := 0; i < p.New; i++ {
		nb, _, err := bug.Create(e.peer, e.tick(), "peer bug", "from the second replica", nil, nil)
		if err != nil {
			return err
		}
		if err := nb.Commit(pr); err != nil {
			return fmt.Errorf("peer create: %w", err)
		}
		e.bugs = append(e.bugs, nb.Id())
		e.onPeer[nb.Id()] = true
		e.res.Counts["peer_creates"]++
	}
	for _, idx := range p.Edits {
		if len(e.bugs) == 0 {
			break
		}
		id := e.bugs[idx%len(e.bugs)]
		if !e.onPeer[id] || (e.pending != nil && id == e.pendingId) {
			continue
		}
		pb, err := world.ReadBug(pr, id)
		if err != nil {
			return fmt.Errorf("peer read: %w", err)
		}
		if _, _, err := bug.AddComment(pb, e.peer, e.tick(), "peer comment", nil, nil); err != nil {
			return err
		}
		if err := pb.Commit(pr); err != nil {
			return fmt.Errorf("peer edit: %w", err)
		}
		e.res.Counts["peer_edits"]++
	}
	// publish
	if p.Hold {
		e.res.Counts["peer_held_back"]++
		return nil
	}
	if e.backend == "gogit" {
		if err := e.b.Push("origin"); err != nil {
			// a non-fast-forward push is possible when both sides edited: the peer merges first
			if ml := e.b.Pull("origin"); ml.Err != nil {
				return fmt.Errorf("peer re-pull: %w", ml.Err)
			}
			if err := e.b.Push("origin"); err != nil {
				return fmt.Errorf("peer push: %w", err)
			}
		}
		return nil
	}
	return nil
}

// fetch makes the second replica's state visible as remote-tracking refs (not merged yet).
func (e *c05Env) fetch() error {
	if e.backend == "gogit" {
		return e.a.Fetch("origin")
	}
	// in-memory backend: no transport; copy object by object into refs/remotes/peer/...
	if !e.peerPub[e.peer.Id().String()] {
		if msg := transplantIdentity(e.mb, e.ma, e.peer.Id().String()); msg != "" {
			return fmt.Errorf("transplant identity: %s", msg)
		}
		e.peerPub[e.peer.Id().String()] = true
	}
	ids, err := bug.ListLocalIds(e.mb)
	if err != nil {
		return err
	}
	for _, id := range ids {
		if msg := transplant(e.mb, e.ma, "refs/bugs/"+id.String(), "refs/remotes/peer/bugs/"+id.String()); msg != "" {
			return fmt.Errorf("transplant: %s", msg)
		}
	}
	return nil
}

func (e *c05Env) remote() string {
	if e.backend == "mock" {
		return "peer"
	}
	return "origin"
}

// merge merges the remote-tracking refs; successfully merged entities count as seen.
func (e *c05Env) merge() {
	if e.backend == "gogit" {
		for res := range identity.MergeAll(e.repo(), e.remote()) {
			if res.Err != nil {
				e.skip("identity merge: " + res.Err.Error())
			}
		}
	}
	// drain the stream first: MergeAll keeps working in its own goroutine while results are consumed, and the
	// in-memory repository has no locking (reading it from here at the same time would be a harness-made race)
	var results []entity.MergeResult
	for res := range bug.MergeAll(e.repo(), world.Resolvers(e.repo()), e.remote(), e.authors[0]) {
		results = append(results, res)
	}
	for _, res := range results {
		switch res.Status {
		case entity.MergeStatusNew, entity.MergeStatusUpdated:
			e.seen("merged", res.Id)
			e.res.Counts["merge_"+statusName(res.Status)]++
			known := false
			for _, id := range e.bugs {
				if id == res.Id {
					known = true
				}
			}
			if !known {
				e.bugs = append(e.bugs, res.Id)
			}
		case entity.MergeStatusNothing:
			e.res.Counts["merge_nothing"]++
		default:
			// valid data only in these worlds: a refusal is C02's business, here the entity simply does not count as seen
			e.res.Counts["merge_refused_or_error"]++
			e.skip(fmt.Sprintf("merge %s: %s %v", statusName(res.Status), res.Reason, res.Err))
		}
	}
}

// push publishes the local state to the second replica.
func (e *c05Env) push() {
	if e.backend == "gogit" {
		if err := e.a.Push("origin"); err != nil {
			e.skip("push: " + errClass(err))
		}
		return
	}
	for _, a := range e.authors {
		if !e.peerPub[a.Id().String()] {
			if msg := transplantIdentity(e.ma, e.mb, a.Id().String()); msg != "" {
				e.skip("transplant identity: " + msg)
				return
			}
			e.peerPub[a.Id().String()] = true
		}
	}
	ids, _ := bug.ListLocalIds(e.ma)
	for _, id := range ids {
		if e.onPeer[id] {
			continue // the second replica keeps its own line of history (divergence comes from there)
		}
		if msg := transplant(e.ma, e.mb, "refs/bugs/"+id.String(), "refs/bugs/"+id.String()); msg != "" {
			e.skip("transplant: " + msg)
			return
		}
		e.onPeer[id] = true
	}
}

// storedMax returns the largest (edit, create) time over the locally stored bugs.
func (e *c05Env) storedMax() [2]uint64 {
	var out [2]uint64
	refs, _ := e.dec.ListRefs("refs/bugs/")
	for _, ref := range refs {
		h, ok, err := gitraw.ReadRef(e.dec.TestedRepo, ref)
		if !ok || err != nil {
			continue
		}
		if v := h.MaxEdit(); v > out[0] {
			out[0] = v
		}
		if v := h.MaxCreate(); v > out[1] {
			out[1] = v
		}
	}
	return out
}

func (e *c05Env) reopen(wipe string) error {
	loaders := []repository.ClockLoader{bug.ClockLoader}
	if wipe != "" {
		stored := e.storedMax()
		nrefs := 0
		if refs, err := e.dec.ListRefs("refs/bugs/"); err == nil {
			nrefs = len(refs)
		}
		_ = e.a.Repo.Close()
		dir := filepath.Join(e.a.Dir, ".git", "git-bug", "clocks")
		var gone []string
		entries, _ := os.ReadDir(dir)
		for _, f := range entries {
			del := false
			switch wipe {
			case "all":
				del = true
			case "edit":
				del = f.Name() == "bugs-edit"
			case "create":
				del = f.Name() == "bugs-create"
			case "other":
				del = f.Name() != "bugs-edit" && f.Name() != "bugs-create"
			}
			if del {
				if err := os.Remove(filepath.Join(dir, f.Name())); err != nil {
					return err
				}
				gone = append(gone, f.Name())
			}
		}
		if wipe == "all" {
			_ = os.Remove(dir)
		}
		e.log.add(c05Event{Kind: "deleted", Gone: gone, Stored: stored[:], Refs: nrefs})
		if len(gone) > 0 && nrefs >= 8 {
			e.res.Counts["clock_rebuilds_over_8_or_more_entities"]++
			e.res.RebuildSizes = append(e.res.RebuildSizes, nrefs)
		}
		e.res.Counts["clock_files_deleted"] += len(gone)
	} else {
		_ = e.a.Repo.Close()
	}
	n, err := world.OpenRepo(e.a.Dir, e.a.KR, loaders...)
	if err != nil {
		e.find("reopen-fails:"+errClass(err), "re-opening the repository with the clock loaders fails: "+err.Error())
		return err
	}
	e.a.Repo, e.a.Tested = n.Repo, n.Tested
	e.dec = newC05Repo(n.Tested, e.log)
	e.a.Repo = e.dec
	e.log.add(c05Event{Kind: "reopen"})
	return nil
}

func c05Setup(c C05Case, res *C05Result) (*c05Env, error) {
	e := &c05Env{backend: c.Backend, log: &c05Log{}, now: 1_700_000_000, res: res, peerPub: map[string]bool{}, onPeer: map[entity.Id]bool{}}
	if c.Backend == "mock" {
		e.ma, e.mb = repository.NewMockRepo(), repository.NewMockRepo()
		e.dec = newC05Repo(e.ma, e.log)
		for i := 0; i < 2; i++ {
			a, err := identity.NewIdentity(e.dec, fmt.Sprintf("a%d", i), "a@example.com")
			if err != nil {
				return nil, err
			}
			if err := a.Commit(e.dec); err != nil {
				return nil, err
			}
			e.authors = append(e.authors, a)
		}
		p, err := identity.NewIdentity(e.mb, "peer", "peer@example.com")
		if err != nil {
			return nil, err
		}
		if err := p.Commit(e.mb); err != nil {
			return nil, err
		}
		e.peer = p
		return e, nil
	}
	w, err := world.New(2)
	if err != nil {
		return nil, err
	}
	e.w, e.a, e.b = w, w.Replicas[0], w.Replicas[1]
	e.dec = newC05Repo(e.a.Tested, e.log)
	e.a.Repo = e.dec
	for i := 0; i < 2; i++ {
		a, err := e.a.NewAuthor(fmt.Sprintf("a%d", i))
		if err != nil {
			return nil, err
		}
		e.authors = append(e.authors, a)
	}
	p, err := e.b.NewAuthor("peer")
	if err != nil {
		return nil, err
	}
	e.peer = p
	return e, nil
}

func runC05Case(c C05Case) C05Result {
	res := C05Result{Counts: map[string]int{}}
	e, err := c05Setup(c, &res)
	if err != nil {
		res.HarnessError = "setup: " + err.Error()
		return res
	}
	if e.w != nil {
		defer e.w.Close()
	}
	e.reading()
	kinds := map[string]int{}
	for si, s := range c.Steps {
		e.log.mu.Lock()
		e.log.step = si
		e.log.mu.Unlock()
		done := true
		switch s.Op {
		case "inc":
			if _, err := e.repo().Increment(s.Clock); err != nil {
				e.find("increment-fails:"+errClass(err), err.Error())
			}
		case "witness":
			cur := uint64(0)
			if clocks, err := e.dec.AllClocks(); err == nil {
				if cl, ok := clocks[s.Clock]; ok {
					cur = uint64(cl.Time())
				}
			}
			v := int64(cur) + int64(s.Delta)
			if v < 0 {
				v = 0
			}
			if s.Delta >= 1_000_000 && s.Clock == "bugs-edit" {
				e.bigJump = true
			}
			if err := e.repo().Witness(s.Clock, lamport.Time(v)); err != nil {
				e.find("witness-fails:"+errClass(err), err.Error())
			}
		case "create":
			nb, _, err := bug.Create(e.authors[si%len(e.authors)], e.tick(), fmt.Sprintf("bug %d", si), "message", nil, nil)
			if err == nil {
				err = e.appendOps(nb, s.N)
			}
			if err == nil {
				err = nb.Commit(e.repo())
			}
			if err != nil {
				e.find("create-fails:"+errClass(err), err.Error())
				break
			}
			e.bugs = append(e.bugs, nb.Id())
			e.readBack(nb.Id(), "create")
		case "edit":
			id, ok := e.localBug(s.Bug)
			if !ok {
				done = false
				break
			}
			b := e.readBack(id, "earlier-steps")
			if b == nil {
				break
			}
			if err := e.appendOps(b, s.N+1); err != nil {
				res.HarnessError = err.Error()
				return res
			}
			if err := b.Commit(e.repo()); err != nil {
				e.find("commit-fails:"+errClass(err), err.Error())
				break
			}
			e.readBack(id, "edit")
		case "read":
			id, ok := e.localBug(s.Bug)
			if !ok {
				done = false
				break
			}
			e.readBack(id, "earlier-steps")
		case "readall":
			var got []entity.Id
			var rerr error
			for se := range bug.ReadAll(e.repo()) {
				if se.Err != nil {
					rerr = se.Err
					continue
				}
				got = append(got, se.Entity.Id())
			}
			if rerr != nil {
				if e.bigJump && strings.Contains(rerr.Error(), "jumping too far") {
					e.find("written-commit-unreadable:edit-clock-more-than-1000000-above-parent", "ReadAll: "+rerr.Error())
				} else {
					e.find("readall-fails:"+errClass(rerr), rerr.Error())
				}
				break
			}
			for _, id := range got {
				e.seen("readall", id)
			}
		case "push":
			e.push()
		case "fetch", "pull":
			if s.Peer != nil {
				if s.Peer.Jump >= 1_000_000 {
					e.bigJump = true
				}
				if err := e.peerActs(s.Peer); err != nil {
					e.skip("peer: " + err.Error())
				}
			}
			if err := e.fetch(); err != nil {
				e.skip("fetch: " + err.Error())
				done = false
				break
			}
			if s.Op == "pull" {
				e.merge()
			}
		case "merge":
			e.merge()
		case "reopen", "wipe":
			if c.Backend == "mock" {
				done = false
				break
			}
			wipe := s.Wipe
			if e.pending != nil && wipe != "" {
				// a pack of the kept entity may be stored without a ref (failed ref update): what a rebuild owes to it is
				// not stated, so the clock files stay while a retry is outstanding
				wipe = ""
				res.Counts["wipes_turned_into_reopen_while_retry_outstanding"]++
			}
			if err := e.reopen(wipe); err != nil {
				// nothing more can be observed
				e.reading()
				goto END
			}
		case "failcommit":
			done = e.failCommit(si, s)
		case "retry":
			done = e.retryCommit()
		case "bulk":
			if err := e.bulkCreate(s.N); err != nil {
				res.HarnessError = "bulk: " + err.Error()
				return res
			}
		case "createat":
			done = e.createAt(si, s)
		case "editat":
			done = e.editAt(s)
		default:
			res.HarnessError = "unknown step " + s.Op
			return res
		}
		if res.HarnessError != "" {
			return res
		}
		if done {
			kinds[s.Op]++
		}
		e.reading()
	}
END:
	events := e.log.events
	for _, f := range c05CheckLog(events, c.Backend) {
		lo := f.At - 6
		if lo < 0 {
			lo = 0
		}
		res.Findings = append(res.Findings, f.Key+"|"+f.What+"; events before: "+mon.JSON(events[lo:f.At+1]))
	}
	wrote, merged, reopens, wipes := 0, 0, 0, 0
	for _, ev := range events {
		res.Counts["events_"+ev.Kind]++
		switch {
		case ev.Kind == "wrote":
			wrote++
		case ev.Kind == "seen" && ev.Origin == "merged":
			merged++
		case ev.Kind == "reopen":
			reopens++
		case ev.Kind == "deleted":
			wipes++
		case ev.Kind == "commit" && ev.Origin == "parents=2":
			res.Counts["merge_commits_written"]++
		}
	}
	reopens -= wipes
	res.Nontrivial = wrote >= 3 && merged >= 1 && (c.Backend == "mock" || reopens+wipes >= 1)
	// retry sequences: at least one commit failed on an injected fault and was retried after other packs were written;
	// many-entity sequences: at least one clock rebuild went over 8 or more stored bugs
	if res.Counts["retries_after_injected_failure"] >= 1 && wrote >= 4 {
		res.Nontrivial = true
	}
	if res.Counts["clock_rebuilds_over_8_or_more_entities"] >= 1 {
		res.Nontrivial = true
	}
	bucket := func(n int) string {
		switch {
		case n == 0:
			return "0"
		case n <= 2:
			return "1-2"
		case n <= 6:
			return "3-6"
		}
		return "7+"
	}
	var parts []string
	for _, k := range world.SortedKeys(kinds) {
		parts = append(parts, k+"="+bucket(kinds[k]))
	}
	res.Shape = fmt.Sprintf("%s %s wrote=%s merged=%s mergecommits=%s wipes=%d", c.Backend, strings.Join(parts, ","), bucket(wrote), bucket(merged), bucket(res.Counts["merge_commits_written"]), wipes)
	if n := res.Counts["commits_failed_by_injected_fault"]; n > 0 {
		var calls []string
		for _, call := range []string{"data", "tree", "commit", "ref"} {
			if res.Counts["commits_failed_at_"+call] > 0 {
				calls = append(calls, call)
			}
		}
		res.Shape += " failed-at=" + strings.Join(calls, "+")
	}
	maxRebuild := 0
	for _, n := range res.RebuildSizes {
		if n > maxRebuild {
			maxRebuild = n
		}
	}
	if n := maxRebuild; n >= 8 {
		switch {
		case n < 16:
			res.Shape += " entities=8-15"
		case n < 32:
			res.Shape += " entities=16-31"
		default:
			res.Shape += " entities=32+"
		}
	}
	if len(events) > 12 {
		res.LogTail = events[len(events)-12:]
	}
	return res
}

// ---- CLI session (thorough tier) --------------------------------------------------------------

func c05Git(dir string, bin string, args ...string) (string, error) {
	cmd := exec.Command(bin, args...)
	cmd.Dir = dir
	out, err := cmd.CombinedOutput()
	return string(out), err
}

// c05CommitTimes lists commit hash -> edit time for every commit of every local bug.
func c05CommitTimes(dir string) (map[string]uint64, error) {
	g, err := repository.OpenGoGitRepo(dir, world.Namespace, nil)
	if err != nil {
		return nil, err
	}
	defer g.Close()
	out := map[string]uint64{}
	refs, err := g.ListRefs("refs/bugs/")
	if err != nil {
		return nil, err
	}
	for _, ref := range refs {
		h, ok, err := gitraw.ReadRef(g, ref)
		if !ok || err != nil {
			return nil, fmt.Errorf("gitraw %s: %v", ref, err)
		}
		for k, c := range h.Commits {
			out[k] = c.EditTime
		}
	}
	return out, nil
}

// c05CLISession drives the real binary: create a user and bugs, delete the clock files, run more commands.
func c05CLISession(r *mon.Run, variant string) {
	gb := filepath.Join(os.Getenv("VERIF_BIN"), "git-bug")
	if _, err := os.Stat(gb); err != nil {
		r.Inconclusive("CLI session: no git-bug binary in VERIF_BIN")
		return
	}
	dir := world.ScratchDir("c05cli-")
	defer os.RemoveAll(dir)
	var transcript []string
	run := func(bin string, args ...string) bool {
		out, err := c05Git(dir, bin, args...)
		transcript = append(transcript, fmt.Sprintf("$ %s %s -> %v %s", filepath.Base(bin), strings.Join(args, " "), err, strings.TrimSpace(out)))
		r.Count("cli_commands_run", 1)
		return err == nil
	}
	if !run("git", "init", "-q", ".") || !run(gb, "user", "new", "--non-interactive", "-n", "CLI User", "-e", "cli@example.com") {
		r.Inconclusive("CLI session: setup failed: " + strings.Join(transcript, " ; "))
		return
	}
	for i := 0; i < 4; i++ {
		if !run(gb, "bug", "new", "--non-interactive", "-t", fmt.Sprintf("x%d", i), "-m", "y") {
			r.Inconclusive("CLI session: bug new failed: " + strings.Join(transcript, " ; "))
			return
		}
	}
	before, err := c05CommitTimes(dir)
	if err != nil || len(before) == 0 {
		r.Inconclusive(fmt.Sprintf("CLI session: cannot decode the bugs: %v", err))
		return
	}
	// more edits on one bug, so that edit times run ahead of create times
	var first string
	if g, err := repository.OpenGoGitRepo(dir, world.Namespace, nil); err == nil {
		ids, _ := bug.ListLocalIds(g)
		if len(ids) > 0 {
			first = ids[0].String()
		}
		_ = g.Close()
	}
	for i := 0; i < 3 && first != ""; i++ {
		run(gb, "bug", "comment", "new", first[:10], "--non-interactive", "-m", fmt.Sprintf("c%d", i))
	}
	before, err = c05CommitTimes(dir)
	if err != nil {
		r.Inconclusive(fmt.Sprintf("CLI session: cannot decode the bugs: %v", err))
		return
	}
	var maxBefore uint64
	for _, t := range before {
		if t > maxBefore {
			maxBefore = t
		}
	}
	_ = os.RemoveAll(filepath.Join(dir, ".git", "git-bug", "clocks"))
	transcript = append(transcript, "$ rm -rf .git/git-bug/clocks")
	if variant == "cache-deleted-too" {
		_ = os.RemoveAll(filepath.Join(dir, ".git", "git-bug", "cache"))
		_ = os.RemoveAll(filepath.Join(dir, ".git", "git-bug", "indexes"))
		transcript = append(transcript, "$ rm -rf .git/git-bug/cache .git/git-bug/indexes")
	}
	ok := run(gb, "bug", "new", "--non-interactive", "-t", "x", "-m", "y")
	if variant == "comment-first" && first != "" {
		ok = run(gb, "bug", "comment", "new", first[:10], "--non-interactive", "-m", "after") && ok
	}
	if !ok {
		r.Inconclusive("CLI session (" + variant + "): command after the deletion failed: " + strings.Join(transcript, " ; "))
		return
	}
	after, err := c05CommitTimes(dir)
	if err != nil {
		r.Violation("cli:bugs-undecodable-after-clock-deletion:"+variant, fmt.Sprintf("%v; session: %s", err, strings.Join(transcript, " ; ")), transcript)
		return
	}
	newCommits := 0
	for h, t := range after {
		if _, old := before[h]; old {
			continue
		}
		newCommits++
		r.Count("cli_new_commits_checked", 1)
		if t <= maxBefore {
			r.Violation("cli:edit-time-not-above-earlier:clocks-deleted:"+variant,
				fmt.Sprintf("the CLI wrote a commit with edit time %d after the clock files were deleted, the repository already holds edit times up to %d; session: %s", t, maxBefore, strings.Join(transcript, " ; ")), transcript)
		}
	}
	r.Case("cli-session "+variant, newCommits > 0)
	if newCommits == 0 {
		r.Inconclusive("CLI session (" + variant + "): no new commit found")
	}
}

// ---- parent ---------------------------------------------------------------------------------

var c05HexRe = regexp.MustCompile(`[0-9a-f]{12,}`)

func init() {
	registerChild("c05", func(args []string) int { return serveBatch(args, runC05Case) })
	register("C05", runC05)
}

func runC05(tier, replay string) int {
	r := mon.NewRun("C05", "exploration", tier)
	var cases []C05Case
	if replay != "" {
		var rep struct {
			Case C05Case `json:"case"`
		}
		data, err := os.ReadFile(replay)
		if err == nil {
			err = json.Unmarshal(data, &rep)
		}
		if err != nil {
			fmt.Println("cannot read replay:", err)
			return 2
		}
		cases = []C05Case{rep.Case}
	} else {
		cases = c05Cases(r)
	}
	cliOnly := os.Getenv("VERIF_C05_CLI_ONLY") != "" // debugging aid: only the CLI session
	if cliOnly {
		cases = nil
	}
	outs := runBatches[C05Case, C05Result]("", "c05", cases, r.Pick(4, 25), 30*time.Second, nil)
	for i, oc := range outs {
		c := cases[i]
		if oc.Crashed {
			r.Case("crash", false)
			r.Violation("crash:"+oc.Site, "process died while running sequence "+c.Name+":\n"+oc.Excerpt, c)
			continue
		}
		if oc.TimedOut || oc.Result == nil {
			r.Case("timeout", false)
			r.Inconclusive("sequence " + c.Name + " did not finish: " + oc.Site)
			continue
		}
		res := oc.Result
		if res.HarnessError != "" {
			r.Case("harness-error", false)
			r.Inconclusive("sequence " + c.Name + ": " + res.HarnessError)
			continue
		}
		r.Case(res.Shape, res.Nontrivial)
		for k, v := range res.Counts {
			r.Count(k, v)
		}
		for _, n := range res.RebuildSizes {
			r.Seen("entity_counts_at_clock_rebuild", fmt.Sprintf("%02d", n))
		}
		for _, s := range res.Skipped {
			r.Seen("skipped_actions", c05HexRe.ReplaceAllString(errClass(fmt.Errorf("%s", s)), "<id>"))
		}
		if replay != "" {
			fmt.Printf("replay %s: %s\n", c.Name, mon.JSON(res))
		}
		for _, f := range res.Findings {
			p := strings.SplitN(f, "|", 2)
			r.Violation(p[0], p[1]+" [sequence "+c.Name+"]", c)
		}
		if i < 2 || strings.HasPrefix(c.Name, "targeted") {
			r.Sample(map[string]any{"sequence": c.Name, "shape": res.Shape, "counts": res.Counts, "log_tail": res.LogTail})
		}
	}
	if replay == "" && !cliOnly {
		c05ConcurrentClock(r)
		c05ConcurrentWitness(r)
		c05ClockIO(r)
	}
	if (r.Thorough() && replay == "") || cliOnly {
		for _, v := range []string{"cache-kept", "cache-deleted-too", "comment-first"} {
			c05CLISession(r, v)
		}
	}
	min := 20
	if replay != "" || cliOnly {
		min = 0
	}
	r.Extra("added_in_seeding_round_6", "persisted clock over a file system wrapper that fails the next opening for writing / the next write (c05_clockio.go): sequences of increment, witness, fault and re-load; an acknowledged value (Increment returned it, Witness(v) returned nil) must be there after a re-load, an increment must be above everything acknowledged or read; counters clock_io/*")
	return r.Finish("seeded sequences of {increment, witness(random value), create bug, edit+commit (1..4 ops, two alternating authors), read, read-all, publish, fetch (second replica creates/edits/jumps ahead first), merge, re-open, delete clock files (all / edit / create / other) + re-open with the clock loader} on an on-disk go-git repository and on the in-memory repository (no re-open); every tree/commit write and clock call is logged by a decorator around repository.ClockedRepo, successful reads/merges are logged with the edit times gitraw finds in the entity; an offline checker replays the log: written edit time > running max of written/read/merged/rebuilt, > all ancestors, clock readings (AllClocks and clock files) monotone also across re-open, rebuilt clocks >= max over stored entities; retry sequences (both backends): one storage call of a Commit (blob / tree / commit / ref update, also at the 2nd or 3rd pack of a commit) fails through a one-shot switch of the decorator, the in-memory bug is kept while other bugs are created, edited, read, merged and the repository is re-opened, then the same object is committed again: the retry's packs are judged like every written commit; many-entity sequences (on disk): 8..41 bugs, the highest creation+edit (or edit) time put on the first / last / a seed-determined rank of the repository's ref listing, clock files deleted (all / edit / create) and the repository re-opened with the clock loader, count growing across the multiples of 8; thorough adds a CLI session with the real binary; non-trivial = >=3 written commits, >=1 merged entity and (on disk) >=1 re-open, or >=1 retried commit after an injected failure with >=4 written commits, or >=1 clock rebuild over >=8 bugs; distinct = backend + bucketed step-kind counts (+ failed call kinds, + entity-count bucket)",
		min, []string{
			"only valid data circulates, witness values stay far below the 1 000 000 hop limit",
			"edit times of fetched-but-unmerged refs and of refused merges are not counted as seen",
			"after a deletion of the edit clock file the running maximum restarts from the maximum over the locally stored entities",
			"identity.ClockLoader does not exist on this tree: the repository is re-opened with []repository.ClockLoader{bug.ClockLoader}",
			"an edit time counts as written when the commit object holding it is stored (a tree or blob of a commit that failed is not a written commit)",
			"injected faults: exactly one failing storage call per failed Commit; until the retry nobody else writes the kept bug and no clock file is deleted (a pack stored without a ref is not a stored entity for the rebuild)",
		})
}
