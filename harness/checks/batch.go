package checks

import (
	"bufio"
	"encoding/json"
	"fmt"
	"os"
	"path/filepath"
	"strconv"
	"strings"
	"time"

	"verif/harness/mon"
	"verif/harness/world"
)

// Outcome is what the parent learns about one case run in a child process.
type Outcome[R any] struct {
	Result   *R
	Crashed  bool   // the child died (panic, fatal error, signal) while this case was open
	TimedOut bool   // the watchdog fired while this case was open
	Deadlock string // non-empty when the watchdog's goroutine dump shows the main goroutine parked on a lock in git-bug code
	Site     string // stable crash site (PanicSite)
	Excerpt  string // first lines of the crash / goroutine dump
}

// serveBatch is the child side: args = [casesFile, startIndex, endIndex].
func serveBatch[C any, R any](args []string, run func(C) R) int {
	if len(args) < 3 {
		fmt.Fprintln(os.Stderr, "batch child: need file start end")
		return 3
	}
	data, err := os.ReadFile(args[0])
	if err != nil {
		fmt.Fprintln(os.Stderr, err)
		return 3
	}
	var cases []C
	if err := json.Unmarshal(data, &cases); err != nil {
		fmt.Fprintln(os.Stderr, err)
		return 3
	}
	start, _ := strconv.Atoi(args[1])
	end, _ := strconv.Atoi(args[2])
	w := bufio.NewWriter(os.Stdout)
	for i := start; i < end && i < len(cases); i++ {
		fmt.Fprintf(w, "@@BEGIN %d\n", i)
		w.Flush()
		res := run(cases[i])
		b, _ := json.Marshal(res)
		fmt.Fprintf(w, "@@RESULT %d %s\n", i, b)
		w.Flush()
	}
	return 0
}

// runBatches runs cases in child processes (`vh child <childName>`), batch cases per
// process, in parallel; a dead child is attributed to the case that was open and the
// rest of its batch is resumed in a fresh process.
func runBatches[C any, R any](bin, childName string, cases []C, batch int, perCase time.Duration, env []string) []Outcome[R] {
	out := make([]Outcome[R], len(cases))
	if len(cases) == 0 {
		return out
	}
	dir := world.ScratchDir("batch-")
	defer os.RemoveAll(dir)
	file := filepath.Join(dir, "cases.json")
	data, _ := json.Marshal(cases)
	if err := os.WriteFile(file, data, 0o644); err != nil {
		panic(err)
	}
	type span struct{ s, e int }
	var spans []span
	for s := 0; s < len(cases); s += batch {
		e := s + batch
		if e > len(cases) {
			e = len(cases)
		}
		spans = append(spans, span{s, e})
	}
	parallel(len(spans), func(k int) int {
		s, e := spans[k].s, spans[k].e
		for s < e {
			wd := perCase*time.Duration(e-s) + 60*time.Second
			cr := mon.RunChild(bin, []string{"child", childName, file, strconv.Itoa(s), strconv.Itoa(e)}, env, nil, wd)
			open := -1
			last := s - 1
			sc := bufio.NewScanner(strings.NewReader(cr.Out))
			sc.Buffer(make([]byte, 1<<20), 64<<20)
			for sc.Scan() {
				line := sc.Text()
				if strings.HasPrefix(line, "@@BEGIN ") {
					open, _ = strconv.Atoi(strings.TrimPrefix(line, "@@BEGIN "))
				} else if strings.HasPrefix(line, "@@RESULT ") {
					rest := strings.TrimPrefix(line, "@@RESULT ")
					sp := strings.IndexByte(rest, ' ')
					if sp < 0 {
						continue
					}
					idx, _ := strconv.Atoi(rest[:sp])
					var r R
					if err := json.Unmarshal([]byte(rest[sp+1:]), &r); err == nil && idx >= 0 && idx < len(out) {
						out[idx].Result = &r
						last = idx
						open = -1
					}
				}
			}
			if last+1 >= e && !cr.Died() && cr.ExitCode == 0 {
				break
			}
			// the child ended early
			if open < 0 {
				open = last + 1
			}
			if open >= e {
				break
			}
			out[open].Crashed = !cr.TimedOut
			out[open].TimedOut = cr.TimedOut
			if cr.TimedOut {
				out[open].Deadlock = mon.ClassifyDump(cr.Out)
			}
			out[open].Site = mon.PanicSite(cr.Out)
			out[open].Excerpt = mon.CrashExcerpt(cr.Out)
			if cr.ExitCode == 3 || cr.ExitCode == 127 {
				// harness problem, not a crash of the system under test: do not loop
				out[open].Site = "harness-child-failed"
				out[open].Excerpt = cr.Out
				break
			}
			s = open + 1
		}
		return 0
	})
	return out
}
